(* The tie between the GENERATED translation of the deserialization side of typedpy/serialization/serialization.py
   (Gen/DeserializeSrc.v: deserialize_structure_internal, construct_fields_map, get_processed_input,
   deserialize_single_field, deserialize_array / _set, deserialize_list_like, all tied by the generated knot
   src_full_fix) and the deserializer of the C07 model (Ser/Mappers.v: deser_struct, deser_loop, processed_input,
   deser_sub_lookup, deser_value) in the MAPPER-ON configuration: a class with a rename-only mapper list, an explicit
   mapper, camel_case_convert, nested classes reached directly or through Array / Set, each level under the nested
   mapper construct_fields_map looks up for it.

   How the model's objects are seen as Python objects is fixed in the first part: a class of Ser/Mappers.v is the
   metaclass instance [menc_class c] (the encoding of Ser/MappersSrcProofs.v plus the attribute __dict__ that
   deserialize_structure_internal reads); scalar fields are Integer fields; a document [dval] is plain data; an
   aggregated mapper is the dict [enc_amap].  aggregate_deserialization_mappers is the oracle entry of that name:
   [xm_aggregate] says it is the model's [aggregate false] -- which Ser/MappersSrcProofs.v
   (src_aggregate_deserialization_mappers) proves of the generated translation of mappers.py. *)
From Coq Require Import ZArith QArith NArith String Ascii Bool Lia List.
Import ListNotations.
From TP Require Import Base.PyVal Base.PyOps Base.PyOps2 Base.PyObj Base.PyOpsFields Base.PyOpsDeserialize
     Gen.DeserializeSrc Ser.Mappers Ser.MappersSrcProofs Ser.DeserializeSrcProofs.
From TP Require Base.PyOpsVersioned Base.PyOpsDerive Base.PyEq Fields.FieldAst Fields.SetChain Ser.Json Ser.Deserialize Ser.Serialize Ser.MappersProofs Ser.MappersRoundTripProofs.
Local Open Scope Z_scope.

Notation tbl := src_class_table.

(* ------------------------------------------------------------------ how the C07 model is seen as Python objects *)

Definition int_decl : FieldAst.field := FieldAst.FNumber FieldAst.KInteger FieldAst.SAny FieldAst.no_numc.
Definition int_field : pyval := fld_py int_decl.

Definition mfield_obj (enc : classdef -> pyval) (fk : option (ckind * classdef)) : pyval :=
  match fk with
  | None => int_field
  | Some (KRef, c') => cref (enc c')
  | Some (kd, c') => coll kd (enc c')
  end.

Fixpoint menc_class (c : classdef) : pyval :=
  match c with
  | Class fields ms =>
      PStruct (s2p "StructMeta")
        [(s2p "get_all_fields_by_name()",
          PDict ((fix go (fs : list (pystr * option (ckind * classdef))) : list (pyval * pyval) :=
                    match fs with
                    | [] => []
                    | (k, None) :: t => (PStr k, int_field) :: go t
                    | (k, Some (KRef, c')) :: t => (PStr k, cref (menc_class c')) :: go t
                    | (k, Some (kd, c')) :: t => (PStr k, coll kd (menc_class c')) :: go t
                    end) fields));
         (s2p "get_aggregated_serialization_mapper()", PList (map enc_mapper ms));
         (s2p "get_aggregated_deserialization_mapper()", PList (map enc_mapper ms));
         (s2p "__dict__", PDict [])]
  end.

Definition menc_field (f : pystr * option (ckind * classdef)) : pyval * pyval :=
  (PStr (fst f), mfield_obj menc_class (snd f)).

Lemma menc_class_eq fields ms :
  menc_class (Class fields ms) =
  PStruct (s2p "StructMeta")
    [(s2p "get_all_fields_by_name()", PDict (map menc_field fields));
     (s2p "get_aggregated_serialization_mapper()", PList (map enc_mapper ms));
     (s2p "get_aggregated_deserialization_mapper()", PList (map enc_mapper ms));
     (s2p "__dict__", PDict [])].
Proof.
  cbn [menc_class]. do 4 f_equal.
  induction fields as [|[k [[[| |] c']|]] t IH]; [reflexivity| | | |]; cbn [map]; rewrite <- IH; reflexivity.
Qed.

(* documents *)
Fixpoint enc_dval (d : dval) : pyval :=
  match d with
  | DScal z => PNum (NInt z)
  | DDict kv => PDict ((fix go (l : list (pystr * dval)) : list (pyval * pyval) :=
                          match l with [] => [] | (k, x) :: t => (PStr k, enc_dval x) :: go t end) kv)
  | DList l => PList (map enc_dval l)
  end.
Definition enc_dpairs (kv : list (pystr * dval)) : list (pyval * pyval) :=
  map (fun p => (PStr (fst p), enc_dval (snd p))) kv.

Lemma enc_dval_dict kv : enc_dval (DDict kv) = PDict (enc_dpairs kv).
Proof.
  cbn [enc_dval]. f_equal. unfold enc_dpairs.
  induction kv as [|[k x] t IH]; [reflexivity|]. cbn [map fst snd]. rewrite <- IH. reflexivity.
Qed.

Lemma dict_get_dpairs kv k : dict_get (enc_dpairs kv) (PStr k) = option_map enc_dval (alist_get kv k).
Proof.
  induction kv as [|[k' x] t IH]; [reflexivity|]. cbn [enc_dpairs map fst snd dict_get alist_get py_eq].
  destruct (pystr_eqb k' k); [reflexivity|]. exact IH.
Qed.

(* the value a nested-mapper lookup hands down: mapper.get(..., mapper.get(...)) *)
Definition enc_sub (o : option mval) : pyval := match o with Some v => enc_mval v | None => PNone end.
Definition sub_is_dict (o : option mval) : bool := match o with Some (Sub _) | None => true | _ => false end.

(* the instances the constructor oracle builds: the keyword arguments, as they are *)
Definition inst_cls : pystr := s2p "instance".

(* deserialized values; an Array of structures is a list, a Set of structures a set (equal elements collapse) *)
Fixpoint enc_ival (v : ival) (fk : option (ckind * classdef)) {struct v} : pyval :=
  match v with
  | IScal z => PNum (NInt z)
  | IStruct x =>
      let fields := match fk with Some (_, c') => cfields c' | None => [] end in
      PStruct inst_cls
        ((fix go (l : list (pystr * ival)) : list (pystr * pyval) :=
            match l with
            | [] => []
            | (k, y) :: t => (k, enc_ival y (match alist_get fields k with Some fk' => fk' | None => None end)) :: go t
            end) x)
  | IList l =>
      let items := map (fun y => enc_ival y fk) l in
      match fk with
      | Some (KSet, _) => PSet false (py_dedup items)
      | _ => PList items
      end
  end.

Definition enc_attrs (c : classdef) (x : list (pystr * ival)) : list (pystr * pyval) :=
  map (fun p => (fst p, enc_ival (snd p) (match alist_get (cfields c) (fst p) with Some fk' => fk' | None => None end))) x.

Lemma enc_ival_struct x kd c : enc_ival (IStruct x) (Some (kd, c)) = PStruct inst_cls (enc_attrs c x).
Proof.
  cbn [enc_ival]. f_equal. unfold enc_attrs.
  induction x as [|[k y] t IH]; [reflexivity|]. cbn [map fst snd]. rewrite <- IH. reflexivity.
Qed.

(* ------------------------------------------------------------------ side conditions on the class and its mappers *)

(* at every class reached: field names pairwise different; a field's mapped key is not a dotted path (deep_get would
   split it; the model looks the key up as it is); the nested-mapper lookup of a nested field finds a dict or nothing
   (a str / DoNotSerialize under "<key>._mapper" is handed to aggregate_deserialization_mappers as it is by the
   source, and dropped by the model) *)
Fixpoint mapped_cov (c : classdef) (o : option amap) (camelflag : bool) {struct c} : bool :=
  match c with
  | Class fields ms =>
      keys_unique (map fst fields) &&
      match aggregate false (Class fields ms) o camelflag with
      | Ok dm =>
          (fix go (fs : list (pystr * option (ckind * classdef))) : bool :=
             match fs with
             | [] => true
             | (k, fk) :: t =>
                 let mk := match alist_get dm k with Some (Key s) => s | _ => k end in
                 ident_ok mk &&
                 match fk with
                 | None => true
                 | Some (_, c') =>
                     let sub := deser_sub_lookup dm mk k in
                     sub_is_dict sub && mapped_cov c' (sub_override_of sub) camelflag
                 end && go t
             end) fields
      | Raise _ => true
      end
  end.

Fixpoint cdepth (c : classdef) : nat :=
  match c with
  | Class fields _ =>
      S ((fix mx (fs : list (pystr * option (ckind * classdef))) : nat :=
            match fs with
            | [] => O
            | (_, None) :: t => mx t
            | (_, Some (_, c')) :: t => Nat.max (cdepth c') (mx t)
            end) fields)
  end.

Section Mapped.
  Variable re_match : N -> pystr -> bool.
  Variable e : FieldAst.env.
  Variable ens : Serialize.enums.
  Variable h : heap.
  Variable ext : extern.
  Hypothesis Hext : ext_agrees re_match e ens ext.
  Hypothesis Hext2 : ext_struct_agrees ext.

  (* ---- deserialize_single_field on the three kinds of fields of the model *)

  Lemma validate_int z : Serialize.validate_weak re_match e int_decl (PNum (NInt z)) = Ok tt.
  Proof. reflexivity. Qed.

  Lemma dsf_int (R : recs) z nm mp kuv camel :
    src_deserialize_single_field h ext R int_field (PNum (NInt z)) nm mp kuv camel (PBool false) = Ok (PNum (NInt z)).
  Proof.
    unfold int_field.
    rewrite (dsf_prim re_match e ens h ext (fun _ _ _ => Raise Unmodelled) Hext R int_decl (PNum (NInt z)) nm mp kuv camel false)
      by reflexivity.
    reflexivity.
  Qed.

  Lemma t2_absent cls attrs :
    alist_get attrs (s2p "_ty") = None ->
    (t4 <- fld_getattr_def h (PStruct cls attrs) (s2p "_ty") (PStr []) ;;
     t5 <- PyOpsDerive.py_set_display [bref (s2p "str"); bref (s2p "int"); bref (s2p "float")] ;;
     py_in_dyn t4 t5) = Ok false.
  Proof. intros Ha. cbn [fld_getattr_def]. rewrite Ha. reflexivity. Qed.

  Definition is_struct_obj (v : pyval) : bool := match v with PStruct _ _ => true | _ => false end.

  (* a ClassReference field, on a document that is a dict *)
  Lemma dsf_cref (R : recs) cobj kv nm mp kuv camel :
    is_struct_obj cobj = true ->
    src_deserialize_single_field h ext R (cref cobj) (PDict kv) nm mp kuv camel (PBool false) =
    (t <- r_deserialize_structure_internal R cobj (PDict kv) nm (PBool false) mp kuv camel (PBool false) (PBool false) ;;
     t' <- py_local t ;; Ok t').
  Proof.
    intro Hc. destruct cobj as [| | | | | | | | | |cn attrs|]; try discriminate Hc.
    unfold src_deserialize_single_field, cref. cls_eval. rewrite first_test.
    rewrite (t2_false h _ _ (PStruct cn attrs)) by reflexivity.
    cbn [py_is_none andb bind py_and py_or py_not negb cls_isinstance].
    change (fld_getattr_def h (PStruct (s2p "ClassReference") [(s2p "_ty", PStruct cn attrs)]) (s2p "_ty") PNone)
      with (@Ok pyval (PStruct cn attrs)).
    cbn [bind]. destruct (r_deserialize_structure_internal R _ _ _ _ _ _ _ _ _); reflexivity.
  Qed.

  (* an Array / Set of class references, on any document *)
  Lemma dsf_coll (R : recs) kd cobj j nm mp kuv camel :
    kd <> KRef -> py_is_none j = false ->
    src_deserialize_single_field h ext R (coll kd cobj) j nm mp kuv camel (PBool false) =
    (t <- (match kd with
           | KSet => r_deserialize_set R (coll kd cobj) j nm kuv mp camel
           | _ => r_deserialize_array R (coll kd cobj) j nm kuv mp camel
           end) ;;
     t' <- py_local t ;; Ok t').
  Proof.
    intros Hk Hn. unfold src_deserialize_single_field, coll.
    destruct kd; [contradiction| |]; cls_eval; rewrite first_test; rewrite t2_absent by reflexivity;
      rewrite Hn; cbn [andb bind py_and py_or py_not negb]; reflexivity.
  Qed.

  (* ---- deserialize_list_like over an Array / Set of class references *)
  Lemma loop1_items (R : recs) gobj name kuv mapper camel ign (W : ival -> pyval) (k : pyval -> res pyval) :
    forall (ds : list dval) (xs : list ival) i acc,
      Forall2 (fun d x => forall nm, r_deserialize_single_field R gobj (enc_dval d) nm mapper kuv camel ign = Ok (W x)) ds xs ->
      src_deserialize_list_like_loop1 h ext R name kuv mapper camel gobj ign k (enum_from i (map enc_dval ds)) (PList acc) =
      k (PList (acc ++ map W xs)).
  Proof.
    induction ds as [|d ds IH]; intros xs i acc HF; inversion HF as [|d' x ds' xs' Hd HF']; subst.
    - cbn [map enum_from src_deserialize_list_like_loop1]. rewrite app_nil_r. reflexivity.
    - cbn [map enum_from src_deserialize_list_like_loop1]. rewrite Hd.
      cbn [bind_or PyOpsDerive.py_list_append bind]. rewrite (IH xs' _ _ HF'). rewrite <- app_assoc. reflexivity.
  Qed.

  Definition kind_target (kd : ckind) : Deserialize.seqtarget := match kd with KSet => Deserialize.TSet | _ => Deserialize.TList end.

  Lemma list_like_coll (R : recs) kd cobj ds xs name kuv mapper camel (W : ival -> pyval) :
    kd <> KRef -> is_struct_obj cobj = true ->
    Forall2 (fun d x => forall nm, r_deserialize_single_field R (cref cobj) (enc_dval d) nm mapper kuv camel (PBool false) = Ok (W x)) ds xs ->
    src_deserialize_list_like h ext R (coll kd cobj) (ctype_of (kind_target kd)) (PList (map enc_dval ds)) name kuv mapper camel =
    Deserialize.build_seq (kind_target kd) (map W xs).
  Proof.
    intros Hk Hc HF. destruct cobj as [| | | | | | | | | |cn attrs|]; try discriminate Hc.
    unfold src_deserialize_list_like, coll.
    cbn [py_isinstance existsb isinstance1 orb py_not bind negb].
    assert (Hit : forall c0, fld_getattr h (PStruct c0 [(s2p "items", cref (PStruct cn attrs))]) (s2p "items") =
                             Ok (cref (PStruct cn attrs))) by reflexivity.
    rewrite Hit. cbn [bind]. unfold cref in *.
    destruct kd; [contradiction| |]; cls_eval; cbn [py_and bind]; cls_eval; cbn [bind];
      change (fld_getattr_def h (PStruct (s2p "ClassReference") [(s2p "_ty", PStruct cn attrs)]) (s2p "_ignore_none") (PBool false))
        with (@Ok pyval (PBool false));
      cbn [bind py_iter]; unfold py_enumerate;
      rewrite (loop1_items R _ name kuv mapper camel (PBool false) W _ ds xs 0 [] HF); cbn [app kind_target];
      apply call_ctype; reflexivity.
  Qed.

  Lemma enc_dval_not_none d : py_is_none (enc_dval d) = false.
  Proof. destruct d; reflexivity. Qed.

  (* ---- construct_fields_map under a resolved mapper: one field *)
  Definition fk_of (fs0 : list (pystr * option (ckind * classdef))) (k : pystr) : option (ckind * classdef) :=
    match alist_get fs0 k with Some fk => fk | None => None end.

  Notation cfm_K cobj := (fun res errs' => _ <- ext (s2p "raise_errs_if_needed") [cobj; errs'] [] ;; Ok res).

  Lemma suffix_str : s2p "._mapper" = suffix.
  Proof. reflexivity. Qed.

  Lemma sub_lookup_enc dm mk k :
    match dict_get (enc_items dm) (PStr (mk ++ suffix)) with
    | Some v => v
    | None => match dict_get (enc_items dm) (PStr (k ++ suffix)) with Some v => v | None => PNone end
    end = enc_sub (deser_sub_lookup dm mk k).
  Proof.
    unfold deser_sub_lookup. rewrite !dict_get_enc.
    destruct (alist_get dm (mk ++ suffix)); [reflexivity|]. destruct (alist_get dm (k ++ suffix)); reflexivity.
  Qed.

  Lemma mcfm_step (R Rg : recs) cobj dm doc (camelflag : bool) k fk rest acc pin mk :
    (forall a b c0 d e0, r_get_processed_input R a b c0 d e0 = src_get_processed_input h ext Rg a b c0 d e0) ->
    h (s2p "Structure") (s2p "failing_fast()") = Some (PBool true) ->
    fld_getattr_def h cobj (s2p "_constants") (PList []) = Ok (PList []) ->
    fld_getattr_def h cobj (s2p "_enable_undefined_value") (PBool false) = Ok (PBool false) ->
    processed_input dm doc k = Ok (pin, mk) ->
    ident_ok mk = true ->
    key_absent acc k = true ->
    src_construct_fields_map_loop1 h ext R (PBool false) (enc_amap dm) (PDict (enc_dpairs doc)) cobj (PBool false)
      (PBool camelflag) (PBool false) (PBool false) (cfm_K cobj)
      ((PStr k, mfield_obj menc_class fk) :: rest) (PDict acc) (PList []) =
    match pin with
    | None =>
        src_construct_fields_map_loop1 h ext R (PBool false) (enc_amap dm) (PDict (enc_dpairs doc)) cobj (PBool false)
          (PBool camelflag) (PBool false) (PBool false) (cfm_K cobj) rest (PDict acc) (PList [])
    | Some v =>
        match r_deserialize_single_field R (mfield_obj menc_class fk) (enc_dval v) (PStr k)
                (enc_sub (deser_sub_lookup dm mk k)) (PBool false) (PBool camelflag) (PBool false) with
        | Ok w =>
            src_construct_fields_map_loop1 h ext R (PBool false) (enc_amap dm) (PDict (enc_dpairs doc)) cobj (PBool false)
              (PBool camelflag) (PBool false) (PBool false) (cfm_K cobj) rest (PDict (acc ++ [(PStr k, w)])) (PList [])
        | Raise x =>
            if py_truthy (enc_dval v) || negb (is_te_ve x) then Raise x
            else src_construct_fields_map_loop1 h ext R (PBool false) (enc_amap dm) (PDict (enc_dpairs doc)) cobj (PBool false)
                   (PBool camelflag) (PBool false) (PBool false) (cfm_K cobj) rest (PDict acc) (PList [exn_val x])
        end
    end.
  Proof.
    intros HgpiR Hff Hconst Heu Hpin Hid Habs.
    cbn [src_construct_fields_map_loop1]. unfold enc_amap. rewrite meth_get2 by reflexivity. rewrite dict_get_enc.
    cbn [bind]. rewrite Hconst. cbn [bind py_in_dyn py_in_lit py_in existsb].
    cbn [py_in_dyn py_hashable']. unfold dict_has. rewrite dict_get_enc.
    unfold processed_input in Hpin.
    destruct (alist_get dm k) as [[s| |sm]|] eqn:Edm; try discriminate Hpin; cbn [option_map bind enc_mval]; inversion Hpin; subst pin mk; clear Hpin.
    - (* the field is renamed to s *)
      rewrite HgpiR.
      rewrite (gpi_key h ext Hext2 Rg k s (enc_items dm) (enc_dpairs doc) (PBool false) (PBool false) Hid)
        by (try reflexivity; rewrite dict_get_enc, Edm; reflexivity).
      cbv zeta. rewrite !dict_get_dpairs. cbn [py_truthy orb]. rewrite orb_false_r.
      destruct (alist_get doc s) as [v|] eqn:Es; cbn [option_map].
      + cbn [bind py_or]. rewrite !enc_dval_not_none. cbn [negb bind py_or py_truthy py_fstr fstr_parts]. rewrite ?enc_dval_not_none. cbn [negb bind py_or]. unfold enc_amap.
        rewrite meth_get1 by reflexivity. cbn [bind]. rewrite meth_get2 by reflexivity.
        rewrite !app_nil_r, suffix_str, sub_lookup_enc. cbn [bind].
        assert (Hco : py_is_classobj (enc_dval v) (s2p "Undefined") = Ok false) by (destruct v; reflexivity).
        rewrite Hco. cbn [py_not bind negb]. rewrite ref_getattr', Hff. cbn [bind py_and py_truthy].
        destruct (py_truthy (enc_dval v)) eqn:Htr; cbn [bind orb].
        * destruct (r_deserialize_single_field R _ _ _ _ _ _ _) as [w|x]; cbn [bind]; [|reflexivity].
          cbn [PyOpsDerive.py_setitem py_hashable' bind]. rewrite (key_absent_fresh acc k w Habs). reflexivity.
        * destruct (r_deserialize_single_field R _ _ _ _ _ _ _) as [w|x]; cbn [bind_or].
          -- cbn [PyOpsDerive.py_setitem py_hashable' bind_or]. rewrite (key_absent_fresh acc k w Habs). reflexivity.
          -- rewrite caught_te_ve. destruct (is_te_ve x); reflexivity.
      + cbn [py_is_none negb].
        destruct (alist_get doc k) as [v|] eqn:Ek; cbn [option_map].
        * cbn [bind py_or]. rewrite !enc_dval_not_none. cbn [negb bind py_or py_truthy py_fstr fstr_parts]. unfold enc_amap.
          rewrite meth_get1 by reflexivity. cbn [bind]. rewrite meth_get2 by reflexivity.
          rewrite !app_nil_r, suffix_str, sub_lookup_enc. cbn [bind].
          assert (Hco : py_is_classobj (enc_dval v) (s2p "Undefined") = Ok false) by (destruct v; reflexivity).
          rewrite Hco. cbn [py_not bind negb]. rewrite ref_getattr', Hff. cbn [bind py_and py_truthy].
          destruct (py_truthy (enc_dval v)) eqn:Htr; cbn [bind orb].
          -- destruct (r_deserialize_single_field R _ _ _ _ _ _ _) as [w|x]; cbn [bind]; [|reflexivity].
             cbn [PyOpsDerive.py_setitem py_hashable' bind]. rewrite (key_absent_fresh acc k w Habs). reflexivity.
          -- destruct (r_deserialize_single_field R _ _ _ _ _ _ _) as [w|x]; cbn [bind_or].
             ++ cbn [PyOpsDerive.py_setitem py_hashable' bind_or]. rewrite (key_absent_fresh acc k w Habs). reflexivity.
             ++ rewrite caught_te_ve. destruct (is_te_ve x); reflexivity.
        * cbn [bind py_is_none negb py_or]. rewrite Heu. cbn [bind py_truthy]. reflexivity.
    - (* no entry for the field: its own name *)
      cbn [py_in_dyn py_hashable' py_and bind py_not negb]. unfold dict_has. rewrite dict_get_dpairs, ?dict_get_enc, ?Edm.
      cbn [option_map].
      destruct (alist_get doc k) as [v|] eqn:Ek; cbn [option_map bind negb].
      + cbn [py_subscript py_dict_getitem py_hashable']. rewrite dict_get_dpairs, Ek. cbn [option_map bind py_truthy py_fstr fstr_parts].
        unfold enc_amap. rewrite meth_get1 by reflexivity. cbn [bind]. rewrite meth_get2 by reflexivity.
        rewrite !app_nil_r, suffix_str, sub_lookup_enc. cbn [bind].
        assert (Hco : py_is_classobj (enc_dval v) (s2p "Undefined") = Ok false) by (destruct v; reflexivity).
        rewrite Hco. cbn [py_not bind negb]. rewrite ref_getattr', Hff. cbn [bind py_and py_truthy].
        destruct (py_truthy (enc_dval v)) eqn:Htr; cbn [bind orb].
        * destruct (r_deserialize_single_field R _ _ _ _ _ _ _) as [w|x]; cbn [bind]; [|reflexivity].
          cbn [PyOpsDerive.py_setitem py_hashable' bind]. rewrite (key_absent_fresh acc k w Habs). reflexivity.
        * destruct (r_deserialize_single_field R _ _ _ _ _ _ _) as [w|x]; cbn [bind_or].
          -- cbn [PyOpsDerive.py_setitem py_hashable' bind_or]. rewrite (key_absent_fresh acc k w Habs). reflexivity.
          -- rewrite caught_te_ve. destruct (is_te_ve x); reflexivity.
      + cbn [py_truthy]. reflexivity.
  Qed.

  (* ---- construct_fields_map under a resolved mapper: the loop, when the model succeeds *)
  Definition enc_kwp (fs0 : list (pystr * option (ckind * classdef))) (x : list (pystr * ival)) : list (pyval * pyval) :=
    map (fun p => (PStr (fst p), enc_ival (snd p) (fk_of fs0 (fst p)))) x.

  Lemma mcfm_loop_ok (R Rg : recs) cobj dm doc (camelflag : bool) fs0
        (REC : classdef -> option amap -> list (pystr * dval) -> res (list (pystr * ival))) :
    (forall a b c0 d e0, r_get_processed_input R a b c0 d e0 = src_get_processed_input h ext Rg a b c0 d e0) ->
    h (s2p "Structure") (s2p "failing_fast()") = Some (PBool true) ->
    fld_getattr_def h cobj (s2p "_constants") (PList []) = Ok (PList []) ->
    fld_getattr_def h cobj (s2p "_enable_undefined_value") (PBool false) = Ok (PBool false) ->
    forall fs acc x,
      NoDup (map fst fs) ->
      (forall k, In k (map fst fs) -> key_absent acc k = true) ->
      (forall k fk, In (k, fk) fs -> fk_of fs0 k = fk) ->
      (forall k fk pin mk, In (k, fk) fs -> processed_input dm doc k = Ok (pin, mk) ->
         ident_ok mk = true /\
         (forall v r, pin = Some v ->
            deser_value REC fk (sub_override_of (deser_sub_lookup dm mk k)) v = Ok r ->
            r_deserialize_single_field R (mfield_obj menc_class fk) (enc_dval v) (PStr k)
              (enc_sub (deser_sub_lookup dm mk k)) (PBool false) (PBool camelflag) (PBool false) = Ok (enc_ival r fk))) ->
      deser_loop REC dm doc fs = Ok x ->
      src_construct_fields_map_loop1 h ext R (PBool false) (enc_amap dm) (PDict (enc_dpairs doc)) cobj (PBool false)
        (PBool camelflag) (PBool false) (PBool false)
        (fun res errs' => _ <- ext (s2p "raise_errs_if_needed") [cobj; errs'] [] ;; Ok res)
        (map menc_field fs) (PDict acc) (PList []) =
      Ok (PDict (acc ++ enc_kwp fs0 x)).
  Proof.
    intros HgpiR Hff Hconst Heu. destruct Hext2 as [_ Hraise].
    induction fs as [|[k fk] fs IH]; intros acc x Hnd Habs Hfk Hfs Hloop.
    - cbn [deser_loop] in Hloop. inversion Hloop; subst.
      cbn [map src_construct_fields_map_loop1]. rewrite Hraise. cbn [is_nil bind enc_kwp map]. rewrite app_nil_r. reflexivity.
    - inversion Hnd as [|k0 l0 Hnotin Hnd']; subst.
      cbn [deser_loop] in Hloop.
      destruct (processed_input dm doc k) as [[pin mk]|ex] eqn:Epin; [|discriminate Hloop]. cbn [bind] in Hloop.
      destruct (Hfs k fk pin mk (or_introl eq_refl) Epin) as [Hid Hval].
      cbn [map]. unfold menc_field at 1. cbn [fst snd].
      rewrite (mcfm_step R Rg cobj dm doc camelflag k fk (map menc_field fs) acc pin mk HgpiR Hff Hconst Heu Epin Hid
                         (Habs k (or_introl eq_refl))).
      destruct pin as [v|].
      + destruct (deser_value REC fk (sub_override_of (deser_sub_lookup dm mk k)) v) as [r|ex] eqn:Ev; [|discriminate Hloop].
        cbn [bind] in Hloop.
        destruct (deser_loop REC dm doc fs) as [rest|ex] eqn:Erest; [|discriminate Hloop]. inversion Hloop; subst x.
        rewrite (Hval v r eq_refl Ev).
        rewrite (IH (acc ++ [(PStr k, enc_ival r fk)]) rest Hnd').
        * cbn [enc_kwp map fst snd]. rewrite (Hfk k fk (or_introl eq_refl)). rewrite <- app_assoc. reflexivity.
        * intros k' Hin'. pose proof (Habs k' (or_intror Hin')) as Hk. unfold key_absent in *.
          rewrite map_app, forallb_app, Hk. cbn [map fst forallb py_eq andb].
          destruct (pystr_eqb k k') eqn:E; [|reflexivity]. apply pystr_eqb_spec in E. subst. contradiction.
        * intros k' fk' Hin'. exact (Hfk k' fk' (or_intror Hin')).
        * intros k' fk' pin' mk' Hin'. exact (Hfs k' fk' pin' mk' (or_intror Hin')).
        * reflexivity.
      + apply (IH acc x Hnd'); [| | |exact Hloop].
        * intros k' Hin'. exact (Habs k' (or_intror Hin')).
        * intros k' fk' Hin'. exact (Hfk k' fk' (or_intror Hin')).
        * intros k' fk' pin' mk' Hin'. exact (Hfs k' fk' pin' mk' (or_intror Hin')).
  Qed.

  (* ---- deserialize_structure_internal with a resolved mapper, keep_undefined off: one class level *)

  (* the two remaining untranslated callees, in the mapper-on configuration: aggregate_deserialization_mappers is the
     model's [aggregate false] (Ser/MappersSrcProofs.v: src_aggregate_deserialization_mappers); cls( **kwargs ) builds the
     instance that carries the keyword arguments (the C07 model compares the deserialized fields, nothing else) *)
  Record ext_mapped_agrees : Prop := {
    xm_aggregate : forall c sub (camelflag : bool), sub_is_dict sub = true ->
        ext (s2p "aggregate_deserialization_mappers") [menc_class c; enc_sub sub; PBool camelflag] [] =
        enc_res (aggregate false c (sub_override_of sub) camelflag);
    xm_call : forall c kw, ext call_name [menc_class c] kw = Ok (PStruct inst_cls kw) }.
  Hypothesis Hext3 : ext_mapped_agrees.
  Hypothesis Hff : h (s2p "Structure") (s2p "failing_fast()") = Some (PBool true).
  Hypothesis Hapd : exists v, h (s2p "TypedPyDefaults") (s2p "additional_properties_default") = Some v.

  Lemma mclass_attrs c :
    obj_issubclass h (menc_class c) [s2p "Versioned"] = Ok false /\
    fld_getattr_def h (menc_class c) (s2p "_ignore_none") (PBool false) = Ok (PBool false) /\
    fld_getattr h (menc_class c) (s2p "get_all_fields_by_name()") = Ok (PDict (map menc_field (cfields c))) /\
    fld_getattr h (menc_class c) (s2p "__dict__") = Ok (PDict []) /\
    fld_getattr_def h (menc_class c) (s2p "_enable_undefined_value") (PBool false) = Ok (PBool false) /\
    fld_getattr_def h (menc_class c) (s2p "_constants") (PList []) = Ok (PList []).
  Proof. destruct c as [fields ms]. rewrite menc_class_eq. repeat split; reflexivity. Qed.

  Lemma kwargs_off (R : recs) fields apd cobj : forall kv : list (pystr * dval),
    src_deserialize_structure_internal_comp_kwargs h ext R (PBool false) (PDict fields) apd cobj (enc_dpairs kv) = Ok [].
  Proof.
    unfold src_deserialize_structure_internal_comp_kwargs.
    induction kv as [|[k v] t IH]; [reflexivity|].
    cbn [enc_dpairs map fst snd filterM]. fold (enc_dpairs t). rewrite IH.
    cbn [py_in_dyn py_hashable' py_not bind py_and py_truthy]. destruct (negb (dict_has fields (PStr k))); reflexivity.
  Qed.

  Lemma fold_set_fresh : forall (kw : list (pystr * pyval)) acc,
    NoDup (map fst kw) -> (forall n, In n (map fst kw) -> key_absent acc n = true) ->
    fold_left (fun a p => dict_set a (fst p) (snd p)) (map (fun p => (PStr (fst p), snd p)) kw) acc =
    acc ++ map (fun p => (PStr (fst p), snd p)) kw.
  Proof.
    induction kw as [|[n w] t IH]; intros acc Hnd Hab; [cbn; rewrite app_nil_r; reflexivity|].
    inversion Hnd as [|n0 l0 Hnotin Hnd']; subst.
    cbn [map fold_left fst snd]. rewrite (key_absent_fresh acc n w (Hab n (or_introl eq_refl))).
    rewrite IH; [rewrite <- app_assoc; reflexivity | exact Hnd' |].
    intros n' Hin'. pose proof (Hab n' (or_intror Hin')) as Hk. unfold key_absent in *.
    rewrite map_app, forallb_app, Hk. cbn [map fst forallb py_eq andb].
    destruct (pystr_eqb n n') eqn:E; [|reflexivity]. apply pystr_eqb_spec in E. subst. contradiction.
  Qed.

  Lemma kw_of_str_pairs : forall kw : list (pystr * pyval),
    kw_of_pairs (map (fun p => (PStr (fst p), snd p)) kw) = Ok kw.
  Proof. induction kw as [|[n w] t IH]; [reflexivity|]. cbn [map kw_of_pairs fst snd]. rewrite IH. reflexivity. Qed.

  Lemma deser_loop_keys REC dm doc : forall fs x,
    deser_loop REC dm doc fs = Ok x -> forall n, In n (map fst x) -> In n (map fst fs).
  Proof.
    induction fs as [|[k fk] t IH]; intros x H n Hin.
    - inversion H; subst. destruct Hin.
    - cbn [deser_loop] in H. destruct (processed_input dm doc k) as [[pin mk]|]; [|discriminate H]. cbn [bind] in H.
      destruct pin as [v|]; [|right; exact (IH _ H n Hin)].
      destruct (deser_value REC fk _ v); [|discriminate H]. cbn [bind] in H.
      destruct (deser_loop REC dm doc t) as [rest|] eqn:E; [|discriminate H]. inversion H; subst.
      cbn [map fst] in *. destruct Hin as [<-|Hin]; [left; reflexivity | right; exact (IH _ eq_refl n Hin)].
  Qed.

  Lemma deser_loop_nodup REC dm doc : forall fs x,
    NoDup (map fst fs) -> deser_loop REC dm doc fs = Ok x -> NoDup (map fst x).
  Proof.
    induction fs as [|[k fk] t IH]; intros x Hnd H.
    - inversion H; subst. constructor.
    - inversion Hnd as [|k0 l0 Hnotin Hnd']; subst.
      cbn [deser_loop] in H. destruct (processed_input dm doc k) as [[pin mk]|]; [|discriminate H]. cbn [bind] in H.
      destruct pin as [v|]; [|exact (IH _ Hnd' H)].
      destruct (deser_value REC fk _ v); [|discriminate H]. cbn [bind] in H.
      destruct (deser_loop REC dm doc t) as [rest|] eqn:E; [|discriminate H]. inversion H; subst.
      cbn [map fst]. constructor; [|exact (IH _ Hnd' eq_refl)].
      intro Hin. apply Hnotin. exact (deser_loop_keys REC dm doc t rest E k Hin).
  Qed.

  Lemma mdsi_ok (R : recs) fields ms sub (camelflag : bool) dm doc x nm ssv :
    sub_is_dict sub = true ->
    aggregate false (Class fields ms) (sub_override_of sub) camelflag = Ok dm ->
    NoDup (map fst x) ->
    r_construct_fields_map R (PDict (map menc_field fields)) (PBool false) (enc_amap dm) (PDict (enc_dpairs doc))
      (menc_class (Class fields ms)) (PBool false) (PBool camelflag) (PBool false) (PBool false) =
      Ok (PDict (enc_kwp fields x)) ->
    src_deserialize_structure_internal h ext R (menc_class (Class fields ms)) (PDict (enc_dpairs doc)) nm (PBool false)
      (enc_sub sub) (PBool false) (PBool camelflag) (PBool false) ssv =
    Ok (enc_ival (IStruct x) (Some (KRef, Class fields ms))).
  Proof.
    intros Hsub Hagg Hnd Hcfm. destruct Hext3 as [Haggx Hcall]. destruct Hapd as [apd Hapd'].
    destruct (mclass_attrs (Class fields ms)) as [A1 [A2 [A3 [A4 [A5 A6]]]]].
    unfold src_deserialize_structure_internal.
    rewrite A1. cbn [bind py_truthy py_and].
    rewrite (Haggx (Class fields ms) sub camelflag Hsub), Hagg. cbn [enc_res bind].
    rewrite A2. cbn [bind]. rewrite A3. cbn [bind cfields]. rewrite A4. cbn [bind].
    rewrite ref_getattr', Hapd'. cbn [bind]. rewrite meth_get2 by reflexivity. cbn [dict_get bind].
    cbn [py_isinstance existsb isinstance1 orb py_not bind negb py_dict_items].
    rewrite kwargs_off. cbn [bind py_dict_of dict_build]. rewrite A5. cbn [bind].
    rewrite Hcfm. cbn [bind py_dict_update]. unfold enc_kwp.
    pose (kw := map (fun p : pystr * ival => (fst p, enc_ival (snd p) (fk_of fields (fst p)))) x).
    assert (Hkw : map (fun p : pystr * ival => (PStr (fst p), enc_ival (snd p) (fk_of fields (fst p)))) x =
                  map (fun p : pystr * pyval => (PStr (fst p), snd p)) kw).
    { unfold kw. rewrite map_map. reflexivity. }
    rewrite Hkw.
    rewrite (fold_set_fresh kw []); [| unfold kw; rewrite map_map; exact Hnd | intros n _; reflexivity].
    cbn [app bind py_star_kwargs]. rewrite kw_of_str_pairs. cbn [bind].
    assert (Hc : py_call ext (menc_class (Class fields ms)) [] kw = ext call_name [menc_class (Class fields ms)] kw)
      by (rewrite menc_class_eq; reflexivity).
    rewrite Hc, Hcall. cbn [bind]. rewrite enc_ival_struct. reflexivity.
  Qed.

  (* ---- the generated knot of all the translated functions *)
  Definition G (fuel : nat) : recs := src_full_fix h ext fuel.

  Lemma G_dsi n : r_deserialize_structure_internal (G (S n)) = src_deserialize_structure_internal h ext (G n).
  Proof. reflexivity. Qed.
  Lemma G_cfm n : r_construct_fields_map (G (S n)) = src_construct_fields_map h ext (G n).
  Proof. reflexivity. Qed.
  Lemma G_gpi n : r_get_processed_input (G (S n)) = src_get_processed_input h ext (G n).
  Proof. reflexivity. Qed.
  Lemma G_dsf n : r_deserialize_single_field (G (S n)) = src_deserialize_single_field h ext (G n).
  Proof. reflexivity. Qed.
  Lemma G_array n fo j nm kuv mp camel :
    r_deserialize_array (G (S (S n))) fo j nm kuv mp camel =
    (t1 <- src_deserialize_list_like h ext (G n) fo (ctype_of Deserialize.TList) j nm kuv mp camel ;; Ok t1).
  Proof. reflexivity. Qed.
  Lemma G_set n fo j nm kuv mp camel :
    r_deserialize_set (G (S (S n))) fo j nm kuv mp camel =
    (t1 <- src_deserialize_list_like h ext (G n) fo (ctype_of Deserialize.TSet) j nm kuv mp camel ;; Ok t1).
  Proof. reflexivity. Qed.

  Lemma keys_unique_nodup : forall l, keys_unique l = true -> NoDup l.
  Proof.
    induction l as [|k t IH]; intro H; [constructor|]. cbn [keys_unique] in H. apply andb_true_iff in H as [H1 H2].
    constructor; [|exact (IH H2)]. intro Hin. apply negb_true_iff in H1.
    assert (Ht : str_in k t = true) by (apply existsb_exists; exists k; split; [exact Hin | apply pystr_eqb_refl]).
    rewrite Ht in H1. discriminate H1.
  Qed.

  Lemma alist_get_nodup {A} (l : list (pystr * A)) k v : NoDup (map fst l) -> In (k, v) l -> alist_get l k = Some v.
  Proof.
    induction l as [|[k' v'] t IH]; intros Hnd Hin; [destruct Hin|].
    inversion Hnd as [|k0 l0 Hnotin Hnd']; subst. cbn [alist_get]. destruct Hin as [E|Hin].
    - inversion E; subst. rewrite pystr_eqb_refl. reflexivity.
    - destruct (pystr_eqb k' k) eqn:E; [|exact (IH Hnd' Hin)].
      apply pystr_eqb_spec in E. subst. exfalso. apply Hnotin. apply (in_map fst _ _ Hin).
  Qed.

  Lemma cdepth_field fields ms k kd c' : In (k, Some (kd, c')) fields -> (S (cdepth c') <= cdepth (Class fields ms))%nat.
  Proof.
    cbn [cdepth]. intro Hin. apply le_n_S. induction fields as [|[k0 [[kd0 c0]|]] t IH]; [destruct Hin| |].
    - destruct Hin as [E|Hin]; [inversion E; subst; lia | specialize (IH Hin); lia].
    - destruct Hin as [E|Hin]; [discriminate E | exact (IH Hin)].
  Qed.

  Lemma mapped_cov_fields fields ms o camelflag dm :
    mapped_cov (Class fields ms) o camelflag = true ->
    aggregate false (Class fields ms) o camelflag = Ok dm ->
    NoDup (map fst fields) /\
    forall k fk, In (k, fk) fields ->
      let mk := match alist_get dm k with Some (Key s) => s | _ => k end in
      ident_ok mk = true /\
      match fk with
      | None => True
      | Some (_, c') => sub_is_dict (deser_sub_lookup dm mk k) = true /\
                        mapped_cov c' (sub_override_of (deser_sub_lookup dm mk k)) camelflag = true
      end.
  Proof.
    intros Hcov Hagg. cbn [mapped_cov] in Hcov. apply andb_true_iff in Hcov as [Hu Hcov].
    split; [exact (keys_unique_nodup _ Hu)|]. rewrite Hagg in Hcov. clear Hu Hagg.
    induction fields as [|[k0 fk0] t IH]; intros k fk Hin; [destruct Hin|].
    apply andb_true_iff in Hcov as [Hcov Ht]. apply andb_true_iff in Hcov as [Hid Hfk].
    destruct Hin as [E|Hin]; [|exact (IH Ht k fk Hin)]. inversion E; subst. cbv zeta. split; [exact Hid|].
    destruct fk as [[kd c']|]; [|exact I]. apply andb_true_iff in Hfk as [H1 H2]. split; assumption.
  Qed.

  Lemma processed_mk dm doc k pin mk :
    processed_input dm doc k = Ok (pin, mk) -> mk = match alist_get dm k with Some (Key s) => s | _ => k end.
  Proof.
    unfold processed_input. destruct (alist_get dm k) as [[s| |sm]|]; intro H; inversion H; reflexivity.
  Qed.

  (* the items of a list of nested documents, as the model deserializes them *)
  Lemma items_model (REC : classdef -> option amap -> list (pystr * dval) -> res (list (pystr * ival))) c' o :
    forall l xs,
      (fix items (l : list dval) : res (list ival) :=
         match l with
         | [] => Ok []
         | DDict d' :: u => x <- REC c' o d' ;; xs <- items u ;; Ok (IStruct x :: xs)
         | _ :: _ => Raise TypeError
         end) l = Ok xs ->
      Forall2 (fun d x => exists d' x', d = DDict d' /\ x = IStruct x' /\ REC c' o d' = Ok x') l xs.
  Proof.
    induction l as [|d u IH]; intros xs H; [inversion H; constructor|].
    destruct d as [z|d'|l']; try discriminate H.
    destruct (REC c' o d') as [x'|] eqn:E; [|discriminate H]. cbn [bind] in H.
    destruct ((fix items (l : list dval) : res (list ival) :=
                 match l with
                 | [] => Ok []
                 | DDict d'0 :: u0 => x <- REC c' o d'0 ;; xs0 <- items u0 ;; Ok (IStruct x :: xs0)
                 | _ :: _ => Raise TypeError
                 end) u) as [xs'|] eqn:Eu; [|discriminate H].
    inversion H; subst. constructor; [exists d', x'; auto | exact (IH _ eq_refl)].
  Qed.

  Lemma Forall2_imp {A B} (P Q : A -> B -> Prop) l m :
    (forall a b, P a b -> Q a b) -> Forall2 P l m -> Forall2 Q l m.
  Proof. intros H HF. induction HF; constructor; auto. Qed.

  Lemma struct_items_hashable kd c' : forall xs : list ival,
    Forall (fun x => exists x', x = IStruct x') xs ->
    forallb SetChain.py_hashable (map (fun y => enc_ival y (Some (kd, c'))) xs) = true.
  Proof.
    induction xs as [|x t IH]; intro HF; [reflexivity|]. inversion HF as [|x0 l0 [x' ->] HF']; subst.
    cbn [map forallb]. rewrite enc_ival_struct. cbn [SetChain.py_hashable]. exact (IH HF').
  Qed.

  (* ------------------------------------------------------------------ the bridge *)
  Theorem src_deserialize_mapped_ok : forall c fuel sub (camelflag : bool) doc x nm ssv,
    (8 * cdepth c <= fuel)%nat ->
    sub_is_dict sub = true ->
    mapped_cov c (sub_override_of sub) camelflag = true ->
    deser_struct c (sub_override_of sub) camelflag doc = Ok x ->
    r_deserialize_structure_internal (G fuel) (menc_class c) (enc_dval (DDict doc)) nm (PBool false) (enc_sub sub)
      (PBool false) (PBool camelflag) (PBool false) ssv =
    Ok (enc_ival (IStruct x) (Some (KRef, c))).
  Proof.
    intro c. induction c as [fields ms IHc] using classdef_ind'.
    intros fuel sub camelflag doc x nm ssv Hfuel Hsub Hcov Hmodel.
    assert (Hd1 : (1 <= cdepth (Class fields ms))%nat) by (cbn [cdepth]; lia).
    destruct fuel as [|[|[|f2]]]; try lia.
    cbn [deser_struct] in Hmodel.
    destruct (aggregate false (Class fields ms) (sub_override_of sub) camelflag) as [dm|] eqn:Hagg; [|discriminate Hmodel].
    cbn [bind] in Hmodel.
    destruct (mapped_cov_fields fields ms _ camelflag dm Hcov Hagg) as [Hnd Hfields].
    destruct (mclass_attrs (Class fields ms)) as [_ [_ [_ [_ [A5 A6]]]]].
    rewrite G_dsi, enc_dval_dict.
    apply (mdsi_ok (G (S (S f2))) fields ms sub camelflag dm doc x nm ssv Hsub Hagg).
    { exact (deser_loop_nodup _ dm doc fields x Hnd Hmodel). }
    rewrite G_cfm. unfold src_construct_fields_map.
    assert (Hm : py_or_val (Ok (enc_amap dm)) (fun _ => Ok (PDict [])) = Ok (enc_amap dm)) by (destruct dm; reflexivity).
    rewrite Hm. cbn [bind py_dict_items].
    rewrite (mcfm_loop_ok (G (S f2)) (G f2) (menc_class (Class fields ms)) dm doc camelflag fields
               (fun c' o d => deser_struct c' o camelflag d) (fun _ _ _ _ _ => eq_refl) Hff A6 A5 fields [] x Hnd
               (fun _ _ => eq_refl)); [reflexivity| | |exact Hmodel].
    { intros k fk Hin. unfold fk_of. rewrite (alist_get_nodup fields k fk Hnd Hin). reflexivity. }
    intros k fk pin mk Hin Hpin. pose proof (processed_mk dm doc k pin mk Hpin) as Hmk.
    destruct (Hfields k fk Hin) as [Hid Hfk]. cbv zeta in Hid, Hfk. rewrite <- Hmk in Hid, Hfk.
    split; [exact Hid|]. intros v r -> Hval. rewrite G_dsf.
    destruct fk as [[kd c']|].
    - (* a nested class *)
      destruct Hfk as [Hsd Hcov'].
      assert (Hdep := cdepth_field fields ms k kd c' Hin).
      rewrite Forall_forall in IHc. pose proof (IHc (k, Some (kd, c')) Hin) as IH'. cbn [snd] in IH'.
      destruct kd.
      + (* directly *)
        cbn [deser_value mfield_obj] in *. destruct v as [z|d'|l]; try discriminate Hval.
        destruct (deser_struct c' (sub_override_of (deser_sub_lookup dm mk k)) camelflag d') as [x'|] eqn:E; [|discriminate Hval].
        inversion Hval; subst r. rewrite enc_dval_dict.
        rewrite dsf_cref by (destruct c'; reflexivity). rewrite <- enc_dval_dict.
        rewrite (IH' f2 (deser_sub_lookup dm mk k) camelflag d' x' (PStr k) (PBool false)) by (try assumption; lia).
        rewrite enc_ival_struct. reflexivity.
      + (* through an Array *)
        cbn [mfield_obj]. destruct v as [z|d'|l]; try discriminate Hval.
        cbn [deser_value] in Hval.
        match type of Hval with (xs <- ?I ;; _) = _ => destruct I as [xs|] eqn:Eitems; [|discriminate Hval] end.
        inversion Hval; subst r.
        pose proof (items_model (fun c0 o d => deser_struct c0 o camelflag d) c'
                                (sub_override_of (deser_sub_lookup dm mk k)) l xs Eitems) as HF2.
        rewrite dsf_coll by (try discriminate; reflexivity).
        destruct f2 as [|[|[|[|f6]]]]; try lia.
        rewrite G_array. cbn [enc_dval].
        rewrite (list_like_coll (G (S (S f6))) KArr (menc_class c') l xs (PStr k) (PBool false) _ (PBool camelflag)
                                (fun y => enc_ival y (Some (KArr, c')))); [reflexivity|discriminate|destruct c'; reflexivity|].
        eapply Forall2_imp; [|exact HF2]. intros d y [d' [x' [-> [-> Hrec]]]] nm'.
        rewrite G_dsf, enc_dval_dict, dsf_cref by (destruct c'; reflexivity). rewrite <- enc_dval_dict.
        rewrite (IH' (S f6) (deser_sub_lookup dm mk k) camelflag d' x' nm' (PBool false)) by (try assumption; lia).
        rewrite !enc_ival_struct. reflexivity.
      + (* through a Set *)
        cbn [mfield_obj]. destruct v as [z|d'|l]; try discriminate Hval.
        cbn [deser_value] in Hval.
        match type of Hval with (xs <- ?I ;; _) = _ => destruct I as [xs|] eqn:Eitems; [|discriminate Hval] end.
        inversion Hval; subst r.
        pose proof (items_model (fun c0 o d => deser_struct c0 o camelflag d) c'
                                (sub_override_of (deser_sub_lookup dm mk k)) l xs Eitems) as HF2.
        rewrite dsf_coll by (try discriminate; reflexivity).
        destruct f2 as [|[|[|[|f6]]]]; try lia.
        rewrite G_set. cbn [enc_dval].
        rewrite (list_like_coll (G (S (S f6))) KSet (menc_class c') l xs (PStr k) (PBool false) _ (PBool camelflag)
                                (fun y => enc_ival y (Some (KSet, c')))); [|discriminate|destruct c'; reflexivity|].
        * cbn [kind_target Deserialize.build_seq enc_ival].
          rewrite (struct_items_hashable KSet c' xs); [reflexivity|].
          clear -HF2. induction HF2 as [|d y l xs [d' [x' [_ [-> _]]]] _ IH]; constructor; [exists x'; reflexivity | exact IH].
        * eapply Forall2_imp; [|exact HF2]. intros d y [d' [x' [-> [-> Hrec]]]] nm'.
          rewrite G_dsf, enc_dval_dict, dsf_cref by (destruct c'; reflexivity). rewrite <- enc_dval_dict.
          rewrite (IH' (S f6) (deser_sub_lookup dm mk k) camelflag d' x' nm' (PBool false)) by (try assumption; lia).
          rewrite !enc_ival_struct. reflexivity.
    - (* a scalar *)
      cbn [deser_value mfield_obj] in *. destruct v as [z|d'|l]; try discriminate Hval. inversion Hval; subst r.
      cbn [enc_dval enc_ival]. apply dsf_int.
  Qed.
End Mapped.

(* ------------------------------------------------------------------ the statement for Props/C07.v *)

(* Deserializer(cls, mapper=override, camel_case_convert=flag) / deserialize_structure(cls, doc, mapper=override,
   camel_case_convert=flag, keep_undefined=False): for EVERY class of the model with a rename-only mapper list,
   explicit mapper, flag and document on which the C07 model's deserializer returns fields, the generated
   deserialize_structure_internal returns the instance carrying exactly those fields, every nesting level under the
   nested mapper construct_fields_map looks up for it.  The mapper-off configuration is the special case of a class
   that declares no mapper, override None, flag off (the aggregated mapper is then the no-op one). *)
Theorem src_deserialize_mapped re_match e ens h ext :
  ext_agrees re_match e ens ext -> ext_struct_agrees ext -> ext_mapped_agrees ext ->
  h (s2p "Structure") (s2p "failing_fast()") = Some (PBool true) ->
  (exists v, h (s2p "TypedPyDefaults") (s2p "additional_properties_default") = Some v) ->
  forall c (override : option amap) (camelflag : bool) doc x fuel nm ssv,
    (8 * cdepth c <= fuel)%nat ->
    mapped_cov c override camelflag = true ->
    deser_struct c override camelflag doc = Ok x ->
    r_deserialize_structure_internal (src_full_fix h ext fuel) (menc_class c) (enc_dval (DDict doc)) nm (PBool false)
      (enc_override override) (PBool false) (PBool camelflag) (PBool false) ssv =
    Ok (enc_ival (IStruct x) (Some (KRef, c))).
Proof.
  intros H1 H2 H3 Hff Hapd c override camelflag doc x fuel nm ssv Hfuel Hcov Hm.
  assert (Ho : enc_override override = enc_sub (option_map Sub override)).
  { destruct override as [d|]; [|reflexivity]. cbn [enc_override option_map enc_sub]. rewrite enc_mval_sub. reflexivity. }
  assert (Hs : sub_override_of (option_map Sub override) = override) by (destruct override; reflexivity).
  rewrite Ho.
  apply (src_deserialize_mapped_ok re_match e ens h ext H1 H2 H3 Hff Hapd c fuel (option_map Sub override) camelflag doc x nm ssv
                                   Hfuel); [destruct override; reflexivity | rewrite Hs; exact Hcov | rewrite Hs; exact Hm].
Qed.

(* ------------------------------------------------------------------ examples *)

(* an oracle for a finite set of classes: the leaf methods of the Integer fields, deep_get on plain keys,
   raise_errs_if_needed, aggregate_deserialization_mappers through the model (the class object and the nested mapper
   are recognised by comparison with their encodings), the constructor *)
Fixpoint dec_mval (n : nat) (v : pyval) : option mval :=
  match n with
  | O => None
  | S n' =>
      match v with
      | PStr s => Some (Key s)
      | POther _ _ => Some DoNot
      | PDict kv =>
          (fix go (l : list (pyval * pyval)) : option mval :=
             match l with
             | [] => Some (Sub [])
             | (PStr k, w) :: t =>
                 match dec_mval n' w, go t with
                 | Some x, Some (Sub r) => Some (Sub ((k, x) :: r))
                 | _, _ => None
                 end
             | _ => None
             end) kv
      | _ => None
      end
  end.

Definition mapped_ext (cs : list classdef) : extern :=
  fun name args kw =>
    if pystr_eqb name (s2p "aggregate_deserialization_mappers") then
      match args with
      | [cobj; mp; PBool flag] =>
          match find (fun c => PyEq.pyval_eqb (menc_class c) cobj) cs with
          | Some c =>
              match mp with
              | PNone => enc_res (aggregate false c None flag)
              | _ => match dec_mval 20 mp with
                     | Some (Sub m) => enc_res (aggregate false c (Some m) flag)
                     | _ => Raise Unmodelled
                     end
              end
          | None => Raise Unmodelled
          end
      | _ => Raise Unmodelled
      end
    else if pystr_eqb name call_name then
      match args with
      | [PStruct _ _] => Ok (PStruct inst_cls kw)
      | _ => Raise Unmodelled
      end
    else full_ext (fun _ _ => true) [] [] name args kw.

Definition mx_heap : heap := class_heap [] {| Deserialize.df_ignore_invalid := false; Deserialize.df_compact := false |}.
Definition mx_src (cs : list classdef) (c : classdef) (o : option amap) (flag : bool) (doc : list (pystr * dval)) : res pyval :=
  r_deserialize_structure_internal (src_full_fix mx_heap (mapped_ext cs) 40) (menc_class c) (enc_dval (DDict doc))
    PNone (PBool false) (enc_override o) (PBool false) (PBool flag) (PBool false) (PBool false).

Local Open Scope N_scope.
(* Outer {a: Left, b: Right} under {a: b, b: c} (the classes of C07_sub_lookup_order_matters): field b, whose NAME is
   the key of its sibling a.  Document {"b": {"p": 1, "q": 2}, "c": {"q": 3, "p": 4}}: a is read under "b" with
   Left's mapper, b under "c" with Right's *)
Definition mx_doc : list (pystr * dval) :=
  [(MappersProofs.sb, DDict [(MappersRoundTripProofs.w_p, DScal 1%Z); (MappersRoundTripProofs.w_q, DScal 2%Z)]);
   (MappersProofs.sc, DDict [(MappersRoundTripProofs.w_q, DScal 3%Z); (MappersRoundTripProofs.w_p, DScal 4%Z)])].
Definition mx_classes := [MappersRoundTripProofs.cOuter; MappersRoundTripProofs.cLeft; MappersRoundTripProofs.cRight].

Example mapped_nonvacuous :
  mapped_cov MappersRoundTripProofs.cOuter None false = true /\
  (exists x, deser_struct MappersRoundTripProofs.cOuter None false mx_doc = Ok x /\
             x = [(MappersProofs.sa, IStruct [(MappersRoundTripProofs.w_u, IScal 1%Z); (MappersRoundTripProofs.w_v, IScal 2%Z)]);
                  (MappersProofs.sb, IStruct [(MappersRoundTripProofs.w_u, IScal 3%Z); (MappersRoundTripProofs.w_v, IScal 4%Z)])] /\
             mx_src mx_classes MappersRoundTripProofs.cOuter None false mx_doc =
             Ok (enc_ival (IStruct x) (Some (KRef, MappersRoundTripProofs.cOuter)))).
Proof.
  split; [vm_compute; reflexivity|]. eexists. split; [vm_compute; reflexivity|]. split; vm_compute; reflexivity.
Qed.

(* where the model fails, the source fails too but not always with the model's class: a falsy ill-shaped value is
   collected by construct_fields_map and reported as InvalidStructureErr (the model: TypeError); the C07 correspondence
   compares exception classes up to TypeError / ValueError *)
Example mapped_error_class_differs :
  deser_struct MappersRoundTripProofs.cLeft None false [(MappersRoundTripProofs.w_p, DList [])] = Raise TypeError /\
  mx_src mx_classes MappersRoundTripProofs.cLeft None false [(MappersRoundTripProofs.w_p, DList [])] = Raise InvalidStructureErr.
Proof. split; vm_compute; reflexivity. Qed.

Print Assumptions mcfm_step.
Print Assumptions mcfm_loop_ok.
Print Assumptions mdsi_ok.
Print Assumptions src_deserialize_mapped_ok.
Print Assumptions src_deserialize_mapped.
Print Assumptions mapped_nonvacuous.
Print Assumptions mapped_error_class_differs.
