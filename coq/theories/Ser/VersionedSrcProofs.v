(* The tie between the GENERATED translation of typedpy/serialization/versioned_mapping.py and of commons.deep_get
   (Gen/VersionedSrc.v: what _convert, convert_dict, deep_get, _get_next_level, Constant say NOW) and the
   hand-written model Ser/Versioned.v on which property C17 is proved.  Every theorem is quantified over ALL
   documents, mappings / lists of mappings and user-function oracles [fn]; a source edit that changes what is
   computed makes the matching lemma fail (or the definition UNTRANSLATABLE, so that the lemma no longer type-checks).

   How the model's inputs are seen on the Python side:
     document  d : dict                the dict  [PDict d]
     mapping   m                       the dict  [enc_mapping m] = {k: enc_mval v}, iterated in the model's order
     MConst c                          the object Constant(c): [Src_Constant_new c], i.e. what Constant.__init__
                                       (translated too) builds: class tag "Constant", attribute _val = c
     MSub m                            the dict [enc_mapping m]
     MFunc fid args                    an object of class FunctionCall with attributes func = the callable number
                                       fid ([enc_fn fid]) and args = None when [args] is empty, else the list of str
     MKey p                            the str p
     MDeleted                          the class Deleted: the module-level object [py_global "Deleted"]
     MIgnored                          the int 12345 (what the correspondence harness uses)
     fn                                calls of a run-time callable go through [call_of fn]: callable number fid
                                       applied to the argument list is [fn fid args]
   `isinstance(v, Constant)` / `isinstance(v, FunctionCall)` are tests of the class tag, `v == Deleted` is equality
   with the module-level object, `copy.deepcopy` is the identity on values; a recursive function receives as fuel
   one more than the summed height of its arguments (proved sufficient here). *)
From Coq Require Import ZArith QArith NArith String Ascii Bool Lia List.
Import ListNotations.
From TP Require Import Base.PyVal Base.PyOps Base.PyOps2 Base.PyOpsVersioned Ser.Versioned Ser.VersionedProofs
     Gen.VersionedShape Gen.VersionedSrc.
Local Open Scope Z_scope.

(* ------------------------------------------------------------------ how the model's inputs are seen by the source *)

Definition fn_tag : pystr := s2p "function".
Definition enc_fn (fid : N) : pyval := POther fn_tag [fid].

Definition call_of (fn : N -> list pyval -> res pyval) (f : pyval) (args : list pyval) : res pyval :=
  match f with
  | POther t [fid] => if pystr_eqb t fn_tag then fn fid args else Raise Unmodelled
  | _ => Raise Unmodelled
  end.

Definition enc_args (a : list pystr) : pyval :=
  match a with [] => PNone | _ => PList (map PStr a) end.

Definition ignored_obj : pyval := PNum (NInt 12345).

Fixpoint enc_mval (v : mval) : pyval :=
  match v with
  | MConst c => Src_Constant_new c
  | MSub m =>
      PDict ((fix go (l : list (pystr * mval)) : list (pyval * pyval) :=
                match l with [] => [] | (k, x) :: t => (PStr k, enc_mval x) :: go t end) m)
  | MFunc fid args => PStruct (s2p "FunctionCall") [(s2p "func", enc_fn fid); (s2p "args", enc_args args)]
  | MKey p => PStr p
  | MDeleted => py_global (s2p "Deleted")
  | MIgnored => ignored_obj
  end.

Definition enc_kv (kv : pystr * mval) : pyval * pyval := (PStr (fst kv), enc_mval (snd kv)).
Definition enc_items (m : mapping) : list (pyval * pyval) := map enc_kv m.
Definition enc_mapping (m : mapping) : pyval := PDict (enc_items m).
Definition enc_maps (maps : list mapping) : pyval := PList (map enc_mapping maps).
Definition enc_res (r : res dict) : res pyval := match r with Ok d => Ok (PDict d) | Raise e => Raise e end.


(* ------------------------------------------------------------------ general facts *)

Lemma bind_ok {A B} (x : A) (k : A -> res B) : bind (Ok x) k = k x.
Proof. reflexivity. Qed.

Lemma py_and_false_r b : py_and (Ok b) (fun _ => Ok false) = Ok false.
Proof. destruct b; reflexivity. Qed.

(* ------------------------------------------------------------------ commons.deep_get *)

Definition gnl_items (key : pystr) : list pyval -> list pyval :=
  fix go (l : list pyval) : list pyval :=
    match l with
    | [] => []
    | r :: t => if is_none r then go t else get_next_level r key :: go t
    end.

Lemma gnl_list l key : get_next_level (PList l) key = PList (gnl_items key l).
Proof. reflexivity. Qed.
Lemma gnl_tuple l key : get_next_level (PTuple l) key = PList (gnl_items key l).
Proof. reflexivity. Qed.

Section DeepGet.
  Variable call : pyval -> list pyval -> res pyval.

  Lemma comp_gnl (F : pyval -> res pyval) key l :
    (forall x, In x l -> F x = Ok (get_next_level x key)) ->
    comp_list (fun r => Ok (py_is_not_none r)) (fun r => t <- F r ;; Ok t) l = Ok (gnl_items key l).
  Proof.
    induction l as [|x t IH]; intros HF; [reflexivity|].
    cbn [comp_list gnl_items bind].
    assert (Ht : comp_list (fun r => Ok (py_is_not_none r)) (fun r => t0 <- F r ;; Ok t0) t = Ok (gnl_items key t))
      by (apply IH; intros y Hy; apply HF; right; exact Hy).
    destruct x; cbn [py_is_not_none py_is_none negb is_none]; try exact Ht;
      (rewrite (HF _ (or_introl eq_refl)); cbn [bind]; rewrite Ht; reflexivity).
  Qed.

  (* the helper _get_next_level, for the defaults deep_get passes when called with two arguments *)
  Lemma src_get_next_level_fuel : forall fuel d key,
      (py_height d < fuel)%nat ->
      Src_get_next_level_fuel call fuel d (PStr key) PNone (PBool false) = Ok (get_next_level d key).
  Proof.
    induction fuel as [|f IH]; intros d key Hh; [lia|].
    destruct d; try reflexivity.
    - rewrite gnl_list. rewrite py_height_list in Hh.
      cbn [Src_get_next_level_fuel py_isinstance_v existsb isinstance_v1 isinstance1 orb bind py_iter is_object].
      rewrite (comp_gnl (fun r => Src_get_next_level_fuel call f r (PStr key) PNone (PBool false)) key l).
      + reflexivity.
      + intros x Hx. apply IH. pose proof (list_height_in _ _ Hx). lia.
    - rewrite gnl_tuple. rewrite py_height_tuple in Hh.
      cbn [Src_get_next_level_fuel py_isinstance_v existsb isinstance_v1 isinstance1 orb bind py_iter is_object].
      rewrite (comp_gnl (fun r => Src_get_next_level_fuel call f r (PStr key) PNone (PBool false)) key l).
      + reflexivity.
      + intros x Hx. apply IH. pose proof (list_height_in _ _ Hx). lia.
  Qed.

  Theorem src_get_next_level : forall d key,
      Src_get_next_level call d (PStr key) PNone (PBool false) = Ok (get_next_level d key).
  Proof.
    intros d key. unfold Src_get_next_level. apply src_get_next_level_fuel.
    cbn [heights fold_right]. lia.
  Qed.

  Lemma split_char_dot : forall s cur, split_char_aux dot cur s = split_dot_aux cur s.
  Proof.
    induction s as [|c t IH]; intros cur; [reflexivity|].
    cbn [split_char_aux split_dot_aux]. rewrite !IH. reflexivity.
  Qed.

  Lemma fold_keys (F : pyval -> pyval -> res pyval) keys : forall d,
      (forall d key, F d (PStr key) = Ok (if py_truthy d then get_next_level d key else PNone)) ->
      foldM F (map PStr keys) d =
      Ok (fold_left (fun acc key => if py_truthy acc then get_next_level acc key else PNone) keys d).
  Proof.
    induction keys as [|k t IH]; intros d HF; [reflexivity|].
    cbn [map foldM fold_left]. rewrite HF. cbn [bind]. apply IH. exact HF.
  Qed.

  (* deep_get(dictionary, path): default None, no flatten, no undefined -- for EVERY value and path *)
  Theorem src_deep_get : forall d path,
      Src_deep_get call d (PStr path) PNone (PBool false) (PBool false) = Ok (deep_get d path).
  Proof.
    intros d path. unfold Src_deep_get, deep_get.
    change (py_and (Ok (py_is_none PNone)) (fun _ => Ok (py_truthy (PBool false)))) with (@Ok bool false).
    cbn [bind].
    change (py_str_split (PStr path) (PStr (s2p "."))) with (Ok (PList (map PStr (split_char dot path)))).
    cbn [bind py_iter].
    rewrite (fold_keys _ (split_char dot path) d).
    - cbn [bind]. change (py_truthy (PBool false)) with false. rewrite py_and_false_r. cbn [bind].
      unfold split_char, split_dot. rewrite split_char_dot. reflexivity.
    - intros d0 key. cbn beta. cbn [bind]. destruct (py_truthy d0); cbn [bind]; [|reflexivity].
      rewrite src_get_next_level. reflexivity.
  Qed.
End DeepGet.

(* ------------------------------------------------------------------ where both sides predict *)

(* the hand model declines ([Raise Unmodelled]) when a value reached through a "<field>._mapper" key is not a
   dict / list of dicts; the bridging theorems speak about the inputs on which it does predict *)
Definition predicted {A} (r : res A) : bool :=
  match r with Raise Unmodelled => false | _ => true end.

Lemma predicted_bind {A B} (r : res A) (k : A -> res B) :
  predicted (bind r k) = true -> predicted r = true /\ forall a, r = Ok a -> predicted (k a) = true.
Proof.
  destruct r as [a|e]; cbn [bind]; intros H.
  - split; [reflexivity|]. intros a' Ha. inversion Ha; subst. exact H.
  - split; [exact H|]. intros a' Ha. discriminate.
Qed.

(* the operator library declines on `.items()` of an opaque object, so a value stored under a "<field>._mapper"
   key must be something whose `.items()` it predicts: a nested mapping (recursively so), or plain data (a str,
   the ignored int: AttributeError on both sides).  A Constant under such a key is never handed to _convert. *)
Definition conv_entry_ok (rec : mval -> bool) (kv : pystr * mval) : bool :=
  match snd kv with
  | MConst _ => true
  | _ => match ends_with_mapper (fst kv) with Some _ => rec (snd kv) | None => true end
  end.

Fixpoint conv_arg_ok (v : mval) : bool :=
  match v with
  | MSub m => forallb (conv_entry_ok conv_arg_ok) m
  | MKey _ | MIgnored => true
  | _ => false
  end.

Definition mapping_ok (m : mapping) : bool := forallb (conv_entry_ok conv_arg_ok) m.

(* ------------------------------------------------------------------ facts about the encoding and the operators *)

Lemma enc_mval_sub m : enc_mval (MSub m) = enc_mapping m.
Proof.
  unfold enc_mapping, enc_items. cbn [enc_mval]. f_equal.
  induction m as [|[k x] t IH]; [reflexivity|]. cbn [map]. rewrite <- IH. reflexivity.
Qed.

Lemma isinst_Constant v :
  py_isinstance_v (enc_mval v) [C_named (s2p "Constant")] = match v with MConst _ => true | _ => false end.
Proof. destruct v; reflexivity. Qed.
Lemma isinst_FunctionCall v :
  py_isinstance_v (enc_mval v) [C_named (s2p "FunctionCall")] = match v with MFunc _ _ => true | _ => false end.
Proof. destruct v; reflexivity. Qed.
Lemma isinst_str v :
  py_isinstance_v (enc_mval v) [C_k K_str] = match v with MKey _ => true | _ => false end.
Proof. destruct v; reflexivity. Qed.
Lemma eq_Deleted v :
  py_eqv (enc_mval v) (py_global (s2p "Deleted")) = Ok (match v with MDeleted => true | _ => false end).
Proof. destruct v; reflexivity. Qed.

Lemma endswith_str k t : py_str_endswith (PStr k) (PStr t) = Ok (str_endswith k t).
Proof. reflexivity. Qed.
Lemma len_mapper : py_len (PStr (s2p "._mapper")) = Ok (zint 8).
Proof. reflexivity. Qed.
Lemma neg_zint z : py_neg (zint z) = Ok (zint (- z)).
Proof. reflexivity. Qed.
Lemma slice_str_to k z : py_slice (PStr k) None (Some (zint z)) = Ok (PStr (slice_list None (Some z) k)).
Proof. reflexivity. Qed.
Lemma dict_get_str d k x :
  py_dict_get (PDict d) (PStr k) x = Ok (match dict_get d (PStr k) with Some v => v | None => x end).
Proof. reflexivity. Qed.
Lemma dict_get_dget d k : py_dict_get (PDict d) (PStr k) PNone = Ok (dget d k).
Proof. reflexivity. Qed.
Lemma setitem_str d k v : py_setitem (PDict d) (PStr k) v = Ok (PDict (dict_set d (PStr k) v)).
Proof. reflexivity. Qed.
Lemma in_dyn_str d k : py_in_dyn (PStr k) (PDict d) = Ok (dict_has d (PStr k)).
Proof. reflexivity. Qed.
Lemma delitem_str d k :
  py_delitem (PDict d) (PStr k) = if dict_has d (PStr k) then Ok (PDict (dict_del d (PStr k))) else Raise KeyError.
Proof. reflexivity. Qed.
Lemma iter_list l : py_iter (PList l) = Ok l.
Proof. reflexivity. Qed.
Lemma attr_args fid args : py_attr (enc_mval (MFunc fid args)) (s2p "args") = Ok (enc_args args).
Proof. reflexivity. Qed.
Lemma attr_func fid args : py_attr (enc_mval (MFunc fid args)) (s2p "func") = Ok (enc_fn fid).
Proof. reflexivity. Qed.
Lemma constant_call call c : Src_Constant_call call (enc_mval (MConst c)) = Ok c.
Proof. reflexivity. Qed.
Lemma call_of_fn fn fid args : call_of fn (enc_fn fid) args = fn fid args.
Proof. reflexivity. Qed.

Lemma dict_del_absent d k : dict_has d k = false -> dict_del d k = d.
Proof.
  unfold dict_has. induction d as [|[k' v'] t IH]; [reflexivity|].
  cbn [dict_get dict_del]. destruct (py_eq k' k); [discriminate|]. intro H. rewrite IH by exact H. reflexivity.
Qed.

Lemma endswith_mapper k :
  str_endswith k (s2p "._mapper") = match ends_with_mapper k with Some _ => true | None => false end.
Proof.
  unfold str_endswith, ends_with_mapper. change (s2p "._mapper") with mapper_suffix.
  destruct (Nat.leb (length mapper_suffix) (length k)); [|reflexivity].
  destruct (pystr_eqb (skipn (length k - length mapper_suffix) k) mapper_suffix); reflexivity.
Qed.

Lemma slice_mapper k f : ends_with_mapper k = Some f -> slice_list None (Some (- (8))) k = f.
Proof.
  unfold ends_with_mapper. change (length mapper_suffix) with 8%nat.
  destruct (Nat.leb 8 (length k)) eqn:E; [|discriminate].
  destruct (pystr_eqb (skipn (length k - 8) k) mapper_suffix); [|discriminate].
  intro H. inversion H; subst. apply Nat.leb_le in E.
  unfold slice_list, clamp. cbn [skipn]. change (- (8) <? 0) with true. cbn iota.
  f_equal. lia.
Qed.

Lemma mapM_dget out args :
  mapM (fun x => t <- py_dict_get (PDict out) x PNone ;; Ok t) (map PStr args) = Ok (map (dget out) args).
Proof.
  induction args as [|a t IH]; [reflexivity|].
  cbn [map mapM]. rewrite dict_get_dget. cbn [bind]. rewrite IH. reflexivity.
Qed.

(* ------------------------------------------------------------------ loops *)

Lemma foldM_pure {S A} (g : S -> A -> S) l : forall s, foldM (fun s a => Ok (g s a)) l s = Ok (fold_left g l s).
Proof. induction l as [|a t IH]; intro s; [reflexivity|]. cbn [foldM fold_left bind]. apply IH. Qed.

(* a generated loop over encoded items simulates a model loop, as long as the model predicts *)
Lemma foldM_sim {A B} (enc_a : A -> B) (I : dict -> Prop)
      (F : pyval -> B -> res pyval) (h : dict -> A -> res dict) :
  forall l out,
    I out ->
    (forall out a, In a l -> I out -> predicted (h out a) = true ->
                   F (PDict out) (enc_a a) = enc_res (h out a) /\ (forall o', h out a = Ok o' -> I o')) ->
    predicted (foldM h l out) = true ->
    foldM F (map enc_a l) (PDict out) = enc_res (foldM h l out).
Proof.
  induction l as [|a t IH]; intros out Hi Hstep Hp; [reflexivity|].
  cbn [map foldM] in *.
  apply predicted_bind in Hp. destruct Hp as [Hp1 Hp2].
  destruct (Hstep out a (or_introl eq_refl) Hi Hp1) as [Heq Hinv]. rewrite Heq.
  destruct (h out a) as [o'|e]; cbn [enc_res bind]; [|reflexivity].
  apply IH.
  - apply Hinv. reflexivity.
  - intros out0 a0 Hin. apply Hstep. right. exact Hin.
  - apply Hp2. reflexivity.
Qed.

Lemma bind_enc (r : res pyval) (h : res dict) (k1 : pyval -> res pyval) (k2 : dict -> res dict) :
  r = enc_res h -> (forall d, h = Ok d -> k1 (PDict d) = enc_res (k2 d)) ->
  bind r k1 = enc_res (bind h k2).
Proof.
  intros Hr Hk. rewrite Hr. destruct h as [d|e]; cbn [enc_res bind]; [|reflexivity]. apply Hk. reflexivity.
Qed.

(* the nested calls over a list of documents *)
Lemma mapM_enc (G : pyval -> res pyval) (H : dict -> res dict) items :
  (forall kv, predicted (H kv) = true -> G (PDict kv) = enc_res (H kv)) ->
  predicted (mapM (fun x => match x with PDict kv => r <- H kv ;; Ok (PDict r) | _ => Raise Unmodelled end) items) = true ->
  mapM G items = mapM (fun x => match x with PDict kv => r <- H kv ;; Ok (PDict r) | _ => Raise Unmodelled end) items.
Proof.
  intros HG. induction items as [|x t IH]; intros Hp; [reflexivity|].
  cbn [mapM] in *.
  apply predicted_bind in Hp. destruct Hp as [Hp1 Hp2].
  assert (Hx : G x = match x with PDict kv => r <- H kv ;; Ok (PDict r) | _ => Raise Unmodelled end).
  { destruct x; try discriminate Hp1.
    apply predicted_bind in Hp1. destruct Hp1 as [Hp1 _]. rewrite (HG _ Hp1).
    destruct (H kv); reflexivity. }
  rewrite Hx.
  destruct (match x with PDict kv => r <- H kv ;; Ok (PDict r) | _ => Raise Unmodelled end) as [y|e];
    cbn [bind]; [|reflexivity].
  specialize (Hp2 y eq_refl). apply predicted_bind in Hp2. destruct Hp2 as [Hp2 _].
  rewrite (IH Hp2). reflexivity.
Qed.

(* ------------------------------------------------------------------ _convert *)

Section Convert.
  Variable fn : N -> list pyval -> res pyval.
  Notation call := (call_of fn).

  (* one iteration of each of the three loops of the hand model *)
  Definition step1 (rec : mval -> dict -> res dict) (orig out : dict) (kv : pystr * mval) : res dict :=
    let k := fst kv in
    let v := snd kv in
    match v with
    | MConst c => Ok (dict_set out (PStr k) c)
    | _ =>
        match ends_with_mapper k with
        | Some field =>
            let content := dget orig field in
            if is_none content then Ok out
            else
              match content with
              | PList items =>
                  r <- mapM (fun x => match x with
                                      | PDict kv => r <- rec v kv ;; Ok (PDict r)
                                      | _ => Raise Unmodelled
                                      end) items ;;
                  Ok (dict_set out (PStr field) (PList r))
              | PDict kv =>
                  r <- rec v kv ;;
                  Ok (dict_set out (PStr field) (PDict r))
              | _ => Raise Unmodelled
              end
        | None =>
            match v with
            | MFunc fid args =>
                let argv := match args with
                            | [] => [dget out k]
                            | _ => map (dget out) args
                            end in
                r <- fn fid argv ;;
                Ok (dict_set out (PStr k) r)
            | _ => Ok out
            end
        end
    end.

  Definition step2 (out : dict) (kv : pystr * mval) : dict :=
    match snd kv with
    | MKey path => dict_set out (PStr (fst kv)) (deep_get (PDict out) path)
    | _ => out
    end.

  Definition step3 (out : dict) (kv : pystr * mval) : dict :=
    match snd kv with
    | MDeleted => dict_del out (PStr (fst kv))
    | _ => out
    end.

  Lemma loop1_as_fold rec l : forall orig out,
      loop1_gen fn rec l orig out = foldM (step1 rec orig) l out.
  Proof.
    induction l as [|[k v] t IH]; intros orig out; [reflexivity|].
    cbn [foldM]. unfold step1 at 1. cbn [fst snd loop1_gen].
    destruct v as [c|m'|fid args|p| |]; cbn [bind];
      try (rewrite IH; reflexivity);
      (destruct (ends_with_mapper k) as [field|];
       [ destruct (is_none (dget orig field)); [cbn [bind]; apply IH|];
         destruct (dget orig field); cbn [bind]; try reflexivity;
         match goal with
         | |- (r <- ?X ;; _) = _ => destruct X; cbn [bind]; [apply IH|reflexivity]
         end
       | try (cbn [bind]; apply IH);
         match goal with
         | |- (r <- ?X ;; _) = _ => destruct X; cbn [bind]; [apply IH|reflexivity]
         end ]).
  Qed.

  Lemma convert_as_folds m orig :
    sub_convert fn (MSub m) orig =
    (o1 <- foldM (step1 (sub_convert fn) orig) m orig ;; Ok (fold_left step3 m (fold_left step2 m o1))).
  Proof.
    cbn [sub_convert].
    change (loop1_gen fn (fun v' kv' => sub_convert fn v' kv') m orig orig)
      with (loop1_gen fn (sub_convert fn) m orig orig).
    rewrite loop1_as_fold. reflexivity.
  Qed.

  Lemma convert_is_sub m orig : convert fn m orig = sub_convert fn (MSub m) orig.
  Proof. reflexivity. Qed.
  Lemma truthy_args a rest : py_truthy (enc_args (a :: rest)) = true.
  Proof. reflexivity. Qed.

  (* the branch of the first loop for a key "<field>._mapper" whose value is handed to _convert *)
  Ltac mapper_branch f IH v orig field Hhv Hev Hpe Ek :=
    rewrite len_mapper; cbn [bind]; rewrite neg_zint; cbn [bind]; rewrite slice_str_to; cbn [bind];
    rewrite (slice_mapper _ _ Ek); rewrite dict_get_dget; cbn [bind]; cbn zeta in *;
    destruct (dget orig field) as [|b|n|s|items|l|l|fr l|kv'|c0 n0 y0|c0 at'|tg r0];
    cbn [is_none py_is_not_none py_is_none negb] in *; try discriminate Hpe; try reflexivity;
    [ (* a list of documents *)
      change (py_isinstance_v (PList items) [C_k K_list]) with true; cbn iota;
      rewrite iter_list; cbn [bind];
      apply predicted_bind in Hpe; destruct Hpe as [Hpe _];
      rewrite (mapM_enc _ (sub_convert fn v) items);
      [ destruct (mapM _ items) as [r|e]; cbn [bind enc_res]; [rewrite setitem_str|]; reflexivity
      | intros kv' Hk; cbn beta; rewrite (IH v kv' Hhv Hev Hk); destruct (sub_convert fn v kv'); reflexivity
      | exact Hpe ]
    | (* one document *)
      change (py_isinstance_v (PDict kv') [C_k K_list]) with false; cbn iota;
      apply predicted_bind in Hpe; destruct Hpe as [Hpe _];
      rewrite (IH v kv' Hhv Hev Hpe);
      destruct (sub_convert fn v kv') as [r|e]; cbn [bind enc_res]; [rewrite setitem_str|]; reflexivity ].

  Lemma src_convert_fuel_ok : forall fuel v kv,
      (py_height (enc_mval v) < fuel)%nat ->
      conv_arg_ok v = true ->
      predicted (sub_convert fn v kv) = true ->
      Src_convert_fuel call fuel (PDict kv) (enc_mval v) = enc_res (sub_convert fn v kv).
  Proof.
    induction fuel as [|f IH]; intros v orig Hh Hok Hp; [lia|].
    destruct v as [c|m|fid args|p| |]; try discriminate Hok; try reflexivity.
    rewrite enc_mval_sub in *. rewrite convert_as_folds in *.
    cbn [conv_arg_ok] in Hok.
    unfold enc_mapping in Hh. rewrite py_height_dict in Hh.
    apply predicted_bind in Hp. destruct Hp as [Hp1 _].
    cbn [Src_convert_fuel]. unfold enc_mapping. cbn [py_dict_items bind].
    apply bind_enc.
    - (* first loop: constants, nested mappers, function calls *)
      unfold enc_items. apply (foldM_sim enc_kv (fun _ => True)); [exact I| |exact Hp1].
      intros out [k v] Hin _ Hpe. split; [|intros; exact I].
      cbn [enc_kv fst snd].
      assert (Hhv : (py_height (enc_mval v) < f)%nat).
      { assert (Hi : In (PStr k, enc_mval v) (enc_items m)) by (exact (in_map enc_kv _ _ Hin)).
        pose proof (dict_height_in _ _ _ Hi). lia. }
      assert (Hev : conv_entry_ok conv_arg_ok (k, v) = true)
        by (rewrite forallb_forall in Hok; exact (Hok _ Hin)).
      unfold conv_entry_ok in Hev. unfold step1 in *. cbn [fst snd] in *.
      rewrite isinst_Constant.
      destruct v as [c|m'|fid args|p| |]; cbn iota.
      + (* Constant *)
        rewrite constant_call. cbn [bind]. rewrite setitem_str. reflexivity.
      + (* nested mapping *)
        rewrite endswith_str, endswith_mapper. cbn [bind].
        destruct (ends_with_mapper k) as [field|] eqn:Ek; cbn iota; [|reflexivity].
        mapper_branch f IH (MSub m') orig field Hhv Hev Hpe Ek.
      + (* FunctionCall *)
        rewrite endswith_str, endswith_mapper. cbn [bind].
        destruct (ends_with_mapper k) as [field|] eqn:Ek; cbn iota; [discriminate Hev|].
        rewrite isinst_FunctionCall. cbn iota. rewrite attr_args. cbn [bind].
        destruct args as [|a rest].
        * cbn [enc_args py_truthy bind]. rewrite dict_get_dget. cbn [bind]. rewrite attr_func. cbn [bind].
          rewrite iter_list. cbn [bind]. rewrite call_of_fn.
          destruct (fn fid [dget out k]) as [r|e]; cbn [bind enc_res]; [|reflexivity].
          rewrite setitem_str. reflexivity.
        * rewrite truthy_args. cbn [bind].
          change (enc_args (a :: rest)) with (PList (map PStr (a :: rest))).
          rewrite iter_list. cbn [bind]. rewrite mapM_dget. cbn [bind]. rewrite attr_func. cbn [bind].
          rewrite iter_list. cbn [bind]. rewrite call_of_fn.
          destruct (fn fid (map (dget out) (a :: rest))) as [r|e]; cbn [bind enc_res]; [|reflexivity].
          rewrite setitem_str. reflexivity.
      + (* str *)
        rewrite endswith_str, endswith_mapper. cbn [bind].
        destruct (ends_with_mapper k) as [field|] eqn:Ek; cbn iota; [|reflexivity].
        mapper_branch f IH (MKey p) orig field Hhv Hev Hpe Ek.
      + (* Deleted *)
        rewrite endswith_str, endswith_mapper. cbn [bind].
        destruct (ends_with_mapper k) as [field|] eqn:Ek; cbn iota; [discriminate Hev|reflexivity].
      + (* anything else *)
        rewrite endswith_str, endswith_mapper. cbn [bind].
        destruct (ends_with_mapper k) as [field|] eqn:Ek; cbn iota; [|reflexivity].
        mapper_branch f IH MIgnored orig field Hhv Hev Hpe Ek.
    - (* second loop (renames through deep_get) and third loop (Deleted) *)
      intros o1 _. unfold enc_items.
      rewrite (foldM_sim enc_kv (fun _ => True) _ (fun s a => Ok (step2 s a)) m o1 I).
      + rewrite foldM_pure. cbn [enc_res bind].
        rewrite (foldM_sim enc_kv (fun _ => True) _ (fun s a => Ok (step3 s a)) m (fold_left step2 m o1) I).
        * rewrite foldM_pure. reflexivity.
        * intros out [k v] _ _ _. split; [|intros; exact I].
          cbn [enc_kv fst snd]. unfold step3. cbn [fst snd].
          rewrite eq_Deleted, in_dyn_str. cbn [py_and bind].
          destruct v; cbn iota; try reflexivity.
          rewrite delitem_str.
          destruct (dict_has out (PStr k)) eqn:Eh; cbn [bind enc_res]; [reflexivity|].
          rewrite (dict_del_absent _ _ Eh). reflexivity.
        * rewrite foldM_pure. reflexivity.
      + intros out [k v] _ _ _. split; [|intros; exact I].
        cbn [enc_kv fst snd]. unfold step2. cbn [fst snd].
        rewrite isinst_str.
        destruct v; cbn iota; try reflexivity.
        change (enc_mval (MKey path)) with (PStr path).
        rewrite src_deep_get. cbn [bind]. rewrite setitem_str. reflexivity.
      + rewrite foldM_pure. reflexivity.
  Qed.

  (* _convert(mapped_dict, mapping), for EVERY document and mapping on which the hand model predicts *)
  Theorem src_convert : forall m d,
      mapping_ok m = true ->
      predicted (convert fn m d) = true ->
      Src_convert call (PDict d) (enc_mapping m) = enc_res (convert fn m d).
  Proof.
    intros m d Hok Hp. unfold Src_convert. rewrite <- enc_mval_sub. rewrite convert_is_sub.
    apply src_convert_fuel_ok.
    - cbn [heights fold_right]. lia.
    - exact Hok.
    - exact Hp.
  Qed.

  (* ---------------------------------------------------------------- convert_dict *)

  (* the hand model of convert_dict is parametrised by the four integer literals of the source; the theorems are
     stated at the literals re-read from the source on this run (Gen/VersionedShape.v) *)
  Notation cdp := gen_cd_params.

  (* the start version feeds `- 1` and a slice bound: on a float the source's subtraction may round (the operator
     declines), on a Decimal / opaque object the operators decline; the hand model says TypeError for all of them *)
  Definition plain_version_val (v : option pyval) : bool :=
    match v with
    | Some (PNum (NFlt _ _)) | Some (PNum (NDec _ _))
    | Some (PEnum _ _ _) | Some (PStruct _ _) | Some (POther _ _) => false
    | _ => true
    end.
  Definition plain_version (d : dict) : bool := plain_version_val (dict_get d version_key).

  (* a version met by `+ 1` during the run: ints, bools, floats (exact sum, else both sides decline), Decimals
     (both decline), str / None / containers (TypeError on both sides) agree; only an opaque object does not *)
  Definition version_not_object_val (v : option pyval) : bool :=
    match v with
    | Some (PEnum _ _ _) | Some (PStruct _ _) | Some (POther _ _) => false
    | _ => true
    end.
  Definition version_not_object (d : dict) : bool := version_not_object_val (dict_get d version_key).

  Lemma has_version_plain d z : has_version d z -> plain_version d = true.
  Proof. unfold has_version, plain_version. intros H. rewrite H. reflexivity. Qed.

  Lemma plain_not_object d : plain_version d = true -> version_not_object d = true.
  Proof.
    unfold plain_version, version_not_object.
    destruct (dict_get d version_key) as [[|b|[z|m e|m e]|s|l|l|l|fr l|kv|c n y|c at'|tg r]|]; intros H;
      try discriminate H; reflexivity.
  Qed.

  (* the operator's exact float + int is the hand model's *)
  Lemma float_add_hand m e :
    float_add_int m e 1 =
    match Versioned.flt_add_int m e (cd_bump_inc cdp) with
    | Some (m', e') => Ok (PNum (NFlt m' e'))
    | None => Raise Unmodelled
    end.
  Proof.
    change (cd_bump_inc cdp) with 1.
    unfold float_add_int, Versioned.flt_add_int. change (Z.abs 1 <? two53) with true. cbn iota.
    destruct (e <? 0); unfold float_norm, flt_norm;
      match goal with
      | |- match ?x with _ => _ end = _ =>
          destruct x as [|q|q]; [reflexivity | cbv zeta; destruct (_ <? _); reflexivity ..]
      end.
  Qed.

  Lemma src_bump d :
    version_not_object d = true ->
    (t12 <- py_dict_get (PDict d) (PStr (s2p "version")) (zint 0) ;;
     t13 <- py_add t12 (zint 1) ;;
     t14 <- py_setitem (PDict d) (PStr (s2p "version")) t13 ;; Ok t14) = enc_res (bump_version cdp d).
  Proof.
    unfold version_not_object, bump_version, version_key. rewrite dict_get_str. cbn [bind].
    destruct (dict_get d (PStr (s2p "version"))) as [[|b|[z|m e|m e]|s|l|l|l|fr l|kv|c n y|c at'|tg r]|];
      cbn [version_not_object_val]; intros Hp; try discriminate Hp; try reflexivity.
    change (py_add (PNum (NFlt m e)) (zint 1)) with (float_add_int m e 1).
    rewrite float_add_hand.
    destruct (Versioned.flt_add_int m e (cd_bump_inc cdp)) as [[m' e']|]; reflexivity.
  Qed.

  Lemma bump_not_object d d' : bump_version cdp d = Ok d' -> version_not_object d' = true.
  Proof.
    unfold bump_version, version_not_object, version_key.
    destruct (dict_get d (PStr (s2p "version"))) as [[|b|[z|m e|m e]|s|l|l|l|fr l|kv|c n y|c at'|tg r]|];
      try (destruct (Versioned.flt_add_int m e (cd_bump_inc cdp)) as [[m' e']|]);
      intros H; inversion H; subst; rewrite dict_get_set_same; reflexivity.
  Qed.

  Lemma skipn_min {A} (l : list A) k : skipn (Nat.min (length l) k) l = skipn k l.
  Proof.
    destruct (Nat.le_gt_cases k (length l)) as [H|H].
    - rewrite Nat.min_r by exact H. reflexivity.
    - rewrite Nat.min_l by lia. rewrite !skipn_all2 by lia. reflexivity.
  Qed.

  Lemma slice_from_map {A B} (g : A -> B) l z :
    slice_list (Some z) None (map g l) = map g (py_slice_from l z).
  Proof.
    unfold slice_list, py_slice_from, clamp. rewrite map_length.
    destruct (Z.ltb_spec z 0) as [Hz|Hz].
    - destruct (Z.leb_spec 0 z) as [Hz'|_]; [lia|].
      rewrite firstn_all2 by (rewrite skipn_length, map_length; lia).
      apply skipn_map.
    - destruct (Z.leb_spec 0 z) as [_|Hz']; [|lia].
      rewrite firstn_all2 by (rewrite skipn_length, map_length; lia).
      rewrite skipn_map. rewrite skipn_min.
      destruct (Z.leb_spec (Z.of_nat (length l)) z) as [Hl|Hl]; [|reflexivity].
      rewrite skipn_all2 by lia. reflexivity.
  Qed.

  (* one version step of the hand model, on a document *)
  Definition hstep (d : dict) (m : mapping) : res dict := d' <- convert fn m d ;; bump_version cdp d'.

  Lemma fold_left_step l : forall d, fold_left (step fn cdp) l (Ok d) = foldM hstep l d.
  Proof.
    induction l as [|m t IH]; intros d; [reflexivity|].
    cbn [fold_left foldM]. change (step fn cdp (Ok d) m) with (hstep d m).
    destruct (hstep d m) as [d'|e]; cbn [bind]; [apply IH|apply (fold_step_raise fn cdp)].
  Qed.

  Lemma bind_ret {A} (r : res A) : (v <- r ;; Ok v) = r.
  Proof. destruct r; reflexivity. Qed.

  Lemma slice_list_from l i : py_slice (PList l) (Some (zint i)) None = Ok (PList (slice_list (Some i) None l)).
  Proof. reflexivity. Qed.

  Lemma forallb_slice_from {A} (P : A -> bool) l i : forallb P l = true -> forallb P (py_slice_from l i) = true.
  Proof.
    intros H. unfold py_slice_from. destruct (0 <=? i); [destruct (_ <=? i); [reflexivity|]|]; apply forallb_skipn; exact H.
  Qed.

  (* a loop simulation whose invariant may speak about the items still to come *)
  Lemma foldM_sim_rest {A B} (enc_a : A -> B) (I : list A -> dict -> Prop)
        (F : pyval -> B -> res pyval) (h : dict -> A -> res dict) :
    (forall out a t, I (a :: t) out -> predicted (h out a) = true ->
                     F (PDict out) (enc_a a) = enc_res (h out a) /\ (forall o', h out a = Ok o' -> I t o')) ->
    forall l out,
      I l out ->
      predicted (foldM h l out) = true ->
      foldM F (map enc_a l) (PDict out) = enc_res (foldM h l out).
  Proof.
    intros Hstep. induction l as [|a t IH]; intros out Hi Hp; [reflexivity|].
    cbn [map foldM] in *.
    apply predicted_bind in Hp. destruct Hp as [Hp1 Hp2].
    destruct (Hstep out a t Hi Hp1) as [Heq Hinv]. rewrite Heq.
    destruct (h out a) as [o'|e]; cbn [enc_res bind]; [|reflexivity].
    apply IH; [apply Hinv; reflexivity | apply Hp2; reflexivity].
  Qed.

  (* no version value that the hand model's run meets before a `+ 1` is an opaque object *)
  Fixpoint versions_plain (l : list mapping) (d : dict) : bool :=
    match l with
    | [] => true
    | m :: t =>
        match convert fn m d with
        | Ok d' => version_not_object d' &&
                   match bump_version cdp d' with Ok d'' => versions_plain t d'' | Raise _ => true end
        | Raise _ => true
        end
    end.

  Definition versions_plain_dict (d : dict) (maps : list mapping) : bool :=
    plain_version d &&
    match start_index cdp d with Ok i => versions_plain (py_slice_from maps i) d | Raise _ => true end.

  (* mappings that leave "version" alone (the hypothesis of the C17 theorems) never meet anything else *)
  Lemma keeps_versions_plain : forall l d,
      forallb keeps_version l = true -> version_not_object d = true -> versions_plain l d = true.
  Proof.
    induction l as [|m t IH]; intros d Hk Hp; [reflexivity|].
    cbn [forallb versions_plain] in *. apply andb_true_iff in Hk. destruct Hk as [Hm Hk].
    destruct (convert fn m d) as [d'|e] eqn:Ec; [|reflexivity].
    assert (Hpd : version_not_object d' = true)
      by (unfold version_not_object in *; rewrite (convert_keeps fn m d d' Hm Ec); exact Hp).
    rewrite Hpd. cbn [andb].
    destruct (bump_version cdp d') as [d''|e] eqn:Eb; [|reflexivity].
    apply IH; [exact Hk | exact (bump_not_object _ _ Eb)].
  Qed.

  Lemma keeps_versions_plain_dict d maps :
    forallb keeps_version maps = true -> plain_version d = true -> versions_plain_dict d maps = true.
  Proof.
    intros Hk Hp. unfold versions_plain_dict. rewrite Hp. cbn [andb].
    destruct (start_index cdp d) as [i|e]; [|reflexivity].
    apply keeps_versions_plain; [apply forallb_slice_from; exact Hk | apply plain_not_object; exact Hp].
  Qed.

  (* convert_dict(the_dict, versions_mapping) *)
  Theorem src_convert_dict_gen : forall d maps,
      forallb mapping_ok maps = true ->
      versions_plain_dict d maps = true ->
      predicted (convert_dict fn cdp d maps) = true ->
      Src_convert_dict call (PDict d) (enc_maps maps) = enc_res (convert_dict fn cdp d maps).
  Proof.
    intros d maps Hok Hvp Hp.
    unfold versions_plain_dict in Hvp. apply andb_true_iff in Hvp. destruct Hvp as [Hplain Hvp].
    unfold Src_convert_dict, convert_dict in *. rewrite dict_get_str. cbn [bind]. cbn zeta.
    unfold start_index in *. unfold plain_version in Hplain. unfold version_key in *.
    destruct (dict_get d (PStr (s2p "version"))) as [[|b|[z|m e|m e]|s|l|l|l|fr l|kv|c n y|c at'|tg r]|] eqn:Ev;
      cbn [plain_version_val] in Hplain; try discriminate Hplain; try reflexivity.
    all: cbn [bind] in *.
    all: match goal with
         | |- context [py_slice_from _ ?i] => change (py_sub _ (zint 1)) with (Ok (zint i))
         end.
    all: cbn [bind]; unfold enc_maps; rewrite slice_list_from, slice_from_map; cbn [bind];
      rewrite iter_list; cbn [bind]; rewrite fold_left_step in *; rewrite bind_ret.
    all: match goal with
         | |- context [py_slice_from ?ms ?i] =>
             pose proof (forallb_slice_from _ _ i Hok) as Hok';
             generalize dependent (py_slice_from ms i)
         end.
    all: intros l Hvp Hp Hok';
      apply (foldM_sim_rest enc_mapping
               (fun l0 d0 => forallb mapping_ok l0 = true /\ versions_plain l0 d0 = true));
      [ | split; [exact Hok' | exact Hvp] | exact Hp ];
      intros out m t [Hmt Hvt] Hps;
      cbn [forallb versions_plain] in Hmt, Hvt;
      apply andb_true_iff in Hmt; destruct Hmt as [Hm Ht];
      unfold hstep in *; apply predicted_bind in Hps; destruct Hps as [Hpc _];
      rewrite (src_convert m out Hm Hpc);
      (destruct (convert fn m out) as [d'|e0] eqn:Ec; cbn [enc_res bind]; [|split; [reflexivity|discriminate]]);
      apply andb_true_iff in Hvt; destruct Hvt as [Hpd Hvt];
      (split; [apply src_bump; exact Hpd | intros o' Ho; rewrite Ho in Hvt; split; [exact Ht | exact Hvt]]).
  Qed.

  (* ... under the hypotheses of the C17 theorems *)
  Theorem src_convert_dict : forall d maps,
      forallb mapping_ok maps = true ->
      forallb keeps_version maps = true ->
      plain_version d = true ->
      predicted (convert_dict fn cdp d maps) = true ->
      Src_convert_dict call (PDict d) (enc_maps maps) = enc_res (convert_dict fn cdp d maps).
  Proof.
    intros d maps Hok Hkeep Hplain Hp.
    apply src_convert_dict_gen; [exact Hok | apply keeps_versions_plain_dict; assumption | exact Hp].
  Qed.
End Convert.

(* ------------------------------------------------------------------ the side conditions are satisfiable *)

(* a two-step history with a rename through deep_get, a deletion, a constant, a nested mapper over a list of
   documents and two function calls, starting at version 1 *)
Definition src_ex_maps : list mapping :=
  [ [ (s2p "name", MKey (s2p "old.name")); (s2p "old", MDeleted); (s2p "k", MConst (PNum (NInt 7))) ];
    [ (s2p "sub._mapper", MSub [ (s2p "x", MFunc 2%N []) ]); (s2p "n", MFunc 3%N [s2p "name"; s2p "k"]) ] ].
Definition src_ex_doc : dict :=
  [ (PStr (s2p "version"), PNum (NInt 1));
    (PStr (s2p "old"), PDict [ (PStr (s2p "name"), PStr (s2p "joe")) ]);
    (PStr (s2p "sub"), PList [ PDict [ (PStr (s2p "x"), PNum (NInt 1)) ] ]) ].

Example src_side_conditions_satisfiable :
  forallb mapping_ok src_ex_maps = true /\ forallb keeps_version src_ex_maps = true /\
  plain_version src_ex_doc = true /\ versions_plain_dict std_fn src_ex_doc src_ex_maps = true /\
  predicted (convert_dict std_fn gen_cd_params src_ex_doc src_ex_maps) = true /\
  exists d', Src_convert_dict (call_of std_fn) (PDict src_ex_doc) (enc_maps src_ex_maps) = Ok (PDict d') /\
             dict_get d' (PStr (s2p "version")) = Some (PNum (NInt 3)) /\
             dict_get d' (PStr (s2p "name")) = Some (PStr (s2p "joe")).
Proof.
  repeat (split; [vm_compute; reflexivity|]).
  eexists. split; [vm_compute; reflexivity|]. split; vm_compute; reflexivity.
Qed.

(* ------------------------------------------------------------------ where the source and the hand model part *)

(* a mapping that sets "version" to a float: typedpy gives convert_dict({}, [{"version": Constant(1.5)}]) ==
   {"version": 2.5}; the source translation and the hand model (exact float + int) both say so *)
Example src_float_version_agrees :
  let maps := [ [ (s2p "version", MConst (PNum (NFlt 3 (-1)))) ] ] in
  Src_convert_dict (call_of std_fn) (PDict []) (enc_maps maps)
  = Ok (PDict [ (PStr (s2p "version"), PNum (NFlt 5 (-1))) ])
  /\ convert_dict std_fn gen_cd_params [] maps = Ok [ (PStr (s2p "version"), PNum (NFlt 5 (-1))) ]
  /\ versions_plain_dict std_fn [] maps = true.
Proof. vm_compute. repeat split; reflexivity. Qed.

(* the source literals are today the pinned ones *)
Example gen_cd_params_pinned : gen_cd_params = std_cd_params.
Proof. reflexivity. Qed.

(* a START version that is a float: CPython raises TypeError (slice index), the hand model says so, the operators
   subtract exactly when no rounding is needed and then agree; [plain_version] leaves the case out *)
Example start_float_version :
  let d := [ (PStr (s2p "version"), PNum (NFlt 3 (-1))) ] in
  plain_version d = false /\
  Src_convert_dict (call_of std_fn) (PDict d) (enc_maps []) = Raise TypeError /\
  convert_dict std_fn gen_cd_params d [] = Raise TypeError.
Proof. vm_compute. repeat split; reflexivity. Qed.

(* the hand model DECLINES on a non-dict reached through a "<field>._mapper" key ([predicted] = false); the source
   goes on: _convert({"a": 5}, {"a._mapper": {}}) == {"a": 5} in typedpy, and so says the translation *)
Example hand_declines_non_dict_content :
  let m := [ (s2p "a._mapper", MSub []) ] in
  let d := [ (PStr (s2p "a"), PNum (NInt 5)) ] in
  predicted (convert std_fn m d) = false /\
  Src_convert (call_of std_fn) (PDict d) (enc_mapping m) = Ok (PDict d).
Proof. vm_compute. split; reflexivity. Qed.

(* the operator library DECLINES on `.items()` of an opaque object ([mapping_ok] = false): typedpy raises
   AttributeError for {"a._mapper": Deleted} on {"a": {}}, as the hand model says *)
Example operators_decline_object_mapper :
  let m := [ (s2p "a._mapper", MDeleted) ] in
  let d := [ (PStr (s2p "a"), PDict []) ] in
  mapping_ok m = false /\
  convert std_fn m d = Raise AttributeError /\
  Src_convert (call_of std_fn) (PDict d) (enc_mapping m) = Raise Unmodelled.
Proof. vm_compute. repeat split; reflexivity. Qed.

Print Assumptions src_get_next_level.
Print Assumptions src_deep_get.
Print Assumptions src_convert_fuel_ok.
Print Assumptions src_convert.
Print Assumptions keeps_versions_plain_dict.
Print Assumptions src_convert_dict_gen.
Print Assumptions src_convert_dict.
Print Assumptions src_side_conditions_satisfiable.
Print Assumptions src_float_version_agrees.
