(* Model of typedpy/serialization/serialization.py::deserialize_structure_internal for a Versioned class
   (and of the two public entry points that lead to it), at the granularity the second sentence of
   property C17 needs: WHICH document -- the caller's old-version one or the converted one -- each later
   step of the function reads.  The table of read sites, the shape of the Versioned prelude and the shape of
   Versioned.__init__ are re-read from the source on every run (Gen/VersionedShape.v, written by
   harness/genmods/versioned_shape.py).  The class is one whose declared fields are all `Anything`.
   Executable; no proofs here. *)
From Coq Require Import ZArith NArith String Bool List.
Import ListNotations.
From TP Require Import Base.PyVal Ser.Versioned.
Local Open Scope Z_scope.

(* where a variable that holds "the document" got its value from *)
Inductive src := Raw | Converted | Mixed.
(* the step of deserialize_structure_internal that reads it *)
Inductive role :=
| RIsDict       (* the test `isinstance(<doc>, dict)` *)
| RCompact      (* compact form: deserialize_single_field(<the only field>, <doc>) *)
| RErrMsg       (* "Expected a dictionary; Got <doc>" *)
| RTrusted      (* anything inside the direct_trusted_mapping branch *)
| RUndefined    (* what the constructor arguments are initialised from: the non-field keys to keep *)
| RFields       (* the document given to construct_fields_map *)
| ROther.       (* a read the recogniser cannot attribute *)
Definition site := (role * src)%type.

Definition role_eqb (a b : role) : bool :=
  match a, b with
  | RIsDict, RIsDict | RCompact, RCompact | RErrMsg, RErrMsg | RTrusted, RTrusted
  | RUndefined, RUndefined | RFields, RFields | ROther, ROther => true
  | _, _ => false
  end.
Definition src_converted (s : src) : bool := match s with Converted => true | _ => false end.
Definition src_raw (s : src) : bool := match s with Raw => true | _ => false end.

(* a step reads the converted document iff every read site attributed to it does *)
Definition role_reads_converted (sites : list site) (r : role) : bool :=
  forallb (fun s => negb (role_eqb (fst s) r) || src_converted (snd s)) sites.
Definition has_role (sites : list site) (r : role) : bool := existsb (fun s => role_eqb (fst s) r) sites.

(* every read after the Versioned prelude is of the converted document, each is attributed, and the two
   steps that build the constructor arguments are there *)
Definition sites_ok (sites : list site) : bool :=
  forallb (fun s => src_converted (snd s) && negb (role_eqb (fst s) ROther)) sites
  && has_role sites RUndefined && has_role sites RFields.

(* the Versioned prelude:   if issubclass(cls, Versioned):
                               if not isinstance(d, dict) or "version" not in d: raise TypeError
                               if getattr(cls, VERSIONS_MAPPING):  <var> = convert_dict(<arg>, <the class's mapping>) *)
Inductive conv_guard := GuardMappingNonEmpty | GuardNone | GuardOther.
Record prelude := { pre_recognised : bool; pre_requires_version : bool; pre_conv_arg : src; pre_guard : conv_guard }.
Definition prelude_ok (pr : prelude) : bool :=
  pre_recognised pr && src_raw (pre_conv_arg pr) &&
  match pre_guard pr with GuardOther => false | _ => true end.

(* the class: names of the declared fields other than "version" (Anything, or scalar fields holding values of
   their own type: both pass the document's value through); _required; the class's own _additional_properties
   (None = not declared) *)
Record vclass := { vc_fields : list pystr; vc_required : list pystr; vc_additional : option bool;
                   (* every declared field is Integer/String/Float/Boolean: _structure_simplicity_level accepts
                      the class for direct_trusted_mapping *)
                   vc_trusted_eligible : bool }.
(* global defaults in force and the caller's keep_undefined *)
Record dopts := { o_keep_undefined : option bool;
                  o_trusted : bool;                         (* direct_trusted_mapping (no mapper, no camel-case) *)
                  o_additional_default : bool;              (* TypedPyDefaults.additional_properties_default *)
                  o_ignore_invalid_additional : bool }.     (* ...ignore_invalid_additional_properties_in_deserialization *)
Inductive entry := EDeserializer | EDeserializeStructure.

Definition ver_name : pystr := s2p "version".
Definition is_field (c : vclass) (k : pystr) : bool := pystr_eqb k ver_name || str_in k (vc_fields c).
Definition key_is_field (c : vclass) (k : pyval) : bool :=
  match k with PStr s => is_field c s | _ => false end.
Definition additional_allowed (c : vclass) (o : dopts) : bool :=
  match vc_additional c with Some b => b | None => o_additional_default o end.

(* Deserializer.deserialize: keep_undefined if given, else True exactly when the class forbids extras;
   deserialize_structure: keep_undefined defaults to True *)
Definition effective_keep (e : entry) (c : vclass) (o : dopts) : bool :=
  match o_keep_undefined o with
  | Some b => b
  | None => match e with EDeserializer => negb (additional_allowed c o) | EDeserializeStructure => true end
  end.

(* kwargs = {k: v for k, v in <doc>.items() if k not in field_by_name and keep_undefined
                       and (additional_props is True or not ignore_invalid...) } *)
Definition undefined_kwargs (e : entry) (c : vclass) (o : dopts) (source : dict) : dict :=
  if effective_keep e c o && (additional_allowed c o || negb (o_ignore_invalid_additional o))
  then filter (fun kv => negb (key_is_field c (fst kv))) source
  else [].

(* construct_fields_map for Anything fields without mappers: the value under the field's own name; an absent
   key and a null are both skipped *)
Definition fields_map (c : vclass) (source : dict) : dict :=
  fold_left (fun acc k => match dict_get source (PStr k) with
                          | Some v => if is_none v then acc else dict_set acc (PStr k) v
                          | None => acc
                          end) (ver_name :: vc_fields c) [].

Definition dict_update (a b : dict) : dict := fold_left (fun acc kv => dict_set acc (fst kv) (snd kv)) b a.

(* cls( ** kwargs): Versioned.__init__ (shape from the source), then Structure.__init__ -- missing required
   argument / unexpected keyword -> TypeError; the public state of the new instance otherwise *)
Definition construct (ish : init_shape) (c : vclass) (o : dopts) (maps : list mapping) (kw : dict) : res dict :=
  let kw' := versioned_init_kwargs_s ish maps kw in
  if negb (forallb (fun k => dict_has kw' (PStr k)) (vc_required c)) then Raise TypeError
  else if negb (additional_allowed c o) && existsb (fun kv => negb (key_is_field c (fst kv))) kw' then Raise TypeError
  else Ok kw'.

(* the direct_trusted_mapping branch for a flat eligible class without mappers and enums:
   cls.from_trusted_data(<doc>) -- the values of the declared fields that the document has, as they are (no
   validation, no required check, non-field keys dropped); Versioned.__init__ still sets the version *)
Definition trusted_construct (ish : init_shape) (c : vclass) (maps : list mapping) (source : dict) : res dict :=
  Ok (versioned_init_kwargs_s ish maps (filter (fun kv => key_is_field c (fst kv)) source)).

Section WithFunctions.
  Variable fn : N -> list pyval -> res pyval.
  Variable p : cd_params.

  (* the value of the variable the later steps call "the converted document" *)
  Definition prelude_convert (pr : prelude) (maps : list mapping) (raw : dict) : res dict :=
    match pre_guard pr, maps with
    | GuardMappingNonEmpty, [] => Ok raw
    | _, _ => convert_dict fn p raw maps
    end.

  Definition deser_internal (pr : prelude) (sites : list site) (ish : init_shape)
             (e : entry) (c : vclass) (o : dopts) (maps : list mapping) (raw : dict) : res dict :=
    if pre_requires_version pr && negb (dict_has raw version_key) then Raise TypeError else
    conv <- prelude_convert pr maps raw ;;
    let pick r := if role_reads_converted sites r then conv else raw in
    if o_trusted o && vc_trusted_eligible c then trusted_construct ish c maps (pick RTrusted)
    else construct ish c o maps
                   (dict_update (undefined_kwargs e c o (pick RUndefined)) (fields_map c (pick RFields))).
End WithFunctions.

(* the read sites as the pinned source has them (every read is of the converted document) *)
Definition std_sites : list site :=
  [ (RTrusted, Converted); (RIsDict, Converted); (RCompact, Converted); (RErrMsg, Converted);
    (RUndefined, Converted); (RFields, Converted) ].
Definition std_prelude : prelude :=
  {| pre_recognised := true; pre_requires_version := true; pre_conv_arg := Raw; pre_guard := GuardMappingNonEmpty |}.
