(* C10, deserialization side: the validated ("regular") deserialization of a Structure class and the
   trusted shortcut  deserialize_structure(..., direct_trusted_mapping=True)
   (typedpy/serialization/serialization.py: _is_mapper_simple, _structure_simplicity_level,
   _get_enum_mapping, get_flat_resolved_mapper, _remap_input, Structure.from_trusted_data and the
   trusted branch of Structure.__init__).
   The class AST of this file is the view the two (de)serializers have of a declaration: leaves
   (what the classifier calls "valid classes"), Array/Set, class references, AnyOf, everything else.
   Primitive leaves reuse the field AST and the __set__ chains of Fields/SetChain.v (vset).
   Behaviour outside the modelled fragment (SerializableField.deserialize / serialize of date-like
   fields, Map/Tuple/... fields) is taken from oracles, instantiated per case from the real code.
   Executable; no proofs here. *)
From Coq Require Import ZArith QArith NArith String Ascii Bool Lia List.
Import ListNotations.
From TP Require Import Base.PyVal Base.PyEq Fields.FieldAst Fields.SetChain.
Local Open Scope Z_scope.

(* ------------------------------------------------------------------ declarations *)

Inductive leaf :=
| LPrim (f : field)                                               (* Integer/Float/Number/String/Boolean/NoneField *)
| LEnum (cls : pystr) (members : list (pystr * pyval)) (by_value : bool)   (* Enum over an enum.Enum class *)
| LEnumLit (values : list pyval)                                  (* Enum over literal values *)
| LSer (id : N) (is_number : bool).                               (* DateField/DateTime/TimeField/DecimalNumber *)

Inductive tfield :=
| TLeaf (l : leaf)
| TArray (item : tfield)
| TSet (item : tfield)
| TRef (cls : pystr)
| TOpt (none_first : bool) (f : tfield)     (* AnyOf[f, None] (Optional[f]) / AnyOf[None, f] *)
| TUnion (ls : list leaf)                   (* any other AnyOf whose options are all "valid classes" *)
| TOther (id : N) (is_oneof : bool).        (* Map, Tuple, Anything, Array without items, OneOf, ... *)

Inductive mval := MStr (s : pystr) | MFun | MObj.
Inductive mapper :=
| MapNone | MapCamel | MapUpper             (* no mapper / mappers.TO_CAMELCASE / mappers.TO_LOWERCASE *)
| MapDict (kv : list (pystr * mval))
| MapList.                                  (* a list of chained mappers *)

Record tfd := { f_name : pystr; f_ty : tfield; f_default : option pyval }.

Record tclass := {
  t_name : pystr;
  t_fields : list tfd;
  t_required : list pystr;
  t_additional : bool;
  t_ignore_none : bool;
  t_mapper : mapper;
  t_fast : bool }.                          (* declared with the FastSerializable mix-in *)

Definition tenv := list tclass.

Fixpoint find_tclass (e : tenv) (n : pystr) : option tclass :=
  match e with
  | [] => None
  | c :: t => if pystr_eqb (t_name c) n then Some c else find_tclass t n
  end.

Fixpoint find_tfd (l : list tfd) (n : pystr) : option tfd :=
  match l with
  | [] => None
  | d :: t => if pystr_eqb (f_name d) n then Some d else find_tfd t n
  end.

Definition has_field (c : tclass) (n : pystr) : bool :=
  match find_tfd (t_fields c) n with Some _ => true | None => false end.

(* ------------------------------------------------------------------ key renaming *)

Definition is_lower (c : N) : bool := (97 <=? c)%N && (c <=? 122)%N.
Definition is_upper (c : N) : bool := (65 <=? c)%N && (c <=? 90)%N.
Definition up (c : N) : N := if is_lower c then (c - 32)%N else c.
Definition low (c : N) : N := if is_upper c then (c + 32)%N else c.
Definition str_upper (s : pystr) : pystr := map up s.

(* str.title() on ASCII *)
Fixpoint title_aux (prev : bool) (s : pystr) : pystr :=
  match s with
  | [] => []
  | c :: t => if is_lower c || is_upper c
              then (if prev then low c else up c) :: title_aux true t
              else c :: title_aux false t
  end.

Fixpoint split_on (sep : N) (s cur : pystr) : list pystr :=
  match s with
  | [] => [rev cur]
  | c :: t => if (c =? sep)%N then rev cur :: split_on sep t [] else split_on sep t (c :: cur)
  end.

(* mappers._convert_to_camelcase *)
Definition camel (s : pystr) : pystr :=
  match split_on 95%N s [] with
  | [] => []
  | w :: ws => w ++ concat (map (title_aux false) ws)
  end.

Definition own_key (m : mapper) (k : pystr) : pystr :=
  match m with
  | MapCamel => camel k
  | MapUpper => str_upper k
  | MapDict kv => match alist_get kv k with Some (MStr s) => s | _ => k end
  | _ => k
  end.

Definition special (m : mapper) : list mapper :=
  match m with MapCamel | MapUpper => [m] | _ => [] end.
Definition is_special (m : mapper) : bool :=
  match m with MapCamel | MapUpper => true | _ => false end.

(* the key the *regular* (de)serializer uses for field k of a class reached through outer classes
   whose mappers.TO_* mappers (nearest first) are applied on top of the class's own mapping *)
Definition reg_key (inh : list mapper) (c : tclass) (k : pystr) : pystr :=
  fold_left (fun acc m => own_key m acc) inh (own_key (t_mapper c) k).

Fixpoint is_prefix (p s : pystr) : bool :=
  match p, s with
  | [], _ => true
  | x :: p', y :: s' => (x =? y)%N && is_prefix p' s'
  | _ :: _, [] => false
  end.
Definition ends_with (suffix s : pystr) : bool := is_prefix (rev suffix) (rev s).
Definition dot_mapper : pystr := s2p "._mapper".

(* _is_mapper_simple *)
Definition mapper_simple (m : mapper) : bool :=
  match m with
  | MapNone | MapCamel | MapUpper => true
  | MapList => false
  | MapDict kv => forallb (fun p => negb (ends_with dot_mapper (fst p)) &&
                                    match snd p with MStr _ => true | _ => false end) kv
  end.

Definition is_none (v : pyval) : bool := match v with PNone => true | _ => false end.

(* commons.deep_get on a dotted path; PNone = absent *)
Fixpoint deep_get_path (d : pyval) (path : list pystr) : pyval :=
  match path with
  | [] => d
  | k :: t =>
      if negb (py_truthy d) then PNone
      else match d with
           | PDict kv => match dict_get kv (PStr k) with Some v => deep_get_path v t | None => PNone end
           | _ => PNone
           end
  end.

(* get_processed_input (non-strict mapping): the mapped key, falling back to the field's own name;
   an explicit null counts as absent *)
Definition lookup_reg (inh : list mapper) (c : tclass) (kv : list (pyval * pyval)) (k : pystr) : option pyval :=
  let v := deep_get_path (PDict kv) (split_on 46%N (reg_key inh c k) []) in
  let v := if is_none v then match dict_get kv (PStr k) with Some x => x | None => PNone end else v in
  if is_none v then None else Some v.

Definition leaf_is_ser (l : leaf) : bool := match l with LPrim _ => false | _ => true end.
Definition none_leaf : tfield := TLeaf (LPrim FNone).
Definition is_none_leaf (l : leaf) : bool := match l with LPrim FNone => true | _ => false end.

Definition all_hashable (l : list pyval) : bool := forallb py_hashable l.

(* membership in a Python set: equal hash and ==.  Structure.__hash__ is hash(str(self)), so two
   instances that are == but print differently (a = 7 / a = 7.0) are distinct elements. *)
Definition elem_eq (x y : pyval) : bool :=
  py_eq x y && match x with PStruct _ _ => pyval_eqb x y | _ => true end.
Fixpoint set_dedup_aux (seen l : list pyval) : list pyval :=
  match l with
  | [] => rev seen
  | x :: t => if existsb (elem_eq x) seen then set_dedup_aux seen t else set_dedup_aux (x :: seen) t
  end.
Definition set_dedup (l : list pyval) : list pyval := set_dedup_aux [] l.

Inductive level := NotNested | Nested.

Fixpoint first_ok {A} (f : A -> res pyval) (l : list A) : res pyval :=
  match l with
  | [] => Raise ValueError
  | x :: t => match f x with
              | Ok w => Ok w
              | Raise Unmodelled => Raise Unmodelled      (* the model declines: do not guess the next option *)
              | Raise _ => first_ok f t
              end
  end.

(* dict-valued document with string keys, as an association list (later duplicates override) *)
Fixpoint doc_alist (kv : list (pyval * pyval)) : option (list (pystr * pyval)) :=
  match kv with
  | [] => Some []
  | (PStr k, v) :: t => match doc_alist t with Some r => Some ((k, v) :: r) | None => None end
  | _ => None
  end.

Section WithOracles.
  Variable re_match : N -> pystr -> bool.
  Variable sdeser : N -> pyval -> res pyval.     (* SerializableField.deserialize of field #id *)
  Variable ostore : N -> pyval -> res pyval.     (* regular deserialize + __set__ of an unmodelled field #id *)
  Variable e : tenv.

  (* ---------------------------------------------------------------- regular path, per field *)

  (* deserialize_single_field followed by the constructor's __set__ *)
  Definition reg_leaf (l : leaf) (v : pyval) : res pyval :=
    match l with
    | LPrim f => vset re_match [] f v
    | LEnum cls ms byv =>
        if byv then
          (* `value not in self._enum_by_value` hashes the value *)
          if negb (py_hashable v) then Raise TypeError
          else match find (fun p => py_eq (snd p) v) ms with
               | Some (n, x) => Ok (PEnum cls n x)
               | None => Raise ValueError
               end
        else match v with
             | PStr n => match alist_get ms n with Some x => Ok (PEnum cls n x) | None => Raise ValueError end
             | _ => Raise ValueError
             end
    | LEnumLit vals => if py_in v vals then Ok v else Raise ValueError
    | LSer id _ => sdeser id v
    end.

  (* the two halves, needed for AnyOf: what deserialize_single_field returns ... *)
  Definition leaf_deser (l : leaf) (v : pyval) : res pyval :=
    match l with
    | LPrim FNone => Raise ValueError        (* deserialize_single_field(NoneField(), v), v not None: "Expected None" *)
    | LPrim f => match vset re_match [] f v with Ok _ => Ok v | Raise x => Raise x end
    | _ => reg_leaf l v
    end.
  (* ... and what the option's __set__ stores for an already deserialized value *)
  Definition leaf_set (l : leaf) (v : pyval) : res pyval :=
    match l with
    | LPrim f => vset re_match [] f v
    | LEnum cls ms _ =>
        match v with
        | PEnum c n _ => if pystr_eqb c cls && alist_has ms n then Ok v else Raise ValueError
        | PStr n => match alist_get ms n with Some x => Ok (PEnum cls n x) | None => Raise ValueError end
        | _ => Raise ValueError
        end
    | LEnumLit vals => if py_in v vals then Ok v else Raise ValueError
    | LSer id _ => match v with
                   | POther _ _ | PNum (NDec _ _) => Ok v
                   | PStr _ => sdeser id v
                   | _ => Raise TypeError
                   end
    end.

  (* [dc]: deserialization of a referenced class with the mapper context of this position,
     [dc0]: without inherited mappers (class references reached through an AnyOf) *)
  Fixpoint reg_store (dc dc0 : pystr -> pyval -> res pyval) (tf : tfield) (v : pyval) {struct tf} : res pyval :=
    match tf with
    | TLeaf l => reg_leaf l v
    | TArray item =>
        match v with
        | PList l => r <- mapM (reg_store dc dc0 item) l ;; Ok (PList r)
        | _ => Raise ValueError
        end
    | TSet item =>
        match v with
        | PList l => r <- mapM (reg_store dc dc0 item) l ;;
                     if all_hashable r then Ok (PSet false (set_dedup r)) else Raise TypeError
        | _ => Raise ValueError
        end
    | TRef c => dc c v
    | TOpt nf f => reg_store dc0 dc0 f v       (* v is not None: the NoneField option rejects it, wherever it is listed *)
    | TUnion ls => d <- first_ok (fun l => leaf_deser l v) ls ;; first_ok (fun l => leaf_set l d) ls
    | TOther id _ => ostore id v
    end.

  Fixpoint collect_reg (store : tfield -> pyval -> res pyval) (inh : list mapper) (c : tclass)
           (kv : list (pyval * pyval)) (fs : list tfd) : res (list (pystr * pyval)) :=
    match fs with
    | [] => Ok []
    | fd :: t =>
        match lookup_reg inh c kv (f_name fd) with
        | None => collect_reg store inh c kv t
        | Some v =>
            w <- store (f_ty fd) v ;; r <- collect_reg store inh c kv t ;;
            (* Structure.__setattr__ ignores None for optional fields of an _ignore_none class *)
            if is_none w && t_ignore_none c && negb (str_in (f_name fd) (t_required c)) then Ok r
            else Ok ((f_name fd, w) :: r)
        end
    end.

  Definition defaults_for (c : tclass) (a : list (pystr * pyval)) : list (pystr * pyval) :=
    flat_map (fun fd => match f_default fd with
                        | Some d => if alist_has a (f_name fd) then [] else [(f_name fd, d)]
                        | None => []
                        end) (t_fields c).

  (* keys of the document that are not field names, kept as attributes (keep_undefined) *)
  Fixpoint extras_of (c : tclass) (kv : list (pyval * pyval)) : list (pystr * pyval) :=
    match kv with
    | [] => []
    | (PStr k, v) :: t =>
        if has_field c k || (t_ignore_none c && is_none v) then extras_of c t else (k, v) :: extras_of c t
    | _ :: t => extras_of c t
    end.

  (* deserialize_structure_internal without the trusted branch, then Structure.__init__ *)
  Fixpoint deser_regular (fuel : nat) (ku : bool) (inh : list mapper) (cn : pystr) (d : pyval) : res pyval :=
    match fuel with
    | O => Raise OutOfFuel
    | S n =>
        match find_tclass e cn with
        | None => Raise Unmodelled
        | Some c =>
            match d with
            | PDict kv =>
                match doc_alist kv, t_mapper c with
                | None, _ | _, MapList => Raise Unmodelled     (* chained mappers: outside the model *)
                | Some _, _ =>
                    let ku' := ku && negb (is_special (t_mapper c)) in
                    let inh' := special (t_mapper c) ++ inh in
                    a <- collect_reg (reg_store (deser_regular n ku' inh') (deser_regular n ku' [])) inh c kv (t_fields c) ;;
                    let ex := if ku' && t_additional c then extras_of c kv else [] in
                    (* a required field with a default is not a required argument of the signature *)
                    let a' := defaults_for c a ++ a in
                    if negb (forallb (fun r => alist_has a' r) (t_required c)) then Raise TypeError
                    else Ok (PStruct cn (ex ++ a'))
                end
            | _ => Raise Unmodelled      (* compact (non-dict) documents are outside the model *)
            end
        end
    end.

  (* ---------------------------------------------------------------- the classifier *)

  (* _structure_simplicity_level: Raise ValueError = unsupported mapper, Ok None = False *)
  Fixpoint level_of (fuel : nat) (cn : pystr) : res (option level) :=
    match fuel with
    | O => Raise OutOfFuel
    | S n =>
        match find_tclass e cn with
        | None => Raise Unmodelled
        | Some c =>
            if negb (mapper_simple (t_mapper c)) then Raise ValueError
            else
              (fix go (fs : list tfd) (lv : level) {struct fs} : res (option level) :=
                 match fs with
                 | [] => Ok (Some lv)
                 | fd :: t =>
                     let via_class c' :=
                         match level_of n c' with
                         | Raise x => Raise x
                         | Ok None => Ok None
                         | Ok (Some _) => go t Nested
                         end in
                     match f_ty fd with
                     | TLeaf l => go t (if leaf_is_ser l then Nested else lv)
                     | TOpt _ _ => go t Nested
                     | TUnion _ => go t lv
                     | TArray (TLeaf _) => go t lv
                     | TArray (TRef c') => via_class c'
                     | TArray _ => Ok None
                     | TSet (TLeaf _) => go t Nested
                     | TSet (TRef c') => via_class c'
                     | TSet _ => Ok None
                     | TRef c' => via_class c'
                     | TOther _ _ => Ok None
                     end
                 end) (t_fields c) NotNested
        end
    end.

  Definition eligible (fuel : nat) (cn : pystr) : bool :=
    match level_of fuel cn with Ok (Some _) => true | _ => false end.

  (* ---------------------------------------------------------------- trusted path *)

  (* get_flat_resolved_mapper: document key -> field name *)
  Definition flat_mapping (c : tclass) : list (pystr * pystr) :=
    fold_left (fun acc fd => alist_set acc (own_key (t_mapper c) (f_name fd)) (f_name fd)) (t_fields c) [].

  Definition rename_doc (c : tclass) (doc : list (pystr * pyval)) : list (pystr * pyval) :=
    let fm := flat_mapping c in
    fold_left (fun acc p => alist_set acc (match alist_get fm (fst p) with Some k => k | None => fst p end) (snd p))
              doc [].

  (* _get_enum_mapping / _enum_lookup: the enum class whose members the document value of the field is looked up in,
     and how: by member NAME, or by member VALUE for Enum(values=E, serialization_by_value=True).  The option
     that is looked at (_leading_option): the field itself, the non-None option of AnyOf[T, None] / AnyOf[None, T],
     the FIRST option of any other AnyOf that lists None.  None = the field has no entry in the mapping. *)
  Definition etarget := (pystr * list (pystr * pyval) * bool)%type.

  Definition enum_leaf_target (l : leaf) : option etarget :=
    match l with LEnum cls ms byv => Some (cls, ms, byv) | _ => None end.

  Definition enum_target (tf : tfield) : option etarget :=
    match tf with
    | TLeaf l => enum_leaf_target l
    | TOpt _ (TLeaf l) => enum_leaf_target l
    | TUnion ls =>
        if existsb is_none_leaf ls then match ls with l :: _ => enum_leaf_target l | [] => None end else None
    | _ => None
    end.

  Definition enum_targets (fs : list tfd) : list (pystr * etarget) :=
    flat_map (fun fd => match enum_target (f_ty fd) with Some x => [(f_name fd, x)] | None => [] end) fs.

  (* _get_enum_mapping returns {**without_optionals, **optionals}: the plain Enum[E] fields come first, then
     the Optional / AnyOf ones, each group in declaration order (a stable partition). *)
  Definition is_plain_enum (tf : tfield) : bool :=
    match tf with TLeaf (LEnum _ _ _) => true | _ => false end.
  Definition enum_order (fs : list tfd) : list tfd :=
    filter (fun fd => is_plain_enum (f_ty fd)) fs ++ filter (fun fd => negb (is_plain_enum (f_ty fd))) fs.

  (* mapping[value]: E[name] / E._enum_by_value[value] *)
  Definition enum_member (ms : list (pystr * pyval)) (byv : bool) (v : pyval) : option (pystr * pyval) :=
    if byv then find (fun p => py_eq (snd p) v) ms
    else match v with
         | PStr n => match alist_get ms n with Some x => Some (n, x) | None => None end
         | _ => None
         end.

  Fixpoint apply_enums (ts : list (pystr * etarget)) (inp acc : list (pystr * pyval))
    : res (list (pystr * pyval)) :=
    match ts with
    | [] => Ok acc
    | (k, (cls, ms, byv)) :: t =>
        match alist_get inp k with
        | Some v =>
            if py_truthy v then
              if negb (py_hashable v) then Raise TypeError
              else match enum_member ms byv v with
                   | Some (n, x) => apply_enums t inp (alist_set acc k (PEnum cls n x))
                   | None => Raise KeyError
                   end
            else apply_enums t inp acc
        | None => apply_enums t inp acc
        end
    end.

  (* field.items.deserialize applied to the WHOLE list (the Array branch of _remap_input) *)
  Definition leaf_deser_whole (l : leaf) (v : pyval) : res pyval :=
    match l with
    | LSer id _ => sdeser id v
    | LEnum _ _ _ => reg_leaf l v
    | LEnumLit vals => if py_in v vals then Ok v else Raise ValueError
    | LPrim _ => Ok v
    end.

  Definition mk_set (r : list pyval) : res pyval :=
    if all_hashable r then Ok (PSet false (set_dedup r)) else Raise TypeError.

  (* one entry of _remap_input for a non-None value (every key of the input is kept) *)
  Definition remap_plain (tc : pystr -> pyval -> res pyval) (tf : tfield) (v : pyval) : res pyval :=
    match tf with
    | TRef c => tc c v
    | TLeaf (LSer id _) => sdeser id v
    | TLeaf _ => Ok v
    | TArray (TRef c) =>
        match v with
        | PList l => r <- mapM (tc c) l ;; Ok (PList r)
        | _ => Raise Unmodelled
        end
    | TArray (TLeaf l) => if leaf_is_ser l then leaf_deser_whole l v else Ok v
    | TArray _ => Ok v
    | TSet (TLeaf (LPrim _)) => match v with PList l => mk_set l | _ => Raise Unmodelled end
    | TSet (TLeaf l) =>
        match v with PList xs => r <- mapM (reg_leaf l) xs ;; mk_set r | _ => Raise Unmodelled end
    | TSet (TRef c) =>
        match v with PList xs => r <- mapM (tc c) xs ;; mk_set r | _ => Raise Unmodelled end
    | TSet _ => match v with PList l => mk_set l | _ => Raise Unmodelled end     (* the final else: set(v) *)
    | _ => Ok v
    end.

  (* _extract_non_nonefield_from_optional: the option that is not None, wherever None is listed *)
  Definition remap_field (tc : pystr -> pyval -> res pyval) (tf : tfield) (v : pyval) : res pyval :=
    match tf with
    | TOpt _ f => remap_plain tc f v
    | _ => remap_plain tc tf v
    end.

  Fixpoint remap_input (tc : pystr -> pyval -> res pyval) (c : tclass) (inp : list (pystr * pyval))
    : res (list (pystr * pyval)) :=
    match inp with
    | [] => Ok []
    | (k, v) :: t =>
        if is_none v then
          r <- remap_input tc c t ;; Ok (if t_ignore_none c then r else (k, PNone) :: r)
        else
          match find_tfd (t_fields c) k with
          | None => r <- remap_input tc c t ;; Ok ((k, v) :: r)
          | Some fd => w <- remap_field tc (f_ty fd) v ;; r <- remap_input tc c t ;; Ok ((k, w) :: r)
          end
    end.

  (* Structure.from_trusted_data(mapping): the fields present in the mapping, stored as they are *)
  Definition from_trusted_map (c : tclass) (m : list (pystr * pyval)) : pyval :=
    PStruct (t_name c)
            (flat_map (fun fd => match alist_get m (f_name fd) with
                                 | Some v => [(f_name fd, v)]
                                 | None => []
                                 end) (t_fields c)).

  Fixpoint trusted_cls (fuel : nat) (lv : level) (cn : pystr) (d : pyval) : res pyval :=
    match fuel with
    | O => Raise OutOfFuel
    | S n =>
        match find_tclass e cn with
        | None => Raise Unmodelled
        | Some c =>
            match d with
            | PDict kv =>
                match doc_alist kv with
                | None => Raise Unmodelled
                | Some doc =>
                    (* get_flat_resolved_mapper calls mapper.get: a list of mappers has no such method *)
                    _ <- match t_mapper c with MapList => Raise AttributeError | _ => Ok tt end ;;
                    let inp := rename_doc c doc in
                    upd <- apply_enums (enum_targets (enum_order (t_fields c))) inp inp ;;
                    m <- match lv with
                         | Nested => remap_input (trusted_cls n Nested) c upd
                         | NotNested => Ok upd
                         end ;;
                    Ok (from_trusted_map c m)
                end
            | _ => Raise Unmodelled
            end
        end
    end.

  (* deserialize_structure(cls, d, keep_undefined=ku, direct_trusted_mapping=True) *)
  Definition deser_trusted (fuel : nat) (ku : bool) (cn : pystr) (d : pyval) : res pyval :=
    match level_of fuel cn with
    | Raise x => Raise x
    | Ok None => deser_regular fuel ku [] cn d
    | Ok (Some lv) => trusted_cls fuel lv cn d
    end.

  (* ---------------------------------------------------------------- equality of instances *)

  (* Structure.__eq__ compares getattr on both sides: an attribute that is absent reads as its
     default (None without one).  The observation of an instance: per field, what getattr returns. *)
  Definition getattr_m (c : tclass) (a : list (pystr * pyval)) (k : pystr) : pyval :=
    match alist_get a k with
    | Some v => v
    | None => match find_tfd (t_fields c) k with
              | Some fd => match f_default fd with Some d => d | None => PNone end
              | None => PNone
              end
    end.
End WithOracles.

(* ------------------------------------------------------------------ from_trusted_data with keywords, on a classdef *)

(* Structure.from_trusted_data(None, kw...) / an instance of a class marked trust_supplied_values:
   the keyword arguments become the instance's attributes unchanged *)
Definition from_trusted (c : classdef) (kw : list (pystr * pyval)) : pyval := PStruct (c_name c) kw.
