(* The tie between the GENERATED translation of the serialization side of typedpy/serialization/serialization.py
   (Gen/SerializeSrc.v: what serialize_val, serialize_multifield_wrapper, serialize_field, _get_mapped_value,
   _convert_to_camel_case_if_required, serialize_internal, serialize and the class statements of the package say
   NOW) and the hand-written model of Ser/Serialize.v on which the C05 / C08 / C10 theorems are proved
   (ser_val, ser_any, ser_attrs, ser_struct, serialize).

   Every theorem is about EVERY class environment, field declaration, value, fuel.  How a model-level description
   is seen as the Python-level arguments is fixed in the first part of this file ([ser_world]):
     * a Field object is the reference [iref address]; the address of the i-th declared field of the c-th class
       of the environment is [c; i], the address of the j-th sub-field (items / get_fields()) of the field at
       address p is p ++ [j]; its class is the real class name ([field_class]); its methods _validate and
       serialize are answered by the model ([validate_weak], [ser_enum_member]);
     * a Structure class is [ref name]; get_all_fields_by_name() and its own __dict__ (_required,
       _additional_properties) are in the heap; it has NO serialization mapper (aggregate_serialization_mappers
       answers the identity renaming of its fields), is not FastSerializable, has no _additional_serialization
       and does not enable Undefined -- the configuration Ser/Serialize.v covers;
     * an instance is the value [PStruct cls dict], dict = instance.__dict__ INCLUDING the internal entries
       (_instantiated, _none_fields, _trust_supplied_values) for the instance serialize_internal is applied to.

   The statements are REFINEMENTS ([refines]): the generated function returns what the model returns wherever the
   model predicts (does not answer Unmodelled / OutOfFuel) and the translation's own fuel suffices. *)
From Coq Require Import ZArith QArith NArith String Ascii Bool Lia List.
Import ListNotations.
From TP Require Import Base.PyVal Base.PyOps Base.PyOps2 Base.PyObj Base.PyOpsFields Base.PyOpsSerialize
     Fields.FieldAst Fields.SetChain Ser.Json Ser.Serialize Gen.SerializeSrc.
From TP Require Base.PyOpsDerive.
Local Open Scope Z_scope.

Notation tbl := serialize_class_table.

(* ------------------------------------------------------------------ refinement *)

Definition declines {A} (r : res A) : Prop := exists x, r = Raise x /\ model_exn x = true.

(* the generated function [r] against the model [m] *)
Definition refines {A} (r m : res A) : Prop := r = Raise OutOfFuel \/ declines m \/ r = m.

Lemma refines_refl {A} (r : res A) : refines r r.
Proof. right; right; reflexivity. Qed.

Lemma refines_declines {A} (r m : res A) : declines m -> refines r m.
Proof. intro H. right; left; exact H. Qed.

Lemma declines_unmodelled {A} : declines (@Raise A Unmodelled).
Proof. exists Unmodelled. split; reflexivity. Qed.
Lemma declines_outoffuel {A} : declines (@Raise A OutOfFuel).
Proof. exists OutOfFuel. split; reflexivity. Qed.
#[local] Hint Resolve declines_unmodelled declines_outoffuel refines_refl : sv.

Lemma refines_unm {A} (r : res A) : refines r (Raise Unmodelled).
Proof. apply refines_declines, declines_unmodelled. Qed.
Lemma refines_oof {A} (m : res A) : refines (Raise OutOfFuel) m.
Proof. left; reflexivity. Qed.
#[local] Hint Resolve refines_unm refines_oof : sv.

Lemma refines_bind {A B} (r m : res A) (f g : A -> res B) :
  refines r m -> (forall a, r = Ok a -> m = Ok a -> refines (f a) (g a)) -> refines (bind r f) (bind m g).
Proof.
  intros [H|[H|H]] Hf.
  - subst r. left; reflexivity.
  - destruct H as (x & -> & Hx). right; left. exists x. split; [reflexivity|exact Hx].
  - subst m. destruct r as [a|x]; cbn [bind]; [apply Hf; reflexivity|apply refines_refl].
Qed.

(* the same with the model side written with a match (mapR-style) *)
Lemma refines_bind_l {A B} (r : res A) (f g : A -> res B) :
  (forall a, r = Ok a -> refines (f a) (g a)) -> refines (bind r f) (bind r g).
Proof. intro H. apply refines_bind; [apply refines_refl|]. intros a Ha _. apply H, Ha. Qed.

(* a bind whose first computation is itself a bind *)
Lemma refines_bind2 {A B C} (r m : res A) (k : A -> res B) (f : B -> res C) (g : A -> res C) :
  refines r m -> (forall a, r = Ok a -> m = Ok a -> refines (b <- k a ;; f b) (g a)) ->
  refines (b <- (a <- r ;; k a) ;; f b) (a <- m ;; g a).
Proof.
  intros [H|[H|H]] Hf.
  - subst r. left; reflexivity.
  - destruct H as (x & -> & Hx). right; left. exists x. split; [reflexivity|exact Hx].
  - subst m. destruct r as [a|x]; cbn [bind]; [apply Hf; reflexivity|apply refines_refl].
Qed.

Lemma refines_ok_inv {A} (r m : res A) (a : A) : refines r m -> m = Ok a -> r = Raise OutOfFuel \/ r = Ok a.
Proof.
  intros [H|[H|H]] Hm; [left; exact H| |right; congruence].
  destruct H as (x & Hx & _). congruence.
Qed.

(* ------------------------------------------------------------------ how a declaration is seen as Python objects *)

Definition num_class (k : numkind) (s : sign) : pystr :=
  match k, s with
  | KNumber, SAny => s2p "Number" | KNumber, SPositive => s2p "Positive" | KNumber, SNegative => s2p "Negative"
  | KNumber, SNonPositive => s2p "NonPositive" | KNumber, SNonNegative => s2p "NonNegative"
  | KInteger, SAny => s2p "Integer" | KInteger, SPositive => s2p "PositiveInt" | KInteger, SNegative => s2p "NegativeInt"
  | KInteger, SNonPositive => s2p "NonPositiveInt" | KInteger, SNonNegative => s2p "NonNegativeInt"
  | KFloat, SAny => s2p "Float" | KFloat, SPositive => s2p "PositiveFloat" | KFloat, SNegative => s2p "NegativeFloat"
  | KFloat, SNonPositive => s2p "NonPositiveFloat" | KFloat, SNonNegative => s2p "NonNegativeFloat"
  end.

Definition seq_class (k : seqkind) : pystr := match k with SeqList => s2p "Array" | SeqDeque => s2p "Deque" end.

(* the real class of the Field object (harness/fieldgen.py field_src) *)
Definition field_class (f : field) : pystr :=
  match f with
  | FNumber k s _ => num_class k s
  | FString _ => s2p "String"
  | FBoolean => s2p "Boolean"
  | FNone => s2p "NoneField"
  | FAnything => s2p "Anything"
  | FEnumLit _ | FEnumCls _ _ => s2p "Enum"
  | FSeqAny k _ _ | FSeqEach k _ _ _ | FSeqPos k _ _ _ _ => seq_class k
  | FSet imm _ _ => if imm then s2p "ImmutableSet" else s2p "Set"
  | FTuple _ _ => s2p "Tuple"
  | FMapAny _ | FMapKV _ _ _ => s2p "Map"
  | FAllOf _ => s2p "AllOf"
  | FAnyOf _ => s2p "AnyOf"
  | FOneOf _ => s2p "OneOf"
  | FNot _ => s2p "NotField"
  | FClassRef _ => s2p "ClassReference"
  end.

(* the Field objects a Field object refers to (items / get_fields()), in their order *)
Definition children (f : field) : list field :=
  match f with
  | FSeqEach _ g _ _ => [g]
  | FSeqPos _ gs _ _ _ => gs
  | FSet _ (Some g) _ => [g]
  | FTuple gs _ => gs
  | FMapKV kf vf _ => [kf; vf]
  | FAllOf fs | FAnyOf fs | FOneOf fs | FNot fs => fs
  | _ => []
  end.

Fixpoint walk (f : field) (p : list N) : option field :=
  match p with
  | [] => Some f
  | i :: q => match nth_error (children f) (N.to_nat i) with Some g => walk g q | None => None end
  end.

(* the Field object at an address, in a forest (one list of roots per class, then the extra roots) *)
Definition field_at (F : list (list field)) (p : list N) : option field :=
  match p with
  | ci :: fi :: q =>
      match nth_error F (N.to_nat ci) with
      | Some fs => match nth_error fs (N.to_nat fi) with Some f => walk f q | None => None end
      | None => None
      end
  | _ => None
  end.

Definition irefs (p : list N) (n : nat) : list pyval := map (fun i => iref (p ++ [N.of_nat i])) (seq 0 n).

Definition has_validate (f : field) : bool :=
  match f with FAnything | FAllOf _ | FAnyOf _ | FOneOf _ | FNot _ => false | _ => true end.

Definition is_enum_field (f : field) : bool := match f with FEnumLit _ | FEnumCls _ _ => true | _ => false end.

(* the attributes of the Field object at address p *)
Definition field_attr (p : list N) (f : field) (a : pystr) : option pyval :=
  if pystr_eqb a (s2p "items") then
    match f with
    | FSeqAny _ _ _ | FSet _ None _ | FMapAny _ => Some PNone
    | FSeqEach _ _ _ _ | FSet _ (Some _) _ => Some (iref (p ++ [0%N]))
    | FSeqPos _ gs _ _ _ | FTuple gs _ => Some (PList (irefs p (length gs)))
    | FMapKV _ _ _ => Some (PList (irefs p 2))
    | _ => None
    end
  else if pystr_eqb a (s2p "get_fields()") then
    match f with
    | FAllOf fs | FAnyOf fs | FOneOf fs | FNot fs => Some (PList (irefs p (length fs)))
    | _ => None
    end
  else if pystr_eqb a (s2p "get_type") then
    match f with FClassRef c => Some (ref c) | _ => None end
  else if pystr_eqb a (s2p "_name") then Some PNone
  else if pystr_eqb a (s2p "_validate") then Some (if has_validate f then mref (s2p "_validate") else PNone)
  else if pystr_eqb a (s2p "serialize") then (if is_enum_field f then Some (mref (s2p "serialize")) else None)
  else None.

Fixpoint class_index (e : env) (n : pystr) (i : nat) : option (nat * classdef) :=
  match e with
  | [] => None
  | c :: t => if pystr_eqb (c_name c) n then Some (i, c) else class_index t n (S i)
  end.

Definition fields_kv (ci : nat) (fs : list fdecl) : list (pyval * pyval) :=
  map (fun p => (PStr (fd_name (snd p)), iref [N.of_nat ci; N.of_nat (fst p)])) (combine (seq 0 (length fs)) fs).

(* the identity renaming aggregate_serialization_mappers answers for a class without a mapper *)
Definition idmap (c : classdef) : pyval :=
  PDict (map (fun fd => (PStr (fd_name fd), PStr (fd_name fd))) (c_fields c)).

Definition mapper_off (m : pyval) : bool := match m with PNone | PDict [] => true | _ => false end.

Definition class_dict (c : classdef) : pyval :=
  PDict [ (PStr (s2p "_required"), PList (map PStr (c_required c)));
          (PStr (s2p "_additional_properties"), PBool (c_additional c)) ].

Definition forest (e : env) (extra : list field) : list (list field) :=
  map (fun c => map fd_field (c_fields c)) e ++ [extra].

Section World.
  Variable re_match : N -> pystr -> bool.
  Variable e : env.
  Variable ens : enums.
  Variable extra : list field.          (* further Field objects, at the addresses [length e; i] *)
  Variable repr : pyval -> pystr.       (* str(): any *)

  Definition at_ (p : list N) : option field := field_at (forest e extra) p.

  Definition fld_meth (f : field) (m : pystr) (args : list pyval) : res pyval :=
    if pystr_eqb m (s2p "_validate") then
      match args with [v] => _ <- validate_weak re_match e f v ;; Ok PNone | _ => Raise Unmodelled end
    else if pystr_eqb m (s2p "serialize") then
      match args with
      | [v] => match f with
               | FEnumLit _ => Ok v
               | FEnumCls cls _ => ser_enum_member (enum_by_value ens cls) v
               | _ => Raise Unmodelled
               end
      | _ => Raise Unmodelled
      end
    else Raise Unmodelled.

  Definition world_meth (o : pyval) (m : pystr) (args : list pyval) : res pyval :=
    match o with
    | POther t p => if tag_is t inst_tag then match at_ p with Some f => fld_meth f m args | None => Raise Unmodelled end
                    else Raise Unmodelled
    | _ => Raise Unmodelled
    end.

  Definition world_cattr (cn a : pystr) : option pyval :=
    match class_index e cn 0 with
    | Some (ci, c) =>
        if pystr_eqb a (s2p "get_all_fields_by_name()") then Some (PDict (fields_kv ci (c_fields c)))
        else if pystr_eqb a str_dict then Some (class_dict c)
        else None
    | None =>
        if pystr_eqb cn (s2p "Generator") && pystr_eqb a (s2p "_ty") then Some (bref (s2p "generator"))
        else if pystr_eqb cn (s2p "TypedPyDefaults") && pystr_eqb a (s2p "additional_properties_default") then Some (PBool true)
        else if pystr_eqb cn (s2p "TypedPyDefaults") && pystr_eqb a (s2p "compact_serialization_default") then Some (PBool false)
        else None
    end.

  Definition world_anc (cn : pystr) : option (list pystr) :=
    match find_class e cn with Some c => Some (c_ancestors c ++ [s2p "Structure"]) | None => None end.

  (* instance.<field name> when the instance's __dict__ has no entry: Field.__get__ answers the default / None *)
  Definition world_sattr (cn a : pystr) : option pyval :=
    match find_class e cn with
    | Some c => match find_field (c_fields c) a with
                | Some fd => Some (match fd_default fd with Some d => d | None => PNone end)
                | None => None
                end
    | None => None
    end.

  Definition world_ext (f : pystr) (args : list pyval) : res pyval :=
    if pystr_eqb f (s2p "aggregate_serialization_mappers") then
      match args with
      | [POther t cn; m; PBool false] =>
          if tag_is t ref_tag && mapper_off m then
            match find_class e cn with Some c => Ok (idmap c) | None => Raise Unmodelled end
          else Raise Unmodelled
      | _ => Raise Unmodelled
      end
    else Raise Unmodelled.

  Definition ser_world : world :=
    {| w_cattr := world_cattr;
       w_icls := fun p => option_map field_class (at_ p);
       w_iattr := fun p a => match at_ p with Some f => field_attr p f a | None => None end;
       w_sattr := world_sattr;
       w_anc := world_anc;
       w_meth := world_meth;
       w_ext := world_ext;
       w_repr := repr |}.
End World.

(* ------------------------------------------------------------------ addresses *)

Lemma walk_snoc : forall p f g i, walk f p = Some g -> walk f (p ++ [i]) = nth_error (children g) (N.to_nat i).
Proof.
  induction p as [|j q IH]; intros f g i H; cbn [walk app] in *.
  - inversion H; subst. destruct (nth_error (children g) (N.to_nat i)); reflexivity.
  - destruct (nth_error (children f) (N.to_nat j)) as [h|]; [|discriminate]. apply IH, H.
Qed.

Lemma field_at_snoc F p g i :
  field_at F p = Some g -> field_at F (p ++ [i]) = nth_error (children g) (N.to_nat i).
Proof.
  destruct p as [|ci [|fi q]]; cbn [field_at app]; try discriminate.
  destruct (nth_error F (N.to_nat ci)) as [fs|]; [|discriminate].
  destruct (nth_error fs (N.to_nat fi)) as [f|]; [|discriminate].
  apply walk_snoc.
Qed.

Lemma nth_error_seq' : forall n s i, (i < n)%nat -> nth_error (seq s n) i = Some (s + i)%nat.
Proof.
  induction n as [|n IH]; intros s i H; [lia|].
  destruct i as [|i]; cbn [seq nth_error]; [f_equal; lia|].
  rewrite IH by lia. f_equal; lia.
Qed.

Lemma nth_error_irefs p n i : (i < n)%nat -> nth_error (irefs p n) i = Some (iref (p ++ [N.of_nat i])).
Proof.
  intro H. unfold irefs. rewrite nth_error_map, nth_error_seq' by exact H. reflexivity.
Qed.

(* ------------------------------------------------------------------ the class table *)

Ltac eval_cls :=
  repeat match goal with
  | |- context [class_known tbl (s2p ?x)] =>
      let v := eval vm_compute in (class_known tbl (s2p x)) in
      replace (class_known tbl (s2p x)) with v by (vm_compute; reflexivity)
  | |- context [class_in tbl (s2p ?x) ?ks] =>
      let v := eval vm_compute in (class_in tbl (s2p x) ks) in
      replace (class_in tbl (s2p x) ks) with v by (vm_compute; reflexivity)
  | |- context [pure_classes tbl ?ks] =>
      let v := eval vm_compute in (pure_classes tbl ks) in
      replace (pure_classes tbl ks) with v by (vm_compute; reflexivity)
  | |- context [forallb (class_known tbl) ?ks] =>
      let v := eval vm_compute in (forallb (class_known tbl) ks) in
      replace (forallb (class_known tbl) ks) with v by (vm_compute; reflexivity)
  end.

Lemma field_class_known f : class_known tbl (field_class f) = true.
Proof.
  destruct f as [k s c|c| | | |vs|c ms|k sz u|k g sz u|k gs sz u a|i g sz|gs u|sz|kf vf sz|fs|fs|fs|fs|c];
    cbn [field_class]; try (vm_compute; reflexivity).
  - destruct k, s; vm_compute; reflexivity.
  - destruct k; vm_compute; reflexivity.
  - destruct k; vm_compute; reflexivity.
  - destruct k; vm_compute; reflexivity.
  - destruct i; vm_compute; reflexivity.
Qed.

Lemma field_is_field f : class_in tbl (field_class f) [s2p "Field"] = true.
Proof.
  destruct f as [k s c|c| | | |vs|c ms|k sz u|k g sz u|k gs sz u a|i g sz|gs u|sz|kf vf sz|fs|fs|fs|fs|c];
    cbn [field_class]; try (vm_compute; reflexivity).
  - destruct k, s; vm_compute; reflexivity.
  - destruct k; vm_compute; reflexivity.
  - destruct k; vm_compute; reflexivity.
  - destruct k; vm_compute; reflexivity.
  - destruct i; vm_compute; reflexivity.
Qed.

(* ------------------------------------------------------------------ the values the theorems speak about *)

Definition internal_names : list pystr := [s2p "_instantiated"; s2p "_none_fields"; s2p "_trust_supplied_values"].

(* an attribute / field name that is not private (no leading underscore) *)
Definition public_name (s : pystr) : bool := match s with c :: _ => negb (N.eqb c 95%N) | [] => true end.

(* a dict key that is a scalar (so is what it serializes to: no TypeError: unhashable in the middle of a dict) *)
Definition key_ok (k : pyval) : bool :=
  match k with PNone | PBool _ | PNum _ | PStr _ | PEnum _ _ _ => true | _ => false end.

Fixpoint distinct_keys (l : list pyval) : bool :=
  match l with
  | [] => true
  | k :: t => negb (existsb (fun k' => py_eq k k') t) && distinct_keys t
  end.

Fixpoint distinct_names (l : list pystr) : bool :=
  match l with
  | [] => true
  | k :: t => negb (str_in k t) && distinct_names t
  end.

(* well-formed Python values: dict keys are scalars, pairwise different; the attributes of an instance have
   pairwise different public names (the internal entries of instance.__dict__ are not part of the model's
   instance) *)
Fixpoint val_ok (v : pyval) : bool :=
  match v with
  | PList l | PTuple l | PDeque l | PSet _ l => forallb val_ok l
  | PDict kv => forallb (fun p => key_ok (fst p) && val_ok (snd p)) kv && distinct_keys (map fst kv)
  | PStruct _ attrs =>
      forallb (fun p => public_name (fst p) && val_ok (snd p)) attrs && distinct_names (map fst attrs)
  | _ => true
  end.

Definition is_none (v : pyval) : bool := match v with PNone => true | _ => false end.

(* serialize_internal on a dict (reached from an Anything field): the model's inline branch *)
Definition dict_model (rec : pyval -> res pyval) (kv : list (pyval * pyval)) : res pyval :=
  r <- mapR (fun p => j <- ser_any rec (snd p) ;; Ok (fst p, j))
            (filter (fun p => negb (match snd p with PNone => true | _ => false end)) kv) ;;
  Ok (PDict r).

(* the loop of serialize_multifield_wrapper *)
Definition mfw_model (sv : field -> pyval -> res pyval) (vw : field -> pyval -> res unit) (v : pyval) :=
  fix go (gs : list field) : res pyval :=
    match gs with
    | [] => Raise ValueError
    | g :: t =>
        match (_ <- vw g v ;; sv g v) with
        | Ok j => Ok j
        | Raise x => if model_exn x then Raise x else go t
        end
    end.

Definition PF : pyval := PBool false.

Section Bridge.
  Variable re_match : N -> pystr -> bool.
  Variable e : env.
  Variable ens : enums.
  Variable extra : list field.
  Variable repr : pyval -> pystr.

  Notation W := (ser_world re_match e ens extra repr).
  Notation at' := (at_ e extra).
  Notation sval := (ser_val re_match e ens).

  Lemma mfw_model_eq rec fs v :
    (sval rec (FAllOf fs) v = mfw_model (sval rec) (validate_weak re_match e) v fs) /\
    (sval rec (FAnyOf fs) v = mfw_model (sval rec) (validate_weak re_match e) v fs) /\
    (sval rec (FOneOf fs) v = mfw_model (sval rec) (validate_weak re_match e) v fs) /\
    (sval rec (FNot fs) v = mfw_model (sval rec) (validate_weak re_match e) v fs).
  Proof. repeat split; reflexivity. Qed.

  Lemma any_dict_eq rec kv : sval rec FAnything (PDict kv) = dict_model rec kv.
  Proof. reflexivity. Qed.

  (* the environment: user classes are not named like classes of the package; field names are public and
     without dots (identifiers) *)
  Definition fname_ok (s : pystr) : bool := public_name s && negb (existsb (N.eqb 46%N) s).

  Definition class_ok (c : classdef) : bool :=
    negb (class_known tbl (c_name c)) && forallb (fun a => negb (class_known tbl a)) (c_ancestors c) &&
    forallb (fun fd => fname_ok (fd_name fd)) (c_fields c).

  Definition env_ok : bool := forallb class_ok e.

  (* the mapper arguments the recursion hands around: none ({} / None), or the identity renaming of the class *)
  Definition rm_ok (cn : pystr) (rm : pyval) : Prop :=
    mapper_off rm = true \/ exists c, find_class e cn = Some c /\ rm = idmap c.

  (* what the body lemmas assume of the record of recursive calls, against a model [rec] of nested instances *)
  Record R_ok (R : sv_recs) (rec : pyval -> res pyval) : Prop := {
    ok_val : forall p g x nm m, at' p = Some g -> mapper_off m = true -> val_ok x = true ->
               refines (r_serialize_val R (iref p) nm x m PF PNone) (sval rec g x);
    ok_any : forall fd x nm m, fd = PNone \/ fd = ref (s2p "Anything") -> mapper_off m = true -> val_ok x = true ->
               refines (r_serialize_val R fd nm x m PF PNone) (ser_any rec x);
    ok_field : forall p g x, at' p = Some g -> val_ok x = true ->
               refines (r_serialize_field R (iref p) x PF) (sval rec g x);
    ok_mfw : forall p gs x nm m,
               (forall i g, nth_error gs i = Some g -> at' (p ++ [N.of_nat i]) = Some g) ->
               mapper_off m = true -> val_ok x = true ->
               refines (r_serialize_multifield_wrapper R (PList (irefs p (length gs))) nm x m PF)
                       (mfw_model (sval rec) (validate_weak re_match e) x gs);
    ok_int : forall cn a m rm, mapper_off m = true -> rm_ok cn rm -> val_ok (PStruct cn a) = true ->
               refines (r_serialize_internal R (PStruct cn a) m rm PF PF) (rec (PStruct cn a));
    ok_intd : forall kv m rm, mapper_off m = true -> mapper_off rm = true -> val_ok (PDict kv) = true ->
               refines (r_serialize_internal R (PDict kv) m rm PF PF) (dict_model rec kv);
    ok_ser : forall cn a m, mapper_off m = true -> val_ok (PStruct cn a) = true ->
               refines (r_serialize R (PStruct cn a) m PNone PF) (rec (PStruct cn a)) }.

  (* the model of nested instances declines for an instance of a class the environment does not have *)
  Definition rec_ok (rec : pyval -> res pyval) : Prop :=
    forall cn a, find_class e cn = None -> declines (rec (PStruct cn a)).

  (* ---------------------------------------------------------------- small facts about the world *)

  Lemma isinst_iref p f ks :
    at' p = Some f -> sv_isinstance tbl W (iref p) ks = Ok (class_in tbl (field_class f) ks).
  Proof.
    intro H. unfold sv_isinstance, iref. rewrite tag_inst_inst. cbn [w_icls ser_world]. rewrite H.
    cbn [option_map]. rewrite field_class_known. reflexivity.
  Qed.

  Lemma isinst_clsobj n ks :
    sv_isinstance tbl W (ref n) ks = if pure_classes tbl ks then Ok false else Raise Unmodelled.
  Proof. reflexivity. Qed.

  (* the filterM of a list comprehension whose element is a call through the record *)
  Lemma listcomp_refines (F G : pyval -> res pyval) : forall l,
      (forall x, In x l -> refines (F x) (G x)) ->
      refines (r <- filterM (fun x => t <- F x ;; Ok (Some t)) l ;; Ok (PList r))
              (r <- mapR G l ;; Ok (PList r)).
  Proof.
    intros l H.
    assert (Hl : refines (filterM (fun x => t <- F x ;; Ok (Some t)) l) (mapR G l)).
    { induction l as [|a t IH]; [apply refines_refl|].
      cbn [filterM mapR].
      assert (Ha : refines (F a) (G a)) by (apply H; left; reflexivity).
      assert (IHt : refines (filterM (fun x => t <- F x ;; Ok (Some t)) t) (mapR G t)) by (apply IH; intros z Hz; apply H; right; exact Hz).
      destruct Ha as [Ha|[Ha|Ha]].
      - rewrite Ha. left; reflexivity.
      - destruct Ha as (x & Hx & Hm). rewrite Hx. right; left. exists x. split; [reflexivity|exact Hm].
      - rewrite Ha. destruct (G a) as [y|x]; cbn [bind]; [|apply refines_refl].
        destruct IHt as [IHt|[IHt|IHt]].
        + rewrite IHt. left; reflexivity.
        + destruct IHt as (x & Hx & Hm). rewrite Hx. right; left. exists x. split; [reflexivity|exact Hm].
        + rewrite IHt. destruct (mapR G t); apply refines_refl. }
    apply refines_bind; [exact Hl|]. intros r _ _. apply refines_refl.
  Qed.

  Lemma val_ok_list_in l x : forallb val_ok l = true -> In x l -> val_ok x = true.
  Proof. intros H Hx. rewrite forallb_forall in H. apply H, Hx. Qed.

  Lemma refines_ret (r m : res pyval) : refines r m -> refines (t <- r ;; Ok t) m.
  Proof. intro H. replace m with (t <- m ;; Ok t) by (destruct m; reflexivity). apply refines_bind; [exact H|]. intros; apply refines_refl. Qed.

  Lemma str_in_snoc x a : str_in x (a ++ [x]) = true.
  Proof. unfold str_in. rewrite existsb_app. cbn [existsb]. rewrite pystr_eqb_refl, orb_true_r. reflexivity. Qed.

  Lemma str_in_cons x y l : str_in x (y :: l) = pystr_eqb x y || str_in x l.
  Proof. reflexivity. Qed.

  (* an instance of a class of the environment is a Structure *)
  Lemma struct_isinst cn a c ks :
    find_class e cn = Some c -> str_in (s2p "Structure") ks = true -> sv_isinstance tbl W (PStruct cn a) ks = Ok true.
  Proof.
    intros Hc Hk. cbn [sv_isinstance w_anc ser_world]. unfold world_anc. rewrite Hc. f_equal.
    apply existsb_exists. unfold str_in in Hk. apply existsb_exists in Hk as (k & Hin & Hk).
    apply pystr_eqb_spec in Hk. subst k. exists (s2p "Structure"). split; [exact Hin|].
    rewrite str_in_cons, str_in_snoc, orb_true_r. reflexivity.
  Qed.

  Lemma struct_isinst_unknown cn a ks :
    find_class e cn = None -> sv_isinstance tbl W (PStruct cn a) ks = Raise Unmodelled.
  Proof. intros Hc. cbn [sv_isinstance w_anc ser_world]. unfold world_anc. rewrite Hc. reflexivity. Qed.

  Opaque sv_isinstance.

  Ltac sv_plain :=
    cbn [bind py_or py_and py_not py_is_none py_isinstance existsb isinstance1 orb andb negb
         py_in_dyn py_hashable' dict_has dict_get py_iter py_try py_json_roundtrip].

  Section Bodies.
    Variable R : sv_recs.
    Variable rec : pyval -> res pyval.
    Hypothesis HR : R_ok R rec.
    Hypothesis Hrec : rec_ok rec.

    Lemma isinst_plain v ks :
      plain_data v = true -> pure_classes tbl ks = true -> sv_isinstance tbl W v ks = Ok false.
    Proof. Transparent sv_isinstance. intros Hv Hk. destruct v; try discriminate Hv; cbn [sv_isinstance]; rewrite Hk; reflexivity. Opaque sv_isinstance. Qed.

    Lemma isinst_enum c n x ks :
      pure_classes tbl ks = true -> sv_isinstance tbl W (PEnum c n x) ks = Ok false.
    Proof. Transparent sv_isinstance. intros Hk. cbn [sv_isinstance]. rewrite Hk. reflexivity. Opaque sv_isinstance. Qed.

    Lemma any_body fd nm m v :
      fd = PNone \/ fd = ref (s2p "Anything") -> mapper_off m = true -> val_ok v = true ->
      refines (src_serialize_val W R fd nm v m PF PNone) (ser_any rec v).
    Proof.
      intros Hfd Hm Hv.
      assert (Hi : forall ks, pure_classes tbl ks = true -> sv_isinstance tbl W fd ks = Ok false).
      { intros ks Hk. destruct Hfd as [-> | ->]; [apply isinst_plain; [reflexivity|exact Hk]|].
        rewrite isinst_clsobj, Hk. reflexivity. }
      assert (Hc : py_in_dyn fd (PDict []) = Ok false) by (destruct Hfd as [-> | ->]; reflexivity).
      unfold src_serialize_val, PF. cbn [bind py_is_none]. rewrite Hc. cbn [bind].
      rewrite !Hi by (vm_compute; reflexivity).
      destruct v; sv_plain; cbn [ser_any].
      - apply refines_refl.
      - rewrite isinst_plain by reflexivity. sv_plain. apply refines_refl.
      - rewrite isinst_plain by reflexivity. sv_plain. destruct n; apply refines_refl.
      - rewrite isinst_plain by reflexivity. sv_plain. apply refines_refl.
      - apply listcomp_refines. intros x Hx.
        apply (ok_any _ _ HR); [left; reflexivity|reflexivity|exact (val_ok_list_in _ _ Hv Hx)].
      - apply listcomp_refines. intros x Hx.
        apply (ok_any _ _ HR); [left; reflexivity|reflexivity|exact (val_ok_list_in _ _ Hv Hx)].
      - rewrite isinst_plain by reflexivity. sv_plain. apply refines_refl.
      - destruct frozen; cbn [orb].
        + rewrite isinst_plain by reflexivity. sv_plain. apply refines_refl.
        + sv_plain. apply listcomp_refines. intros x Hx.
          apply (ok_any _ _ HR); [left; reflexivity|reflexivity|exact (val_ok_list_in _ _ Hv Hx)].
      - rewrite isinst_plain by reflexivity. sv_plain. destruct (json_doc (PDict kv)); apply refines_refl.
      - rewrite isinst_enum by reflexivity. sv_plain. apply refines_refl.
      - destruct (find_class e cls) as [c|] eqn:Hcls.
        + rewrite (struct_isinst _ _ c) by (exact Hcls || reflexivity). sv_plain.
          apply refines_ret. apply (ok_int _ _ HR); [reflexivity|left; exact Hm|exact Hv].
        + apply refines_declines, Hrec, Hcls.
      - apply refines_unm.
    Qed.

    (* ---- attributes and methods of a Field object *)
    Lemma getattr_iref p f a :
      at' p = Some f ->
      sv_getattr W (iref p) a = match field_attr p f a with Some v => Ok v | None => Raise AttributeError end.
    Proof.
      intro H. unfold sv_getattr, sv_lookup, iref. rewrite tag_inst_ref, tag_inst_inst.
      cbn [w_icls w_iattr ser_world]. rewrite H. cbn [option_map bind]. reflexivity.
    Qed.

    Lemma getattr_def_iref p f a d :
      at' p = Some f ->
      sv_getattr_def W (iref p) a d = Ok (match field_attr p f a with Some v => v | None => d end).
    Proof.
      intro H. unfold sv_getattr_def, sv_lookup, iref. rewrite tag_inst_ref, tag_inst_inst.
      cbn [w_icls w_iattr ser_world]. rewrite H. cbn [option_map bind]. reflexivity.
    Qed.

    Lemma attr_serialize p f :
      field_attr p f (s2p "serialize") = if is_enum_field f then Some (mref (s2p "serialize")) else None.
    Proof. reflexivity. Qed.
    Lemma attr_name p f : field_attr p f (s2p "_name") = Some PNone.
    Proof. reflexivity. Qed.
    Lemma attr_validate p f :
      field_attr p f (s2p "_validate") = Some (if has_validate f then mref (s2p "_validate") else PNone).
    Proof. reflexivity. Qed.
    Lemma attr_get_fields p f :
      field_attr p f (s2p "get_fields()") =
      match f with FAllOf fs | FAnyOf fs | FOneOf fs | FNot fs => Some (PList (irefs p (length fs))) | _ => None end.
    Proof. reflexivity. Qed.
    Lemma attr_get_type p f :
      field_attr p f (s2p "get_type") = match f with FClassRef c => Some (ref c) | _ => None end.
    Proof. reflexivity. Qed.
    Lemma attr_items p f :
      field_attr p f (s2p "items") =
      match f with
      | FSeqAny _ _ _ | FSet _ None _ | FMapAny _ => Some PNone
      | FSeqEach _ _ _ _ | FSet _ (Some _) _ => Some (iref (p ++ [0%N]))
      | FSeqPos _ gs _ _ _ | FTuple gs _ => Some (PList (irefs p (length gs)))
      | FMapKV _ _ _ => Some (PList (irefs p 2))
      | _ => None
      end.
    Proof. reflexivity. Qed.

    Lemma meth_serialize p f v :
      at' p = Some f ->
      sv_call_meth W (iref p) (s2p "serialize") [v] =
      match f with
      | FEnumLit _ => Ok v
      | FEnumCls cls _ => ser_enum_member (enum_by_value ens cls) v
      | _ => Raise Unmodelled
      end.
    Proof.
      intro H. unfold sv_call_meth, iref. cbn [w_meth ser_world world_meth]. rewrite tag_inst_inst. rewrite H. reflexivity.
    Qed.

    Lemma meth_validate p f v :
      at' p = Some f ->
      sv_call_meth W (iref p) (s2p "_validate") [v] = (_ <- validate_weak re_match e f v ;; Ok PNone).
    Proof.
      intro H. unfold sv_call_meth, iref. cbn [w_meth ser_world world_meth]. rewrite tag_inst_inst. rewrite H. reflexivity.
    Qed.

    Lemma children_at p f i g :
      at' p = Some f -> nth_error (children f) i = Some g -> at' (p ++ [N.of_nat i]) = Some g.
    Proof. intros Hp Hg. unfold at_ in *. rewrite (field_at_snoc _ _ _ _ Hp), Nat2N.id. exact Hg. Qed.

    (* [.. for i in v] over the record, against ser_each *)
    Lemma each_refines (F G : pyval -> res pyval) v :
      (forall l x, iter_items v = Some l -> In x l -> refines (F x) (G x)) ->
      refines (t <- py_iter v ;; r <- filterM (fun x => t <- F x ;; Ok (Some t)) t ;; Ok (PList r)) (ser_each G v).
    Proof.
      intro H. unfold ser_each.
      destruct v; cbn [iter_items] in *; try apply refines_unm;
        cbn [py_iter bind]; apply listcomp_refines; intros x Hx; apply (H _ x eq_refl Hx).
    Qed.

    Lemma val_ok_iter v l x : val_ok v = true -> iter_items v = Some l -> In x l -> val_ok x = true.
    Proof.
      intros Hv Hl Hx. destruct v; cbn [iter_items] in Hl; try discriminate; inversion Hl; subst;
        exact (val_ok_list_in _ _ Hv Hx).
    Qed.

    Ltac start Hp :=
      unfold src_serialize_val, PF; cbn [bind py_is_none iref py_in_dyn py_hashable' dict_has dict_get];
      match type of Hp with at_ _ _ ?p = Some ?f => fold (iref p); rewrite !(isinst_iref p f) by exact Hp end;
      cbn [field_class seq_class]; eval_cls; sv_plain.

    Ltac fin := first [apply refines_refl | apply refines_unm | apply refines_oof].

    (* ---- Number / String / Boolean *)
    Lemma val_scalar_field f p nm m v :
      match f with FNumber _ _ _ | FString _ | FBoolean => True | _ => False end ->
      at' p = Some f -> refines (src_serialize_val W R (iref p) nm v m PF PNone) (sval rec f v).
    Proof.
      intros Hf Hp.
      destruct f as [k s c|c| | | |vs|c ms|k sz u|k g sz u|k gs sz u a|i g sz|gs u|sz|kf vf sz|fs|fs|fs|fs|c];
        try contradiction; [destruct k, s| |]; start Hp; cbn [ser_val];
        destruct v as [| |[]| | | | | | | | |]; cbn [orb bind]; fin.
    Qed.

    (* ---- NoneField *)
    Lemma val_none p nm m v :
      at' p = Some FNone -> refines (src_serialize_val W R (iref p) nm v m PF PNone) (sval rec FNone v).
    Proof.
      intros Hp. cbn [ser_val unless_none]. destruct v; try apply refines_unm. start Hp. fin.
    Qed.

    (* ---- Enum *)
    Lemma val_enum f p nm m v :
      is_enum_field f = true ->
      at' p = Some f -> refines (src_serialize_val W R (iref p) nm v m PF PNone) (sval rec f v).
    Proof.
      intros Hf Hp.
      destruct f as [k s c|c| | | |vs|c ms|k sz u|k g sz u|k gs sz u a|i g sz|gs u|sz|kf vf sz|fs|fs|fs|fs|c];
        try discriminate Hf; start Hp;
        rewrite (getattr_iref _ _ _ Hp), attr_serialize; cbn [is_enum_field bind PyOpsDerive.py_setitem py_hashable' iref];
        fold (iref p); rewrite (meth_serialize _ _ _ Hp); cbn [ser_val]; apply refines_ret, refines_refl.
    Qed.

    (* ---- AllOf / AnyOf / OneOf / NotField *)
    Lemma val_mfw f fs p nm m v :
      f = FAllOf fs \/ f = FAnyOf fs \/ f = FOneOf fs \/ f = FNot fs ->
      at' p = Some f -> mapper_off m = true -> val_ok v = true ->
      refines (src_serialize_val W R (iref p) nm v m PF PNone) (sval rec f v).
    Proof.
      intros Hf Hp Hm Hv.
      assert (Hch : forall i g, nth_error fs i = Some g -> at' (p ++ [N.of_nat i]) = Some g).
      { intros i g Hg. apply (children_at _ _ _ _ Hp). destruct Hf as [->|[->|[->| ->]]]; exact Hg. }
      destruct (mfw_model_eq rec fs v) as (E1 & E2 & E3 & E4).
      destruct Hf as [->|[->|[->| ->]]]; start Hp; rewrite (getattr_iref _ _ _ Hp), attr_get_fields; cbn [bind];
        [rewrite E1|rewrite E2|rewrite E3|rewrite E4]; apply refines_ret; apply (ok_mfw _ _ HR); assumption.
    Qed.

    Lemma any_each v nm :
      val_ok v = true ->
      refines (t <- py_iter v ;; r <- filterM (fun x => t <- r_serialize_val R PNone nm x PNone (PBool false) PNone ;; Ok (Some t)) t ;; Ok (PList r))
              (ser_each (ser_any rec) v).
    Proof.
      intro Hv. apply (each_refines (fun x => r_serialize_val R PNone nm x PNone (PBool false) PNone)).
      intros l x Hl Hx. apply (ok_any _ _ HR); [left; reflexivity|reflexivity|exact (val_ok_iter _ _ _ Hv Hl Hx)].
    Qed.

    Lemma val_anything p nm m v :
      at' p = Some FAnything -> mapper_off m = true -> val_ok v = true ->
      refines (src_serialize_val W R (iref p) nm v m PF PNone) (sval rec FAnything v).
    Proof.
      intros Hp Hm Hv. start Hp. cbn [ser_val].
      destruct v as [| |[]| | | | |[]| | | |]; cbn [scalar_py orb andb bind]; sv_plain; try fin.
      all: try (rewrite isinst_plain by reflexivity; sv_plain).
      - apply (any_each _ nm Hv).
      - apply (any_each _ nm Hv).
      - apply (any_each _ nm Hv).
      - apply refines_ret. apply (ok_intd _ _ HR); [reflexivity|exact Hm|exact Hv].
      - destruct (find_class e cls) as [c|] eqn:Hcls.
        + rewrite (struct_isinst _ _ c) by (exact Hcls || reflexivity). cbn [bind].
          apply refines_ret. apply (ok_ser _ _ HR); [exact Hm|exact Hv].
        + apply refines_declines, Hrec, Hcls.
    Qed.

    Lemma is_none_eq v : py_is_none v = true -> v = PNone.
    Proof. destruct v; try discriminate; reflexivity. Qed.
    Lemma unless_none_not v (k : res pyval) : py_is_none v = false -> unless_none v k = k.
    Proof. destruct v; try discriminate; reflexivity. Qed.

    (* ---- Array / Deque / Set *)
    Lemma val_seqany f p nm m v :
      match f with FSeqAny _ _ _ | FSet _ None _ => True | _ => False end ->
      at' p = Some f -> mapper_off m = true -> val_ok v = true ->
      refines (src_serialize_val W R (iref p) nm v m PF PNone) (sval rec f v).
    Proof.
      intros Hf Hp Hm Hv.
      destruct f as [k s c|c| | | |vs|c ms|k sz u|k g sz u|k gs sz u a|[] [g|] sz|gs u|sz|kf vf sz|fs|fs|fs|fs|c];
        try contradiction; try destruct k; start Hp; cbn [ser_val].
      all: destruct (py_is_none v) eqn:Hn; [apply is_none_eq in Hn; subst v; fin|rewrite (unless_none_not _ _ Hn)].
      all: rewrite (getattr_def_iref _ _ _ _ Hp), attr_items; cbn [bind]; sv_plain.
      all: rewrite isinst_plain by reflexivity; cbn [bind].
      all: apply (each_refines (fun x => r_serialize_val R PNone nm x m (PBool false) PNone)).
      all: intros l x Hl Hx; apply (ok_any _ _ HR); [left; reflexivity|exact Hm|exact (val_ok_iter _ _ _ Hv Hl Hx)].
    Qed.

    Lemma val_seqeach f g p nm m v :
      match f with FSeqEach _ g' _ _ | FSet _ (Some g') _ => g' = g | _ => False end ->
      at' p = Some f -> mapper_off m = true -> val_ok v = true ->
      refines (src_serialize_val W R (iref p) nm v m PF PNone) (sval rec f v).
    Proof.
      intros Hf Hp Hm Hv.
      assert (Hg : at' (p ++ [0%N]) = Some g).
      { apply (children_at p f 0 g Hp).
        destruct f as [k s c|c| | | |vs|c ms|k sz u|k g' sz u|k gs sz u a|i [g'|] sz|gs u|sz|kf vf sz|fs|fs|fs|fs|c];
          try contradiction; subst g'; reflexivity. }
      destruct f as [k s c|c| | | |vs|c ms|k sz u|k g' sz u|k gs sz u a|[] [g'|] sz|gs u|sz|kf vf sz|fs|fs|fs|fs|c];
        try contradiction; subst g'; try destruct k; start Hp; cbn [ser_val].
      all: destruct (py_is_none v) eqn:Hn; [apply is_none_eq in Hn; subst v; fin|rewrite (unless_none_not _ _ Hn)].
      all: rewrite (getattr_def_iref _ _ _ _ Hp), attr_items; cbn [bind]; sv_plain.
      all: rewrite (isinst_iref _ _ _ Hg), field_is_field; cbn [bind].
      all: apply (each_refines (fun x => r_serialize_val R (iref (p ++ [0%N])) nm x m (PBool false) PNone)).
      all: intros l x Hl Hx; apply (ok_val _ _ HR); [exact Hg|exact Hm|exact (val_ok_iter _ _ _ Hv Hl Hx)].
    Qed.

    (* ---- Array / Deque with positional items: items[ind] if ind < len(items) else None *)
    Lemma seqpos_eq k gs sz u a v :
      sval rec (FSeqPos k gs sz u a) v =
      unless_none v match iter_items v with
                    | Some l => r <- ser_pos rec (sval rec) gs l ;; Ok (PList r)
                    | None => Raise Unmodelled
                    end.
    Proof. reflexivity. Qed.

    Lemma seq_index_nat l o :
      seq_index l (Z.of_nat o) = match nth_error l o with Some x => Ok x | None => Raise IndexError end.
    Proof.
      assert (E : (Z.of_nat o <? 0) = false) by (apply Z.ltb_ge; lia).
      unfold seq_index. cbv zeta. rewrite E. cbv iota. rewrite E. cbn [orb]. rewrite Nat2Z.id.
      destruct (Z.leb_spec (Z.of_nat (length l)) (Z.of_nat o)) as [H|H].
      - replace (nth_error l o) with (@None pyval); [reflexivity|]. symmetry. apply nth_error_None. lia.
      - reflexivity.
    Qed.

    Lemma ser_pos_nil sv gs : ser_pos rec sv gs [] = Ok [].
    Proof. destruct gs; reflexivity. Qed.

    Lemma ser_pos_past sv l : ser_pos rec sv [] l = mapR (ser_any rec) l.
    Proof. destruct l; reflexivity. Qed.

    Lemma irefs_length p n : length (irefs p n) = n.
    Proof. unfold irefs. rewrite map_length, seq_length. reflexivity. Qed.

    Lemma item_at p (gs : list field) o :
      (c <- (n <- py_len (PList (irefs p (length gs))) ;; py_lt (zint (Z.of_nat o)) n) ;;
       if c then (t0 <- py_subscript (PList (irefs p (length gs))) (zint (Z.of_nat o)) ;; Ok t0) else Ok PNone)
      = Ok (match nth_error gs o with Some _ => iref (p ++ [N.of_nat o]) | None => PNone end).
    Proof.
      cbn [py_len bind]. unfold lenZ'. rewrite irefs_length.
      unfold py_lt, zint. cbn [as_num]. rewrite num_ltb_int. cbn [bind].
      destruct (nth_error gs o) as [g|] eqn:Hg.
      - assert (Ho : (o < length gs)%nat) by (apply nth_error_Some; congruence).
        replace (Z.of_nat o <? Z.of_nat (length gs)) with true by (symmetry; apply Z.ltb_lt; lia).
        cbn [py_subscript]. rewrite seq_index_nat. rewrite nth_error_irefs by exact Ho. reflexivity.
      - assert (Ho : (length gs <= o)%nat) by (apply nth_error_None, Hg).
        replace (Z.of_nat o <? Z.of_nat (length gs)) with false by (symmetry; apply Z.ltb_ge; lia).
        reflexivity.
    Qed.

    Lemma pos_refines p gs nm m :
      (forall i g, nth_error gs i = Some g -> at' (p ++ [N.of_nat i]) = Some g) -> mapper_off m = true ->
      forall l o, forallb val_ok l = true ->
      refines (filterM (fun '(ind, x) =>
                          t <- (c <- (n <- py_len (PList (irefs p (length gs))) ;; py_lt ind n) ;;
                                if c then (t0 <- py_subscript (PList (irefs p (length gs))) ind ;; Ok t0) else Ok PNone) ;;
                          r <- r_serialize_val R t nm x m (PBool false) PNone ;; Ok (Some r))
                       (enum_from (Z.of_nat o) l))
              (ser_pos rec (sval rec) (skipn o gs) l).
    Proof.
      intros Hch Hm. induction l as [|x t IH]; intros o Hl.
      - cbn [enum_from filterM]. rewrite ser_pos_nil. apply refines_refl.
      - cbn [forallb] in Hl. apply andb_true_iff in Hl as [Hx Ht].
        cbn [enum_from filterM]. rewrite item_at.
        replace (Z.of_nat o + 1) with (Z.of_nat (S o)) by lia.
        destruct (nth_error gs o) as [g|] eqn:Hg.
        + cbn [bind].
          assert (Hs : skipn o gs = g :: skipn (S o) gs).
          { clear -Hg. revert o Hg. induction gs as [|h gs IHg]; intros [|o] Hg; cbn in *; try discriminate.
            - inversion Hg; reflexivity.
            - apply IHg, Hg. }
          rewrite Hs. cbn [ser_pos]. fold (ser_pos rec (sval rec)).
          apply refines_bind2; [apply (ok_val _ _ HR); [apply Hch, Hg|exact Hm|exact Hx]|].
          intros y _ _. cbn [bind].
          apply refines_bind; [apply IH, Ht|]. intros ys _ _. apply refines_refl.
        + assert (Ho : (length gs <= o)%nat) by (apply nth_error_None, Hg).
          cbn [bind]. rewrite (skipn_all2 gs) by exact Ho. rewrite ser_pos_past. cbn [mapR].
          apply refines_bind2; [apply (ok_any _ _ HR); [left; reflexivity|exact Hm|exact Hx]|].
          intros y _ _. cbn [bind].
          specialize (IH (S o) Ht). rewrite (skipn_all2 gs) in IH by lia. rewrite ser_pos_past in IH.
          apply refines_bind; [exact IH|]. intros ys _ _. apply refines_refl.
    Qed.

    Lemma pos_items_refines p gs nm m v :
      (forall i g, nth_error gs i = Some g -> at' (p ++ [N.of_nat i]) = Some g) -> mapper_off m = true ->
      val_ok v = true ->
      refines (t <- py_enumerate v ;;
               r <- filterM (fun '(ind, x) =>
                          t <- (c <- (n <- py_len (PList (irefs p (length gs))) ;; py_lt ind n) ;;
                                if c then (t0 <- py_subscript (PList (irefs p (length gs))) ind ;; Ok t0) else Ok PNone) ;;
                          r <- r_serialize_val R t nm x m (PBool false) PNone ;; Ok (Some r))
                       t ;; Ok (PList r))
              match iter_items v with
              | Some l => r <- ser_pos rec (sval rec) gs l ;; Ok (PList r)
              | None => Raise Unmodelled
              end.
    Proof.
      intros Hch Hm Hv. unfold py_enumerate.
      destruct (iter_items v) as [l|] eqn:Hl; [|apply refines_unm].
      assert (Hi : py_iter v = Ok l) by (destruct v; cbn [iter_items] in Hl; try discriminate; inversion Hl; reflexivity).
      rewrite Hi; cbn [bind].
      apply refines_bind; [|intros; apply refines_refl].
      apply (pos_refines p gs nm m Hch Hm l 0%nat).
      apply forallb_forall; intros x Hx; exact (val_ok_iter _ _ _ Hv Hl Hx).
    Qed.

    Lemma val_seqpos k gs sz u a p nm m v :
      at' p = Some (FSeqPos k gs sz u a) -> mapper_off m = true -> val_ok v = true ->
      refines (src_serialize_val W R (iref p) nm v m PF PNone) (sval rec (FSeqPos k gs sz u a) v).
    Proof.
      intros Hp Hm Hv. rewrite seqpos_eq. destruct k; start Hp.
      all: destruct (py_is_none v) eqn:Hn; [apply is_none_eq in Hn; subst v; fin|rewrite (unless_none_not _ _ Hn)].
      all: rewrite (getattr_def_iref _ _ _ _ Hp), attr_items; cbn [bind]; sv_plain.
      all: apply (pos_items_refines p gs nm m v (fun i g Hg => children_at _ _ _ _ Hp Hg) Hm Hv).
    Qed.

    (* ---- Tuple: a single item field is the field of every element; otherwise positional *)
    Lemma tuple_eq gs u v :
      sval rec (FTuple gs u) v =
      unless_none v match gs with
                    | [g] => ser_each (sval rec g) v
                    | _ => match iter_items v with
                           | Some l => r <- ser_pos rec (sval rec) gs l ;; Ok (PList r)
                           | None => Raise Unmodelled
                           end
                    end.
    Proof. destruct gs as [|g [|g' gs]]; reflexivity. Qed.

    Lemma py_eq_int a b : py_eq (PNum (NInt a)) (PNum (NInt b)) = (a =? b)%Z.
    Proof.
      cbn [py_eq as_num]. unfold num_eqb, Qeq_bool. cbn [num_to_Q Qnum Qden]. rewrite !Z.mul_1_r.
      unfold Zeq_bool. destruct (Z.eqb_spec a b) as [->|Hne]; [rewrite Z.compare_refl; reflexivity|].
      destruct (a ?= b)%Z eqn:Hc; try reflexivity. apply Z.compare_eq in Hc. contradiction.
    Qed.

    Lemma len_is_one p n :
      (t <- py_len (PList (irefs p n)) ;; py_eqv t (zint 1)) = Ok (Nat.eqb n 1).
    Proof.
      cbn [py_len bind]. unfold lenZ'. rewrite irefs_length. unfold py_eqv, zint. rewrite py_eq_int. f_equal.
      destruct n as [|[|n]]; try reflexivity.
      rewrite !Nat2Z.inj_succ. cbn [Nat.eqb]. apply Z.eqb_neq. lia.
    Qed.

    Lemma val_tuple gs u p nm m v :
      at' p = Some (FTuple gs u) -> mapper_off m = true -> val_ok v = true ->
      refines (src_serialize_val W R (iref p) nm v m PF PNone) (sval rec (FTuple gs u) v).
    Proof.
      intros Hp Hm Hv. rewrite tuple_eq. start Hp.
      destruct (py_is_none v) eqn:Hn; [apply is_none_eq in Hn; subst v; fin|rewrite (unless_none_not _ _ Hn)].
      rewrite (getattr_def_iref _ _ _ _ Hp), attr_items; cbn [bind]; sv_plain.
      rewrite len_is_one.
      destruct gs as [|g [|g' gs]]; cbn [length Nat.eqb bind].
      - (* no item field *)
        sv_plain.
        apply (pos_items_refines p [] nm m v (fun i g Hg => children_at _ _ _ _ Hp Hg) Hm Hv).
      - (* one item field: items = items[0] *)
        assert (Hg : at' (p ++ [0%N]) = Some g) by (apply (children_at p _ 0 g Hp); reflexivity).
        unfold zint. cbn [py_subscript]. rewrite (seq_index_nat _ 0).
        rewrite nth_error_irefs by lia. cbn [bind N.of_nat]. sv_plain.
        unfold iref at 1. cbn [py_isinstance isinstance1 existsb orb]. fold (iref (p ++ [0%N])).
        rewrite (isinst_iref _ _ _ Hg), field_is_field; cbn [bind].
        apply (each_refines (fun x => r_serialize_val R (iref (p ++ [0%N])) nm x m (PBool false) PNone)).
        intros l x Hl Hx; apply (ok_val _ _ HR); [exact Hg|exact Hm|exact (val_ok_iter _ _ _ Hv Hl Hx)].
      - (* two or more: positional *)
        sv_plain.
        apply (pos_items_refines p (g :: g' :: gs) nm m v (fun i g0 Hg0 => children_at _ _ _ _ Hp Hg0) Hm Hv).
    Qed.

    (* ---- ClassReference *)
    Lemma struct_isinst_gen cn a cd ks :
      find_class e cn = Some cd ->
      sv_isinstance tbl W (PStruct cn a) ks =
      Ok (existsb (fun k => str_in k (cn :: c_ancestors cd ++ [s2p "Structure"])) ks).
    Proof. Transparent sv_isinstance. intros Hc. cbn [sv_isinstance w_anc ser_world]. unfold world_anc. rewrite Hc. reflexivity. Opaque sv_isinstance. Qed.

    Lemma isinst_dyn_struct cn a cd c :
      find_class e cn = Some cd -> exists b, sv_isinstance_dyn tbl W (PStruct cn a) (ref c) = Ok b.
    Proof.
      intro Hc. unfold sv_isinstance_dyn, ref. rewrite tag_ref_ref.
      destruct (class_known tbl c).
      - rewrite (struct_isinst_gen _ _ _ _ Hc). eexists; reflexivity.
      - cbn [w_anc ser_world]. unfold world_anc. rewrite Hc. eexists; reflexivity.
    Qed.

    Lemma sv_is_refs a b : sv_is (ref a) (ref b) = Ok (pystr_eqb a b).
    Proof. unfold sv_is, obj_kind, ref. rewrite tag_ref_ref. cbn [orb]. rewrite pystr_eqb_refl. reflexivity. Qed.

    Lemma ext_aggregate cn cd m :
      find_class e cn = Some cd -> mapper_off m = true ->
      sv_ext W (s2p "aggregate_serialization_mappers") [ref cn; m; PBool false] = Ok (idmap cd).
    Proof.
      intros Hc Hm. unfold sv_ext. cbn [w_ext ser_world]. unfold world_ext. rewrite pystr_eqb_refl.
      unfold ref. rewrite tag_ref_ref, Hm, Hc. reflexivity.
    Qed.

    Lemma val_classref c p nm m v :
      at' p = Some (FClassRef c) -> mapper_off m = true -> val_ok v = true ->
      refines (src_serialize_val W R (iref p) nm v m PF PNone) (sval rec (FClassRef c) v).
    Proof.
      intros Hp Hm Hv. start Hp. cbn [ser_val].
      destruct (py_is_none v) eqn:Hn; [apply is_none_eq in Hn; subst v; fin|rewrite (unless_none_not _ _ Hn)].
      destruct v as [| | | | | | |[]| | |cn a|]; cbn [ser_plain_seq]; try apply refines_unm; sv_plain.
      1-3: apply (any_each _ nm Hv).
      destruct (find_class e cn) as [cd|] eqn:Hcls; [|apply refines_declines, Hrec, Hcls].
      rewrite (struct_isinst _ _ cd) by (exact Hcls || reflexivity). cbn [bind].
      rewrite (getattr_iref _ _ _ Hp), attr_get_type. cbn [bind py_or].
      destruct (isinst_dyn_struct cn a cd c Hcls) as [b Hb]. rewrite Hb.
      cbn [py_and bind sv_class_of]. rewrite sv_is_refs. cbn [py_not bind].
      destruct (b && negb (pystr_eqb cn c)) eqn:Hbb.
      - replace (if b then Ok (negb (pystr_eqb cn c)) else Ok false) with (@Ok bool true)
          by (destruct b; cbn [andb] in Hbb; [rewrite Hbb; reflexivity|discriminate]).
        cbn [bind]. rewrite (ext_aggregate _ _ PNone Hcls eq_refl). cbn [bind].
        apply refines_ret. apply (ok_int _ _ HR); [reflexivity|right; exists cd; split; [exact Hcls|reflexivity]|exact Hv].
      - replace (if b then Ok (negb (pystr_eqb cn c)) else Ok false) with (@Ok bool false)
          by (destruct b; cbn [andb] in Hbb; [rewrite Hbb; reflexivity|reflexivity]).
        cbn [bind].
        apply refines_ret. apply (ok_int _ _ HR); [reflexivity|left; exact Hm|exact Hv].
    Qed.

    (* ---- Map *)
    Lemma key_ok_hashable k : key_ok k = true -> py_hashable' k = true /\ py_hashable k = true.
    Proof. destruct k; try discriminate; split; reflexivity. Qed.

    Lemma ser_any_key k j : key_ok k = true -> ser_any rec k = Ok j -> key_ok j = true.
    Proof.
      destruct k as [| |[]| | | | | | | | |]; try discriminate; cbn [ser_any]; intros _ H; inversion H; subst; reflexivity.
    Qed.

    Lemma ser_val_key : forall f k j, key_ok k = true -> sval rec f k = Ok j -> key_ok j = true.
    Proof.
      induction f as [ks s c|c| | | |vs|c ms|ks sz u|ks g sz u IHg|ks gs sz u a IHgs|i sz|i g sz IHg|gs u IHgs|sz
                      |kf vf sz IHk IHv|fs IH|fs IH|fs IH|fs IH|c] using field_ind'; intros k j Hk H.
      all: try (destruct k as [| |[]| | | | | | | | |]; try discriminate Hk; cbn in H; try discriminate H;
                inversion H; subst; reflexivity).
      - (* Enum over a class *)
        cbn [ser_val] in H. destruct k; try discriminate Hk; cbn [ser_enum_member] in H; try discriminate H.
        destruct (enum_by_value ens c).
        + destruct (json_value_ok k) eqn:Hj; [|discriminate H]. inversion H; subst.
          destruct j as [| |[]| | | | | | | | |]; try discriminate Hj; reflexivity.
        + inversion H; subst; reflexivity.
      - (* Tuple *)
        rewrite tuple_eq in H.
        destruct gs as [|g [|g' gs]]; destruct k as [| |[]| | | | | | | | |]; try discriminate Hk;
          cbn [unless_none ser_each iter_items] in H; try discriminate H; inversion H; subst; reflexivity.
      - destruct (mfw_model_eq rec fs k) as (E & _). rewrite E in H. clear E.
        induction IH as [|g t Hg Ht IHt]; cbn [mfw_model] in H; [discriminate|].
        destruct (validate_weak re_match e g k) as [[]|x]; cbn [bind] in H.
        + destruct (sval rec g k) as [y|x] eqn:Hy; [inversion H; subst; exact (Hg _ _ Hk Hy)|].
          destruct (model_exn x); [discriminate|]. apply IHt, H.
        + destruct (model_exn x); [discriminate|]. apply IHt, H.
      - destruct (mfw_model_eq rec fs k) as (_ & E & _). rewrite E in H. clear E.
        induction IH as [|g t Hg Ht IHt]; cbn [mfw_model] in H; [discriminate|].
        destruct (validate_weak re_match e g k) as [[]|x]; cbn [bind] in H.
        + destruct (sval rec g k) as [y|x] eqn:Hy; [inversion H; subst; exact (Hg _ _ Hk Hy)|].
          destruct (model_exn x); [discriminate|]. apply IHt, H.
        + destruct (model_exn x); [discriminate|]. apply IHt, H.
      - destruct (mfw_model_eq rec fs k) as (_ & _ & E & _). rewrite E in H. clear E.
        induction IH as [|g t Hg Ht IHt]; cbn [mfw_model] in H; [discriminate|].
        destruct (validate_weak re_match e g k) as [[]|x]; cbn [bind] in H.
        + destruct (sval rec g k) as [y|x] eqn:Hy; [inversion H; subst; exact (Hg _ _ Hk Hy)|].
          destruct (model_exn x); [discriminate|]. apply IHt, H.
        + destruct (model_exn x); [discriminate|]. apply IHt, H.
      - destruct (mfw_model_eq rec fs k) as (_ & _ & _ & E). rewrite E in H. clear E.
        induction IH as [|g t Hg Ht IHt]; cbn [mfw_model] in H; [discriminate|].
        destruct (validate_weak re_match e g k) as [[]|x]; cbn [bind] in H.
        + destruct (sval rec g k) as [y|x] eqn:Hy; [inversion H; subst; exact (Hg _ _ Hk Hy)|].
          destruct (model_exn x); [discriminate|]. apply IHt, H.
        + destruct (model_exn x); [discriminate|]. apply IHt, H.
    Qed.

    Definition dict_fin (acc r : list (pyval * pyval)) : res (list (pyval * pyval)) :=
      if forallb (fun p => py_hashable (fst p)) r then Ok (dict_of_pairs acc r) else Raise TypeError.

    (* {k: v for ...} inserts as it goes; the model collects all pairs first: the same when every key the model
       produces is hashable *)
    Lemma dictcomp_refines (F : pyval * pyval -> res (option (pyval * pyval))) (G : pyval * pyval -> res (pyval * pyval)) :
      forall kv acc,
        (forall p, In p kv -> refines (F p) (q <- G p ;; Ok (Some q))) ->
        (forall p q, In p kv -> G p = Ok q -> key_ok (fst q) = true) ->
        refines (dictcompM F kv acc) (r <- mapR G kv ;; dict_fin acc r).
    Proof.
      induction kv as [|p t IH]; intros acc HF HG.
      - apply refines_refl.
      - cbn [dictcompM mapR].
        assert (Hp : refines (F p) (q <- G p ;; Ok (Some q))) by (apply HF; left; reflexivity).
        destruct Hp as [Hp|[Hp|Hp]].
        + rewrite Hp. left; reflexivity.
        + destruct Hp as (x & Hx & Hm). destruct (G p) as [q|x']; cbn [bind] in Hx; [discriminate|].
          inversion Hx; subst x'. right; left. exists x. split; [reflexivity|exact Hm].
        + rewrite Hp. destruct (G p) as [[k v]|x] eqn:Hq; cbn [bind]; [|apply refines_refl].
          destruct (key_ok_hashable k (HG p (k, v) (or_introl eq_refl) Hq)) as [H1 H2]. rewrite H1.
          assert (IH' := IH (dict_set acc k v) (fun p' Hp' => HF p' (or_intror Hp')) (fun p' q' Hp' => HG p' q' (or_intror Hp'))).
          destruct IH' as [IH'|[IH'|IH']].
          * left; exact IH'.
          * destruct IH' as (x & Hx & Hm). destruct (mapR G t) as [ys|x']; cbn [bind] in Hx.
            -- unfold dict_fin in Hx. destruct (forallb _ ys); [discriminate|]. inversion Hx; subst. discriminate Hm.
            -- inversion Hx; subst x'. right; left. exists x. split; [reflexivity|exact Hm].
          * rewrite IH'. destruct (mapR G t) as [ys|x']; cbn [bind]; [|apply refines_refl].
            unfold dict_fin. cbn [forallb fst snd dict_of_pairs]. rewrite H2. cbn [andb]. apply refines_refl.
    Qed.

    Lemma mapany_eq sz v :
      sval rec (FMapAny sz) v =
      unless_none v match v with
                    | PDict kv => r <- mapR (fun p => k' <- ser_any rec (fst p) ;; v' <- ser_any rec (snd p) ;; Ok (k', v')) kv ;;
                                  r' <- dict_fin [] r ;; Ok (PDict r')
                    | _ => Raise Unmodelled
                    end.
    Proof.
      cbn [ser_val]. destruct v; try reflexivity. cbn [unless_none].
      destruct (mapR _ kv) as [r|x]; cbn [bind]; [|reflexivity]. unfold dict_fin. destruct (forallb _ r); reflexivity.
    Qed.

    Lemma mapkv_eq kf vf sz v :
      sval rec (FMapKV kf vf sz) v =
      unless_none v match v with
                    | PDict kv => r <- mapR (fun p => k' <- sval rec kf (fst p) ;; v' <- sval rec vf (snd p) ;; Ok (k', v')) kv ;;
                                  r' <- dict_fin [] r ;; Ok (PDict r')
                    | _ => Raise Unmodelled
                    end.
    Proof.
      cbn [ser_val]. destruct v; try reflexivity. cbn [unless_none].
      destruct (mapR _ kv) as [r|x]; cbn [bind]; [|reflexivity]. unfold dict_fin. destruct (forallb _ r); reflexivity.
    Qed.

    Lemma val_ok_dict kv p : val_ok (PDict kv) = true -> In p kv -> key_ok (fst p) = true /\ val_ok (snd p) = true.
    Proof.
      cbn [val_ok]. intros H Hp. apply andb_true_iff in H as [H _]. rewrite forallb_forall in H.
      apply andb_true_iff. apply H, Hp.
    Qed.

    Lemma bind_assoc {A B C} (r : res A) (f : A -> res B) (g : B -> res C) :
      (b <- (a <- r ;; f a) ;; g b) = (a <- r ;; b <- f a ;; g b).
    Proof. destruct r; reflexivity. Qed.

    Lemma val_mapany sz p nm m v :
      at' p = Some (FMapAny sz) -> mapper_off m = true -> val_ok v = true ->
      refines (src_serialize_val W R (iref p) nm v m PF PNone) (sval rec (FMapAny sz) v).
    Proof.
      intros Hp Hm Hv. rewrite mapany_eq. start Hp.
      destruct (py_is_none v) eqn:Hn; [apply is_none_eq in Hn; subst v; fin|rewrite (unless_none_not _ _ Hn)].
      rewrite (getattr_iref _ _ _ Hp), attr_items. cbn [bind]. sv_plain.
      destruct v; try apply refines_unm. cbn [py_dict_items bind].
      rewrite <- bind_assoc. apply refines_bind; [|intros; apply refines_refl].
      apply dictcomp_refines.
      - intros [k x] Hin. destruct (val_ok_dict _ _ Hv Hin) as [Hk Hx]. cbn [fst snd] in *.
        rewrite bind_assoc.
        apply refines_bind; [apply (ok_any _ _ HR); [right; reflexivity|reflexivity|destruct k; try discriminate Hk; reflexivity]|].
        intros k' _ _. rewrite bind_assoc.
        apply refines_bind; [apply (ok_any _ _ HR); [right; reflexivity|reflexivity|exact Hx]|].
        intros x' _ _. apply refines_refl.
      - intros [k x] [k' x'] Hin H. destruct (val_ok_dict _ _ Hv Hin) as [Hk _]. cbn [fst snd] in *.
        destruct (ser_any rec k) as [j|] eqn:Hj; cbn [bind] in H; [|discriminate].
        destruct (ser_any rec x); cbn [bind] in H; [|discriminate]. inversion H; subst.
        exact (ser_any_key _ _ Hk Hj).
    Qed.

    Lemma val_mapkv kf vf sz p nm m v :
      at' p = Some (FMapKV kf vf sz) -> mapper_off m = true -> val_ok v = true ->
      refines (src_serialize_val W R (iref p) nm v m PF PNone) (sval rec (FMapKV kf vf sz) v).
    Proof.
      intros Hp Hm Hv. rewrite mapkv_eq. start Hp.
      destruct (py_is_none v) eqn:Hn; [apply is_none_eq in Hn; subst v; fin|rewrite (unless_none_not _ _ Hn)].
      rewrite !(getattr_iref _ _ _ Hp), !attr_items. cbn [bind]. sv_plain.
      replace (t13 <- py_len (PList (irefs p 2)) ;; py_eqv t13 (zint 2)) with (@Ok bool true) by reflexivity.
      cbn [bind]. change (irefs p 2) with [iref (p ++ [0%N]); iref (p ++ [1%N])]. cbn [py_unpack2 bind].
      destruct v; try apply refines_unm. cbn [py_dict_items bind].
      assert (Hk : at' (p ++ [0%N]) = Some kf) by (apply (children_at p _ 0 kf Hp); reflexivity).
      assert (Hvf : at' (p ++ [1%N]) = Some vf) by (apply (children_at p _ 1 vf Hp); reflexivity).
      rewrite <- bind_assoc. apply refines_bind; [|intros; apply refines_refl].
      apply dictcomp_refines.
      - intros [k x] Hin. destruct (val_ok_dict _ _ Hv Hin) as [Hko Hx]. cbn [fst snd] in *.
        rewrite bind_assoc.
        apply refines_bind; [apply (ok_val _ _ HR); [exact Hk|reflexivity|destruct k; try discriminate Hko; reflexivity]|].
        intros k' _ _. rewrite bind_assoc.
        apply refines_bind; [apply (ok_val _ _ HR); [exact Hvf|reflexivity|exact Hx]|].
        intros x' _ _. apply refines_refl.
      - intros [k x] [k' x'] Hin H. destruct (val_ok_dict _ _ Hv Hin) as [Hko _]. cbn [fst snd] in *.
        destruct (sval rec kf k) as [j|] eqn:Hj; cbn [bind] in H; [|discriminate].
        destruct (sval rec vf x); cbn [bind] in H; [|discriminate]. inversion H; subst.
        exact (ser_val_key _ _ _ Hko Hj).
    Qed.

    (* ---- serialize_val, every kind of field *)
    Theorem val_body f p nm m v :
      at' p = Some f -> mapper_off m = true -> val_ok v = true ->
      refines (src_serialize_val W R (iref p) nm v m PF PNone) (sval rec f v).
    Proof.
      intros Hp Hm Hv.
      destruct f as [k s c|c| | | |vs|c ms|k sz u|k g sz u|k gs sz u a|i [g|] sz|gs u|sz|kf vf sz|fs|fs|fs|fs|c].
      - apply val_scalar_field; [exact I|exact Hp].
      - apply val_scalar_field; [exact I|exact Hp].
      - apply val_scalar_field; [exact I|exact Hp].
      - apply val_none, Hp.
      - apply val_anything; assumption.
      - apply val_enum; [reflexivity|exact Hp].
      - apply val_enum; [reflexivity|exact Hp].
      - apply val_seqany; [exact I|assumption..].
      - apply (val_seqeach _ g); [reflexivity|assumption..].
      - apply val_seqpos; assumption.
      - apply (val_seqeach _ g); [reflexivity|assumption..].
      - apply val_seqany; [exact I|assumption..].
      - apply val_tuple; assumption.
      - apply val_mapany; assumption.
      - apply val_mapkv; assumption.
      - apply (val_mfw _ fs); [left; reflexivity|assumption..].
      - apply (val_mfw _ fs); [right; left; reflexivity|assumption..].
      - apply (val_mfw _ fs); [right; right; left; reflexivity|assumption..].
      - apply (val_mfw _ fs); [right; right; right; reflexivity|assumption..].
      - apply val_classref; assumption.
    Qed.

    (* ---- serialize_field *)
    Theorem field_body f p v :
      at' p = Some f -> val_ok v = true ->
      refines (src_serialize_field W R (iref p) v PF) (sval rec f v).
    Proof.
      intros Hp Hv. unfold src_serialize_field. rewrite (getattr_iref _ _ _ Hp), attr_name. cbn [bind].
      apply refines_ret. apply (ok_val _ _ HR); [exact Hp|reflexivity|exact Hv].
    Qed.

    (* ---- serialize_multifield_wrapper: which exceptions move on to the next option *)
    Lemma no_validate_ok g v : has_validate g = false -> validate_weak re_match e g v = Ok tt.
    Proof. destruct g; try discriminate; reflexivity. Qed.

    (* `except Exception:` catches what a bare `except:` catches, as far as the model can tell *)
    Lemma catches_exception ex : catches [s2p "Exception"] ex = Ok (negb (model_exn ex)).
    Proof. destruct ex; reflexivity. Qed.
    Lemma catches_base_exception ex : catches [s2p "BaseException"] ex = Ok (negb (model_exn ex)).
    Proof. destruct ex; reflexivity. Qed.

    Ltac catch_spec := first [rewrite catch_all_spec | rewrite catches_exception | rewrite catches_base_exception].

    Lemma mfw_loop (nm v : pyval) : val_ok v = true -> forall gs ps,
      Forall2 (fun r g => exists q, r = iref q /\ at' q = Some g) ps gs ->
      refines (src_serialize_multifield_wrapper_loop1 W R v PF (fun _ => Raise ValueError) ps)
              (mfw_model (sval rec) (validate_weak re_match e) v gs).
    Proof.
      intros Hv gs ps H. induction H as [|r g ps gs (q & -> & Hq) _ IH]; [apply refines_refl|].
      cbn [src_serialize_multifield_wrapper_loop1 mfw_model].
      rewrite (getattr_def_iref _ _ _ _ Hq), attr_validate. cbn [bind].
      assert (Hf := ok_field _ _ HR q g v Hq Hv). fold PF in Hf |- *.
      destruct (has_validate g) eqn:Hg.
      - cbn [py_truthy mref bind]. rewrite (meth_validate _ _ _ Hq).
        destruct (validate_weak re_match e g v) as [[]|ex]; cbn [bind].
        + destruct Hf as [Hf|[Hf|Hf]].
          * rewrite Hf. cbn [bind py_try]. catch_spec. cbn [model_exn negb bind]. left; reflexivity.
          * destruct Hf as (x & Hx & Hm). rewrite Hx, Hm. right; left. exists x. split; [reflexivity|exact Hm].
          * rewrite Hf. destruct (sval rec g v) as [j|ex]; cbn [bind py_try]; [apply refines_refl|].
            catch_spec. cbn [bind]. destruct (model_exn ex); cbn [negb]; [apply refines_refl|exact IH].
        + cbn [py_try]. catch_spec. cbn [bind]. destruct (model_exn ex); cbn [negb]; [apply refines_refl|exact IH].
      - cbn [py_truthy bind]. rewrite (no_validate_ok _ _ Hg). cbn [bind].
        destruct Hf as [Hf|[Hf|Hf]].
        * rewrite Hf. cbn [bind py_try]. catch_spec. cbn [model_exn negb bind]. left; reflexivity.
        * destruct Hf as (x & Hx & Hm). rewrite Hx, Hm. right; left. exists x. split; [reflexivity|exact Hm].
        * rewrite Hf. destruct (sval rec g v) as [j|ex]; cbn [bind py_try]; [apply refines_refl|].
          catch_spec. cbn [bind]. destruct (model_exn ex); cbn [negb]; [apply refines_refl|exact IH].
    Qed.

    Lemma irefs_forall2 p gs :
      (forall i g, nth_error gs i = Some g -> at' (p ++ [N.of_nat i]) = Some g) ->
      Forall2 (fun r g => exists q, r = iref q /\ at' q = Some g) (irefs p (length gs)) gs.
    Proof.
      intro H. unfold irefs.
      assert (G : forall o t, (forall i g, nth_error t i = Some g -> at' (p ++ [N.of_nat (o + i)]) = Some g) ->
                  Forall2 (fun r g => exists q, r = iref q /\ at' q = Some g)
                          (map (fun i => iref (p ++ [N.of_nat i])) (seq o (length t))) t).
      { intros o t. revert o. induction t as [|g t IH]; intros o Ht; [constructor|].
        cbn [length seq map]. constructor.
        - exists (p ++ [N.of_nat o]). split; [reflexivity|]. specialize (Ht 0%nat g eq_refl).
          rewrite Nat.add_0_r in Ht. exact Ht.
        - apply IH. intros i g' Hi. specialize (Ht (S i) g' Hi). rewrite Nat.add_succ_r in Ht. exact Ht. }
      apply (G 0%nat gs). intros i g Hi. apply H, Hi.
    Qed.

    Theorem mfw_body p gs nm m v :
      (forall i g, nth_error gs i = Some g -> at' (p ++ [N.of_nat i]) = Some g) -> val_ok v = true ->
      refines (src_serialize_multifield_wrapper W R (PList (irefs p (length gs))) nm v m PF)
              (mfw_model (sval rec) (validate_weak re_match e) v gs).
    Proof.
      intros H Hv. unfold src_serialize_multifield_wrapper. cbn [py_iter bind].
      apply (mfw_loop nm v Hv), irefs_forall2, H.
    Qed.

    (* ---- serialize_internal on a dict *)
    Hypothesis Henv : env_ok = true.

    Lemma class_index_unknown cn : class_known tbl cn = true ->
      forall (l : env) n, forallb class_ok l = true -> class_index l cn n = None.
    Proof.
      intros Hk l. induction l as [|c t IH]; intros n He; [reflexivity|].
      cbn [forallb] in He. apply andb_true_iff in He as [Hc Ht].
      cbn [class_index]. destruct (pystr_eqb (c_name c) cn) eqn:E.
      - apply pystr_eqb_spec in E. subst cn. unfold class_ok in Hc. rewrite Hk in Hc. discriminate Hc.
      - apply IH, Ht.
    Qed.

    Lemma env_class_unknown cn : class_known tbl cn = true -> class_index e cn 0 = None.
    Proof. intro Hk. apply class_index_unknown; [exact Hk|exact Henv]. Qed.

    Lemma cattr_typedpy_additional :
      sv_getattr W (ref (s2p "TypedPyDefaults")) (s2p "additional_properties_default") = Ok (PBool true).
    Proof.
      unfold sv_getattr, sv_lookup, ref. rewrite tag_ref_ref. cbn [w_cattr ser_world bind]. unfold world_cattr.
      rewrite env_class_unknown by (vm_compute; reflexivity). reflexivity.
    Qed.

    Lemma cattr_typedpy_compact :
      sv_getattr W (ref (s2p "TypedPyDefaults")) (s2p "compact_serialization_default") = Ok (PBool false).
    Proof.
      unfold sv_getattr, sv_lookup, ref. rewrite tag_ref_ref. cbn [w_cattr ser_world bind]. unfold world_cattr.
      rewrite env_class_unknown by (vm_compute; reflexivity). reflexivity.
    Qed.

    Lemma cattr_generator_ty :
      sv_getattr_def W (ref (s2p "Generator")) (s2p "_ty") PNone = Ok (bref (s2p "generator")).
    Proof.
      unfold sv_getattr_def, sv_lookup, ref. rewrite tag_ref_ref. cbn [w_cattr ser_world bind]. unfold world_cattr.
      rewrite env_class_unknown by (vm_compute; reflexivity). reflexivity.
    Qed.

    Lemma not_generator v : (match v with POther _ _ => False | _ => True end) ->
      sv_isinstance_dyn tbl W v (bref (s2p "generator")) = Ok false.
    Proof. intro H. destruct v; try contradiction; reflexivity. Qed.

    Lemma issub_bref n ks : forallb (class_known tbl) ks = true -> sv_issubclass tbl W (bref n) ks = Ok false.
    Proof. intro H. unfold sv_issubclass, bref. rewrite tag_bltn_ref, tag_bltn_bltn, H. reflexivity. Qed.

    Lemma plain_private_attr v a d :
      plain_data v = true -> private_name a = true -> sv_getattr_def W v a d = Ok d.
    Proof. intros Hv Ha. unfold sv_getattr_def, sv_lookup. destruct v; try discriminate Hv; rewrite Ha; reflexivity. Qed.

    Lemma getattr_bref_dict n : sv_getattr W (bref n) str_dict = Ok (POther bns_tag n).
    Proof. unfold sv_getattr, sv_lookup, bref. rewrite tag_bltn_ref, tag_bltn_inst, tag_bltn_bltn, pystr_eqb_refl. reflexivity. Qed.

    Lemma bns_get n s d : private_name s = true -> py_dict_get (POther bns_tag n) (PStr s) d = Ok d.
    Proof. intro H. unfold py_dict_get. replace (tag_is bns_tag bns_tag) with true by reflexivity. rewrite H. reflexivity. Qed.

    Lemma dict_set_fresh : forall acc k v,
        (forall p, In p acc -> py_eq (fst p) k = false) -> dict_set acc k v = acc ++ [(k, v)].
    Proof.
      induction acc as [|[k' v'] t IH]; intros k v H; [reflexivity|].
      cbn [dict_set app]. pose proof (H (k', v') (or_introl eq_refl)) as E. cbn [fst] in E. rewrite E. f_equal. apply IH. intros p Hp. apply H. right; exact Hp.
    Qed.

    Lemma dict_build_ok : forall l acc, (forall p, In p l -> py_hashable' (fst p) = true) -> exists r, dict_build acc l = Ok r.
    Proof.
      induction l as [|[k v] t IH]; intros acc H; [eexists; reflexivity|].
      cbn [dict_build]. pose proof (H (k, v) (or_introl eq_refl)) as E. cbn [fst] in E. rewrite E. apply IH. intros p Hp. apply H. right; exact Hp.
    Qed.

    Definition tup (p : pyval * pyval) : pyval := PTuple [fst p; snd p].

    Lemma unpack_all_tups l : unpack_all (map tup l) = Ok l.
    Proof. induction l as [|[k v] t IH]; [reflexivity|]. cbn [map unpack_all tup fst snd py_unpack2 bind]. rewrite IH. reflexivity. Qed.

    Lemma sv_is_none_ref n : sv_is PNone (ref n) = Ok false.
    Proof. unfold sv_is, obj_kind, ref. rewrite tag_ref_ref. reflexivity. Qed.

    Definition not_none (p : pyval * pyval) : bool := negb (match snd p with PNone => true | _ => false end).

    (* the attribute loop of serialize_internal, for a dict *)
    Lemma intd_loop kv0 imap (K : pyval -> res pyval) :
      (forall d, K (PDict d) = Ok (PDict d)) ->
      forall l acc,
        (forall p, In p l -> key_ok (fst p) = true /\ val_ok (snd p) = true) ->
        distinct_keys (map fst l) = true ->
        (forall p q, In p acc -> In q l -> py_eq (fst p) (fst q) = false) ->
        refines (src_serialize_internal_loop5 W R (PDict kv0) (PDict []) (PBool false) (PDict []) imap K (map tup l) (PDict acc))
                (r <- mapR (fun p => j <- ser_any rec (snd p) ;; Ok (fst p, j)) (filter not_none l) ;; Ok (PDict (acc ++ r))).
    Proof.
      intros HK. induction l as [|[k v] t IH]; intros acc Hl Hd Hf.
      - cbn [map src_serialize_internal_loop5 filter mapR bind]. rewrite HK, app_nil_r. apply refines_refl.
      - cbn [map src_serialize_internal_loop5 tup fst snd py_unpack2 bind].
        rewrite (plain_private_attr (PDict kv0)) by reflexivity. cbn [bind py_truthy py_not negb py_and].
        destruct (Hl (k, v) (or_introl eq_refl)) as [Hk Hv]. cbn [fst snd] in Hk, Hv.
        cbn [map distinct_keys fst] in Hd. apply andb_true_iff in Hd as [Hd1 Hd2].
        assert (IHt : forall acc', (forall p q, In p acc' -> In q t -> py_eq (fst p) (fst q) = false) ->
                  refines (src_serialize_internal_loop5 W R (PDict kv0) (PDict []) (PBool false) (PDict []) imap K (map tup t) (PDict acc'))
                    (r <- mapR (fun p => j <- ser_any rec (snd p) ;; Ok (fst p, j)) (filter not_none t) ;; Ok (PDict (acc' ++ r)))).
        { intros acc' Hf'. apply IH; [intros p Hp; apply Hl; right; exact Hp|exact Hd2|exact Hf']. }
        destruct (py_is_none v) eqn:Hn.
        + apply is_none_eq in Hn. subst v. cbn [bind filter not_none snd negb].
          apply IHt. intros p q Hp Hq. apply Hf; [exact Hp|right; exact Hq].
        + cbn [bind]. assert (Hnn : not_none (k, v) = true) by (destruct v; try discriminate Hn; reflexivity).
          cbn [filter]. rewrite Hnn. cbn [mapR snd fst].
          destruct (key_ok_hashable k Hk) as [Hh _].
          unfold src_get_mapped_value, src_convert_to_camel_case_if_required.
          cbn [py_in_dyn]. rewrite Hh. cbn [dict_has dict_get bind py_and py_truthy].
          rewrite sv_is_none_ref. cbn [py_not bind negb py_dict_get]. rewrite Hh. cbn [dict_get bind].
          assert (Hfm : exists s, py_format W k = Ok s) by (destruct k; try discriminate Hk; eexists; reflexivity).
          destruct Hfm as [s0 Hs0]. rewrite Hs0. cbn [bind py_hashable' py_or_val py_truthy].
          assert (Ha := ok_any _ _ HR PNone v k (PDict []) (or_introl eq_refl) eq_refl Hv). fold PF in Ha. unfold PF in Ha.
          destruct Ha as [Ha|[Ha|Ha]].
          * rewrite Ha. left; reflexivity.
          * destruct Ha as (x & Hx & Hmx). rewrite Hx. cbn [bind]. right; left. exists x. split; [reflexivity|exact Hmx].
          * rewrite Ha. destruct (ser_any rec v) as [j|ex]; cbn [bind]; [|apply refines_refl].
            cbn [PyOpsDerive.py_setitem]. rewrite Hh. cbn [bind].
            rewrite dict_set_fresh by (intros p Hp; exact (Hf p (k, v) Hp (or_introl eq_refl))).
            assert (Hfr : forall p q, In p (acc ++ [(k, j)]) -> In q t -> py_eq (fst p) (fst q) = false).
            { intros p q Hp Hq. apply in_app_or in Hp as [Hp|[<-|[]]]; [apply Hf; [exact Hp|right; exact Hq]|].
              cbn [fst]. apply negb_true_iff in Hd1.
              destruct (py_eq k (fst q)) eqn:E; [|reflexivity].
              rewrite <- Hd1. symmetry. apply existsb_exists. exists (fst q). split; [apply in_map, Hq|exact E]. }
            specialize (IHt _ Hfr).
            destruct (mapR _ (filter not_none t)) as [ys|ex]; cbn [bind] in IHt |- *; [|exact IHt].
            rewrite <- app_assoc in IHt. exact IHt.
    Qed.

    Lemma intd_body kv m rm :
      mapper_off m = true -> mapper_off rm = true -> val_ok (PDict kv) = true ->
      refines (src_serialize_internal W R (PDict kv) m rm PF PF) (dict_model rec kv).
    Proof.
      intros Hm Hrm Hv. unfold src_serialize_internal, PF. cbn [sv_class_of bind].
      rewrite !issub_bref by (vm_compute; reflexivity). cbn [py_and bind].
      rewrite isinst_plain by (vm_compute; reflexivity). cbn [bind].
      rewrite cattr_generator_ty. cbn [bind]. rewrite not_generator by exact I.
      rewrite plain_private_attr by reflexivity. cbn [bind py_iter filterM py_isinstance existsb isinstance1 orb].
      rewrite getattr_bref_dict, cattr_typedpy_additional.
      cbn [py_items_val py_dict_items py_list_of py_iter pairs_val py_add py_keys_val py_dict_keys map bind].
      rewrite !bns_get by reflexivity. cbn [bind py_len].
      change (py_eqv (PNum (NInt (lenZ' (@nil pyval)))) (zint 1)) with (@Ok bool false).
      cbn [py_and bind]. rewrite app_nil_r. fold tup.
      assert (Hks : forall p, In p kv -> key_ok (fst p) = true /\ val_ok (snd p) = true) by (intros p Hp; exact (val_ok_dict _ _ Hv Hp)).
      assert (Hd : distinct_keys (map fst kv) = true) by (cbn [val_ok] in Hv; apply andb_true_iff in Hv as [_ Hv]; exact Hv).
      cbn [py_dict_of_val]. change (map (fun p : pyval * pyval => PTuple [fst p; snd p]) kv) with (map tup kv).
      rewrite unpack_all_tups. cbn [bind]. unfold py_dict_of.
      destruct (dict_build_ok kv [] (fun p Hp => proj1 (key_ok_hashable _ (proj1 (Hks p Hp))))) as [im Him]. rewrite Him. cbn [bind].
      assert (HK : forall d, (fun v_result : pyval =>
          c0 <- (t170 <- sv_getattr_def W (PDict kv) (s2p "_additional_serialization") PNone;; Ok (py_truthy t170));;
          (if c0
           then
            t171 <- sv_getattr W (PDict kv) (s2p "_additional_serialization()");;
            c1 <- py_not (Ok (py_isinstance t171 [K_dict]));;
            (if c1 then Raise TypeError
             else t173 <- py_dict_items t171;;
                  src_serialize_internal_loop6 W R (fun v_result_182 : pyval => Ok v_result_182) t173 v_result)
           else Ok v_result)) (PDict d) = Ok (PDict d)).
      { intro d. cbv beta. rewrite plain_private_attr by reflexivity. reflexivity. }
      destruct m as [| | | | | | | |[|]| | |]; try discriminate Hm; cbn [py_is_none bind py_or_val py_truthy length Nat.eqb negb].
      all: exact (intd_loop kv (PDict im) _ HK kv [] Hks Hd (fun p q Hp => match Hp with end)).
    Qed.

    (* ---- serialize_internal on an instance *)
    Definition strip (d : list (pystr * pyval)) : list (pystr * pyval) :=
      filter (fun p => negb (str_in (fst p) internal_names)) d.

    Definition is_pstr' (v : pyval) : bool := match v with PStr _ => true | _ => false end.

    (* instance.__dict__ as Python has it: the internal entries, and public attributes with well-formed values *)
    Definition pyinst_ok (d : list (pystr * pyval)) : bool :=
      forallb (fun p => str_in (fst p) internal_names || (public_name (fst p) && val_ok (snd p))) d &&
      distinct_names (map fst d) &&
      match alist_get d (s2p "_none_fields") with
      | None => true
      | Some (PSet _ l) => forallb is_pstr' l
      | Some _ => false
      end.

    (* defaults of the declared fields are well-formed values *)
    Definition defaults_ok : bool :=
      forallb (fun c => forallb (fun fd => match fd_default fd with Some x => val_ok x | None => true end) (c_fields c)) e.

    Definition internal_model (compact : bool) (cn : pystr) (d : list (pystr * pyval)) : res pyval :=
      match find_class e cn with
      | Some c =>
          match (if compact then compact_eligible c else None) with
          | Some fd =>
              sval rec (fd_field fd)
                   (match alist_get (strip d) (fd_name fd) with
                    | Some x => x
                    | None => match fd_default fd with Some x => x | None => PNone end
                    end)
          | None => kv <- ser_attrs re_match e ens rec c (strip d) ;; Ok (PDict kv)
          end
      | None => Raise Unmodelled
      end.

    Lemma class_index_find : forall (l : env) cn n,
        match class_index l cn n with
        | Some (i, c) => find_class l cn = Some c /\ (n <= i)%nat /\ nth_error l (i - n) = Some c
        | None => find_class l cn = None
        end.
    Proof.
      induction l as [|c t IH]; intros cn n; [reflexivity|].
      cbn [class_index find_class]. destruct (pystr_eqb (c_name c) cn).
      - split; [reflexivity|]. split; [lia|]. rewrite Nat.sub_diag. reflexivity.
      - specialize (IH cn (S n)). destruct (class_index t cn (S n)) as [[i c']|]; [|exact IH].
        destruct IH as (H1 & H2 & H3). split; [exact H1|]. split; [lia|].
        replace (i - n)%nat with (S (i - S n)) by lia. exact H3.
    Qed.

    Lemma class_ok_of cn c : find_class e cn = Some c -> class_ok c = true /\ c_name c = cn.
    Proof.
      unfold env_ok in Henv. revert Henv. induction e as [|c' t IH]; intros He H; [discriminate|].
      cbn [forallb] in He. apply andb_true_iff in He as [Hc Ht]. cbn [find_class] in H.
      destruct (pystr_eqb (c_name c') cn) eqn:E.
      - inversion H; subst. split; [exact Hc|apply pystr_eqb_spec, E].
      - apply IH; assumption.
    Qed.

    Fixpoint find_idx (l : list fdecl) (k : pystr) (i : nat) : option (nat * fdecl) :=
      match l with
      | [] => None
      | d :: t => if pystr_eqb (fd_name d) k then Some (i, d) else find_idx t k (S i)
      end.

    Lemma find_idx_spec : forall l k o,
        match find_idx l k o with
        | Some (i, fd) => find_field l k = Some fd /\ (o <= i)%nat /\ nth_error l (i - o) = Some fd
        | None => find_field l k = None
        end.
    Proof.
      induction l as [|d t IH]; intros k o; [reflexivity|].
      cbn [find_idx find_field]. destruct (pystr_eqb (fd_name d) k).
      - split; [reflexivity|]. split; [lia|]. rewrite Nat.sub_diag. reflexivity.
      - specialize (IH k (S o)). destruct (find_idx t k (S o)) as [[i fd]|]; [|exact IH].
        destruct IH as (H1 & H2 & H3). split; [exact H1|]. split; [lia|].
        replace (i - o)%nat with (S (i - S o)) by lia. exact H3.
    Qed.

    Lemma fields_kv_get ci : forall fs k o,
        dict_get (map (fun p => (PStr (fd_name (snd p)), iref [N.of_nat ci; N.of_nat (fst p)])) (combine (seq o (length fs)) fs)) (PStr k) =
        match find_idx fs k o with Some (i, _) => Some (iref [N.of_nat ci; N.of_nat i]) | None => None end.
    Proof.
      induction fs as [|d t IH]; intros k o; [reflexivity|].
      cbn [length seq combine map dict_get find_idx fst snd py_eq].
      destruct (pystr_eqb (fd_name d) k); [reflexivity|]. apply IH.
    Qed.

    Lemma idmap_get : forall fs k,
        dict_get (map (fun fd => (PStr (fd_name fd), PStr (fd_name fd))) fs) (PStr k) =
        match find_field fs k with Some _ => Some (PStr k) | None => None end.
    Proof.
      induction fs as [|d t IH]; intros k; [reflexivity|].
      cbn [map dict_get find_field py_eq]. destruct (pystr_eqb (fd_name d) k) eqn:E; [|apply IH].
      apply pystr_eqb_spec in E. rewrite E. reflexivity.
    Qed.

    Lemma find_field_bad fs k : forallb (fun fd => fname_ok (fd_name fd)) fs = true -> fname_ok k = false -> find_field fs k = None.
    Proof.
      intros H Hk. induction fs as [|d t IH]; [reflexivity|].
      cbn [forallb] in H. apply andb_true_iff in H as [Hd Ht]. cbn [find_field].
      destruct (pystr_eqb (fd_name d) k) eqn:E; [|apply IH, Ht].
      apply pystr_eqb_spec in E. rewrite E in Hd. congruence.
    Qed.

    Lemma dotted_not_fname k : fname_ok (List.app k (List.app (s2p "._mapper") (@nil N))) = false.
    Proof.
      unfold fname_ok. apply andb_false_iff. right. apply negb_false_iff.
      rewrite existsb_app. apply orb_true_iff. right. reflexivity.
    Qed.

    Lemma nonpublic_not_fname k : public_name k = false -> fname_ok k = false.
    Proof. intro H. unfold fname_ok. rewrite H. reflexivity. Qed.

    Section OneClass.
      Variables (cn : pystr) (c : classdef) (ci : nat).
      Hypothesis Hci : class_index e cn 0 = Some (ci, c).

      Lemma Hfind : find_class e cn = Some c.
      Proof. pose proof (class_index_find e cn 0) as H. rewrite Hci in H. exact (proj1 H). Qed.

      Lemma Hnth : nth_error e ci = Some c.
      Proof. pose proof (class_index_find e cn 0) as H. rewrite Hci in H. destruct H as (_ & _ & H). rewrite Nat.sub_0_r in H. exact H. Qed.

      Lemma Hcok : class_ok c = true.
      Proof. exact (proj1 (class_ok_of _ _ Hfind)). Qed.

      Lemma Hfields_ok : forallb (fun fd => fname_ok (fd_name fd)) (c_fields c) = true.
      Proof. pose proof Hcok as H. unfold class_ok in H. apply andb_true_iff in H as [_ H]. exact H. Qed.

      Lemma Hcn_unknown : class_known tbl cn = false.
      Proof.
        pose proof Hcok as H. unfold class_ok in H. apply andb_true_iff in H as [H _]. apply andb_true_iff in H as [H _].
        rewrite (proj2 (class_ok_of _ _ Hfind)) in H. apply negb_true_iff, H.
      Qed.

      Lemma field_at_env fi fd : nth_error (c_fields c) fi = Some fd -> at' [N.of_nat ci; N.of_nat fi] = Some (fd_field fd).
      Proof.
        intro H. unfold at_, field_at, forest. rewrite !Nat2N.id.
        rewrite nth_error_app1 by (rewrite map_length; apply nth_error_Some; rewrite Hnth; discriminate).
        rewrite (map_nth_error _ _ _ Hnth). rewrite (map_nth_error _ _ _ H). reflexivity.
      Qed.

      Lemma anc_of_class : w_anc W cn = Some (c_ancestors c ++ [s2p "Structure"]).
      Proof. cbn [w_anc ser_world]. unfold world_anc. rewrite Hfind. reflexivity. Qed.

      Lemma str_in_unknown k l : class_known tbl k = true -> forallb (fun a => negb (class_known tbl a)) l = true -> str_in k l = false.
      Proof.
        intros Hk Hl. unfold str_in. destruct (existsb (pystr_eqb k) l) eqn:E; [|reflexivity].
        apply existsb_exists in E as (a & Ha & E). apply pystr_eqb_spec in E. subst a.
        rewrite forallb_forall in Hl. specialize (Hl _ Ha). rewrite Hk in Hl. discriminate Hl.
      Qed.

      Lemma issub_user ks :
        sv_issubclass tbl W (ref cn) ks = Ok (existsb (fun k => str_in k (cn :: c_ancestors c ++ [s2p "Structure"])) ks).
      Proof. unfold sv_issubclass, ref. rewrite tag_ref_ref, Hcn_unknown, anc_of_class. reflexivity. Qed.

      Lemma not_fast : sv_issubclass tbl W (ref cn) [s2p "FastSerializable"] = Ok false.
      Proof.
        rewrite issub_user. cbn [existsb]. rewrite orb_false_r. f_equal.
        rewrite str_in_cons. apply orb_false_iff. split.
        - destruct (pystr_eqb (s2p "FastSerializable") cn) eqn:E; [|reflexivity].
          apply pystr_eqb_spec in E. pose proof Hcn_unknown as H. rewrite <- E in H. vm_compute in H. discriminate H.
        - unfold str_in. rewrite existsb_app. apply orb_false_iff. split; [|reflexivity].
          apply (str_in_unknown (s2p "FastSerializable")); [vm_compute; reflexivity|].
          pose proof Hcok as H. unfold class_ok in H. apply andb_true_iff in H as [H _]. apply andb_true_iff in H as [_ H]. exact H.
      Qed.

      Lemma is_structure_cls : sv_issubclass tbl W (ref cn) [s2p "Structure"] = Ok true.
      Proof. rewrite issub_user. cbn [existsb]. rewrite str_in_cons, str_in_snoc, orb_true_r. reflexivity. Qed.

      Lemma cattr_fields : sv_getattr W (ref cn) (s2p "get_all_fields_by_name()") = Ok (PDict (fields_kv ci (c_fields c))).
      Proof. unfold sv_getattr, sv_lookup, ref. rewrite tag_ref_ref. cbn [w_cattr ser_world bind]. unfold world_cattr. rewrite Hci. reflexivity. Qed.

      Lemma cattr_dict : sv_getattr W (ref cn) str_dict = Ok (class_dict c).
      Proof. unfold sv_getattr, sv_lookup, ref. rewrite tag_ref_ref. cbn [w_cattr ser_world bind]. unfold world_cattr. rewrite Hci. reflexivity. Qed.
    End OneClass.

    Section OneInst.
      Variables (cn : pystr) (c : classdef) (ci : nat) (d : list (pystr * pyval)).
      Hypothesis Hci : class_index e cn 0 = Some (ci, c).
      Hypothesis Hd : pyinst_ok d = true.

      Lemma inst_names p : In p d -> str_in (fst p) internal_names = true \/ (public_name (fst p) = true /\ val_ok (snd p) = true).
      Proof.
        intro Hp. unfold pyinst_ok in Hd. apply andb_true_iff in Hd as [H _]. apply andb_true_iff in H as [H _].
        rewrite forallb_forall in H. specialize (H _ Hp). apply orb_true_iff in H as [H|H]; [left; exact H|right; apply andb_true_iff, H].
      Qed.

      (* a private attribute that is not one of the internal entries: the instance does not have it *)
      Lemma inst_private_attr a dflt :
        public_name a = false -> str_in a internal_names = false -> pystr_eqb a str_dict = false ->
        sv_getattr_def W (PStruct cn d) a dflt = Ok dflt.
      Proof.
        intros Hpub Hint Hdd. unfold sv_getattr_def, sv_lookup. rewrite (anc_of_class _ _ _ Hci), Hdd.
        assert (Hg : alist_get d a = None).
        { destruct (alist_get d a) as [x|] eqn:E; [|reflexivity]. exfalso.
          assert (Hin : exists p, In p d /\ fst p = a).
          { clear -E. induction d as [|[k y] t IH]; [discriminate|]. cbn [alist_get] in E.
            destruct (pystr_eqb k a) eqn:Ek.
            - exists (k, y). split; [left; reflexivity|apply pystr_eqb_spec, Ek].
            - destruct (IH E) as (p & Hp & Hf). exists p. split; [right; exact Hp|exact Hf]. }
          destruct Hin as (p & Hp & <-). destruct (inst_names _ Hp) as [H|[H _]]; congruence. }
        rewrite Hg. cbn [w_sattr ser_world]. unfold world_sattr. rewrite (Hfind _ _ _ Hci).
        rewrite (find_field_bad _ _ (Hfields_ok _ _ _ Hci) (nonpublic_not_fname _ Hpub)). reflexivity.
      Qed.

      Lemma inst_dict : sv_getattr W (PStruct cn d) str_dict = Ok (PDict (dict_of_attrs d)).
      Proof. unfold sv_getattr, sv_lookup. rewrite (anc_of_class _ _ _ Hci), pystr_eqb_refl. reflexivity. Qed.

      (* the comprehension over instance.__dict__ with the skip-list of the SOURCE keeps exactly the entries
         that are not internal *)
      Lemma skip_list_items :
        filterM (fun '(k, v) => c0 <- py_not (py_in_lit k [PStr (s2p "_instantiated"); PStr (s2p "_none_fields"); PStr (s2p "_trust_supplied_values")]) ;;
                                 if c0 then Ok (Some (PTuple [k; v])) else Ok None) (dict_of_attrs d) =
        Ok (map (fun p => PTuple [PStr (fst p); snd p]) (strip d)).
      Proof.
        clear Hd. unfold strip, dict_of_attrs. induction d as [|[k v] t IH]; [reflexivity|].
        cbn [map filterM fst snd filter]. rewrite IH. clear IH.
        assert (E : py_in_lit (PStr k) [PStr (s2p "_instantiated"); PStr (s2p "_none_fields"); PStr (s2p "_trust_supplied_values")]
                    = Ok (str_in k internal_names)).
        { unfold py_in_lit, py_in, str_in, internal_names. cbn [existsb py_eq]. reflexivity. }
        rewrite E. cbn [py_not bind]. destruct (str_in k internal_names); reflexivity.
      Qed.
    End OneInst.

    Definition tupS (p : pystr * pyval) : pyval := PTuple [PStr (fst p); snd p].
    Definition attr_model (c : classdef) (p : pystr * pyval) : res (pyval * pyval) :=
      j <- match find_field (c_fields c) (fst p) with
           | Some fd => sval rec (fd_field fd) (snd p)
           | None => ser_any rec (snd p)
           end ;;
      Ok (PStr (fst p), j).
    Definition not_noneS (p : pystr * pyval) : bool := negb (match snd p with PNone => true | _ => false end).

    Lemma ser_attrs_eq c a : ser_attrs re_match e ens rec c a = mapR (attr_model c) (filter not_noneS a).
    Proof. reflexivity. Qed.

    Section StructLoop.
      Variables (cn : pystr) (c : classdef) (ci : nat) (d : list (pystr * pyval)).
      Hypothesis Hci : class_index e cn 0 = Some (ci, c).
      Hypothesis Hd : pyinst_ok d = true.
      Variables (imap : pyval) (K : pyval -> res pyval).
      Hypothesis HK : forall x, K (PDict x) = Ok (PDict x).

      Notation LOOP := (src_serialize_internal_loop2 W R (PStruct cn d) (idmap c) (PBool false) (PDict (fields_kv ci (c_fields c))) imap K).

      Lemma struct_loop_nones : forall ks acc, LOOP (map (fun k => PTuple [k; PNone]) ks) (PDict acc) = Ok (PDict acc).
      Proof.
        induction ks as [|k t IH]; intro acc; [cbn [map src_serialize_internal_loop2]; apply HK|].
        cbn [map src_serialize_internal_loop2 py_unpack2 bind py_is_none py_and].
        rewrite (inst_private_attr cn c ci d Hci Hd) by reflexivity. cbn [bind py_truthy py_not negb]. apply IH.
      Qed.

      Lemma struct_loop ks : forall l acc,
          (forall p, In p l -> public_name (fst p) = true /\ val_ok (snd p) = true) ->
          distinct_names (map fst l) = true ->
          (forall p q, In p acc -> In q l -> py_eq (fst p) (PStr (fst q)) = false) ->
          refines (LOOP (map tupS l ++ map (fun k => PTuple [k; PNone]) ks) (PDict acc))
                  (r <- mapR (attr_model c) (filter not_noneS l) ;; Ok (PDict (acc ++ r))).
      Proof.
        induction l as [|[k v] t IH]; intros acc Hl Hdn Hf.
        - cbn [map app filter mapR bind]. rewrite struct_loop_nones, app_nil_r. apply refines_refl.
        - cbn [map app src_serialize_internal_loop2 tupS fst snd py_unpack2 bind].
          rewrite (inst_private_attr cn c ci d Hci Hd) by reflexivity. cbn [bind py_truthy py_not negb py_and].
          destruct (Hl (k, v) (or_introl eq_refl)) as [Hk Hv]. cbn [fst snd] in Hk, Hv.
          cbn [map distinct_names fst] in Hdn. apply andb_true_iff in Hdn as [Hd1 Hd2].
          destruct (py_is_none v) eqn:Hn.
          + apply is_none_eq in Hn. subst v. cbn [bind filter not_noneS snd negb].
            apply IH; [intros p Hp; apply Hl; right; exact Hp|exact Hd2|intros p q Hp Hq; apply Hf; [exact Hp|right; exact Hq]].
          + cbn [bind]. assert (Hnn : not_noneS (k, v) = true) by (destruct v; try discriminate Hn; reflexivity).
            cbn [filter]. rewrite Hnn. cbn [mapR].
            unfold src_get_mapped_value, src_convert_to_camel_case_if_required, idmap.
            cbn [py_in_dyn py_hashable' py_subscript py_dict_getitem]. unfold dict_has. rewrite !idmap_get.
            cbn [py_format bind py_dict_get py_hashable']. rewrite idmap_get.
            rewrite (find_field_bad _ _ (Hfields_ok _ _ _ Hci) (dotted_not_fname k)).
            unfold fields_kv. rewrite fields_kv_get.
            pose proof (find_idx_spec (c_fields c) k 0) as Hix. unfold attr_model at 1. cbn [fst snd].
            assert (Hstep : forall (X M : res pyval),
                       refines X M ->
                       refines (t78 <- X ;; t80 <- PyOpsDerive.py_setitem (PDict acc) (PStr k) t78 ;; LOOP (map tupS t ++ map (fun k0 => PTuple [k0; PNone]) ks) t80)
                               (r <- match (j <- M ;; Ok (PStr k, j)) with
                                     | Ok y => match mapR (attr_model c) (filter not_noneS t) with Ok ys => Ok (y :: ys) | Raise e0 => Raise e0 end
                                     | Raise e0 => Raise e0
                                     end ;; Ok (PDict (acc ++ r)))).
            { intros X M [Ha|[Ha|Ha]].
              - rewrite Ha. left; reflexivity.
              - destruct Ha as (x & Hx & Hmx). rewrite Hx. cbn [bind]. right; left. exists x. split; [reflexivity|exact Hmx].
              - rewrite Ha. destruct M as [j|ex]; cbn [bind]; [|apply refines_refl].
                cbn [PyOpsDerive.py_setitem py_hashable' bind].
                rewrite dict_set_fresh by (intros p Hp; exact (Hf p (k, v) Hp (or_introl eq_refl))).
                assert (Hfr : forall p q, In p (acc ++ [(PStr k, j)]) -> In q t -> py_eq (fst p) (PStr (fst q)) = false).
                { intros p q Hp Hq. apply in_app_or in Hp as [Hp|[<-|[]]]; [apply Hf; [exact Hp|right; exact Hq]|].
                  cbn [fst py_eq]. apply negb_true_iff in Hd1.
                  destruct (pystr_eqb k (fst q)) eqn:E; [|reflexivity].
                  rewrite <- Hd1. symmetry. unfold str_in. apply existsb_exists. exists (fst q). split; [apply in_map, Hq|exact E]. }
                specialize (IH (acc ++ [(PStr k, j)]) (fun p Hp => Hl p (or_intror Hp)) Hd2 Hfr).
                destruct (mapR (attr_model c) (filter not_noneS t)) as [ys|ex]; cbn [bind] in IH |- *; [|exact IH].
                rewrite <- app_assoc in IH. exact IH. }
            destruct (find_idx (c_fields c) k 0) as [[i fd]|] eqn:Hi.
            * destruct Hix as (Hff & _ & Hnth). rewrite Nat.sub_0_r in Hnth. rewrite Hff.
              cbn [bind py_isinstance existsb isinstance1 orb py_and sv_class_of].
              replace (sv_is (bref (s2p "str")) (bref (s2p "str"))) with (@Ok bool true) by reflexivity.
              cbn [bind]. rewrite sv_is_none_ref. cbn [py_not bind negb py_truthy py_or_val].
              apply Hstep. apply (ok_val _ _ HR); [exact (field_at_env _ _ _ Hci _ _ Hnth)|reflexivity|exact Hv].
            * rewrite Hix. cbn [bind py_and py_truthy].
              rewrite sv_is_none_ref. cbn [py_not bind negb py_truthy py_or_val].
              apply Hstep. apply (ok_any _ _ HR); [left; reflexivity|reflexivity|exact Hv].
      Qed.
    End StructLoop.

    Hypothesis Hdef : defaults_ok = true.

    Lemma default_ok cn c fd x : find_class e cn = Some c -> In fd (c_fields c) -> fd_default fd = Some x -> val_ok x = true.
    Proof.
      unfold defaults_ok in Hdef. revert Hdef. induction e as [|c' t IH]; intros He H Hin Hx; [discriminate|].
      cbn [forallb] in He. apply andb_true_iff in He as [Hc Ht]. cbn [find_class] in H.
      destruct (pystr_eqb (c_name c') cn).
      - inversion H; subst. rewrite forallb_forall in Hc. specialize (Hc _ Hin). rewrite Hx in Hc. exact Hc.
      - apply IH; assumption.
    Qed.

    Lemma num_eqb_int a b : num_eqb (NInt a) (NInt b) = Z.eqb a b.
    Proof.
      unfold num_eqb, Qeq_bool. cbn [num_to_Q Qnum Qden]. rewrite !Z.mul_1_r.
      unfold Zeq_bool. destruct (Z.eqb_spec a b) as [E|E].
      - subst. rewrite Z.compare_refl. reflexivity.
      - destruct (Z.compare_spec a b); try reflexivity. contradiction.
    Qed.

    Lemma len_is_1 {A} (l : list A) : py_eqv (PNum (NInt (lenZ' l))) (zint 1) = Ok (Nat.eqb (length l) 1).
    Proof.
      unfold py_eqv, zint. cbn [py_eq as_num]. rewrite num_eqb_int. unfold lenZ'. f_equal.
      destruct (Nat.eqb_spec (length l) 1) as [E|E].
      - rewrite E. reflexivity.
      - apply Z.eqb_neq. lia.
    Qed.

    Lemma class_dict_additional c d0 : py_dict_get (class_dict c) (PStr (s2p "_additional_properties")) d0 = Ok (PBool (c_additional c)).
    Proof. reflexivity. Qed.
    Lemma class_dict_required c d0 : py_dict_get (class_dict c) (PStr (s2p "_required")) d0 = Ok (PList (map PStr (c_required c))).
    Proof. reflexivity. Qed.

    Lemma alist_get_strip d k : str_in k internal_names = false -> alist_get (strip d) k = alist_get d k.
    Proof.
      intro Hk. unfold strip. induction d as [|[k' v] t IH]; [reflexivity|].
      cbn [filter fst alist_get]. destruct (str_in k' internal_names) eqn:E; cbn [negb alist_get].
      - destruct (pystr_eqb k' k) eqn:Ek; [|exact IH]. apply pystr_eqb_spec in Ek. congruence.
      - rewrite IH. reflexivity.
    Qed.

    Lemma public_not_internal k : public_name k = true -> str_in k internal_names = false.
    Proof.
      intro H. destruct (str_in k internal_names) eqn:E; [|reflexivity]. exfalso.
      unfold str_in, internal_names in E. cbn [existsb] in E.
      repeat (apply orb_true_iff in E as [E|E]; [apply pystr_eqb_spec in E; subst k; discriminate H|]). discriminate E.
    Qed.

    Lemma distinct_filter (f : pystr * pyval -> bool) : forall d, distinct_names (map fst d) = true -> distinct_names (map fst (filter f d)) = true.
    Proof.
      induction d as [|[k v] t IH]; intro H; [reflexivity|].
      cbn [map fst distinct_names] in H. apply andb_true_iff in H as [H1 H2]. cbn [filter].
      destruct (f (k, v)); [|apply IH, H2]. cbn [map fst distinct_names]. rewrite (IH H2), andb_true_r.
      apply negb_true_iff. apply negb_true_iff in H1. destruct (str_in k (map fst (filter f t))) eqn:E; [|reflexivity].
      rewrite <- H1. symmetry. unfold str_in in *. apply existsb_exists in E as (x & Hx & E). apply existsb_exists. exists x. split; [|exact E].
      apply in_map_iff in Hx as (p & <- & Hp). apply in_map. apply filter_In in Hp. exact (proj1 Hp).
    Qed.

    Lemma nones_comp ks : filterM (fun k : pyval => Ok (Some (PTuple [k; PNone]))) ks = Ok (map (fun k => PTuple [k; PNone]) ks).
    Proof. induction ks as [|k t IH]; [reflexivity|]. cbn [filterM map bind]. rewrite IH. reflexivity. Qed.

    Lemma ints_body cn d m rm (compact : bool) :
      mapper_off m = true -> rm_ok cn rm -> pyinst_ok d = true ->
      refines (src_serialize_internal W R (PStruct cn d) m rm (PBool compact) PF) (internal_model compact cn d).
    Proof.
      intros Hm Hrm Hd. unfold internal_model.
      pose proof (class_index_find e cn 0) as Hix.
      destruct (class_index e cn 0) as [[ci c]|] eqn:Hci.
      2:{ rewrite Hix. apply refines_unm. }
      destruct Hix as (Hfc & _ & _). rewrite Hfc.
      unfold src_serialize_internal, PF. cbn [sv_class_of bind].
      rewrite (not_fast _ _ _ Hci). cbn [py_and bind].
      rewrite (is_structure_cls _ _ _ Hci). cbn [bind]. rewrite (cattr_fields _ _ _ Hci). cbn [bind].
      rewrite (struct_isinst _ _ c) by (exact Hfc || reflexivity). cbn [bind].
      (* the mapper: the identity renaming of the class *)
      assert (Hmap : (if py_truthy rm then Ok rm
                      else (t8 <- sv_ext W (s2p "aggregate_serialization_mappers") [ref cn; m; PBool false] ;; Ok t8)) = Ok (idmap c)).
      { rewrite (ext_aggregate _ _ _ Hfc Hm). cbn [bind].
        destruct Hrm as [Hoff|(c' & Hc' & ->)].
        - destruct rm as [| | | | | | | |[|]| | |]; try discriminate Hoff; reflexivity.
        - rewrite Hfc in Hc'. inversion Hc'; subst c'. unfold idmap. destruct (c_fields c); reflexivity. }
      rewrite Hmap. cbn [bind]. change (py_is_none (idmap c)) with false. cbn [bind].
      rewrite cattr_generator_ty. cbn [bind]. rewrite not_generator by exact I.
      (* _none_fields *)
      assert (Hnf : exists ks, (t14 <- sv_getattr_def W (PStruct cn d) (s2p "_none_fields") (PList []) ;; py_iter t14) = Ok ks /\ forallb is_pstr' ks = true).
      { unfold sv_getattr_def, sv_lookup. rewrite (anc_of_class _ _ _ Hci).
        change (pystr_eqb (s2p "_none_fields") str_dict) with false. cbv iota.
        pose proof Hd as Hd'. unfold pyinst_ok in Hd'. apply andb_true_iff in Hd' as [_ Hd'].
        destruct (alist_get d (s2p "_none_fields")) as [x|].
        - destruct x; try discriminate Hd'. exists l. split; [reflexivity|exact Hd'].
        - cbn [w_sattr ser_world]. unfold world_sattr. rewrite Hfc.
          rewrite (find_field_bad _ _ (Hfields_ok _ _ _ Hci)) by reflexivity. exists []. split; reflexivity. }
      destruct Hnf as (ks & Hks & Hkstr).
      rewrite <- (bind_assoc (sv_getattr_def W (PStruct cn d) (s2p "_none_fields") (PList [])) py_iter).
      rewrite Hks. cbn [bind]. rewrite nones_comp. cbn [bind py_isinstance existsb isinstance1 orb].
      change (s2p "__dict__") with str_dict.
      rewrite (inst_dict _ _ _ _ Hci). cbn [bind py_dict_items]. rewrite skip_list_items. cbn [bind py_add].
      rewrite (cattr_dict _ _ _ Hci). cbn [bind py_keys_val py_dict_keys py_dict_items py_list_of py_iter].
      rewrite cattr_typedpy_additional. cbn [bind]. rewrite class_dict_additional, class_dict_required. cbn [bind py_len].
      rewrite len_is_1. rewrite map_length. unfold fields_kv at 1. rewrite map_length, combine_length, seq_length, Nat.min_id.
      (* the attribute loop *)
      assert (HK : forall x, (fun v_result : pyval =>
          c1 <- (t84 <- sv_getattr_def W (PStruct cn d) (s2p "_additional_serialization") PNone;; Ok (py_truthy t84));;
          (if c1
           then
            t85 <- sv_getattr W (PStruct cn d) (s2p "_additional_serialization()");;
            c2 <- py_not (Ok (py_isinstance t85 [K_dict]));;
            (if c2 then Raise TypeError
             else t87 <- py_dict_items t85;;
                  src_serialize_internal_loop3 W R (fun v_result_96 : pyval => Ok v_result_96) t87 v_result)
           else Ok v_result)) (PDict x) = Ok (PDict x)).
      { intro x. cbv beta. rewrite (inst_private_attr _ _ _ _ Hci Hd) by reflexivity. reflexivity. }
      match goal with |- refines (c0 <- ?C ;; if c0 then ?T else ?E) ?M =>
        assert (Helse : refines E (kv <- ser_attrs re_match e ens rec c (strip d);; Ok (PDict kv))) end.
      { assert (Hor : py_or_val (Ok (idmap c)) (fun _ : unit => Ok (PDict [])) = Ok (idmap c)) by (unfold idmap; destruct (c_fields c); reflexivity).
        rewrite Hor. cbn [bind py_dict_of_val].
        set (L := map (fun p : pystr * pyval => PTuple [PStr (fst p); snd p]) (strip d) ++ map (fun k : pyval => PTuple [k; PNone]) ks).
        assert (HL : L = map tup (map (fun p => (PStr (fst p), snd p)) (strip d) ++ map (fun k => (k, PNone)) ks)).
        { unfold L. rewrite map_app, !map_map. reflexivity. }
        rewrite HL at 1. rewrite unpack_all_tups. cbn [bind]. unfold py_dict_of.
        destruct (dict_build_ok (map (fun p => (PStr (fst p), snd p)) (strip d) ++ map (fun k => (k, PNone)) ks) []) as [im Him].
        { intros p Hp. apply in_app_or in Hp as [Hp|Hp]; apply in_map_iff in Hp as (q & <- & Hq); [reflexivity|].
          rewrite forallb_forall in Hkstr. specialize (Hkstr _ Hq). destruct q; try discriminate Hkstr; reflexivity. }
        rewrite Him. cbn [bind]. rewrite ser_attrs_eq.
        pose proof (struct_loop cn c ci d Hci Hd (PDict im) _ HK ks (strip d) []) as HL2.
        cbn [app] in HL2. apply HL2.
        - intros p Hp. unfold strip in Hp. apply filter_In in Hp as [Hp Hni]. apply negb_true_iff in Hni.
          destruct (inst_names d Hd p Hp) as [Hi|Hi]; [congruence|exact Hi].
        - apply distinct_filter. unfold pyinst_ok in Hd. apply andb_true_iff in Hd as [Hd' _]. apply andb_true_iff in Hd' as [_ Hd']. exact Hd'.
        - intros p q []. }
      destruct (c_fields c) as [|fd [|fd2 rest]] eqn:Hfs.
      - cbn [length Nat.eqb py_and bind].
        replace (if compact then compact_eligible c else None) with (@None fdecl) by (unfold compact_eligible; rewrite Hfs; destruct compact; reflexivity).
        exact Helse.
      - cbn [length Nat.eqb py_and bind fields_kv seq combine map fst snd].
        assert (Hcond : exists b : bool,
                   py_and (py_eqv (PList (map PStr (c_required c))) (PList [PStr (fd_name fd)]))
                          (fun _ : unit => if py_is_false (PBool (c_additional c)) then Ok (py_truthy (PBool compact)) else Ok false) = Ok b /\
                   (if compact then compact_eligible c else None) = if b then Some fd else None).
        { unfold compact_eligible. rewrite Hfs.
          destruct (c_required c) as [|r [|r2 rr]]; cbn [map py_eqv py_eq py_and bind].
          - exists false. split; [reflexivity|destruct compact; reflexivity].
          - rewrite andb_true_r. destruct (pystr_eqb r (fd_name fd)); cbn [andb];
              destruct (c_additional c), compact; cbn [py_is_false py_truthy negb]; eexists; split; reflexivity.
          - rewrite andb_false_r. exists false. split; [reflexivity|destruct compact; reflexivity]. }
        destruct Hcond as (b & Hb & Hmodel). rewrite Hb, Hmodel. cbn [bind]. destruct b; [|exact Helse].
        (* the compact form: the single field's value *)
        unfold zint at 1. cbn [py_subscript]. change (seq_index [PStr (fd_name fd)] 0) with (@Ok pyval (PStr (fd_name fd))).
        cbn [bind py_dict_get py_hashable' dict_get py_eq]. rewrite pystr_eqb_refl. cbn [bind sv_getattr_dyn].
        pose proof (Hfields_ok _ _ _ Hci) as Hfn. rewrite Hfs in Hfn. cbn [forallb] in Hfn. rewrite andb_true_r in Hfn.
        unfold fname_ok in Hfn. apply andb_true_iff in Hfn as [Hpub _].
        rewrite (alist_get_strip _ _ (public_not_internal _ Hpub)).
        assert (Hcur : exists cur, sv_getattr W (PStruct cn d) (fd_name fd) = Ok cur /\ val_ok cur = true /\
                          cur = match alist_get d (fd_name fd) with Some x => x | None => match fd_default fd with Some x => x | None => PNone end end).
        { unfold sv_getattr, sv_lookup. rewrite (anc_of_class _ _ _ Hci).
          replace (pystr_eqb (fd_name fd) str_dict) with false.
          2:{ symmetry. apply pystr_eqb_neq. intro E. rewrite E in Hpub. discriminate Hpub. }
          destruct (alist_get d (fd_name fd)) as [x|] eqn:Hx.
          - exists x. split; [reflexivity|]. split; [|reflexivity].
            assert (Hin : In (fd_name fd, x) d \/ exists k, In (k, x) d /\ k = fd_name fd).
            { right. clear -Hx. induction d as [|[k y] t IH]; [discriminate|]. cbn [alist_get] in Hx.
              destruct (pystr_eqb k (fd_name fd)) eqn:Ek.
              - inversion Hx; subst. exists k. split; [left; reflexivity|apply pystr_eqb_spec, Ek].
              - destruct (IH Hx) as (k' & Hk' & E). exists k'. split; [right; exact Hk'|exact E]. }
            destruct Hin as [Hin|(k & Hin & ->)]; destruct (inst_names d Hd _ Hin) as [Hi|[_ Hi]]; try exact Hi;
              cbn [fst] in Hi; rewrite (public_not_internal _ Hpub) in Hi; discriminate Hi.
          - cbn [w_sattr ser_world]. unfold world_sattr. rewrite Hfc, Hfs. cbn [find_field]. rewrite pystr_eqb_refl. cbn [bind].
            eexists. split; [reflexivity|]. split; [|reflexivity].
            destruct (fd_default fd) as [x|] eqn:Hdx; [|reflexivity].
            apply (default_ok cn c fd x Hfc); [rewrite Hfs; left; reflexivity|exact Hdx]. }
        destruct Hcur as (cur & Hg & Hvc & Hce). rewrite Hg, <- Hce. cbn [bind].
        rewrite (inst_private_attr _ _ _ _ Hci Hd) by reflexivity. cbn [bind py_truthy].
        apply refines_ret. apply (ok_val _ _ HR); [|reflexivity|exact Hvc].
        change [N.of_nat ci; N.of_nat 0] with [N.of_nat ci; N.of_nat 0].
        apply (field_at_env _ _ _ Hci 0%nat fd). rewrite Hfs. reflexivity.
      - cbn [length Nat.eqb py_and bind].
        replace (if compact then compact_eligible c else None) with (@None fdecl) by (unfold compact_eligible; rewrite Hfs; destruct compact; reflexivity).
        exact Helse.
    Qed.

    (* ---- serialize *)
    Lemma ser_body cn a m (compact : pyval) :
      compact = PNone \/ (exists b, compact = PBool b) ->
      src_serialize W R (PStruct cn a) m compact PF =
      match find_class e cn with
      | Some _ => t <- r_serialize_internal R (PStruct cn a) m PNone (match compact with PNone => PBool false | _ => compact end) PF ;; Ok t
      | None => Raise Unmodelled
      end.
    Proof.
      intros Hc. destruct (find_class e cn) as [c|] eqn:Hfc.
      - unfold src_serialize, PF. destruct Hc as [->|[b ->]]; cbn [py_is_none bind].
        + rewrite cattr_typedpy_compact. cbn [bind]. rewrite (struct_isinst _ _ c) by (exact Hfc || reflexivity).
          cbn [py_not bind negb]. reflexivity.
        + rewrite (struct_isinst _ _ c) by (exact Hfc || reflexivity). cbn [py_not bind negb]. reflexivity.
      - unfold src_serialize, PF. destruct Hc as [->|[b ->]]; cbn [py_is_none bind].
        + rewrite cattr_typedpy_compact. cbn [bind]. rewrite struct_isinst_unknown by exact Hfc. reflexivity.
        + rewrite struct_isinst_unknown by exact Hfc. reflexivity.
    Qed.
  End Bodies.

  (* ---------------------------------------------------------------- the recursion *)

  Notation sstruct := (ser_struct re_match e ens).

  Lemma rec_ok_struct n : rec_ok (sstruct n).
  Proof.
    intros cn a H. destruct n; cbn [ser_struct]; [apply declines_outoffuel|]. rewrite H. apply declines_unmodelled.
  Qed.

  Lemma val_ok_strip cn a : val_ok (PStruct cn a) = true -> strip a = a.
  Proof.
    cbn [val_ok]. intro H. apply andb_true_iff in H as [H _]. unfold strip.
    induction a as [|[k v] t IH]; [reflexivity|]. cbn [forallb fst snd] in H. apply andb_true_iff in H as [Hk Ht].
    apply andb_true_iff in Hk as [Hk _]. cbn [filter fst]. rewrite (public_not_internal _ Hk). cbn [negb]. f_equal. apply IH, Ht.
  Qed.

  Lemma val_ok_pyinst cn a : val_ok (PStruct cn a) = true -> pyinst_ok a = true.
  Proof.
    cbn [val_ok]. intro H. apply andb_true_iff in H as [H Hd]. unfold pyinst_ok. rewrite Hd, andb_true_r.
    apply andb_true_iff. split.
    - apply forallb_forall. intros p Hp. rewrite forallb_forall in H. rewrite (H _ Hp). apply orb_true_r.
    - replace (alist_get a (s2p "_none_fields")) with (@None pyval); [reflexivity|].
      symmetry. clear Hd. induction a as [|[k v] t IH]; [reflexivity|]. cbn [forallb fst snd] in H.
      apply andb_true_iff in H as [Hk Ht]. apply andb_true_iff in Hk as [Hk _]. cbn [alist_get].
      destruct (pystr_eqb k (s2p "_none_fields")) eqn:E; [|apply IH, Ht].
      apply pystr_eqb_spec in E. subst k. discriminate Hk.
  Qed.

  Hypothesis Henv : env_ok = true.
  Hypothesis Hdef : defaults_ok = true.

  Theorem knot_ok : forall k n, R_ok (src_knot k W) (sstruct n).
  Proof.
    induction k as [|k IH]; intro n.
    - constructor; intros; cbn [src_knot r_serialize_val r_serialize_field r_serialize_multifield_wrapper
                                r_serialize_internal r_serialize]; apply refines_oof.
    - constructor; cbn [src_knot r_serialize_val r_serialize_field r_serialize_multifield_wrapper r_serialize_internal r_serialize].
      + intros p g x nm m Hp Hm Hx. exact (val_body _ _ (IH n) (rec_ok_struct n) g p nm m x Hp Hm Hx).
      + intros fd x nm m Hfd Hm Hx. exact (any_body _ _ (IH n) (rec_ok_struct n) fd nm m x Hfd Hm Hx).
      + intros p g x Hp Hx. exact (field_body _ _ (IH n) g p x Hp Hx).
      + intros p gs x nm m Hch Hm Hx. exact (mfw_body _ _ (IH n) p gs nm m x Hch Hx).
      + intros cn a m rm Hm Hrm Hv. destruct n as [|n']; [apply refines_declines, declines_outoffuel|].
        assert (H : refines (src_serialize_internal W (src_knot k W) (PStruct cn a) m rm (PBool false) PF) (internal_model (sstruct n') false cn a)).
        { apply ints_body; solve [apply IH | apply rec_ok_struct | assumption | exact (val_ok_pyinst _ _ Hv)]. }
        unfold internal_model in H. rewrite (val_ok_strip _ _ Hv) in H. cbn [ser_struct].
        destruct (find_class e cn); exact H.
      + intros kv m rm Hm Hrm Hv. apply intd_body; solve [apply IH | apply rec_ok_struct | assumption].
      + intros cn a m Hm Hv.
        rewrite (ser_body (src_knot k W) Henv cn a m PNone (or_introl eq_refl)).
        destruct (find_class e cn) as [c|] eqn:Hfc.
        * apply refines_ret. apply (ok_int _ _ (IH n)); [exact Hm|left; reflexivity|exact Hv].
        * apply refines_declines, rec_ok_struct, Hfc.
  Qed.

  (* ---------------------------------------------------------------- the theorems *)

  Notation K k := (src_knot k W).

  (* serialize_val on a Field object: the ordered dispatch on the kind of field and of value *)
  Theorem src_serialize_val_refines : forall k n f p nm m v,
      at' p = Some f -> mapper_off m = true -> val_ok v = true ->
      refines (r_serialize_val (K k) (iref p) nm v m (PBool false) PNone) (sval (sstruct n) f v).
  Proof. intros k n f p nm m v. exact (ok_val _ _ (knot_ok k n) p f v nm m). Qed.

  (* serialize_val without a field definition (None, or the class Anything) *)
  Theorem src_serialize_any_refines : forall k n fd nm m v,
      fd = PNone \/ fd = ref (s2p "Anything") -> mapper_off m = true -> val_ok v = true ->
      refines (r_serialize_val (K k) fd nm v m (PBool false) PNone) (ser_any (sstruct n) v).
  Proof. intros k n fd nm m v. exact (ok_any _ _ (knot_ok k n) fd v nm m). Qed.

  (* serialize_multifield_wrapper: the first option that validates and serializes; every Python exception moves on *)
  Theorem src_multifield_refines : forall k n p gs nm m v,
      (forall i g, nth_error gs i = Some g -> at' (p ++ [N.of_nat i]) = Some g) ->
      mapper_off m = true -> val_ok v = true ->
      refines (r_serialize_multifield_wrapper (K k) (PList (irefs p (length gs))) nm v m (PBool false))
              (mfw_model (sval (sstruct n)) (validate_weak re_match e) v gs).
  Proof. intros k n p gs nm m v. exact (ok_mfw _ _ (knot_ok k n) p gs v nm m). Qed.

  (* serialize_internal on an instance as Python has it (internal entries in its __dict__): the attribute loop, the
     skip-list, None skipping, the compact wrapper form *)
  Theorem src_serialize_internal_refines : forall k n cn d m rm compact,
      mapper_off m = true -> rm_ok cn rm -> pyinst_ok d = true ->
      refines (r_serialize_internal (K (S k)) (PStruct cn d) m rm (PBool compact) (PBool false))
              (internal_model (sstruct n) compact cn d).
  Proof.
    intros k n cn d m rm compact Hm Hrm Hd. cbn [src_knot r_serialize_internal].
    apply ints_body; solve [apply knot_ok | apply rec_ok_struct | assumption].
  Qed.

  (* ... and on a model-level instance: ser_struct *)
  Theorem src_ser_struct_refines : forall k n cn a m rm,
      mapper_off m = true -> rm_ok cn rm -> val_ok (PStruct cn a) = true ->
      refines (r_serialize_internal (K k) (PStruct cn a) m rm (PBool false) (PBool false)) (sstruct n (PStruct cn a)).
  Proof. intros k n cn a m rm. exact (ok_int _ _ (knot_ok k n) cn a m rm). Qed.

  Lemma serialize_model n (compact : bool) cn a :
    val_ok (PStruct cn a) = true ->
    declines (serialize re_match e ens n compact (PStruct cn a)) \/
    exists n', serialize re_match e ens n compact (PStruct cn a) = internal_model (sstruct n') compact cn a.
  Proof.
    intro Hv. unfold serialize, internal_model. rewrite (val_ok_strip _ _ Hv).
    destruct (find_class e cn) as [c|] eqn:Hfc; [|left; apply declines_unmodelled].
    destruct (if compact then compact_eligible c else None) as [fd|].
    - destruct n as [|n']; [left; apply declines_outoffuel|right; exists n'; reflexivity].
    - destruct n as [|n']; [left; apply declines_outoffuel|right; exists n']. cbn [ser_struct]. rewrite Hfc. reflexivity.
  Qed.

  (* serialize(x, compact=...) *)
  Theorem src_serialize_refines : forall k n cn a m (compact : bool),
      mapper_off m = true -> val_ok (PStruct cn a) = true ->
      refines (r_serialize (K k) (PStruct cn a) m (PBool compact) (PBool false))
              (serialize re_match e ens n compact (PStruct cn a)).
  Proof.
    intros k n cn a m compact Hm Hv.
    destruct k as [|k]; [apply refines_oof|]. cbn [src_knot r_serialize]. fold PF.
    rewrite (ser_body (K k) Henv cn a m (PBool compact) (or_intror (ex_intro _ compact eq_refl))).
    destruct (serialize_model n compact cn a Hv) as [Hdec|[n' Hn']]; [apply refines_declines, Hdec|].
    rewrite Hn'. destruct (find_class e cn) as [c|] eqn:Hfc.
    - apply refines_ret. destruct k as [|k]; [apply refines_oof|]. unfold PF.
      apply src_serialize_internal_refines; [exact Hm|left; reflexivity|exact (val_ok_pyinst _ _ Hv)].
    - unfold internal_model. rewrite Hfc. apply refines_unm.
  Qed.

  (* serialize(x): compact taken from TypedPyDefaults.compact_serialization_default (False in this configuration) *)
  Theorem src_serialize_default_refines : forall k n cn a m,
      mapper_off m = true -> val_ok (PStruct cn a) = true ->
      refines (r_serialize (K k) (PStruct cn a) m PNone (PBool false)) (serialize re_match e ens n false (PStruct cn a)).
  Proof.
    intros k n cn a m Hm Hv.
    destruct k as [|k]; [apply refines_oof|]. cbn [src_knot r_serialize]. fold PF.
    rewrite (ser_body (K k) Henv cn a m PNone (or_introl eq_refl)).
    pose proof (src_serialize_refines (S k) n cn a m false Hm Hv) as H. cbn [src_knot r_serialize] in H. fold PF in H.
    rewrite (ser_body (K k) Henv cn a m PF (or_intror (ex_intro _ false eq_refl))) in H. exact H.
  Qed.
End Bridge.

(* what a refinement gives when the model answers *)
Lemma refines_eq {A} (r m : res A) :
  refines r m -> r <> Raise OutOfFuel -> (forall x, m = Raise x -> model_exn x = false) -> r = m.
Proof.
  intros [H|[H|H]] Hr Hm; [contradiction| |exact H].
  destruct H as (x & Hx & Hmx). rewrite (Hm x Hx) in Hmx. discriminate Hmx.
Qed.

Lemma refines_ok {A} (r m : res A) (a : A) : refines r m -> m = Ok a -> r = Raise OutOfFuel \/ r = Ok a.
Proof. exact (refines_ok_inv r m a). Qed.

(* where the model answers a value, the generated serialize answers the same value (or its fuel ran out): the
   form to combine with C05_pure / C05_roundtrip, whose conclusion is [serialize ... = Ok j] *)
Corollary src_serialize_ok re_match e ens extra repr :
  env_ok e = true -> defaults_ok e = true ->
  forall k n cn a m (compact : bool) j,
    mapper_off m = true -> val_ok (PStruct cn a) = true ->
    serialize re_match e ens n compact (PStruct cn a) = Ok j ->
    r_serialize (src_knot k (ser_world re_match e ens extra repr)) (PStruct cn a) m (PBool compact) (PBool false) = Raise OutOfFuel \/
    r_serialize (src_knot k (ser_world re_match e ens extra repr)) (PStruct cn a) m (PBool compact) (PBool false) = Ok j.
Proof.
  intros He Hd k n cn a m compact j Hm Hv Hj.
  exact (refines_ok _ _ j (src_serialize_refines re_match e ens extra repr He Hd k n cn a m compact Hm Hv) Hj).
Qed.

(* a Field object that is not a declared field of a class of the environment: the i-th extra root *)
Lemma at_extra e extra i f : nth_error extra i = Some f -> at_ e extra [N.of_nat (length e); N.of_nat i] = Some f.
Proof.
  intro H. unfold at_, field_at, forest. rewrite !Nat2N.id.
  rewrite nth_error_app2 by (rewrite map_length; lia). rewrite map_length, Nat.sub_diag. cbn [nth_error].
  rewrite H. reflexivity.
Qed.

(* ------------------------------------------------------------------ the inventory of declined points *)

(* Where the translation answers Unmodelled instead of translating (item assignment on a container that may be
   shared with the caller -- the caller-supplied cache of serialize_val, the result of the compact branch --,
   setattr on the class).  None
   of them is on a path the theorems above cover.  Each (function, kind) is listed once; a new kind of declined
   point in a function changes this list. *)
Example declined_inventory :
  src_declined =
  [("serialize_val", "item-assignment:shared-container");
   ("serialize_internal", "item-assignment:shared-container");
   ("serialize_internal", "effect:setattr")]%string.
Proof. reflexivity. Qed.

(* ------------------------------------------------------------------ non-vacuity *)

Definition fdecl' (n : string) (f : field) (d : option pyval) : fdecl :=
  {| fd_name := s2p n; fd_field := f; fd_immutable := false; fd_default := d |}.

Definition x_ens : enums :=
  [ {| en_name := s2p "ColorV"; en_by_value := true;
       en_members := [(s2p "RED", PNum (NInt 1)); (s2p "GREEN", PNum (NInt 2)); (s2p "BLUE", PStr (s2p "b"))] |} ].
Definition x_colorv : field := FEnumCls (s2p "ColorV") [(s2p "RED", PNum (NInt 1)); (s2p "BLUE", PStr (s2p "b"))].

Definition x_Inner : classdef :=
  {| c_name := s2p "Inner"; c_ancestors := [];
     c_fields := [fdecl' "i" (FNumber KInteger SNonNegative no_numc) None; fdecl' "s" (FString no_strc) None];
     c_required := [s2p "i"]; c_additional := false; c_ignore_none := true; c_immutable := false; c_hook := HookNone |}.
Definition x_Wrap : classdef :=
  {| c_name := s2p "Wrap"; c_ancestors := [];
     c_fields := [fdecl' "w" (FSeqEach SeqList (FNumber KInteger SAny no_numc) no_sizec false) None];
     c_required := [s2p "w"]; c_additional := false; c_ignore_none := false; c_immutable := false; c_hook := HookNone |}.
Definition x_Outer : classdef :=
  {| c_name := s2p "Outer"; c_ancestors := [];
     c_fields := [fdecl' "n" (FClassRef (s2p "Inner")) None;
                  fdecl' "xs" (FSeqEach SeqList (FNumber KFloat SAny no_numc) no_sizec false) None;
                  fdecl' "m" (FMapKV (FString no_strc) (FSeqEach SeqDeque FBoolean no_sizec false) no_sizec) None;
                  fdecl' "c" x_colorv None;
                  fdecl' "o" (FAnyOf [FNumber KInteger SAny no_numc; FString no_strc; FNone]) None;
                  fdecl' "p" (FSeqPos SeqList [FString no_strc; FAnything] no_sizec false None) None;
                  fdecl' "b" FBoolean (Some (PBool false))];
     c_required := [s2p "n"; s2p "c"]; c_additional := true; c_ignore_none := false; c_immutable := false;
     c_hook := HookNone |}.
Definition x_env : env := [x_Inner; x_Wrap; x_Outer].

(* an instance as Python has it: the internal entries are part of __dict__, at any position *)
Definition x_inner_py : pyval :=
  PStruct (s2p "Inner") [(s2p "i", PNum (NInt 0)); (s2p "s", PStr [])].
Definition x_dict : list (pystr * pyval) :=
  [ (s2p "_none_fields", PSet false [PStr (s2p "o")]);
    (s2p "n", x_inner_py);
    (s2p "xs", PList [PNum (NFlt 0 0)]);
    (s2p "m", PDict [(PStr [], PDeque []); (PStr (s2p "k"), PDeque [PBool false])]);
    (s2p "c", PEnum (s2p "ColorV") (s2p "BLUE") (PStr (s2p "b")));
    (s2p "o", PNone);
    (s2p "p", PList [PStr (s2p "z"); PDict [(PStr (s2p "q"), PNone); (PStr (s2p "r"), PList [PNum (NInt 7)])]]);
    (s2p "extra", PTuple [PNum (NInt 1); PStr (s2p "t")]);
    (s2p "b", PBool false);
    (s2p "_instantiated", PBool true) ].
Definition x_expected : pyval :=
  PDict [ (PStr (s2p "n"), PDict [(PStr (s2p "i"), PNum (NInt 0)); (PStr (s2p "s"), PStr [])]);
          (PStr (s2p "xs"), PList [PNum (NFlt 0 0)]);
          (PStr (s2p "m"), PDict [(PStr [], PList []); (PStr (s2p "k"), PList [PBool false])]);
          (PStr (s2p "c"), PStr (s2p "b"));
          (PStr (s2p "p"), PList [PStr (s2p "z"); PDict [(PStr (s2p "r"), PList [PNum (NInt 7)])]]);
          (PStr (s2p "extra"), PList [PNum (NInt 1); PStr (s2p "t")]);
          (PStr (s2p "b"), PBool false) ].

Definition x_world : world := ser_world (fun _ _ => true) x_env x_ens [] (fun _ => s2p "?").

(* the side conditions hold of a non-trivial environment and instance; the generated serialize_internal, run with
   enough fuel on the instance WITH its internal entries, computes the document the model computes on the instance
   without them (the skip-list of the source at work), nested instance, Map, Enum by value, AnyOf, positional items,
   a dict under Anything and an undeclared attribute included *)
Example src_nonvacuous :
  env_ok x_env = true /\ defaults_ok x_env = true /\ pyinst_ok x_dict = true /\
  r_serialize_internal (src_knot 12 x_world) (PStruct (s2p "Outer") x_dict) PNone PNone (PBool false) (PBool false) = Ok x_expected /\
  internal_model (fun _ _ => true) x_env x_ens (ser_struct (fun _ _ => true) x_env x_ens 3) false (s2p "Outer") x_dict = Ok x_expected /\
  strip x_dict <> x_dict.
Proof.
  repeat split; try (vm_compute; reflexivity). intro H. vm_compute in H. discriminate H.
Qed.

(* serialize(x, compact=True) of a single-field wrapper class is the field's value; of the other classes the dict *)
Example src_nonvacuous_compact :
  val_ok (PStruct (s2p "Wrap") [(s2p "w", PList [PNum (NInt 3); PNum (NInt 4)])]) = true /\
  r_serialize (src_knot 12 x_world) (PStruct (s2p "Wrap") [(s2p "w", PList [PNum (NInt 3); PNum (NInt 4)])]) PNone (PBool true) (PBool false)
    = Ok (PList [PNum (NInt 3); PNum (NInt 4)]) /\
  serialize (fun _ _ => true) x_env x_ens 2 true (PStruct (s2p "Wrap") [(s2p "w", PList [PNum (NInt 3); PNum (NInt 4)])])
    = Ok (PList [PNum (NInt 3); PNum (NInt 4)]) /\
  r_serialize (src_knot 12 x_world) x_inner_py PNone PNone (PBool false)
    = serialize (fun _ _ => true) x_env x_ens 2 false x_inner_py.
Proof. repeat split; vm_compute; reflexivity. Qed.

(* the multi-field loop moves on after a TypeError of _validate as well as after a ValueError of the serialization *)
Example src_multifield_moves_on :
  r_serialize_val (src_knot 8 (ser_world (fun _ _ => true) [] [] [FAnyOf [FNumber KInteger SAny no_numc; FEnumLit [PStr (s2p "a")]; FString no_strc]] (fun _ => [])))
                  (iref [0%N; 0%N]) PNone (PStr (s2p "zz")) PNone (PBool false) PNone = Ok (PStr (s2p "zz")).
Proof. vm_compute. reflexivity. Qed.

(* WHY key_ok IS A SIDE CONDITION: source and hand model disagree on a Map value with a non-scalar key followed by an
   entry that does not serialize.  The dict comprehension of serialize_val inserts (and hashes) each serialized key
   as it goes -- the tuple key (1, 2) serializes to the list [1, 2]: TypeError: unhashable -- while ser_val collects
   all the pairs first and meets the ValueError of the second entry (a Decimal).  The real library answers
   TypeError (checked on the pinned tree: A(m={(1, 2): 1, "b": Decimal("1")}), m = Map). *)
Example src_model_disagree_nonscalar_key :
  let w := ser_world (fun _ _ => true) [] [] [FMapAny no_sizec] (fun _ => []) in
  let v := PDict [(PTuple [PNum (NInt 1); PNum (NInt 2)], PNum (NInt 1)); (PStr (s2p "b"), PNum (NDec 1 0))] in
  r_serialize_val (src_knot 8 w) (iref [0%N; 0%N]) PNone v PNone (PBool false) PNone = Raise TypeError /\
  ser_val (fun _ _ => true) [] [] (ser_struct (fun _ _ => true) [] [] 3) (FMapAny no_sizec) v = Raise ValueError /\
  val_ok v = false.
Proof. repeat split; vm_compute; reflexivity. Qed.

(* ------------------------------------------------------------------ summary
   generated definition (what the source says now)            hand-written model (Ser/Serialize.v)
   src_serialize_val_refines        serialize_val(field, ..)      ⊑ ser_val rec f v        every f, v, fuel
   src_serialize_any_refines        serialize_val(None|Anything)  ⊑ ser_any rec v
   src_multifield_refines           serialize_multifield_wrapper  ⊑ the `go` loop of ser_val (mfw_model)
   src_serialize_internal_refines   serialize_internal(instance as Python has it, compact) ⊑ ser_attrs on the
                                    instance without its internal entries / the compact form (internal_model)
   src_ser_struct_refines           serialize_internal(instance)  ⊑ ser_struct n
   src_serialize_refines / _default serialize(x, compact=..)      ⊑ serialize n compact x
   with rec = ser_struct n, the recursion tied by src_knot.  Side conditions: env_ok (user classes are not named
   like classes of the package; field names are public identifiers), defaults_ok, val_ok (dict keys scalar and
   distinct; attribute names public and distinct), mapper_off (no mapper), camel_case_convert = False,
   TypedPyDefaults.compact_serialization_default = False / additional_properties_default = True (ser_world).
   [r ⊑ m] = r is OutOfFuel (the translation's own fuel), or m is Unmodelled / OutOfFuel (the model declines),
   or r = m. *)
Print Assumptions val_body.
Print Assumptions any_body.
Print Assumptions mfw_body.
Print Assumptions field_body.
Print Assumptions ints_body.
Print Assumptions intd_body.
Print Assumptions knot_ok.
Print Assumptions src_serialize_val_refines.
Print Assumptions src_serialize_any_refines.
Print Assumptions src_multifield_refines.
Print Assumptions src_serialize_internal_refines.
Print Assumptions src_ser_struct_refines.
Print Assumptions src_serialize_refines.
Print Assumptions src_serialize_default_refines.
Print Assumptions src_serialize_ok.
Print Assumptions at_extra.
Print Assumptions refines_eq.
Print Assumptions declined_inventory.
Print Assumptions src_nonvacuous.
Print Assumptions src_nonvacuous_compact.
Print Assumptions src_multifield_moves_on.
Print Assumptions src_model_disagree_nonscalar_key.
