(* Tie between the exception flow the model Ser/Deserialize.v assumes and the exception handlers that
   typedpy/serialization/serialization.py has NOW (Gen/DeserFlow.v, regenerated from the source text on
   every run).  Each lemma is what one construct of the model relies on; it is proved over the generated
   rows, so narrowing or widening a handler (or moving the wrapper's own `raise`s out of its `try`) makes
   this file -- and Props/C06.v, which imports it -- fail to compile. *)
From Coq Require Import ZArith NArith String List Bool.
Import ListNotations.
From TP Require Import Base.PyVal Ser.Json Ser.Deserialize Gen.DeserFlow.
Local Open Scope string_scope.

(* the name under which the generator lists an exception class of the model *)
Definition exn_row_name (x : exn) : pystr :=
  match x with
  | TypeError => s2p "TypeError" | ValueError => s2p "ValueError" | InvalidStructureErr => s2p "InvalidStructureErr"
  | IndexError => s2p "IndexError" | KeyError => s2p "KeyError" | AttributeError => s2p "AttributeError"
  | OverflowError => s2p "OverflowError" | ZeroDivisionError => s2p "ZeroDivisionError"
  | NotImplementedError => s2p "NotImplementedError" | RuntimeError => s2p "RuntimeError"
  | OtherExn _ => s2p "Exception"          (* any other subclass of Exception *)
  | OutOfFuel | Unmodelled => s2p "<model>"   (* never raised by Python *)
  end.

Definition rows_of (fn : pystr) : list try_row :=
  match find (fun p => pystr_eqb (fst p) fn) deser_handlers with Some p => snd p | None => [Unrecognised] end.

Definition row_catches (r : try_row) (x : exn) : bool :=
  match r with TryRow caught _ => str_in (exn_row_name x) caught | Unrecognised => false end.

Definition row_raises_inside (r : try_row) : list pystr :=
  match r with TryRow _ ri => ri | Unrecognised => [] end.

(* deserialize_list_like: both handlers (items=Field, items=[...]) catch exactly TypeError/ValueError and
   re-raise ValueError -- the model's [rewrap] *)
Lemma list_like_handlers_are_rewrap :
  exists r1 r2, rows_of (s2p "deserialize_list_like") = [r1; r2] /\
    forall x, row_catches r1 x = is_te_ve x /\ row_catches r2 x = is_te_ve x.
Proof.
  eexists. eexists. split; [vm_compute; reflexivity|].
  intro x. destruct x; split; vm_compute; reflexivity.
Qed.

(* deserialize_multifield_wrapper: one `try` around the trial of an alternative; its handler catches every
   exception Python can raise there (the model's `if model_exn x then Raise x else <count a failure>`), and the
   wrapper's own two errors ("must not match", "matches more than one") are raised inside that `try` *)
Lemma wrapper_handler_catches_all :
  exists r, rows_of (s2p "deserialize_multifield_wrapper") = [r] /\
    (forall x, model_exn x = false -> row_catches r x = true) /\
    row_catches r (OtherExn (s2p "InvalidOperation")) = true /\
    row_raises_inside r = [s2p "ValueError"; s2p "ValueError"].
Proof.
  eexists. split; [vm_compute; reflexivity|]. split; [|split; vm_compute; reflexivity].
  intros x Hx. destruct x; try discriminate Hx; vm_compute; reflexivity.
Qed.

(* construct_fields_map: the falsy-input branch collects exactly TypeError/ValueError (the model's
   [deser_fields]: `if negb (py_truthy j) && is_te_ve x`) *)
Lemma fields_map_handler_collects_te_ve :
  exists r, rows_of (s2p "construct_fields_map") = [r] /\ forall x, row_catches r x = is_te_ve x.
Proof.
  eexists. split; [vm_compute; reflexivity|]. intro x. destruct x; vm_compute; reflexivity.
Qed.

(* deserialize_map and deserialize_structure_internal have no handler of their own (the model lets every
   exception of a key/value/field pass through them) *)
Lemma map_and_structure_have_no_handler :
  rows_of (s2p "deserialize_map") = [] /\ rows_of (s2p "deserialize_structure_internal") = [].
Proof. split; vm_compute; reflexivity. Qed.

(* deserialize_single_field: the handler around StructureReference (outside the model's fragment), and the one
   around SerializableField.deserialize, which catches exactly ValueError (InvalidStructureErr derives from it)
   and raises ValueError again, with the field's name -- the model's [rewrap_ve] *)
Lemma single_field_handlers :
  exists r1 r2, rows_of (s2p "deserialize_single_field") = [r1; r2] /\
    forall x, row_catches r2 x = is_ve x.
Proof.
  eexists. eexists. split; [vm_compute; reflexivity|].
  intro x. destruct x; vm_compute; reflexivity.
Qed.
