(* The tie between the GENERATED translation of typedpy/serialization/fast_serialization.py (Gen/FastSrc.v: what
   FastSerializable.__init__, _get_value, _verify_is_fast_serializable, _get_serialize, create_serializer,
   set_compact_wrapper and the inner functions they define say NOW) and the hand-written model of Ser/Fast.v on
   which the C10 theorems are proved (create_serializer: the failure conditions; fast_ser: the installed serializer).

   Every theorem is about EVERY class environment, class, instance, fuel.  How a model-level class description is
   seen as Python-level objects is fixed in the first part of this file:
     - a Structure class is the reference [ref name]; its own attributes are in the heap ([fast_heap0]: __mro__,
       get_all_fields_by_name(), __name__; a FastSerializable class has FastSerializable in its __mro__);
     - a field is an instance [PStruct <real class name> <attributes>] ([ftf_py]); the object of a DECLARED field
       also carries _name and the name of the class that owns it ([fd_py]; Python objects have an identity);
     - the functions the file builds are data: [getter_py] (per field: _get_value.wrapped for Number / String /
       Boolean fields, _get_serialize.wrapped for the others), [ser_closure] (create_serializer.serializer with its
       items), [compact_closure] (set_compact_wrapper.wrapper);
     - the code outside the file is [fast_ext]: aggregate_serialization_mappers(cls) is the mapping the model's
       own_key describes, Field.__get__ is getattr_m, <field>.serialize is the model's fast_val (ClassReference.
       serialize calling the serializer installed on the class OF THE VALUE), Structure._additional_serialization
       returns {}, first_in the first element. *)
From Coq Require Import ZArith QArith NArith String Ascii Bool Lia List.
Import ListNotations.
From TP Require Import Base.PyVal Base.PyOps Base.PyOps2 Base.PyObj Base.PyOpsFields Base.PyOpsFast
     Fields.FieldAst Ser.Trusted Ser.Fast Gen.FastSrc Ser.TrustedSrcProofs.
From TP Require Base.PyOpsSchema.
Local Open Scope Z_scope.

Notation ftbl := fast_class_table.

(* ------------------------------------------------------------------ how a declaration is seen as Python objects *)

Definition FS : pystr := s2p "FastSerializable".
Definition ST : pystr := s2p "Structure".
Definition a_serialize : pystr := s2p "serialize".
Definition a_created : pystr := s2p "_created_fast_serializer".
Definition a_fields : pystr := s2p "get_all_fields_by_name()".
Definition a_owner : pystr := s2p "<owner>".
Definition a_name : pystr := s2p "_name".

Definition fs_serialize_fn : pyval := fn_val (s2p "FastSerializable.serialize") [].
Definition st_additional_fn : pyval := fn_val (s2p "Structure._additional_serialization") [].

Definition with_attrs (o : pyval) (extra : list (pystr * pyval)) : pyval :=
  match o with PStruct c a => PStruct c (extra ++ a) | _ => o end.

(* which getter create_serializer builds for a field *)
Inductive getter_kind := GRaw | GSer.
Definition getter_of (tf : tfield) : getter_kind :=
  match tf with
  | TLeaf (LPrim FNone) => GSer
  | TLeaf (LPrim _) | TLeaf (LSer _ true) => GRaw
  | _ => GSer
  end.

(* the mapped key of a field in aggregate_serialization_mappers(cls) *)
Definition key_py (m : mapper) (k : pystr) : pyval :=
  match m with
  | MapDict kv => match alist_get kv k with
                  | Some MFun => mval_py MFun
                  | Some MObj => mval_py MObj
                  | _ => PStr (own_key m k)
                  end
  | _ => PStr (own_key m k)
  end.

Section Embedding.
  Variable other_obj : N -> bool -> pyval.

  Fixpoint ftf_py (tf : tfield) : pyval :=
    match tf with
    | TLeaf l => leaf_py l
    | TArray i => PStruct (s2p "Array") [(s2p "items", ftf_py i)]
    | TSet i => PStruct (s2p "Set") [(s2p "items", ftf_py i)]
    | TRef c => PStruct (s2p "ClassReference") [(s2p "_ty", ref c)]
    | TOpt nf f => anyof_py (if nf then [none_py; ftf_py f] else [ftf_py f; none_py]) true
    | TUnion ls => anyof_py (map leaf_py ls) (existsb is_none_leaf ls)
    | TOther id b => other_obj id b
    end.

  Definition fd_extra (cn : pystr) (fd : tfd) : list (pystr * pyval) :=
    [(a_name, PStr (f_name fd)); (a_owner, PStr cn)].
  Definition fd_py (cn : pystr) (fd : tfd) : pyval := with_attrs (ftf_py (f_ty fd)) (fd_extra cn fd).

  Definition ffields_py (cn : pystr) (fs : list tfd) : pyval :=
    PDict (map (fun fd => (PStr (f_name fd), fd_py cn fd)) fs).

  Definition mro_py (cn : pystr) (c : tclass) : pyval :=
    PList ([ref cn; ref ST] ++ if t_fast c then [ref FS] else []).

  (* the classes before any serializer is created *)
  Definition fast_heap0 (e : tenv) : heap :=
    fun o a =>
      if pystr_eqb o FS then (if pystr_eqb a a_serialize then Some fs_serialize_fn else None)
      else if pystr_eqb o ST then (if pystr_eqb a (s2p "_additional_serialization") then Some st_additional_fn else None)
      else match find_tclass e o with
           | Some c =>
               if pystr_eqb a a_fields then Some (ffields_py o (t_fields c))
               else if pystr_eqb a mro_attr then Some (mro_py o c)
               else if pystr_eqb a (s2p "__name__") then Some (PStr o)
               else None
           | None => None
           end.

  (* the functions the file builds, as data *)
  Definition getter_py (cn : pystr) (fd : tfd) : pyval :=
    match getter_of (f_ty fd) with
    | GRaw => fn_val (s2p "_get_value.wrapped") [(s2p "field", fd_py cn fd); (s2p "owner", ref cn)]
    | GSer => fn_val (s2p "_get_serialize.wrapped") [(s2p "field", fd_py cn fd); (s2p "owner", ref cn)]
    end.

  Definition getters (cn : pystr) (m : mapper) (fs : list tfd) : list (pystr * pyval) :=
    map (fun fd => (own_key m (f_name fd), getter_py cn fd)) fs.

  Definition items_val (kv : list (pystr * pyval)) : pyval :=
    PList (map (fun p => PTuple [fst p; snd p]) (kv_py kv)).

  Definition ser_closure (cn : pystr) (c : tclass) (sn : pyval) : pyval :=
    fn_val (s2p "create_serializer.serializer")
           [(s2p "has_additional_properties", PBool true);
            (s2p "items", items_val (getters cn (t_mapper c) (t_fields c)));
            (s2p "serialize_none", sn);
            (s2p "with_undefined", PBool false)].

  Definition compact_closure (f : pyval) : pyval := fn_val (s2p "set_compact_wrapper.wrapper") [(s2p "func", f)].

  Definition installed (cn : pystr) (c : tclass) (sn : pyval) (compact : bool) : pyval :=
    if compact then compact_closure (ser_closure cn c sn) else ser_closure cn c sn.

  (* the heap create_serializer(cls, compact, serialize_none) leaves, from the heap [h1] in which the serializers of
     the referenced classes have been created *)
  Definition final_heap (h1 : heap) (cn : pystr) (c : tclass) (sn : pyval) (compact : bool) : heap :=
    let hs := heap_set h1 cn a_serialize (ser_closure cn c sn) in
    heap_set (if compact then heap_set hs cn a_serialize (compact_closure (ser_closure cn c sn)) else hs)
             cn a_created (PBool true).

  (* ---------------------------------------------------------------- the code outside the file *)
  Variable sser ofast : N -> pyval -> res pyval.
  Variable e : tenv.
  Variable agg_chain : tclass -> pyval.      (* what aggregate_serialization_mappers returns for a chain of mappers *)

  Definition agg_py (c : tclass) : pyval :=
    match t_mapper c with
    | MapList => agg_chain c
    | m => PDict (map (fun fd => (PStr (f_name fd), key_py m (f_name fd))) (t_fields c))
    end.

  (* ClassReference.serialize: getattr(value.__class__, "serialize", None)(value) - the serializer of the value's own
     class, whatever class the field was declared with -, every FastSerializable class having its serializer
     (default flags) installed *)
  Definition class_ser (call : callfn) (_ : pystr) (x : pyval) : res pyval :=
    by_class e (fun rn y => match find_tclass e rn with
                            | Some cd => call (ser_closure rn cd (PBool false)) [y]
                            | None => Raise Unmodelled
                            end) x.

  Definition decl_of (attrs : list (pystr * pyval)) : option (tclass * tfd) :=
    match attrs with
    | (n1, PStr k) :: (n2, PStr cn) :: _ =>
        if pystr_eqb n1 a_name && pystr_eqb n2 a_owner then
          match find_tclass e cn with
          | Some c => match find_tfd (t_fields c) k with Some fd => Some (c, fd) | None => None end
          | None => None
          end
        else None
    | _ => None
    end.

  Definition ext_fn (name : pystr) (args : list pyval) : res pyval :=
    if pystr_eqb name (s2p "aggregate_serialization_mappers") then
      match args with
      | [POther t cn] => if pystr_eqb t ref_tag then
                           match find_tclass e cn with Some c => Ok (agg_py c) | None => Raise Unmodelled end
                         else Raise Unmodelled
      | _ => Raise Unmodelled
      end
    else if pystr_eqb name (s2p "first_in") then
      match args with
      | [PList (x :: _)] => Ok x
      | [PList []] => Ok PNone
      | _ => Raise Unmodelled
      end
    else Raise Unmodelled.

  Definition ext_meth (call : callfn) (o : pyval) (m : pystr) (args : list pyval) : res pyval :=
    if pystr_eqb m (s2p "__get__") then
      match o, args with
      | PStruct _ ((n1, PStr k) :: _), [PStruct _ a; POther t cn] =>
          (* the attribute, else the default the field of the owner class declares *)
          if pystr_eqb n1 a_name && pystr_eqb t ref_tag then
            match find_tclass e cn with Some c => Ok (getattr_m c a k) | None => Raise Unmodelled end
          else Raise Unmodelled
      | _, _ => Raise Unmodelled
      end
    else if pystr_eqb m a_serialize then
      match o, args with
      | PStruct _ attrs, [x] =>
          match decl_of attrs with
          | Some (_, fd) => fast_val sser ofast (class_ser call) (f_ty fd) x
          | None => Raise Unmodelled
          end
      | _, _ => Raise Unmodelled
      end
    else if pystr_eqb m (s2p "__call__") then
      (* Structure._additional_serialization(self): the base implementation returns {} *)
      match o, args with
      | PStruct c [], [PStruct _ _] =>
          if pystr_eqb c (fn_prefix ++ s2p "Structure._additional_serialization") then Ok (PDict []) else Raise Unmodelled
      | _, _ => Raise Unmodelled
      end
    else if pystr_eqb m (s2p "super:FastSerializable.__init__") then Ok PNone
    else Raise Unmodelled.

  Definition fast_ext : extern := {| x_fn := ext_fn; x_meth := ext_meth |}.
End Embedding.

(* ------------------------------------------------------------------ small facts *)

(* closed comparisons of names are computed *)
Ltac str_eval :=
  repeat match goal with
  | |- context [pystr_eqb (s2p ?x) (s2p ?y)] =>
      let v := eval vm_compute in (pystr_eqb (s2p x) (s2p y)) in
      replace (pystr_eqb (s2p x) (s2p y)) with v by (vm_compute; reflexivity)
  | |- context [str_prefix fn_prefix (s2p ?x)] =>
      let v := eval vm_compute in (str_prefix fn_prefix (s2p x)) in
      replace (str_prefix fn_prefix (s2p x)) with v by (vm_compute; reflexivity)
  end.

Ltac eval_fcls :=
  repeat match goal with
  | |- context [class_known ftbl (s2p ?x)] =>
      let v := eval vm_compute in (class_known ftbl (s2p x)) in
      replace (class_known ftbl (s2p x)) with v by (vm_compute; reflexivity)
  | |- context [class_in ftbl (s2p ?x) ?ks] =>
      let v := eval vm_compute in (class_in ftbl (s2p x) ks) in
      replace (class_in ftbl (s2p x) ks) with v by (vm_compute; reflexivity)
  end.

Lemma alist_get_app {A} (a b : list (pystr * A)) k :
  alist_get (a ++ b) k = match alist_get a k with Some v => Some v | None => alist_get b k end.
Proof.
  induction a as [|[k' v'] t IH]; [reflexivity|]. cbn [app alist_get]. destruct (pystr_eqb k' k); [reflexivity|exact IH].
Qed.

Lemma find_tclass_name (e : tenv) cn c : find_tclass e cn = Some c -> t_name c = cn.
Proof.
  induction e as [|c0 t IH]; [discriminate|]. cbn [find_tclass].
  destruct (pystr_eqb (t_name c0) cn) eqn:E; [|exact IH].
  intro H. inversion H; subst. apply pystr_eqb_spec. exact E.
Qed.

Lemma fsinst_struct c a ks :
  fs_isinstance ftbl (PStruct c a) ks =
  if str_prefix fn_prefix c then Ok false
  else if class_known ftbl c then Ok (class_in ftbl c ks) else Raise Unmodelled.
Proof. reflexivity. Qed.

Lemma fsinst_ref n ks : fs_isinstance ftbl (ref n) ks = Ok false.
Proof. reflexivity. Qed.

(* ------------------------------------------------------------------ the classes of the embedded objects *)

Definition k_raw : list pystr := [s2p "Number"; s2p "String"; s2p "Boolean"].
Definition k_fieldish : list pystr := [s2p "Field"; s2p "ClassReference"].

Lemma leaf_facts_fast l :
  leaf_wf l = true ->
  str_prefix fn_prefix (leaf_cls l) = false /\ class_known ftbl (leaf_cls l) = true /\
  class_in ftbl (leaf_cls l) k_raw = (match getter_of (TLeaf l) with GRaw => true | GSer => false end) /\
  class_in ftbl (leaf_cls l) [s2p "Constant"] = false /\
  class_in ftbl (leaf_cls l) [s2p "ClassReference"] = false /\
  class_in ftbl (leaf_cls l) [s2p "Array"] = false /\
  class_in ftbl (leaf_cls l) [s2p "OneOf"] = false /\
  class_in ftbl (leaf_cls l) [s2p "AnyOf"] = false /\
  class_in ftbl (leaf_cls l) [s2p "NoneField"] = is_none_leaf l.
Proof.
  destruct l as [f|cls ms byv|vals|id isn]; cbn [leaf_wf leaf_cls getter_of is_none_leaf]; intro H.
  - destruct f as [k s c| | | | | | | | | | | | | | | | | |]; try discriminate H;
      [destruct k, s|..]; vm_compute; repeat split.
  - vm_compute; repeat split.
  - vm_compute; repeat split.
  - unfold ser_cls. destruct isn, (N.eqb id 1), (N.eqb id 2); vm_compute; repeat split.
Qed.

(* the attributes a leaf object carries: none of the method names the file calls *)
Lemma leaf_attrs_none l a :
  (a = s2p "__get__" \/ a = a_serialize \/ a = s2p "items" \/ a = s2p "_ty") -> alist_get (leaf_attrs l) a = None.
Proof.
  intros [H|[H|[H|H]]]; subst; destruct l as [f|cls ms [|]|vals|id isn]; reflexivity.
Qed.

(* what is needed of the object that stands for an unmodelled field #id (Map, Tuple, Anything, Array without items,
   OneOf, ...): an instance of a class of the package that is not a Number / String / Boolean, not a Constant, not
   a ClassReference, not an AnyOf, a OneOf exactly when the model says so, that carries no callable named __get__ /
   serialize, and on which _verify_is_fast_serializable finds nothing to do within [n] levels of items ([quiet]) *)
Fixpoint quiet (n : nat) (o : pyval) : bool :=
  match n with
  | O => false
  | S m =>
      match o with
      | PStruct c attrs =>
          negb (str_prefix fn_prefix c) && class_known ftbl c && negb (class_in ftbl c [s2p "ClassReference"]) &&
          (if class_in ftbl c [s2p "Array"] then
             match alist_get attrs (s2p "items") with
             | Some it => match fs_isinstance ftbl it k_fieldish with
                          | Ok true => quiet m it
                          | Ok false => true
                          | Raise _ => false
                          end
             | None => false
             end
           else true)
      | _ => false
      end
  end.

Definition other_ok_fast (is_oneof : bool) (o : pyval) : bool :=
  match o with
  | PStruct c attrs =>
      negb (str_prefix fn_prefix c) && class_known ftbl c && negb (class_in ftbl c k_raw) &&
      negb (class_in ftbl c [s2p "Constant"]) && negb (class_in ftbl c [s2p "ClassReference"]) &&
      Bool.eqb (class_in ftbl c [s2p "OneOf"]) is_oneof && negb (class_in ftbl c [s2p "AnyOf"]) &&
      negb (alist_has attrs (s2p "__get__")) && negb (alist_has attrs a_serialize)
  | _ => false
  end.

(* an instance's own attributes shadow the methods of its class: the model (which reads an instance only through
   getattr) is about instances that carry no attribute named like the one method the serializer calls on them,
   and that are instances of classes of the environment *)
Definition inst_ok (a : list (pystr * pyval)) : bool :=
  negb (alist_has a (s2p "_additional_serialization")) && negb (alist_has a (s2p "_additional_serialization()")).

Fixpoint insts_ok (e : tenv) (v : pyval) : bool :=
  match v with
  | PList l | PTuple l | PDeque l | PSet _ l => forallb (insts_ok e) l
  | PDict kv => forallb (fun p => insts_ok e (fst p) && insts_ok e (snd p)) kv
  | PEnum _ _ x => insts_ok e x
  | PStruct nm attrs =>
      match find_tclass e nm with Some _ => true | None => false end &&
      inst_ok attrs && forallb (fun p => insts_ok e (snd p)) attrs
  | _ => true
  end.

Lemma mapM_guard {A B} (P : A -> bool) (f1 f2 : A -> res B) : forall l,
    (forall x, P x = true -> f2 x <> Raise Unmodelled -> f1 x = f2 x) ->
    forallb P l = true ->
    mapM f2 l <> Raise Unmodelled -> mapM f1 l = mapM f2 l.
Proof.
  induction l as [|x t IH]; intros Hf HP Hn; [reflexivity|]. cbn [mapM] in Hn |- *.
  cbn [forallb] in HP. apply andb_true_iff in HP as [HPx HPt].
  assert (Hx : f2 x <> Raise Unmodelled).
  { intro E. apply Hn. rewrite E. reflexivity. }
  rewrite (Hf x HPx Hx). destruct (f2 x) as [y|ex]; cbn [bind] in Hn |- *; [|reflexivity].
  rewrite IH; [reflexivity|exact Hf|exact HPt|]. intro E. apply Hn. rewrite E. reflexivity.
Qed.

Section Bridge.
  Variable other_obj : N -> bool -> pyval.
  Variable sser ofast : N -> pyval -> res pyval.
  Variable e : tenv.
  Variable agg_chain : tclass -> pyval.

  Notation tfpy := (ftf_py other_obj).
  Notation fdpy := (fd_py other_obj).
  Notation xt := (fast_ext other_obj sser ofast e agg_chain).
  Notation heap0 := (fast_heap0 other_obj e).
  Notation getter := (getter_py other_obj).
  Notation serc := (ser_closure other_obj).

  (* ---------------------------------------------------------------- side conditions (booleans) *)

  (* no class of the environment bears the name of a class of the package *)
  Definition env_names_ok : bool :=
    forallb (fun c => negb (class_known ftbl (t_name c)) && negb (pystr_eqb (t_name c) FS)) e.

  Definition shallow_wf (tf : tfield) : bool :=
    match tf with
    | TLeaf l => leaf_wf l
    | TOther id b => other_ok_fast b (other_obj id b)
    | TUnion ls => forallb leaf_wf ls
    | _ => true
    end.

  (* the class the model's fast_val is about: every fast class a field refers to DIRECTLY is in the environment
     and FastSerializable (create_serializer checks exactly this) *)
  Definition direct_refs_fast (c : tclass) : bool :=
    forallb (fun fd => match f_ty fd with TRef c' => class_is_fast e c' | _ => true end) (t_fields c).

  Definition keys_of (c : tclass) : list pystr := map (fun fd => own_key (t_mapper c) (f_name fd)) (t_fields c).

  Definition class_ok (c : tclass) : bool :=
    forallb (fun fd => shallow_wf (f_ty fd) && match f_default fd with Some d => insts_ok e d | None => true end)
            (t_fields c) &&
    nodupb (map f_name (t_fields c)) && nodupb (keys_of c).

  Definition env_ok : bool :=
    env_names_ok && forallb (fun c => class_ok c && (negb (t_fast c) || direct_refs_fast c)) e.

  (* ---------------------------------------------------------------- heaps *)

  Definition heap_base (h : heap) : Prop :=
    (forall o a, pystr_eqb a a_serialize = false -> pystr_eqb a a_created = false -> h o a = heap0 o a) /\
    (forall o a, find_tclass e o = None -> h o a = heap0 o a).

  (* every FastSerializable class of the environment has its serializer (default flags) installed *)
  Definition heap_installed (h : heap) : Prop :=
    heap_base h /\
    forall cn c, find_tclass e cn = Some c -> t_fast c = true -> h cn a_serialize = Some (serc cn c (PBool false)).

  Lemma names_ok_find c0 :
    env_names_ok = true -> (class_known ftbl c0 = true \/ c0 = FS) -> find_tclass e c0 = None.
  Proof.
    unfold env_names_ok. intros Hn Hk. induction e as [|c t IH]; [reflexivity|].
    cbn [forallb] in Hn. apply andb_true_iff in Hn as [H0 Ht]. apply andb_true_iff in H0 as [H1 H2].
    cbn [find_tclass]. destruct (pystr_eqb (t_name c) c0) eqn:E; [|exact (IH Ht)].
    apply pystr_eqb_spec in E. subst c0. destruct Hk as [Hk|Hk].
    - rewrite Hk in H1. discriminate H1.
    - rewrite Hk, pystr_eqb_refl in H2. discriminate H2.
  Qed.

  Lemma heap0_field_cls c0 a :
    env_names_ok = true -> class_known ftbl c0 = true ->
    pystr_eqb a (s2p "_additional_serialization") = false -> heap0 c0 a = None.
  Proof.
    intros Hn Hk Ha. unfold fast_heap0.
    destruct (pystr_eqb c0 FS) eqn:E1.
    { apply pystr_eqb_spec in E1. subst c0. vm_compute in Hk. discriminate Hk. }
    destruct (pystr_eqb c0 ST) eqn:E2; [rewrite Ha; reflexivity|].
    rewrite (names_ok_find c0 Hn (or_introl Hk)). reflexivity.
  Qed.

  Lemma field_cls_lookup h c0 a :
    heap_base h -> env_names_ok = true -> class_known ftbl c0 = true ->
    pystr_eqb a (s2p "_additional_serialization") = false -> cls_lookup h c0 a = None.
  Proof.
    intros [_ Hb] Hn Hk Ha. pose proof (names_ok_find c0 Hn (or_introl Hk)) as Hf.
    unfold cls_lookup, cls_mro. rewrite (Hb c0 mro_attr Hf), (heap0_field_cls c0 mro_attr Hn Hk eq_refl).
    cbn [mro_find]. rewrite (Hb c0 a Hf), (heap0_field_cls c0 a Hn Hk Ha). reflexivity.
  Qed.

  Lemma other_ok_split b o :
    other_ok_fast b o = true ->
    exists c0 attrs, o = PStruct c0 attrs /\ class_known ftbl c0 = true /\ str_prefix fn_prefix c0 = false /\
      class_in ftbl c0 k_raw = false /\ class_in ftbl c0 [s2p "Constant"] = false /\
      class_in ftbl c0 [s2p "ClassReference"] = false /\ class_in ftbl c0 [s2p "OneOf"] = b /\
      class_in ftbl c0 [s2p "AnyOf"] = false /\
      alist_get attrs (s2p "__get__") = None /\ alist_get attrs a_serialize = None.
  Proof.
    unfold other_ok_fast. destruct o as [| | | | | | | | | |c0 attrs|]; try discriminate. intro H.
    apply andb_true_iff in H as [H H9]. apply andb_true_iff in H as [H H8]. apply andb_true_iff in H as [H H7].
    apply andb_true_iff in H as [H H6]. apply andb_true_iff in H as [H H5]. apply andb_true_iff in H as [H H4].
    apply andb_true_iff in H as [H H3]. apply andb_true_iff in H as [H1 H2].
    apply negb_true_iff in H1, H3, H4, H5, H7, H8, H9. apply eqb_prop in H6.
    unfold alist_has in H8, H9.
    exists c0, attrs. repeat split; try assumption.
    - destruct (alist_get attrs (s2p "__get__")); [discriminate H8|reflexivity].
    - destruct (alist_get attrs a_serialize); [discriminate H9|reflexivity].
  Qed.

  (* the object of a field is an instance of a known class that carries neither __get__ nor serialize *)
  Lemma obj_struct tf :
    shallow_wf tf = true ->
    exists c0 attrs, tfpy tf = PStruct c0 attrs /\ class_known ftbl c0 = true /\ str_prefix fn_prefix c0 = false /\
                     alist_get attrs (s2p "__get__") = None /\ alist_get attrs a_serialize = None.
  Proof.
    destruct tf as [l|i|i|c'|nf f|ls|id b]; cbn [shallow_wf ftf_py]; intro H.
    - destruct (leaf_facts_fast l H) as (H1 & H2 & _). exists (leaf_cls l), (leaf_attrs l).
      repeat split; try assumption; apply leaf_attrs_none; auto.
    - eexists _, _. repeat split; vm_compute; reflexivity.
    - eexists _, _. repeat split; vm_compute; reflexivity.
    - eexists _, _. repeat split; vm_compute; reflexivity.
    - unfold anyof_py. eexists _, _. split; [reflexivity|]. repeat split; try (vm_compute; reflexivity).
    - unfold anyof_py. eexists _, _. split; [reflexivity|]. repeat split; try (vm_compute; reflexivity).
      + destruct (existsb is_none_leaf ls); reflexivity.
      + destruct (existsb is_none_leaf ls); reflexivity.
    - destruct (other_ok_split _ _ H) as (c0 & attrs & E & H1 & H2 & _ & _ & _ & _ & _ & H8 & H9).
      exists c0, attrs. repeat split; assumption.
  Qed.

  Lemma find_tfd_nodup : forall fs fd,
      nodupb (map f_name fs) = true -> In fd fs -> find_tfd fs (f_name fd) = Some fd.
  Proof.
    induction fs as [|f0 t IH]; intros fd Hn Hin; [contradiction|].
    cbn [map nodupb] in Hn. apply andb_true_iff in Hn as [H1 H2]. cbn [find_tfd].
    destruct Hin as [E|Hin].
    - subst. rewrite pystr_eqb_refl. reflexivity.
    - destruct (pystr_eqb (f_name f0) (f_name fd)) eqn:E; [|exact (IH fd H2 Hin)].
      apply pystr_eqb_spec in E. apply negb_true_iff in H1.
      assert (Hc : str_in (f_name f0) (map f_name t) = true).
      { apply str_in_In. rewrite E. apply in_map. exact Hin. }
      congruence.
  Qed.

  Lemma env_ok_find cn c :
    env_ok = true -> find_tclass e cn = Some c ->
    env_names_ok = true /\ class_ok c = true /\ (t_fast c = true -> direct_refs_fast c = true).
  Proof.
    unfold env_ok. intros H Hf. apply andb_true_iff in H as [Hn Ha]. split; [exact Hn|].
    clear Hn. induction e as [|c0 t IH]; [discriminate Hf|].
    cbn [forallb] in Ha. apply andb_true_iff in Ha as [H0 Ht]. cbn [find_tclass] in Hf.
    destruct (pystr_eqb (t_name c0) cn).
    - inversion Hf; subst. apply andb_true_iff in H0 as [H1 H2]. split; [exact H1|].
      intro Hfast. rewrite Hfast in H2. exact H2.
    - exact (IH Ht Hf).
  Qed.

  Definition fc_model (n : nat) : pystr -> pyval -> res pyval :=
    fun _ x => by_class e (fast_ser sser ofast e n false false) x.

  (* what a call of the serializer installed on a referenced class returns *)
  Definition call_ok (n : nat) (call : callfn) : Prop :=
    forall c' cd x, find_tclass e c' = Some cd -> t_fast cd = true -> insts_ok e x = true ->
                    fast_ser sser ofast e n false false c' x <> Raise Unmodelled ->
                    call (serc c' cd (PBool false)) [x] = fast_ser sser ofast e n false false c' x.

  Lemma class_ser_fc n call :
    call_ok n call ->
    forall c' x, insts_ok e x = true -> fc_model n c' x <> Raise Unmodelled ->
                 class_ser other_obj e call c' x = fc_model n c' x.
  Proof.
    intros Hc c' x Hx Hn. unfold class_ser, fc_model, by_class in *.
    destruct x as [| | | | | | | | | |rn a| ]; try reflexivity.
    destruct (find_tclass e rn) as [cd|] eqn:Hf; [|reflexivity].
    destruct (t_fast cd) eqn:Ht; [|reflexivity]. exact (Hc rn cd (PStruct rn a) Hf Ht Hx Hn).
  Qed.

  Lemma fast_val_guard fc1 fc2 :
    (forall c' x, insts_ok e x = true -> fc2 c' x <> Raise Unmodelled -> fc1 c' x = fc2 c' x) ->
    forall tf v, insts_ok e v = true -> fast_val sser ofast fc2 tf v <> Raise Unmodelled ->
                 fast_val sser ofast fc1 tf v = fast_val sser ofast fc2 tf v.
  Proof.
    intro Hfc. induction tf as [l|item IH|item IH|c|nf f IH|ls|id o]; intros v Hv Hn; cbn [fast_val] in Hn |- *;
      try reflexivity.
    - destruct v; try reflexivity. cbn [insts_ok] in Hv.
      destruct item as [[f|cls ms byv|vals|id [|]]|i|i|c|nf f|ls|id o]; try reflexivity;
        (cbn [bind] in Hn |- *;
         rewrite (mapM_guard (insts_ok e) _ _ l (fun x Hp Hx => IH x Hp Hx) Hv); [reflexivity|];
         intro E; apply Hn; rewrite E; reflexivity).
    - destruct v; try reflexivity. cbn [insts_ok] in Hv.
      rewrite (mapM_guard (insts_ok e) _ _ l (fun x Hp Hx => IH x Hp Hx) Hv); [reflexivity|].
      intro E. apply Hn. rewrite E. reflexivity.
    - exact (Hfc c v Hv Hn).
    - exact (IH v Hv Hn).
  Qed.

  Section Apply.
    Variable h : heap.
    Hypothesis Hh : heap_installed h.
    Hypothesis Henv : env_ok = true.

    (* field.__get__(self, owner) *)
    Lemma call_get call cn c nm a fd :
      find_tclass e cn = Some c -> shallow_wf (f_ty fd) = true ->
      py_call_method h call xt (fdpy cn fd) (s2p "__get__") [PStruct nm a; ref cn] = Ok (getattr_m c a (f_name fd)).
    Proof.
      intros Hf Hw. destruct (env_ok_find cn c Henv Hf) as (Hn & _ & _).
      destruct (obj_struct _ Hw) as (c0 & attrs & E & Hk & Hp & Hg & Hs).
      unfold fd_py. rewrite E. cbn [with_attrs]. unfold py_call_method.
      rewrite alist_get_app. unfold fd_extra at 1. cbn [alist_get]. unfold a_name, a_owner. str_eval. cbn iota.
      rewrite Hg. rewrite (field_cls_lookup h c0 (s2p "__get__") (proj1 Hh) Hn Hk eq_refl).
      cbn [x_meth fast_ext]. unfold ext_meth. str_eval. cbn iota. unfold fd_extra. cbn [app].
      unfold a_name, ref. str_eval. rewrite pystr_eqb_refl. cbn [andb]. cbn iota. rewrite Hf. reflexivity.
    Qed.
  
    Lemma env_cls_not_special cn c :
      find_tclass e cn = Some c -> pystr_eqb cn FS = false /\ pystr_eqb cn ST = false.
    Proof.
      intro Hf. destruct (env_ok_find cn c Henv Hf) as (Hn & _ & _). split.
      - destruct (pystr_eqb cn FS) eqn:E; [|reflexivity]. apply pystr_eqb_spec in E. subst.
        rewrite (names_ok_find FS Hn (or_intror eq_refl)) in Hf. discriminate Hf.
      - destruct (pystr_eqb cn ST) eqn:E; [|reflexivity]. apply pystr_eqb_spec in E. subst.
        rewrite (names_ok_find ST Hn (or_introl eq_refl)) in Hf. discriminate Hf.
    Qed.

    Lemma heap0_env cn c a :
      find_tclass e cn = Some c ->
      heap0 cn a = if pystr_eqb a a_fields then Some (ffields_py other_obj cn (t_fields c))
                   else if pystr_eqb a mro_attr then Some (mro_py cn c)
                   else if pystr_eqb a (s2p "__name__") then Some (PStr cn) else None.
    Proof.
      intro Hf. destruct (env_cls_not_special cn c Hf) as [H1 H2]. unfold fast_heap0. rewrite H1, H2, Hf. reflexivity.
    Qed.

    Lemma env_mro cn c :
      find_tclass e cn = Some c -> cls_mro h cn = [cn; ST] ++ if t_fast c then [FS] else [].
    Proof.
      intro Hf. unfold cls_mro. rewrite (proj1 (proj1 Hh) cn mro_attr eq_refl eq_refl), (heap0_env cn c mro_attr Hf).
      change (pystr_eqb mro_attr a_fields) with false. rewrite pystr_eqb_refl. unfold mro_py.
      destruct (t_fast c); reflexivity.
    Qed.

    (* C.serialize(val) for a FastSerializable class of the environment: the installed serializer is called *)
    Lemma call_ser_ref n call c' cd x :
      call_ok n call -> find_tclass e c' = Some cd -> t_fast cd = true -> insts_ok e x = true ->
      fast_ser sser ofast e n false false c' x <> Raise Unmodelled ->
      py_call_method h call xt (ref c') a_serialize [x] = fast_ser sser ofast e n false false c' x.
    Proof.
      intros Hc Hf Ht Hx Hn. unfold py_call_method, ref. rewrite pystr_eqb_refl.
      unfold cls_lookup. rewrite (env_mro c' cd Hf). cbn [app mro_find]. rewrite (proj2 Hh c' cd Hf Ht).
      exact (Hc c' cd x Hf Ht Hx Hn).
    Qed.

    Lemma decl_of_fd cn c fd rest :
      find_tclass e cn = Some c -> nodupb (map f_name (t_fields c)) = true -> In fd (t_fields c) ->
      decl_of e (fd_extra cn fd ++ rest) = Some (c, fd).
    Proof.
      intros Hf Hn Hin. unfold decl_of, fd_extra. cbn [app]. rewrite !pystr_eqb_refl. cbn [andb].
      rewrite Hf, (find_tfd_nodup _ fd Hn Hin). reflexivity.
    Qed.

    (* field.serialize(val) for the object of a declared field (a class reference included) *)
    Lemma call_ser_field n call cn c fd x :
      call_ok n call -> find_tclass e cn = Some c -> In fd (t_fields c) -> shallow_wf (f_ty fd) = true ->
      insts_ok e x = true ->
      fast_val sser ofast (fc_model n) (f_ty fd) x <> Raise Unmodelled ->
      py_call_method h call xt (fdpy cn fd) a_serialize [x] = fast_val sser ofast (fc_model n) (f_ty fd) x.
    Proof.
      intros Hc Hf Hin Hw Hx Hn. destruct (env_ok_find cn c Henv Hf) as (Hnm & Hok & _).
      unfold class_ok in Hok. apply andb_true_iff in Hok as [Hok _]. apply andb_true_iff in Hok as [_ Hnd].
      destruct (obj_struct _ Hw) as (c0 & attrs & E & Hk & Hp & Hg & Hs).
      unfold fd_py. rewrite E. cbn [with_attrs]. unfold py_call_method.
      rewrite alist_get_app. unfold fd_extra at 1. cbn [alist_get]. unfold a_name, a_owner, a_serialize. str_eval. cbn iota.
      fold a_serialize. rewrite Hs. rewrite (field_cls_lookup h c0 a_serialize (proj1 Hh) Hnm Hk eq_refl).
      cbn [x_meth fast_ext]. unfold ext_meth. unfold a_serialize. str_eval. cbn iota.
      rewrite (decl_of_fd cn c fd attrs Hf Hnd Hin).
      apply fast_val_guard; [|exact Hx|exact Hn]. exact (class_ser_fc n call Hc).
    Qed.

    Lemma getattr_ok cn c a k :
      find_tclass e cn = Some c -> forallb (fun p => insts_ok e (snd p)) a = true ->
      insts_ok e (getattr_m c a k) = true.
    Proof.
      intros Hf Ha. destruct (env_ok_find cn c Henv Hf) as (_ & Hok & _).
      unfold class_ok in Hok. apply andb_true_iff in Hok as [Hok _]. apply andb_true_iff in Hok as [Hok _].
      unfold getattr_m. destruct (alist_get a k) as [v|] eqn:E.
      - clear - Ha E. induction a as [|[k' v'] t IH]; [discriminate E|].
        cbn [forallb snd] in Ha. apply andb_true_iff in Ha as [H1 H2]. cbn [alist_get] in E.
        destruct (pystr_eqb k' k); [inversion E; subst; exact H1|exact (IH H2 E)].
      - destruct (find_tfd (t_fields c) k) as [fd|] eqn:E2; [|reflexivity].
        assert (Hin : In fd (t_fields c)).
        { clear - E2. induction (t_fields c) as [|f0 t IH]; [discriminate E2|]. cbn [find_tfd] in E2.
          destruct (pystr_eqb (f_name f0) k); [inversion E2; left; reflexivity|right; exact (IH E2)]. }
        rewrite forallb_forall in Hok. specialize (Hok fd Hin). apply andb_true_iff in Hok as [_ Hok].
        destruct (f_default fd); [exact Hok|reflexivity].
    Qed.

    (* ---------------------------------------------------------------- the getters *)

    (* what the model's fast_fields computes for one field *)
    Definition field_value (n : nat) (c : tclass) (a : list (pystr * pyval)) (fd : tfd) : res pyval :=
      let x := getattr_m c a (f_name fd) in
      if is_none x then Ok PNone
      else match f_ty fd with
           | TLeaf (LSer _ true) => Ok x
           | tf => fast_val sser ofast (fc_model n) tf x
           end.

    Lemma getter_body n call cn c nm a fd :
      call_ok n call -> find_tclass e cn = Some c -> t_fast c = true -> In fd (t_fields c) ->
      forallb (fun p => insts_ok e (snd p)) a = true ->
      field_value n c a fd <> Raise Unmodelled ->
      src_apply_body call xt h (getter cn fd) [PStruct nm a] = field_value n c a fd.
    Proof.
      intros Hc Hf Hfc Hin Ha Hn. destruct (env_ok_find cn c Henv Hf) as (Hnm & Hok & Hrf).
      assert (Hw : shallow_wf (f_ty fd) = true).
      { unfold class_ok in Hok. apply andb_true_iff in Hok as [Hok _]. apply andb_true_iff in Hok as [Hok _].
        rewrite forallb_forall in Hok. specialize (Hok fd Hin). apply andb_true_iff in Hok as [Hok _]. exact Hok. }
      assert (Hxok : insts_ok e (getattr_m c a (f_name fd)) = true) by (exact (getattr_ok cn c a (f_name fd) Hf Ha)).
      unfold getter_py. destruct (getter_of (f_ty fd)) eqn:Hg.
      - (* _get_value.wrapped: the raw attribute *)
        unfold src_apply_body, fn_val. cbn [fn_code]. 
        change (str_prefix fn_prefix (fn_prefix ++ s2p "_get_value.wrapped")) with true. cbn iota.
        change (skipn (length fn_prefix) (fn_prefix ++ s2p "_get_value.wrapped")) with (s2p "_get_value.wrapped").
        str_eval. cbn iota. unfold src_get_value__wrapped.
        unfold clo_get. cbn [alist_get]. str_eval. cbn iota. cbn [bind].
        rewrite (call_get call cn c nm a fd Hf Hw). cbn [bind].
        unfold field_value in *. set (x := getattr_m c a (f_name fd)) in *.
        destruct (f_ty fd) as [[f|cls ms byv|vals|id [|]]|i|i|c'|nf f|ls|id ob]; try discriminate Hg.
        + (* Number / String / Boolean: Field.serialize is the identity there (the model declines on a Decimal) *)
          assert (Hv : fast_val sser ofast (fc_model n) (TLeaf (LPrim f)) x =
                       match x with PNum (NDec _ _) => Raise Unmodelled | _ => Ok x end).
          { destruct f; try discriminate Hg; reflexivity. }
          rewrite Hv in Hn |- *. clear Hv.
          destruct x as [| |[| |]| | | | | | | | |]; cbn [is_none] in Hn |- *; try reflexivity.
          contradiction Hn; reflexivity.
        + destruct x; reflexivity.
      - (* _get_serialize.wrapped *)
        unfold src_apply_body, fn_val. cbn [fn_code].
        change (str_prefix fn_prefix (fn_prefix ++ s2p "_get_serialize.wrapped")) with true. cbn iota.
        change (skipn (length fn_prefix) (fn_prefix ++ s2p "_get_serialize.wrapped")) with (s2p "_get_serialize.wrapped").
        str_eval. cbn iota. unfold src_get_serialize__wrapped.
        unfold clo_get. cbn [alist_get]. str_eval. cbn iota. cbn [bind].
        rewrite (call_get call cn c nm a fd Hf Hw). cbn [bind].
        unfold field_value in *. set (x := getattr_m c a (f_name fd)) in *.
        change (py_is_not_none x) with (negb (is_none x)).
        destruct (is_none x) eqn:Hx; cbn [negb bind]; [reflexivity|].
        fold a_serialize.
        assert (Hm : (match f_ty fd with TLeaf (LSer _ true) => Ok x | tf => fast_val sser ofast (fc_model n) tf x end)
                     = fast_val sser ofast (fc_model n) (f_ty fd) x).
        { destruct (f_ty fd) as [[f|cls ms byv|vals|id [|]]|i|i|c'|nf f|ls|id ob]; try reflexivity. discriminate Hg. }
        rewrite Hm in Hn |- *. clear Hm.
        rewrite (call_ser_field n call cn c fd x Hc Hf Hin Hw Hxok Hn).
        destruct (fast_val sser ofast (fc_model n) (f_ty fd) x); reflexivity.
    Qed.
  
    (* ---------------------------------------------------------------- the dict the serializer builds *)

    Lemma fast_fields_step fv c a fd t :
      fast_fields fv c a (fd :: t) =
      (w <- (let x := getattr_m c a (f_name fd) in
             if is_none x then Ok PNone
             else match f_ty fd with TLeaf (LSer _ true) => Ok x | tf => fv tf x end) ;;
       r <- fast_fields fv c a t ;; Ok ((own_key (t_mapper c) (f_name fd), w) :: r)).
    Proof. reflexivity. Qed.

    Lemma fast_fields_step' n c a fd t :
      fast_fields (fast_val sser ofast (fc_model n)) c a (fd :: t) =
      (w <- field_value n c a fd ;;
       r <- fast_fields (fast_val sser ofast (fc_model n)) c a t ;; Ok ((own_key (t_mapper c) (f_name fd), w) :: r)).
    Proof. reflexivity. Qed.

    Lemma getters_eval (F : pyval * pyval -> res (option (pyval * pyval))) call2 n cn c nm a :
      (forall k v, F (k, v) = (t <- call2 v [PStruct nm a] ;; Ok (Some (k, t)))) ->
      forall fs,
        (forall fd, In fd fs -> field_value n c a fd <> Raise Unmodelled ->
                    call2 (getter cn fd) [PStruct nm a] = field_value n c a fd) ->
        fast_fields (fast_val sser ofast (fc_model n)) c a fs <> Raise Unmodelled ->
        filterM F (kv_py (getters other_obj cn (t_mapper c) fs)) =
        match fast_fields (fast_val sser ofast (fc_model n)) c a fs with
        | Ok r => Ok (kv_py r)
        | Raise x => Raise x
        end.
    Proof.
      intros HF. induction fs as [|fd t IH]; intros Hg Hn; [reflexivity|].
      rewrite fast_fields_step' in Hn |- *.
      unfold getters. cbn [map kv_py filterM fst snd]. fold (getters other_obj cn (t_mapper c) t). fold (kv_py (getters other_obj cn (t_mapper c) t)).
      rewrite HF.
      assert (Hx : field_value n c a fd <> Raise Unmodelled).
      { intro E. apply Hn. rewrite E. reflexivity. }
      rewrite (Hg fd (or_introl eq_refl) Hx).
      destruct (field_value n c a fd) as [w|ex]; cbn [bind] in Hn |- *; [|reflexivity].
      rewrite IH.
      - destruct (fast_fields (fast_val sser ofast (fc_model n)) c a t) as [r|ex]; reflexivity.
      - intros fd' Hin. apply Hg. right. exact Hin.
      - intro E. apply Hn. rewrite E. reflexivity.
    Qed.

    Lemma fast_fields_keys fv c a : forall fs r,
        fast_fields fv c a fs = Ok r -> map fst r = map (fun fd => own_key (t_mapper c) (f_name fd)) fs.
    Proof.
      induction fs as [|fd t IH]; intros r H.
      - inversion H. reflexivity.
      - rewrite fast_fields_step in H.
        destruct (let x := getattr_m c a (f_name fd) in
                  if is_none x then Ok PNone
                  else match f_ty fd with TLeaf (LSer _ true) => Ok x | tf => fv tf x end) as [w|ex]; [|discriminate H].
        cbn [bind] in H. destruct (fast_fields fv c a t) as [r'|ex]; [|discriminate H]. cbn [bind] in H.
        inversion H; subst. cbn [map fst]. rewrite (IH r' eq_refl). reflexivity.
    Qed.

    Lemma dict_of_acc : forall (l acc : list (pystr * pyval)),
        fold_left (fun ac p => dict_set ac (PStr (fst p)) (snd p)) l (kv_py acc) =
        kv_py (fold_left (fun ac p => alist_set ac (fst p) (snd p)) l acc).
    Proof.
      induction l as [|[k v] t IH]; intro acc; [reflexivity|].
      cbn [fold_left fst snd]. rewrite dict_set_kv. apply IH.
    Qed.

    Lemma dict_of_nodup_model r : nodupb (map fst r) = true -> dict_of r = PDict (kv_py r).
    Proof.
      intro H. unfold dict_of. change (@nil (pyval * pyval)) with (kv_py []). rewrite dict_of_acc.
      rewrite (set_all_fresh r [] H). reflexivity.
    Qed.

    Lemma str_in_filter {A} (f : pystr * A -> bool) k : forall l,
        str_in k (map fst l) = false -> str_in k (map fst (filter f l)) = false.
    Proof.
      induction l as [|[k' v] t IH]; [reflexivity|]. unfold str_in in *. cbn [map fst existsb filter].
      intro H. apply orb_false_iff in H as [H1 H2]. destruct (f (k', v)); [|exact (IH H2)].
      cbn [map fst existsb]. rewrite H1. exact (IH H2).
    Qed.

    Lemma nodupb_filter {A} (f : pystr * A -> bool) : forall l,
        nodupb (map fst l) = true -> nodupb (map fst (filter f l)) = true.
    Proof.
      induction l as [|[k v] t IH]; [reflexivity|]. cbn [map fst nodupb filter]. intro H.
      apply andb_true_iff in H as [H1 H2]. destruct (f (k, v)); [|exact (IH H2)].
      cbn [map fst nodupb]. rewrite (IH H2), andb_true_r. apply negb_true_iff. apply negb_true_iff in H1.
      exact (str_in_filter f k t H1).
    Qed.

    Lemma drop_none_eval (F : pyval * pyval -> res (option (pyval * pyval))) :
      (forall k v, F (k, v) = (c <- Ok (py_is_not_none v) ;; if c then Ok (Some (k, v)) else Ok None)) ->
      forall r, filterM F (kv_py r) = Ok (kv_py (drop_none r)).
    Proof.
      intro HF. induction r as [|[k v] t IH]; [reflexivity|].
      cbn [kv_py map filterM fst snd]. fold (kv_py t). rewrite HF, IH. cbn [bind].
      unfold drop_none. cbn [filter snd]. change (py_is_not_none v) with (negb (is_none v)).
      destruct (is_none v); reflexivity.
    Qed.

    (* self._additional_serialization() for an instance of a class of the environment: Structure's own *)
    Lemma call_additional call cn c a :
      find_tclass e cn = Some c -> inst_ok a = true ->
      py_call_method h call xt (PStruct cn a) (s2p "_additional_serialization") [] = call st_additional_fn [PStruct cn a].
    Proof.
      intros Hf Hi. unfold inst_ok, alist_has in Hi. apply andb_true_iff in Hi as [H1 H2].
      unfold py_call_method.
      destruct (alist_get a (s2p "_additional_serialization")); [discriminate H1|].
      change (call_attr (s2p "_additional_serialization")) with (s2p "_additional_serialization()").
      destruct (alist_get a (s2p "_additional_serialization()")); [discriminate H2|].
      unfold cls_lookup. rewrite (env_mro cn c Hf). cbn [app mro_find].
      rewrite (proj1 (proj1 Hh) cn (s2p "_additional_serialization") eq_refl eq_refl), (heap0_env cn c _ Hf).
      change (pystr_eqb (s2p "_additional_serialization") a_fields) with false.
      change (pystr_eqb (s2p "_additional_serialization") mro_attr) with false.
      change (pystr_eqb (s2p "_additional_serialization") (s2p "__name__")) with false. cbn iota.
      rewrite (proj1 (proj1 Hh) ST (s2p "_additional_serialization") eq_refl eq_refl). reflexivity.
    Qed.

    Lemma serializer_body n call2 cn c nm cnm a (sn : bool) :
      find_tclass e cn = Some c -> find_tclass e nm = Some cnm -> inst_ok a = true ->
      (forall fd, In fd (t_fields c) -> field_value n c a fd <> Raise Unmodelled ->
                  call2 (getter cn fd) [PStruct nm a] = field_value n c a fd) ->
      call2 st_additional_fn [PStruct nm a] = Ok (PDict []) ->
      fast_ser sser ofast e (S n) sn false cn (PStruct nm a) <> Raise Unmodelled ->
      src_apply_body call2 xt h (serc cn c (PBool sn)) [PStruct nm a] =
      fast_ser sser ofast e (S n) sn false cn (PStruct nm a).
    Proof.
      intros Hf Hfn Hi Hg Hadd Hn. destruct (env_ok_find cn c Henv Hf) as (Hnm & Hok & _).
      unfold class_ok in Hok. apply andb_true_iff in Hok as [Hok Hkeys]. fold (keys_of c) in Hkeys.
      cbn [fast_ser] in Hn |- *. rewrite Hf in Hn |- *.
      fold (fc_model n) in Hn |- *.
      destruct (match t_mapper c with MapList => Raise Unmodelled | _ => Ok tt end) as [u|ex] eqn:Hml;
        [|destruct (t_mapper c); try discriminate Hml; inversion Hml; subst; contradiction Hn; reflexivity].
      cbn [bind] in Hn |- *.
      unfold src_apply_body, ser_closure, fn_val. cbn [fn_code].
      change (str_prefix fn_prefix (fn_prefix ++ s2p "create_serializer.serializer")) with true. cbn iota.
      change (skipn (length fn_prefix) (fn_prefix ++ s2p "create_serializer.serializer")) with (s2p "create_serializer.serializer").
      str_eval. cbn iota. unfold src_create_serializer__serializer.
      unfold clo_get. cbn [alist_get]. str_eval. cbn iota. cbn [bind].
      unfold items_val. rewrite iter_pairs_items. cbn [bind].
      assert (Hn' : fast_fields (fast_val sser ofast (fc_model n)) c a (t_fields c) <> Raise Unmodelled).
      { intro E. apply Hn. rewrite E. reflexivity. }
      rewrite (getters_eval _ call2 n cn c nm a (fun _ _ => eq_refl) (t_fields c) Hg Hn').
      destruct (fast_fields (fast_val sser ofast (fc_model n)) c a (t_fields c)) as [r|ex] eqn:Hr; cbn [bind] in Hn |- *;
        [|reflexivity].
      pose proof (fast_fields_keys _ c a _ r Hr) as Hk. fold (keys_of c) in Hk.
      assert (Hnd : nodupb (map fst r) = true) by (rewrite Hk; exact Hkeys).
      rewrite (dict_of_nodup r Hnd). cbn [bind py_truthy].
      match goal with |- _ = ?R => assert (Htail : R = Ok (dict_of (if sn then r else drop_none r))) end.
      { generalize (dict_of (if sn then r else drop_none r)). intro d0.
        destruct d0 as [| | | | | | | |[|[k0 v0] [|p0 t0]]| | |]; reflexivity. }
      rewrite Htail. clear Htail.
      destruct sn; cbn [bind py_truthy].
      - rewrite (call_additional call2 nm cnm a Hfn Hi), Hadd. cbn [bind].
        rewrite (dict_of_nodup_model r Hnd). reflexivity.
      - cbn [py_dict_items bind]. rewrite (drop_none_eval _ (fun _ _ => eq_refl) r). cbn [bind].
        assert (Hnd' : nodupb (map fst (drop_none r)) = true) by (apply nodupb_filter; exact Hnd).
        rewrite (dict_of_nodup _ Hnd'). cbn [bind].
        rewrite (call_additional call2 nm cnm a Hfn Hi), Hadd. cbn [bind].
        rewrite (dict_of_nodup_model _ Hnd'). reflexivity.
    Qed.
  
    (* ---------------------------------------------------------------- the installed serializer = fast_ser *)

    Lemma apply_S k f args : src_apply (S k) xt h f args = src_apply_body (src_apply k xt h) xt h f args.
    Proof. reflexivity. Qed.

    Lemma apply_additional k nm a : src_apply (S k) xt h st_additional_fn [PStruct nm a] = Ok (PDict []).
    Proof. reflexivity. Qed.

    Lemma fast_ser_struct n sn cp cn v :
      fast_ser sser ofast e (S n) sn cp cn v <> Raise Unmodelled -> exists nm a, v = PStruct nm a.
    Proof.
      cbn [fast_ser]. destruct (find_tclass e cn); [|intro H; contradiction H; reflexivity].
      destruct v; try (intro H; contradiction H; reflexivity). intros _. eexists _, _. reflexivity.
    Qed.

    (* x.serialize() after create_serializer(cls, serialize_none=sn): two units of fuel of the dispatcher (the
       serializer, then a getter) per class level of the model *)
    Theorem src_serializer_eq : forall n cn c v (sn : bool),
        find_tclass e cn = Some c -> t_fast c = true -> insts_ok e v = true ->
        fast_ser sser ofast e n sn false cn v <> Raise Unmodelled ->
        src_apply (2 * n) xt h (serc cn c (PBool sn)) [v] = fast_ser sser ofast e n sn false cn v.
    Proof.
      induction n as [|n IH]; intros cn c v sn Hf Hfast Hv Hn; [reflexivity|].
      replace (2 * S n)%nat with (S (S (2 * n))) by lia.
      destruct (fast_ser_struct n sn false cn v Hn) as (nm & a & ->).
      cbn [insts_ok] in Hv. apply andb_true_iff in Hv as [Hv Ha]. apply andb_true_iff in Hv as [Hnm Hi].
      destruct (find_tclass e nm) as [cnm|] eqn:Hfn; [|discriminate Hnm].
      rewrite apply_S.
      assert (Hc : call_ok n (src_apply (2 * n) xt h)).
      { intros c' cd x Hf' Ht' Hx Hn'. exact (IH c' cd x false Hf' Ht' Hx Hn'). }
      apply (serializer_body n _ cn c nm cnm a sn Hf Hfn Hi); [|apply apply_additional|exact Hn].
      intros fd Hin Hfv. rewrite apply_S.
      exact (getter_body n _ cn c nm a fd Hc Hf Hfast Hin Ha Hfv).
    Qed.

    (* the compact wrapper: one more unit *)
    Lemma fields_len cn c :
      find_tclass e cn = Some c ->
      forall call, py_call_method h call xt (ref cn) (s2p "get_all_fields_by_name") [] =
                   Ok (ffields_py other_obj cn (t_fields c)).
    Proof.
      intros Hf call. unfold py_call_method, ref. rewrite pystr_eqb_refl.
      unfold cls_lookup. rewrite (env_mro cn c Hf).
      assert (Hnone : forall a0, pystr_eqb a0 a_serialize = false -> pystr_eqb a0 a_created = false ->
                                 pystr_eqb a0 (s2p "_additional_serialization") = false ->
                                 mro_find h a0 ([cn; ST] ++ (if t_fast c then [FS] else [])) = heap0 cn a0).
      { intros a0 H1 H2 H3. cbn [app mro_find]. rewrite (proj1 (proj1 Hh) cn a0 H1 H2).
        destruct (heap0 cn a0) eqn:E; [reflexivity|].
        rewrite (proj1 (proj1 Hh) ST a0 H1 H2).
        assert (E2 : heap0 ST a0 = None) by (unfold fast_heap0; change (pystr_eqb ST FS) with false; rewrite pystr_eqb_refl, H3; reflexivity).
        rewrite E2. destruct (t_fast c); [|reflexivity]. cbn [mro_find].
        rewrite (proj1 (proj1 Hh) FS a0 H1 H2). unfold fast_heap0. rewrite pystr_eqb_refl, H1. reflexivity. }
      rewrite (Hnone (s2p "get_all_fields_by_name") eq_refl eq_refl eq_refl), (heap0_env cn c _ Hf).
      change (pystr_eqb (s2p "get_all_fields_by_name") a_fields) with false.
      change (pystr_eqb (s2p "get_all_fields_by_name") mro_attr) with false.
      change (pystr_eqb (s2p "get_all_fields_by_name") (s2p "__name__")) with false. cbn iota.
      change (call_attr (s2p "get_all_fields_by_name")) with a_fields.
      rewrite (Hnone a_fields eq_refl eq_refl eq_refl), (heap0_env cn c _ Hf). rewrite pystr_eqb_refl. reflexivity.
    Qed.
  
    Lemma len_is_1 {A} (l : list A) : py_eq (PNum (NInt (lenZ' l))) (zint 1) = Nat.eqb (length l) 1.
    Proof.
      unfold zint. cbn [py_eq as_num]. rewrite num_eqb_int. unfold lenZ'.
      destruct (Nat.eqb_spec (length l) 1) as [E|E].
      - rewrite E. reflexivity.
      - apply Z.eqb_neq. lia.
    Qed.

    (* the model's fast_ser, one level, with the final compact step apart *)
    Definition ser_dict (n : nat) (sn : bool) (c : tclass) (a : list (pystr * pyval)) : res (list (pyval * pyval)) :=
      _ <- match t_mapper c with MapList => Raise Unmodelled | _ => Ok tt end ;;
      r <- fast_fields (fast_val sser ofast (fc_model n)) c a (t_fields c) ;;
      Ok (fold_left (fun acc p => dict_set acc (PStr (fst p)) (snd p)) (if sn then r else drop_none r) []).

    Lemma fast_ser_S n sn cp cn c nm a :
      find_tclass e cn = Some c ->
      fast_ser sser ofast e (S n) sn cp cn (PStruct nm a) =
      (kv <- ser_dict n sn c a ;;
       match kv with
       | [(_, x)] => if cp && Nat.eqb (length (t_fields c)) 1 then Ok x else Ok (PDict kv)
       | _ => Ok (PDict kv)
       end).
    Proof.
      intro Hf. cbn [fast_ser]. rewrite Hf. unfold ser_dict. fold (fc_model n).
      destruct (match t_mapper c with MapList => Raise Unmodelled | _ => Ok tt end); cbn [bind]; [|reflexivity].
      destruct (fast_fields (fast_val sser ofast (fc_model n)) c a (t_fields c)) as [r|ex]; cbn [bind]; [|reflexivity].
      unfold dict_of.
      destruct (fold_left (fun acc p => dict_set acc (PStr (fst p)) (snd p)) (if sn then r else drop_none r) [])
        as [|[k0 v0] [|p0 t0]]; reflexivity.
    Qed.

    Theorem src_compact_eq : forall n cn c a (sn : bool),
        find_tclass e cn = Some c -> t_fast c = true -> insts_ok e (PStruct cn a) = true ->
        fast_ser sser ofast e n sn true cn (PStruct cn a) <> Raise Unmodelled ->
        src_apply (S (2 * n)) xt h (compact_closure (serc cn c (PBool sn))) [PStruct cn a] =
        fast_ser sser ofast e n sn true cn (PStruct cn a).
    Proof.
      intros n cn c a sn Hf Hfast Hv Hn. destruct n as [|n]; [reflexivity|].
      rewrite apply_S. unfold src_apply_body, compact_closure, fn_val. cbn [fn_code].
      change (str_prefix fn_prefix (fn_prefix ++ s2p "set_compact_wrapper.wrapper")) with true. cbn iota.
      change (skipn (length fn_prefix) (fn_prefix ++ s2p "set_compact_wrapper.wrapper")) with (s2p "set_compact_wrapper.wrapper").
      str_eval. cbn iota. unfold src_set_compact_wrapper__wrapper.
      unfold clo_get. cbn [alist_get]. str_eval. cbn iota. cbn [bind].
      rewrite (fast_ser_S n sn true cn c cn a Hf) in Hn |- *.
      assert (Hn2 : fast_ser sser ofast e (S n) sn false cn (PStruct cn a) <> Raise Unmodelled).
      { rewrite (fast_ser_S n sn false cn c cn a Hf). intro E. apply Hn.
        destruct (ser_dict n sn c a) as [kv|ex]; cbn [bind] in E |- *; [|exact E].
        destruct kv as [|[k0 v0] [|p0 t0]]; discriminate E. }
      fold (serc cn c (PBool sn)).
      rewrite (src_serializer_eq (S n) cn c (PStruct cn a) sn Hf Hfast Hv Hn2).
      rewrite (fast_ser_S n sn false cn c cn a Hf).
      destruct (ser_dict n sn c a) as [kv|ex]; cbn [bind]; [|reflexivity].
      assert (Hplain : (match kv with
                        | [(_, x)] => if false && Nat.eqb (length (t_fields c)) 1 then Ok x else Ok (PDict kv)
                        | _ => Ok (PDict kv)
                        end) = Ok (PDict kv)) by (destruct kv as [|[k0 v0] [|p0 t0]]; reflexivity).
      rewrite Hplain. clear Hplain. cbn [bind fld_class_of].
      rewrite (fields_len cn c Hf). unfold ffields_py. cbn [bind py_len py_eqv py_and].
      rewrite len_is_1, map_length.
      destruct (Nat.eqb (length (t_fields c)) 1); cbn [bind andb].
      - unfold py_eqv. rewrite len_is_1. destruct kv as [|[k0 v0] [|p0 t0]]; reflexivity.
      - destruct kv as [|[k0 v0] [|p0 t0]]; reflexivity.
    Qed.
  End Apply.

  (* ---------------------------------------------------------------- create_serializer: the model, rearranged *)

  (* the part of check_field that is _verify_is_fast_serializable ... *)
  Fixpoint verify_model (cs : pystr -> res unit) (tf : tfield) : res unit :=
    match tf with
    | TArray i => verify_model cs i
    | TRef c => cs c
    | _ => Ok tt
    end.
  (* ... and the part that is the two tests of _get_serialize *)
  Definition tail_model (tf : tfield) : res unit :=
    match tf with
    | TUnion ls => if (1 <? Z.of_nat (length (non_none ls))) then Raise TypeError else Ok tt
    | TOther _ oneof => if oneof then Raise TypeError else Ok tt
    | _ => Ok tt
    end.

  Lemma verify_model_array cs i :
    match i with TRef _ | TArray _ => check_field cs i | _ => Ok tt end = verify_model cs i ->
    check_field cs (TArray i) = verify_model cs (TArray i).
  Proof. intro H. exact H. Qed.

  Lemma check_field_array cs : forall tf, check_field cs (TArray tf) = verify_model cs tf.
  Proof.
    induction tf as [l|i IH|i IH|c|nf f IH|ls|id o]; try reflexivity. exact IH.
  Qed.

  Lemma check_field_split cs tf : check_field cs tf = (_ <- verify_model cs tf ;; tail_model tf).
  Proof.
    destruct tf as [l|i|i|c|nf f|ls|id o]; try reflexivity.
    - rewrite check_field_array. cbn [verify_model tail_model]. destruct (verify_model cs i) as [[]|x]; reflexivity.
    - cbn [check_field verify_model tail_model]. destruct (cs c) as [[]|x]; reflexivity.
  Qed.

  (* what create_serializer does with a class a field refers to *)
  Definition cs_model (n : nat) : pystr -> res unit :=
    fun c' => match find_tclass e c' with
              | Some cd => if t_fast cd then create_serializer e n c' else Raise TypeError
              | None => Raise Unmodelled
              end.

  Lemma create_S n cn :
    create_serializer e (S n) cn =
    match find_tclass e cn with
    | None => Raise Unmodelled
    | Some c => check_fields (cs_model n) (t_mapper c) (t_fields c)
    end.
  Proof. reflexivity. Qed.

  (* more fuel does not change a success *)
  Definition ok_or_oof (r : res unit) : Prop := r = Ok tt \/ r = Raise OutOfFuel.

  Lemma verify_mono cs1 cs2 :
    (forall c, cs1 c = Ok tt -> ok_or_oof (cs2 c)) ->
    forall tf, verify_model cs1 tf = Ok tt -> ok_or_oof (verify_model cs2 tf).
  Proof.
    intros H. induction tf as [l|i IH|i IH|c|nf f IH|ls|id o]; cbn [verify_model]; intro E;
      try (left; reflexivity); auto.
  Qed.

  Lemma check_fields_mono cs1 cs2 m :
    (forall c, cs1 c = Ok tt -> ok_or_oof (cs2 c)) ->
    forall fs, check_fields cs1 m fs = Ok tt -> ok_or_oof (check_fields cs2 m fs).
  Proof.
    intros H. induction fs as [|fd t IH]; intro E; [left; reflexivity|].
    cbn [check_fields] in E |- *.
    destruct (mapped_as_str m (f_name fd)) as [[]|x]; [|discriminate E]. cbn [bind] in E |- *.
    assert (Hty : forall cs, (match f_ty fd with
                              | TLeaf (LPrim FNone) => check_field cs (f_ty fd)
                              | TLeaf (LPrim _) | TLeaf (LSer _ true) => Ok tt
                              | tf => check_field cs tf
                              end) = match getter_of (f_ty fd) with GRaw => Ok tt | GSer => check_field cs (f_ty fd) end).
    { intro cs. destruct (f_ty fd) as [[f|cls ms byv|vals|id [|]]|i|i|c|nf f|ls|id o]; try reflexivity.
      destruct f; reflexivity. }
    rewrite Hty in E |- *.
    destruct (getter_of (f_ty fd)).
    - cbn [bind] in E |- *. exact (IH E).
    - rewrite check_field_split in E |- *.
      destruct (verify_model cs1 (f_ty fd)) as [[]|x] eqn:E1; [|discriminate E]. cbn [bind] in E.
      destruct (verify_mono cs1 cs2 H _ E1) as [E2|E2]; rewrite E2; cbn [bind]; [|right; reflexivity].
      destruct (tail_model (f_ty fd)) as [[]|x]; [|discriminate E]. cbn [bind] in E |- *. exact (IH E).
  Qed.

  Lemma create_mono : forall k cn, create_serializer e k cn = Ok tt -> forall n, ok_or_oof (create_serializer e n cn).
  Proof.
    induction k as [|k IH]; intros cn E n; [discriminate E|].
    destruct n as [|n]; [right; reflexivity|].
    rewrite create_S in E |- *. destruct (find_tclass e cn) as [c|]; [|discriminate E].
    apply (check_fields_mono (cs_model k) (cs_model n)); [|exact E].
    intros c' E'. unfold cs_model in E' |- *. destruct (find_tclass e c') as [cd|]; [|discriminate E'].
    destruct (t_fast cd); [|discriminate E']. exact (IH c' E' n).
  Qed.

  (* ---------------------------------------------------------------- create_serializer: heaps on the way *)

  (* a serializer is either not yet created, or the one create_serializer(cls) (default flags) installs -- and then
     the model's create_serializer succeeds on the class *)
  Definition heap_inv (h : heap) : Prop :=
    heap_base h /\
    forall cn c, find_tclass e cn = Some c ->
      h cn a_serialize = None \/
      (h cn a_serialize = Some (serc cn c (PBool false)) /\ t_fast c = true /\
       exists k, create_serializer e k cn = Ok tt).

  (* the generated function (a heap and None, or an exception) against the model (unit, or an exception) *)
  Definition agrees (r : res unit) (s : res (heap * pyval)) : Prop :=
    match r with
    | Ok _ => exists h1, heap_inv h1 /\ s = Ok (h1, PNone)
    | Raise x => s = Raise x
    end.

  Section Create.
    Hypothesis Henv : env_ok = true.
    Variable n : nat.
    Variable rec : heap -> pyval -> pyval -> pyval -> pyval -> res (heap * pyval).
    Variable call : callfn.

    (* the recursive call, on a FastSerializable class whose serializer is not yet created *)
    Hypothesis Hrec : forall h0 c' cd,
        heap_inv h0 -> find_tclass e c' = Some cd -> t_fast cd = true -> h0 c' a_serialize = None ->
        create_serializer e n c' <> Raise Unmodelled -> create_serializer e n c' <> Raise OutOfFuel ->
        agrees (create_serializer e n c') (rec h0 (ref c') (PBool false) (PBool false) PNone).

    Notation verify := (src_verify_is_fast_serializable rec).

    Lemma quiet_verify : forall m o d h,
        quiet m o = true -> (m <= d)%nat -> verify d call xt h o = Ok (h, PNone).
    Proof.
      induction m as [|m IH]; intros o d h Hq Hd; [discriminate Hq|].
      destruct d as [|d]; [lia|]. cbn [quiet] in Hq.
      destruct o as [| | | | | | | | | |c attrs|]; try discriminate Hq.
      apply andb_true_iff in Hq as [Hq Hit]. apply andb_true_iff in Hq as [Hq Hcr].
      apply andb_true_iff in Hq as [Hp Hk]. apply negb_true_iff in Hp, Hcr.
      cbn [src_verify_is_fast_serializable]. rewrite !fsinst_struct, Hp, Hk, Hcr. cbn [bind].
      destruct (class_in ftbl c [s2p "Array"]) eqn:HA; cbn [py_and bind]; [|reflexivity].
      cbn [fs_getattr]. destruct (alist_get attrs (s2p "items")) as [it|]; [|discriminate Hit]. cbn [bind].
      change [s2p "Field"; s2p "ClassReference"] with k_fieldish.
      destruct (fs_isinstance ftbl it k_fieldish) as [[|]|x]; try discriminate Hit; cbn [bind]; [|reflexivity].
      rewrite (IH it d h Hit); [reflexivity|lia].
    Qed.
  
    (* the field objects on which _verify_is_fast_serializable is within its depth fuel [d] *)
    Fixpoint tf_fits (d : nat) (tf : tfield) {struct tf} : bool :=
      match tf with
      | TArray i => match d with O => false | S m => tf_fits m i end
      | TOther id b => other_ok_fast b (other_obj id b) && quiet d (other_obj id b)
      | TLeaf l => leaf_wf l && negb (Nat.eqb d 0)
      | TUnion ls => forallb leaf_wf ls && negb (Nat.eqb d 0)
      | TOpt _ f => shallow_wf f && negb (Nat.eqb d 0)
      | _ => negb (Nat.eqb d 0)
      end.

    Definition extra_ok (extra : list (pystr * pyval)) : Prop :=
      alist_get extra (s2p "items") = None /\ alist_get extra (s2p "_ty") = None.

    Lemma quiet_with_attrs extra : extra_ok extra -> forall m o, quiet m o = true -> quiet m (with_attrs o extra) = true.
    Proof.
      intros [Hi _] m o. destruct m as [|m]; [discriminate|]. destruct o as [| | | | | | | | | |c attrs|]; try discriminate.
      cbn [quiet with_attrs]. rewrite alist_get_app, Hi. intro H. exact H.
    Qed.

    Lemma quiet_S m o : quiet m o = true -> quiet (S m) o = true.
    Proof.
      revert o. induction m as [|m IH]; intros o H; [discriminate H|].
      destruct o as [| | | | | | | | | |c attrs|]; try discriminate H.
      cbn [quiet] in H. remember (S m) as m1. cbn [quiet]. subst m1.
      destruct (negb (str_prefix fn_prefix c) && class_known ftbl c && negb (class_in ftbl c [s2p "ClassReference"]));
        [|discriminate H]. cbn [andb] in H |- *.
      destruct (class_in ftbl c [s2p "Array"]); [|reflexivity].
      destruct (alist_get attrs (s2p "items")) as [it|]; [|discriminate H].
      destruct (fs_isinstance ftbl it k_fieldish) as [[|]|x]; try discriminate H; [|reflexivity].
      exact (IH it H).
    Qed.

    Lemma quiet_le m d o : quiet m o = true -> (m <= d)%nat -> quiet d o = true.
    Proof. intros H Hle. induction Hle; [exact H|]. apply quiet_S. assumption. Qed.

    (* leaves, sets and unions: nothing to verify *)
    Lemma tf_quiet tf :
      match tf with TArray _ | TRef _ | TOther _ _ => False | _ => True end ->
      shallow_wf tf = true -> quiet 1 (tfpy tf) = true.
    Proof.
      destruct tf as [l|i|i|c|nf f|ls|id o]; try contradiction; intros _ Hw; cbn [shallow_wf] in Hw; cbn [ftf_py quiet].
      - destruct (leaf_facts_fast l Hw) as (H1 & H2 & _ & _ & H5 & H6 & _). unfold leaf_py. rewrite H1, H2, H5, H6. reflexivity.
      - vm_compute. reflexivity.
      - unfold anyof_py. vm_compute. reflexivity.
      - unfold anyof_py. vm_compute. reflexivity.
    Qed.

    Lemma fits_shallow d tf : tf_fits d tf = true -> shallow_wf tf = true.
    Proof.
      destruct tf as [l|i|i|c|nf f|ls|id o]; cbn [tf_fits shallow_wf]; intro H; try reflexivity.
      - apply andb_true_iff in H as [H _]. exact H.
      - apply andb_true_iff in H as [H _]. exact H.
      - apply andb_true_iff in H as [H _]. exact H.
    Qed.

    Lemma fits_pos d tf : tf_fits d tf = true -> (1 <= d)%nat.
    Proof.
      destruct tf as [l|i|i|c|nf f|ls|id o]; cbn [tf_fits]; intro H;
        try (try (apply andb_true_iff in H as [_ H]); apply negb_true_iff in H; apply Nat.eqb_neq in H; lia).
      - destruct d; [discriminate H|lia].
      - apply andb_true_iff in H as [_ H]. destruct d; [discriminate H|lia].
    Qed.

    (* attribute lookups on a class of the environment that no store of the file touches *)
    Lemma lookup_plain h cn c a0 :
      heap_base h -> find_tclass e cn = Some c ->
      pystr_eqb a0 a_serialize = false -> pystr_eqb a0 a_created = false ->
      pystr_eqb a0 (s2p "_additional_serialization") = false ->
      cls_mro h cn = [cn; ST] ++ (if t_fast c then [FS] else []) /\ cls_lookup h cn a0 = heap0 cn a0.
    Proof.
      intros [Hb1 Hb2] Hf H1 H2 H3.
      assert (Hm : cls_mro h cn = [cn; ST] ++ (if t_fast c then [FS] else [])).
      { unfold cls_mro. rewrite (Hb1 cn mro_attr eq_refl eq_refl), (heap0_env Henv cn c mro_attr Hf).
        change (pystr_eqb mro_attr a_fields) with false. rewrite pystr_eqb_refl. unfold mro_py.
        destruct (t_fast c); reflexivity. }
      split; [exact Hm|]. unfold cls_lookup. rewrite Hm. cbn [app mro_find]. rewrite (Hb1 cn a0 H1 H2).
      destruct (heap0 cn a0) eqn:E; [reflexivity|].
      rewrite (Hb1 ST a0 H1 H2).
      assert (E2 : heap0 ST a0 = None) by (unfold fast_heap0; change (pystr_eqb ST FS) with false; rewrite pystr_eqb_refl, H3; reflexivity).
      rewrite E2. destruct (t_fast c); [|reflexivity]. cbn [mro_find].
      rewrite (Hb1 FS a0 H1 H2). unfold fast_heap0. rewrite pystr_eqb_refl, H1. reflexivity.
    Qed.

    (* getattr(C, "serialize", None) for a class of the environment *)
    Lemma lookup_serialize h cn c :
      heap_base h -> find_tclass e cn = Some c ->
      cls_lookup h cn a_serialize =
      match h cn a_serialize with
      | Some v => Some v
      | None => if t_fast c then Some fs_serialize_fn else None
      end.
    Proof.
      intros Hb Hf. destruct (lookup_plain h cn c mro_attr Hb Hf eq_refl eq_refl eq_refl) as [Hm _].
      assert (Hn : env_names_ok = true) by (unfold env_ok in Henv; apply andb_true_iff in Henv as [Hn _]; exact Hn).
      unfold cls_lookup. rewrite Hm. destruct (t_fast c); cbn [app mro_find]; destruct (h cn a_serialize); try reflexivity;
        rewrite (proj2 Hb ST a_serialize (names_ok_find ST Hn (or_introl eq_refl))).
      - change (heap0 ST a_serialize) with (@None pyval).
        rewrite (proj2 Hb FS a_serialize (names_ok_find FS Hn (or_intror eq_refl))). reflexivity.
      - reflexivity.
    Qed.
  
    Lemma names_ok : env_names_ok = true.
    Proof. unfold env_ok in Henv. apply andb_true_iff in Henv as [Hn _]. exact Hn. Qed.

    Lemma issub_env h c' cd :
      heap_base h -> find_tclass e c' = Some cd -> fs_issubclass h (ref c') (ref FS) = Ok (t_fast cd).
    Proof.
      intros Hb Hf. destruct (lookup_plain h c' cd mro_attr Hb Hf eq_refl eq_refl eq_refl) as [Hm _].
      unfold fs_issubclass, ref, ref_name. rewrite pystr_eqb_refl, Hm.
      destruct (env_cls_not_special Henv c' cd Hf) as [H1 _].
      unfold str_in. cbn [app existsb]. rewrite (pystr_eqb_sym FS c'), H1. change (pystr_eqb FS ST) with false.
      destruct (t_fast cd); cbn [existsb orb]; [rewrite pystr_eqb_refl|]; reflexivity.
    Qed.

    Lemma getser_env h c' cd :
      heap_base h -> find_tclass e c' = Some cd ->
      fs_getattr_def h (ref c') a_serialize PNone =
      Ok (match h c' a_serialize with
          | Some v => v
          | None => if t_fast cd then fs_serialize_fn else PNone
          end).
    Proof.
      intros Hb Hf. unfold fs_getattr_def, ref. rewrite pystr_eqb_refl, (lookup_serialize h c' cd Hb Hf).
      destruct (h c' a_serialize); [reflexivity|]. destruct (t_fast cd); reflexivity.
    Qed.

    Lemma fs_ser h : heap_base h -> fs_getattr h (ref FS) a_serialize = Ok fs_serialize_fn.
    Proof.
      intros [_ Hb]. pose proof (names_ok_find FS names_ok (or_intror eq_refl)) as Hf.
      unfold fs_getattr, ref. rewrite pystr_eqb_refl. unfold cls_lookup, cls_mro.
      rewrite (Hb FS mro_attr Hf). change (heap0 FS mro_attr) with (@None pyval). cbn [mro_find].
      rewrite (Hb FS a_serialize Hf). reflexivity.
    Qed.

    Lemma failed_env h c' cd :
      heap_base h -> find_tclass e c' = Some cd ->
      fs_getattr_def h (ref c') (s2p "_failed_serializer_creation") (PBool false) = Ok (PBool false).
    Proof.
      intros Hb Hf. unfold fs_getattr_def, ref. rewrite pystr_eqb_refl.
      rewrite (proj2 (lookup_plain h c' cd (s2p "_failed_serializer_creation") Hb Hf eq_refl eq_refl eq_refl)),
        (heap0_env Henv c' cd _ Hf). reflexivity.
    Qed.

    Lemma is_installed_not_fs cn c sn : py_is_obj (serc cn c sn) fs_serialize_fn = Ok false.
    Proof. reflexivity. Qed.

    Lemma verify_ref d h extra c' :
      heap_inv h -> extra_ok extra -> (1 <= d)%nat ->
      cs_model n c' <> Raise Unmodelled -> cs_model n c' <> Raise OutOfFuel ->
      agrees (cs_model n c') (verify d call xt h (with_attrs (tfpy (TRef c')) extra)).
    Proof.
      intros Hi [_ Hty] Hd Hu Ho. destruct d as [|d]; [lia|].
      unfold cs_model in *. destruct (find_tclass e c') as [cd|] eqn:Hf; [|contradiction Hu; reflexivity].
      pose proof (proj1 Hi) as Hb.
      cbn [ftf_py with_attrs]. cbn [src_verify_is_fast_serializable].
      rewrite !fsinst_struct. str_eval. eval_fcls. cbn [bind].
      cbn [fs_getattr]. rewrite alist_get_app, Hty. cbn [alist_get]. str_eval. cbn iota. cbn [bind py_and].
      change (s2p "FastSerializable") with FS. change (s2p "serialize") with a_serialize.
      rewrite (issub_env h c' cd Hb Hf). cbn [py_not bind].
      destruct (t_fast cd) eqn:Hfast; cbn [negb]; [|reflexivity]. rewrite (getser_env h c' cd Hb Hf), Hfast, (fs_ser h Hb). cbn [bind].
      destruct (proj2 Hi c' cd Hf) as [Hnone|(Hsome & _ & k & Hk)].
      - rewrite Hnone. change (py_is_obj fs_serialize_fn fs_serialize_fn) with (@Ok bool true). cbn [bind].
        rewrite (failed_env h c' cd Hb Hf). cbn [bind py_truthy py_not negb].
        pose proof (Hrec h c' cd Hi Hf Hfast Hnone Hu Ho) as Hr. unfold agrees in *.
        destruct (create_serializer e n c') as [u|x].
        + destruct Hr as (h1 & Hi1 & Hr). rewrite Hr. cbn [bind]. exists h1. split; [exact Hi1|reflexivity].
        + rewrite Hr. reflexivity.
      - rewrite Hsome, is_installed_not_fs. cbn [bind].
        destruct (create_mono k c' Hk n) as [E|E]; rewrite E in Ho |- *; [|contradiction Ho; reflexivity].
        exists h. split; [exact Hi|reflexivity].
    Qed.
  
    Lemma agrees_same h s : heap_inv h -> s = Ok (h, PNone) -> agrees (Ok tt) s.
    Proof. intros Hi E. exists h. split; assumption. Qed.

    Lemma verify_eq : forall tf d h extra,
        heap_inv h -> extra_ok extra -> tf_fits d tf = true ->
        verify_model (cs_model n) tf <> Raise Unmodelled -> verify_model (cs_model n) tf <> Raise OutOfFuel ->
        agrees (verify_model (cs_model n) tf) (verify d call xt h (with_attrs (tfpy tf) extra)).
    Proof.
      induction tf as [l|i IH|i IH|c|nf f IH|ls|id o]; intros d h extra Hi Hx Hfit Hu Ho.
      - apply (agrees_same h _ Hi). apply quiet_verify with (m := d); [|lia].
        apply quiet_with_attrs; [exact Hx|]. apply quiet_le with (m := 1%nat); [|exact (fits_pos _ _ Hfit)].
        apply tf_quiet; [exact I|exact (fits_shallow _ _ Hfit)].
      - (* Array: the items are verified first *)
        cbn [tf_fits] in Hfit. destruct d as [|d]; [discriminate Hfit|]. cbn [verify_model] in Hu, Ho |- *.
        destruct (obj_struct i (fits_shallow _ _ Hfit)) as (c0 & attrs & E & Hk & Hp & _ & _).
        cbn [ftf_py with_attrs]. cbn [src_verify_is_fast_serializable].
        rewrite !fsinst_struct. str_eval. eval_fcls. cbn [bind py_and].
        cbn [fs_getattr]. rewrite alist_get_app, (proj1 Hx). cbn [alist_get]. str_eval. cbn iota. cbn [bind].
        rewrite E, fsinst_struct, Hp, Hk. cbn [bind].
        destruct (class_in ftbl c0 [s2p "Field"; s2p "ClassReference"]) eqn:Hfl.
        + specialize (IH d h [] Hi (conj eq_refl eq_refl) Hfit Hu Ho). rewrite E in IH. cbn [with_attrs app] in IH.
          unfold agrees in *. destruct (verify_model (cs_model n) i) as [u|x].
          * destruct IH as (h1 & Hi1 & IH). rewrite IH. cbn [bind]. exists h1. split; [exact Hi1|reflexivity].
          * rewrite IH. reflexivity.
        + assert (Hq : verify_model (cs_model n) i = Ok tt).
          { destruct i as [l|i2|i2|c|nf f|ls|id o]; try reflexivity; cbn [ftf_py] in E; inversion E; subst;
              vm_compute in Hfl; discriminate Hfl. }
          rewrite Hq. exists h. split; [exact Hi|reflexivity].
      - apply (agrees_same h _ Hi). apply quiet_verify with (m := d); [|lia].
        apply quiet_with_attrs; [exact Hx|]. apply quiet_le with (m := 1%nat); [|exact (fits_pos _ _ Hfit)].
        apply tf_quiet; [exact I|exact (fits_shallow _ _ Hfit)].
      - cbn [verify_model] in *. exact (verify_ref d h extra c Hi Hx (fits_pos _ _ Hfit) Hu Ho).
      - apply (agrees_same h _ Hi). apply quiet_verify with (m := d); [|lia].
        apply quiet_with_attrs; [exact Hx|]. apply quiet_le with (m := 1%nat); [|exact (fits_pos _ _ Hfit)].
        apply tf_quiet; [exact I|exact (fits_shallow _ _ Hfit)].
      - apply (agrees_same h _ Hi). apply quiet_verify with (m := d); [|lia].
        apply quiet_with_attrs; [exact Hx|]. apply quiet_le with (m := 1%nat); [|exact (fits_pos _ _ Hfit)].
        apply tf_quiet; [exact I|exact (fits_shallow _ _ Hfit)].
      - apply (agrees_same h _ Hi). apply quiet_verify with (m := d); [|lia].
        apply quiet_with_attrs; [exact Hx|]. cbn [tf_fits] in Hfit. apply andb_true_iff in Hfit as [_ Hq]. exact Hq.
    Qed.
  
    (* ---------------------------------------------------------------- _get_serialize *)

    Definition agrees_v (r : res unit) (s : res (heap * pyval)) (v : pyval) : Prop :=
      match r with
      | Ok _ => exists h1, heap_inv h1 /\ s = Ok (h1, v)
      | Raise x => s = Raise x
      end.

    Lemma non_null_leaves (F : pyval -> res (option pyval)) :
      (forall v, F v = (c <- py_not (fs_isinstance ftbl v [s2p "NoneField"]) ;; if c then Ok (Some v) else Ok None)) ->
      forall ls, forallb leaf_wf ls = true -> filterM F (map leaf_py ls) = Ok (map leaf_py (non_none ls)).
    Proof.
      intro HF. induction ls as [|l t IH]; intro Hw; [reflexivity|].
      cbn [forallb] in Hw. apply andb_true_iff in Hw as [Hl Ht].
      cbn [map filterM]. rewrite HF, (IH Ht). unfold leaf_py at 1. rewrite fsinst_struct.
      destruct (leaf_facts_fast l Hl) as (H1 & H2 & _ & _ & _ & _ & _ & _ & H9). rewrite H1, H2, H9.
      unfold non_none. cbn [filter py_not bind]. destruct (is_none_leaf l); reflexivity.
    Qed.

    Lemma gt1 {A} (l : list A) : py_gt (PNum (NInt (lenZ' l))) (zint 1) = Ok (1 <? Z.of_nat (length l)).
    Proof. unfold py_gt, py_lt, zint. cbn [as_num]. rewrite num_ltb_int. reflexivity. Qed.

    Lemma get_serialize_eq cn fd d h :
      heap_inv h -> tf_fits d (f_ty fd) = true -> getter_of (f_ty fd) = GSer ->
      check_field (cs_model n) (f_ty fd) <> Raise Unmodelled -> check_field (cs_model n) (f_ty fd) <> Raise OutOfFuel ->
      agrees_v (check_field (cs_model n) (f_ty fd)) (src_get_serialize rec d call xt h (fdpy cn fd) (ref cn)) (getter cn fd).
    Proof.
      intros Hi Hfit Hg Hu Ho. rewrite check_field_split in Hu, Ho |- *.
      assert (Hu1 : verify_model (cs_model n) (f_ty fd) <> Raise Unmodelled).
      { intro E. apply Hu. rewrite E. reflexivity. }
      assert (Ho1 : verify_model (cs_model n) (f_ty fd) <> Raise OutOfFuel).
      { intro E. apply Ho. rewrite E. reflexivity. }
      pose proof (verify_eq (f_ty fd) d h (fd_extra cn fd) Hi (conj eq_refl eq_refl) Hfit Hu1 Ho1) as Hv.
      unfold src_get_serialize. fold (fd_py other_obj cn fd) in Hv. unfold agrees in Hv. unfold agrees_v.
      destruct (verify_model (cs_model n) (f_ty fd)) as [[]|x]; cbn [bind] in Hu, Ho |- *; [|rewrite Hv; reflexivity].
      destruct Hv as (h1 & Hi1 & Hv). rewrite Hv. cbn [bind].
      unfold getter_py. rewrite Hg. unfold fd_py.
      destruct (f_ty fd) as [l|i|i|c'|nf f|ls|id ob] eqn:Hty; cbn [tail_model ftf_py with_attrs].
      - (* a leaf that is not a Number / String / Boolean *)
        cbn [tf_fits] in Hfit. apply andb_true_iff in Hfit as [Hl _].
        destruct (leaf_facts_fast l Hl) as (H1 & H2 & _ & _ & H5 & _ & H7 & H8 & _).
        unfold leaf_py. cbn [with_attrs]. rewrite !fsinst_struct, H1, H2, H5. cbn [bind]. rewrite !fsinst_struct, H1, H2, H7, H8.
        cbn [bind]. exists h1. split; [exact Hi1|reflexivity].
      - rewrite !fsinst_struct. str_eval. eval_fcls. cbn [bind]. rewrite !fsinst_struct. str_eval. eval_fcls. cbn [bind].
        exists h1. split; [exact Hi1|reflexivity].
      - rewrite !fsinst_struct. str_eval. eval_fcls. cbn [bind]. rewrite !fsinst_struct. str_eval. eval_fcls. cbn [bind].
        exists h1. split; [exact Hi1|reflexivity].
      - (* a class reference: the class is the receiver of serialize *)
        rewrite !fsinst_struct. str_eval. eval_fcls. cbn [bind].
        cbn [fs_getattr]. unfold fd_extra. cbn [app alist_get]. unfold a_name, a_owner. str_eval. cbn iota. cbn [bind].
        rewrite !fsinst_ref. cbn [bind]. exists h1. split; [exact Hi1|reflexivity].
      - (* Optional: at most one option is not None *)
        cbn [tf_fits] in Hfit. apply andb_true_iff in Hfit as [Hf _].
        destruct (obj_struct f Hf) as (c0 & attrs & E & Hk & Hp & _ & _).
        unfold anyof_py. cbn [with_attrs]. rewrite !fsinst_struct. str_eval. eval_fcls. cbn [bind].
        rewrite !fsinst_struct. str_eval. eval_fcls. cbn [bind].
        cbn [fs_getattr]. unfold fd_extra. cbn [app alist_get]. unfold a_name, a_owner. str_eval. cbn iota. cbn [bind py_iter].
        unfold none_py, leaf_py. cbn [leaf_cls prim_cls leaf_attrs]. rewrite E.
        destruct nf; cbn [filterM]; rewrite !fsinst_struct, Hp, Hk; str_eval; eval_fcls; cbn [py_not bind negb];
          destruct (class_in ftbl c0 [s2p "NoneField"]); cbn [negb bind py_len]; rewrite gt1; cbn [length Z.of_nat Z.ltb Z.compare Pos.compare Pos.of_succ_nat bind];
          (exists h1; split; [exact Hi1|reflexivity]).
      - (* a union of leaves *)
        cbn [tf_fits] in Hfit. apply andb_true_iff in Hfit as [Hls _].
        unfold anyof_py. cbn [with_attrs]. rewrite !fsinst_struct. str_eval. eval_fcls. cbn [bind].
        rewrite !fsinst_struct. str_eval. eval_fcls. cbn [bind].
        cbn [fs_getattr]. unfold fd_extra. cbn [app alist_get]. unfold a_name, a_owner. str_eval. cbn iota. cbn [bind py_iter].
        rewrite (non_null_leaves _ (fun _ => eq_refl) ls Hls). cbn [bind py_len]. rewrite gt1, map_length. cbn [bind].
        destruct (1 <? Z.of_nat (length (non_none ls))); [reflexivity|].
        exists h1. split; [exact Hi1|reflexivity].
      - (* an unmodelled field: OneOf is refused *)
        cbn [tf_fits] in Hfit. apply andb_true_iff in Hfit as [Hok _].
        destruct (other_ok_split _ _ Hok) as (c0 & attrs & E & Hk & Hp & _ & _ & H5 & H6 & H7 & _).
        rewrite E. cbn [with_attrs]. rewrite !fsinst_struct, Hp, Hk, H5. cbn [bind]. rewrite !fsinst_struct, Hp, Hk, H6.
        cbn [bind]. destruct ob; [reflexivity|]. rewrite H7. cbn [bind]. exists h1. split; [exact Hi1|reflexivity].
    Qed.
  
    (* ---------------------------------------------------------------- the loop over the fields *)

    Lemma agg_lookup (F : pystr -> pyval) : forall fs k,
        str_in k (map f_name fs) = true ->
        dict_get (map (fun fd => (PStr (f_name fd), F (f_name fd))) fs) (PStr k) = Some (F k).
    Proof.
      induction fs as [|fd t IH]; intros k H; [discriminate H|].
      unfold str_in in H. cbn [map existsb] in H. cbn [map dict_get py_eq].
      destruct (pystr_eqb (f_name fd) k) eqn:E.
      - apply pystr_eqb_spec in E. subst. reflexivity.
      - rewrite pystr_eqb_sym, E in H. cbn [orb] in H. exact (IH k H).
    Qed.

    (* isinstance(field, (Number, String, Boolean)) on the object of a declared field *)
    Lemma raw_test cn fd :
      shallow_wf (f_ty fd) = true ->
      fs_isinstance ftbl (fdpy cn fd) k_raw = Ok (match getter_of (f_ty fd) with GRaw => true | GSer => false end) /\
      fs_isinstance ftbl (fdpy cn fd) [s2p "Constant"] = Ok false.
    Proof.
      unfold fd_py. destruct (f_ty fd) as [l|i|i|c'|nf f|ls|id ob]; cbn [shallow_wf ftf_py]; intro Hw.
      - destruct (leaf_facts_fast l Hw) as (H1 & H2 & H3 & H4 & _). unfold leaf_py. cbn [with_attrs].
        rewrite !fsinst_struct, H1, H2, H3, H4. split; reflexivity.
      - cbn [with_attrs]. rewrite !fsinst_struct. split; vm_compute; reflexivity.
      - cbn [with_attrs]. rewrite !fsinst_struct. split; vm_compute; reflexivity.
      - cbn [with_attrs]. rewrite !fsinst_struct. split; vm_compute; reflexivity.
      - unfold anyof_py. cbn [with_attrs]. rewrite !fsinst_struct. split; vm_compute; reflexivity.
      - unfold anyof_py. cbn [with_attrs]. rewrite !fsinst_struct. split; vm_compute; reflexivity.
      - destruct (other_ok_split _ _ Hw) as (c0 & attrs & E & Hk & Hp & H3 & H4 & _).
        rewrite E. cbn [with_attrs getter_of]. rewrite !fsinst_struct, Hp, Hk, H3, H4. split; reflexivity.
    Qed.

    Lemma setitem_fresh acc key v :
      str_in key (map fst acc) = false ->
      PyOpsSchema.py_dict_setitem (PDict (kv_py acc)) (PStr key) v = Ok (PDict (kv_py (acc ++ [(key, v)]))).
    Proof.
      intro H. unfold PyOpsSchema.py_dict_setitem. cbn [py_hashable']. rewrite dict_set_kv, (alist_set_fresh acc key v H).
      reflexivity.
    Qed.

    Lemma field_case (cs : pystr -> res unit) (fd : tfd) :
      (match f_ty fd with
       | TLeaf (LPrim FNone) => check_field cs (f_ty fd)
       | TLeaf (LPrim _) | TLeaf (LSer _ true) => Ok tt
       | tf0 => check_field cs tf0
       end) = match getter_of (f_ty fd) with GRaw => Ok tt | GSer => check_field cs (f_ty fd) end.
    Proof.
      destruct (f_ty fd) as [[f|cls ms byv|vals|id [|]]|i|i|c|nf f|ls|id o]; try reflexivity. destruct f; reflexivity.
    Qed.

    Notation loop := (src_create_serializer_loop1 rec).

    Lemma loop_eq d cn c k :
      find_tclass e cn = Some c ->
      forall fs acc h,
        heap_inv h ->
        (forall fd, In fd fs -> tf_fits d (f_ty fd) = true /\ str_in (f_name fd) (map f_name (t_fields c)) = true) ->
        nodupb (map fst acc ++ map (fun fd => own_key (t_mapper c) (f_name fd)) fs) = true ->
        check_fields (cs_model n) (t_mapper c) fs <> Raise Unmodelled ->
        check_fields (cs_model n) (t_mapper c) fs <> Raise OutOfFuel ->
        match check_fields (cs_model n) (t_mapper c) fs with
        | Ok _ => exists h1, heap_inv h1 /\
                    loop d call xt (ref cn) (agg_py agg_chain c) k
                         (map (fun fd => (PStr (f_name fd), fdpy cn fd)) fs) h (PDict (kv_py acc)) =
                    k h1 (PDict (kv_py (acc ++ getters other_obj cn (t_mapper c) fs)))
        | Raise x => loop d call xt (ref cn) (agg_py agg_chain c) k
                          (map (fun fd => (PStr (f_name fd), fdpy cn fd)) fs) h (PDict (kv_py acc)) = Raise x
        end.
    Proof.
      intro Hf. induction fs as [|fd t IH]; intros acc h Hi Hfs Hnd Hu Ho.
      - exists h. split; [exact Hi|]. cbn [map getters src_create_serializer_loop1]. rewrite app_nil_r. reflexivity.
      - destruct (Hfs fd (or_introl eq_refl)) as [Hfit Hname].
        pose proof (fits_shallow _ _ Hfit) as Hw.
        cbn [check_fields] in Hu, Ho |- *. rewrite field_case in Hu, Ho |- *.
        cbn [map src_create_serializer_loop1].
        (* the mapped key *)
        assert (Hml : t_mapper c <> MapList).
        { intro E. apply Hu. rewrite E. reflexivity. }
        assert (Hagg : py_subscript (agg_py agg_chain c) (PStr (f_name fd)) = Ok (key_py (t_mapper c) (f_name fd))).
        { unfold agg_py. destruct (t_mapper c) eqn:Em; try (contradiction Hml; reflexivity);
            cbn [py_subscript]; unfold py_dict_getitem; cbn [py_hashable'];
            rewrite (agg_lookup (key_py _) (t_fields c) (f_name fd) Hname); reflexivity. }
        rewrite Hagg. cbn [bind].
        assert (Hkey : forall kx, mapped_as_str (t_mapper c) (f_name fd) = Ok kx ->
                                  key_py (t_mapper c) (f_name fd) = PStr (own_key (t_mapper c) (f_name fd))).
        { intros kx. unfold mapped_as_str, key_py. destruct (t_mapper c) as [| | |kv|]; try reflexivity.
          destruct (alist_get kv (f_name fd)) as [[s0| |]|]; try reflexivity; discriminate. }
        destruct (mapped_as_str (t_mapper c) (f_name fd)) as [[]|x] eqn:Emap; cbn [bind] in Hu, Ho |- *.
        + rewrite (Hkey tt eq_refl). cbn [py_class_is bind].
          destruct (raw_test cn fd Hw) as [Hraw Hconst].
          change [s2p "Number"; s2p "String"; s2p "Boolean"] with k_raw. rewrite Hraw.
          cbn [map] in Hnd. 
          assert (Hfresh : str_in (own_key (t_mapper c) (f_name fd)) (map fst acc) = false).
          { rewrite nodupb_app in Hnd. apply andb_true_iff in Hnd as [_ Hnd].
            clear - Hnd. induction (map fst acc) as [|k0 l IHl]; [reflexivity|].
            cbn [forallb] in Hnd. apply andb_true_iff in Hnd as [H1 H2]. unfold str_in in *. cbn [existsb] in H1 |- *.
            apply negb_true_iff in H1. apply orb_false_iff in H1 as [H1 _]. rewrite pystr_eqb_sym, H1. exact (IHl H2). }
          assert (Hnd' : nodupb (map fst (acc ++ [(own_key (t_mapper c) (f_name fd), getter cn fd)]) ++
                                 map (fun fd0 => own_key (t_mapper c) (f_name fd0)) t) = true).
          { rewrite map_app, <- app_assoc. exact Hnd. }
          assert (Hfs' : forall fd0, In fd0 t -> tf_fits d (f_ty fd0) = true /\ str_in (f_name fd0) (map f_name (t_fields c)) = true).
          { intros fd0 Hin. apply Hfs. right. exact Hin. }
          destruct (getter_of (f_ty fd)) eqn:Hg; cbn [bind] in Hu, Ho |- *.
          * (* a raw getter *)
            assert (Hgv : src_get_value call xt h (fdpy cn fd) (ref cn) = Ok (getter cn fd)).
            { unfold getter_py. rewrite Hg. reflexivity. }
            rewrite Hgv. cbn [bind]. rewrite (setitem_fresh acc _ (getter cn fd) Hfresh). cbn [bind].
            specialize (IH _ h Hi Hfs' Hnd' Hu Ho).
            destruct (check_fields (cs_model n) (t_mapper c) t) as [u|x].
            -- destruct IH as (h1 & Hi1 & IH). exists h1. split; [exact Hi1|]. rewrite IH.
               unfold getters. cbn [map]. rewrite <- app_assoc. reflexivity.
            -- exact IH.
          * (* a serializing getter *)
            rewrite Hconst. cbn [bind].
            assert (Hu1 : check_field (cs_model n) (f_ty fd) <> Raise Unmodelled).
            { intro E. apply Hu. rewrite E. reflexivity. }
            assert (Ho1 : check_field (cs_model n) (f_ty fd) <> Raise OutOfFuel).
            { intro E. apply Ho. rewrite E. reflexivity. }
            pose proof (get_serialize_eq cn fd d h Hi Hfit Hg Hu1 Ho1) as Hgs. unfold agrees_v in Hgs.
            destruct (check_field (cs_model n) (f_ty fd)) as [[]|x]; cbn [bind] in Hu, Ho |- *.
            -- destruct Hgs as (h1 & Hi1 & Hgs). rewrite Hgs. cbn [bind].
               rewrite (setitem_fresh acc _ (getter cn fd) Hfresh). cbn [bind].
               specialize (IH _ h1 Hi1 Hfs' Hnd' Hu Ho).
               destruct (check_fields (cs_model n) (t_mapper c) t) as [u|x].
               ++ destruct IH as (h2 & Hi2 & IH). exists h2. split; [exact Hi2|]. rewrite IH.
                  unfold getters. cbn [map]. rewrite <- app_assoc. reflexivity.
               ++ exact IH.
            -- rewrite Hgs. reflexivity.
        + (* the mapped key is not a string: a FunctionCall is refused (anything else is outside the model) *)
          unfold mapped_as_str in Emap. unfold key_py.
          destruct (t_mapper c) as [| | |kv|]; try discriminate Emap; [|contradiction Hml; reflexivity].
          destruct (alist_get kv (f_name fd)) as [[s0| |]|]; try discriminate Emap; inversion Emap; subst.
          * reflexivity.
          * contradiction Hu; reflexivity.
    Qed.
  
    (* ---------------------------------------------------------------- around the loop *)

    Lemma fields_base h cn c :
      heap_base h -> find_tclass e cn = Some c ->
      py_call_method h call xt (ref cn) (s2p "get_all_fields_by_name") [] = Ok (ffields_py other_obj cn (t_fields c)).
    Proof.
      intros Hb Hf. unfold py_call_method, ref. rewrite pystr_eqb_refl.
      rewrite (proj2 (lookup_plain h cn c (s2p "get_all_fields_by_name") Hb Hf eq_refl eq_refl eq_refl)),
        (heap0_env Henv cn c _ Hf).
      change (pystr_eqb (s2p "get_all_fields_by_name") a_fields) with false.
      change (pystr_eqb (s2p "get_all_fields_by_name") mro_attr) with false.
      change (pystr_eqb (s2p "get_all_fields_by_name") (s2p "__name__")) with false. cbn iota.
      change (call_attr (s2p "get_all_fields_by_name")) with a_fields.
      rewrite (proj2 (lookup_plain h cn c a_fields Hb Hf eq_refl eq_refl eq_refl)), (heap0_env Henv cn c _ Hf).
      rewrite pystr_eqb_refl. reflexivity.
    Qed.

    Lemma undefined_base h cn c :
      heap_base h -> find_tclass e cn = Some c ->
      fs_getattr_def h (ref cn) (s2p "_enable_undefined_value") (PBool false) = Ok (PBool false).
    Proof.
      intros Hb Hf. unfold fs_getattr_def, ref. rewrite pystr_eqb_refl.
      rewrite (proj2 (lookup_plain h cn c (s2p "_enable_undefined_value") Hb Hf eq_refl eq_refl eq_refl)),
        (heap0_env Henv cn c _ Hf). reflexivity.
    Qed.

    Lemma additional_base h cn c :
      heap_base h -> find_tclass e cn = Some c ->
      fs_hasattr h (ref cn) (s2p "_additional_serialization") = Ok true.
    Proof.
      intros Hb Hf. unfold fs_hasattr, ref. rewrite pystr_eqb_refl.
      destruct (lookup_plain h cn c mro_attr Hb Hf eq_refl eq_refl eq_refl) as [Hm _].
      unfold cls_lookup. rewrite Hm. cbn [app mro_find].
      rewrite (proj1 Hb cn (s2p "_additional_serialization") eq_refl eq_refl), (heap0_env Henv cn c _ Hf).
      change (pystr_eqb (s2p "_additional_serialization") a_fields) with false.
      change (pystr_eqb (s2p "_additional_serialization") mro_attr) with false.
      change (pystr_eqb (s2p "_additional_serialization") (s2p "__name__")) with false. cbn iota.
      rewrite (proj1 Hb ST (s2p "_additional_serialization") eq_refl eq_refl). reflexivity.
    Qed.

    Lemma agg_ext cn c : find_tclass e cn = Some c ->
      x_fn xt (s2p "aggregate_serialization_mappers") [ref cn] = Ok (agg_py agg_chain c).
    Proof.
      intro Hf. cbn [x_fn fast_ext]. unfold ext_fn, ref. rewrite !pystr_eqb_refl. rewrite Hf. reflexivity.
    Qed.

    (* reading back the serializer that was just stored (set_compact_wrapper) *)
    Lemma read_back h cn c v :
      heap_base h -> find_tclass e cn = Some c ->
      fs_getattr (heap_set h cn a_serialize v) (ref cn) a_serialize = Ok v.
    Proof.
      intros Hb Hf. destruct (lookup_plain h cn c mro_attr Hb Hf eq_refl eq_refl eq_refl) as [Hm _].
      unfold fs_getattr, ref. rewrite pystr_eqb_refl. unfold cls_lookup.
      assert (E : cls_mro (heap_set h cn a_serialize v) cn = cls_mro h cn).
      { unfold cls_mro. rewrite heap_set_other_attr; reflexivity. }
      rewrite E, Hm. cbn [app mro_find]. rewrite heap_set_same. reflexivity.
    Qed.

    (* the heap create_serializer(cls) (default flags) leaves is again a heap on the way *)
    Lemma final_inv h1 c' cd k :
      heap_inv h1 -> find_tclass e c' = Some cd -> t_fast cd = true -> create_serializer e k c' = Ok tt ->
      heap_inv (final_heap other_obj h1 c' cd (PBool false) false).
    Proof.
      intros [[Hb1 Hb2] Hs] Hf Hfast Hk. unfold final_heap. split; [split|].
      - intros o a H1 H2. rewrite heap_set_other_attr by exact H2. rewrite heap_set_other_attr by exact H1.
        exact (Hb1 o a H1 H2).
      - intros o a Ho. assert (E : pystr_eqb o c' = false).
        { destruct (pystr_eqb o c') eqn:E; [|reflexivity]. apply pystr_eqb_spec in E. subst. congruence. }
        rewrite !heap_set_other_obj by exact E. exact (Hb2 o a Ho).
      - intros cn2 c2 Hf2. destruct (pystr_eqb cn2 c') eqn:E.
        + apply pystr_eqb_spec in E. subst cn2. assert (c2 = cd) by congruence. subst c2. right.
          rewrite heap_set_other_attr by reflexivity. rewrite heap_set_same. split; [reflexivity|].
          split; [exact Hfast|]. exists k. exact Hk.
        + rewrite !heap_set_other_obj by exact E. exact (Hs cn2 c2 Hf2).
    Qed.
  End Create.

  Definition fits_env (d : nat) : bool :=
    forallb (fun c => forallb (fun fd => tf_fits d (f_ty fd)) (t_fields c)) e.

  Lemma fits_env_find d cn c :
    fits_env d = true -> find_tclass e cn = Some c -> forall fd, In fd (t_fields c) -> tf_fits d (f_ty fd) = true.
  Proof.
    unfold fits_env. intros H Hf. induction e as [|c0 t IH]; [discriminate Hf|].
    cbn [forallb] in H. apply andb_true_iff in H as [H0 Ht]. cbn [find_tclass] in Hf.
    destruct (pystr_eqb (t_name c0) cn).
    - inversion Hf; subst. rewrite forallb_forall in H0. exact H0.
    - exact (IH Ht Hf).
  Qed.

  (* ---------------------------------------------------------------- create_serializer *)

  (* create_serializer(cls, compact, serialize_none) against the model: the same exception class (TypeError for a
     OneOf / a multi-type AnyOf / a class reference without the mix-in, ValueError for a FunctionCall mapper), and
     on success the heap [final_heap h1 ...]: h1 is the heap in which the serializers of the referenced classes
     have been created, the class now holds the serializer [installed cn c sn compact] -- per field the getter
     [getter_py] under the mapped key -- and _created_fast_serializer = True *)
  Theorem src_create_eq : forall fuel d call h cn c (compact sn : bool),
      env_ok = true -> fits_env d = true -> heap_inv h -> find_tclass e cn = Some c ->
      create_serializer e fuel cn <> Raise Unmodelled -> create_serializer e fuel cn <> Raise OutOfFuel ->
      match create_serializer e fuel cn with
      | Ok _ => exists h1, heap_inv h1 /\
                  src_create_serializer fuel d call xt h (ref cn) (PBool compact) (PBool sn) PNone =
                  Ok (final_heap other_obj h1 cn c (PBool sn) compact, PNone)
      | Raise x => src_create_serializer fuel d call xt h (ref cn) (PBool compact) (PBool sn) PNone = Raise x
      end.
  Proof.
    intros fuel d call h cn c compact sn Henv Hfit. revert h cn c compact sn.
    induction fuel as [|n IH]; intros h cn c compact sn Hi Hf Hu Ho; [contradiction Ho; reflexivity|].
    rewrite create_S, Hf in Hu, Ho |- *.
    pose proof (proj1 Hi) as Hb.
    cbn [src_create_serializer].
    cbn [py_or_val bind py_truthy]. rewrite (agg_ext cn c Hf). cbn [bind].
    rewrite (fields_base Henv call h cn c Hb Hf). cbn [bind]. unfold ffields_py. cbn [py_dict_items bind].
    assert (Hrec : forall h0 c' cd,
               heap_inv h0 -> find_tclass e c' = Some cd -> t_fast cd = true -> h0 c' a_serialize = None ->
               create_serializer e n c' <> Raise Unmodelled -> create_serializer e n c' <> Raise OutOfFuel ->
               agrees (create_serializer e n c')
                      (src_create_serializer n d call xt h0 (ref c') (PBool false) (PBool false) PNone)).
    { intros h0 c' cd Hi0 Hf0 Hfast0 _ Hu0 Ho0. specialize (IH h0 c' cd false false Hi0 Hf0 Hu0 Ho0).
      unfold agrees. destruct (create_serializer e n c') as [[]|x] eqn:Ec; [|exact IH].
      destruct IH as (h1 & Hi1 & IH). exists (final_heap other_obj h1 c' cd (PBool false) false).
      split; [exact (final_inv h1 c' cd n Hi1 Hf0 Hfast0 Ec)|exact IH]. }
    destruct (env_ok_find cn c Henv Hf) as (_ & Hok & _).
    unfold class_ok in Hok. apply andb_true_iff in Hok as [Hok Hkeys]. apply andb_true_iff in Hok as [_ Hnames].
    match goal with |- context [src_create_serializer_loop1 _ _ _ _ _ _ ?K] => set (k := K) end.
    pose proof (loop_eq Henv n (src_create_serializer n d call xt) call Hrec d cn c k Hf (t_fields c) [] h Hi) as HL.
    change (PDict []) with (PDict (kv_py [])).
    assert (Hfs : forall fd, In fd (t_fields c) ->
                             tf_fits d (f_ty fd) = true /\ str_in (f_name fd) (map f_name (t_fields c)) = true).
    { intros fd Hin. split; [exact (fits_env_find d cn c Hfit Hf fd Hin)|].
      apply str_in_In. apply in_map. exact Hin. }
    specialize (HL Hfs Hkeys Hu Ho).
    destruct (check_fields (cs_model n) (t_mapper c) (t_fields c)) as [[]|x]; [|exact HL].
    destruct HL as (h1 & Hi1 & HL). exists h1. split; [exact Hi1|]. rewrite HL. subst k. cbv beta.
    pose proof (proj1 Hi1) as Hb1. cbn [app].
    unfold py_dict_items_val. cbn [py_dict_items bind].
    rewrite (undefined_base Henv h1 cn c Hb1 Hf). cbn [bind].
    rewrite (additional_base Henv h1 cn c Hb1 Hf). cbn [bind].
    fold (items_val (getters other_obj cn (t_mapper c) (t_fields c))).
    fold (serc cn c (PBool sn)).
    unfold fs_setattr at 1. unfold ref at 1. unfold ref_name. rewrite pystr_eqb_refl. cbn [bind py_truthy].
    change (s2p "serialize") with a_serialize. change (s2p "_created_fast_serializer") with a_created.
    unfold final_heap. destruct compact; cbn iota.
    - unfold src_set_compact_wrapper. change (s2p "serialize") with a_serialize.
      rewrite (read_back Henv h1 cn c _ Hb1 Hf). cbn [bind].
      fold (compact_closure (serc cn c (PBool sn))).
      unfold fs_setattr, ref, ref_name. rewrite pystr_eqb_refl. cbn [bind]. reflexivity.
    - unfold fs_setattr, ref, ref_name. rewrite pystr_eqb_refl. cbn [bind]. reflexivity.
  Qed.

  (* ---------------------------------------------------------------- from the heap in which nothing is created yet *)

  Lemma heap0_inv : env_ok = true -> heap_inv heap0.
  Proof.
    intro Henv. split; [split; intros; reflexivity|]. intros cn c Hf. left.
    destruct (env_cls_not_special Henv cn c Hf) as [H1 H2].
    unfold fast_heap0. rewrite H1, H2, Hf. reflexivity.
  Qed.

  Corollary src_create_fresh : forall fuel d call cn c (compact sn : bool),
      env_ok = true -> fits_env d = true -> find_tclass e cn = Some c ->
      create_serializer e fuel cn <> Raise Unmodelled -> create_serializer e fuel cn <> Raise OutOfFuel ->
      match create_serializer e fuel cn with
      | Ok _ => exists h1, heap_inv h1 /\
                  src_create_serializer fuel d call xt heap0 (ref cn) (PBool compact) (PBool sn) PNone =
                  Ok (final_heap other_obj h1 cn c (PBool sn) compact, PNone)
      | Raise x => src_create_serializer fuel d call xt heap0 (ref cn) (PBool compact) (PBool sn) PNone = Raise x
      end.
  Proof.
    intros fuel d call cn c compact sn Henv Hfit Hf. exact (src_create_eq fuel d call heap0 cn c compact sn Henv Hfit (heap0_inv Henv) Hf).
  Qed.

  (* what the class holds afterwards *)
  Lemma final_heap_cells h1 cn c sn compact :
    final_heap other_obj h1 cn c sn compact cn a_serialize = Some (installed other_obj cn c sn compact) /\
    final_heap other_obj h1 cn c sn compact cn a_created = Some (PBool true) /\
    (forall o a, pystr_eqb o cn = false -> final_heap other_obj h1 cn c sn compact o a = h1 o a) /\
    (forall a, pystr_eqb a a_serialize = false -> pystr_eqb a a_created = false ->
               final_heap other_obj h1 cn c sn compact cn a = h1 cn a).
  Proof.
    unfold final_heap, installed. repeat split.
    - rewrite heap_set_other_attr by reflexivity. destruct compact; rewrite heap_set_same; reflexivity.
    - apply heap_set_same.
    - intros o a E. destruct compact; rewrite !heap_set_other_obj by exact E; reflexivity.
    - intros a E1 E2. destruct compact; rewrite heap_set_other_attr by exact E2; rewrite !heap_set_other_attr by exact E1; reflexivity.
  Qed.

  (* ---------------------------------------------------------------- FastSerializable.__init__: the lazy installation *)

  Lemma has_own_ref h cn a : fs_has_own h (ref cn) a = Ok (match h cn a with Some _ => true | None => false end).
  Proof. unfold fs_has_own, ref. rewrite pystr_eqb_refl. reflexivity. Qed.

  Lemma getattr_ref h cn a :
    fs_getattr h (ref cn) a = match cls_lookup h cn a with Some v => Ok v | None => Raise AttributeError end.
  Proof. unfold fs_getattr, ref. rewrite pystr_eqb_refl. reflexivity. Qed.

  Lemma super_init_ext call self l : py_super_call call xt self (s2p "FastSerializable") (s2p "__init__") l = Ok PNone.
  Proof. reflexivity. Qed.

  Theorem src_init_eq : forall fuel d call h cn c a args kwargs,
      env_ok = true -> fits_env d = true -> heap_inv h -> find_tclass e cn = Some c ->
      (h cn a_serialize = None -> create_serializer e fuel cn <> Raise Unmodelled /\ create_serializer e fuel cn <> Raise OutOfFuel) ->
      match h cn a_serialize with
      | Some _ => src_FastSerializable__init fuel d call xt h (PStruct cn a) args kwargs = Ok (h, PNone)
      | None =>
          match create_serializer e fuel cn with
          | Ok _ => exists h1, heap_inv h1 /\
                      src_FastSerializable__init fuel d call xt h (PStruct cn a) args kwargs =
                      Ok (final_heap other_obj h1 cn c (PBool false) false, PNone)
          | Raise x => src_FastSerializable__init fuel d call xt h (PStruct cn a) args kwargs = Raise x
          end
      end.
  Proof.
    intros fuel d call h cn c a args kwargs Henv Hfit Hi Hf Hm. pose proof (proj1 Hi) as Hb.
    unfold src_FastSerializable__init. cbn [fld_class_of bind].
    change (s2p "serialize") with a_serialize. change (s2p "FastSerializable") with FS.
    rewrite has_own_ref.
    destruct (proj2 Hi cn c Hf) as [Hnone|(Hsome & _ & _)].
    - rewrite Hnone. cbn [py_not py_or bind negb]. destruct (Hm Hnone) as [Hu Ho].
      pose proof (src_create_eq fuel d call h cn c false false Henv Hfit Hi Hf Hu Ho) as HC.
      destruct (create_serializer e fuel cn) as [[]|x].
      + destruct HC as (h1 & Hi1 & HC). exists h1. split; [exact Hi1|]. rewrite HC. cbn [bind].
        rewrite super_init_ext. reflexivity.
      + rewrite HC. reflexivity.
    - rewrite Hsome. cbn [py_not py_or bind negb].
      rewrite (getattr_ref h cn a_serialize).
      rewrite (lookup_serialize Henv h cn c Hb Hf), Hsome, (fs_ser Henv h Hb). cbn [bind].
      rewrite is_installed_not_fs. cbn [bind]. rewrite super_init_ext. reflexivity.
  Qed.

  (* FastSerializable.serialize itself: the class asks for a serializer *)
  Theorem src_fs_serialize_eq : forall call h cn c a,
      env_ok = true -> heap_base h -> find_tclass e cn = Some c ->
      src_FastSerializable__serialize call xt h (PStruct cn a) = Raise NotImplementedError.
  Proof.
    intros call h cn c a Henv Hb Hf. unfold src_FastSerializable__serialize. cbn [fld_class_of bind].
    rewrite getattr_ref.
    rewrite (proj2 (lookup_plain Henv h cn c (s2p "__name__") Hb Hf eq_refl eq_refl eq_refl)), (heap0_env Henv cn c _ Hf).
    reflexivity.
  Qed.

  (* ---------------------------------------------------------------- the hypothesis of the serializer theorems is satisfiable *)

  (* every FastSerializable class of the environment with its default serializer installed *)
  Definition fast_heap1 : heap :=
    fun o a =>
      if pystr_eqb a a_serialize then
        match find_tclass e o with
        | Some c => if t_fast c then Some (serc o c (PBool false)) else None
        | None => heap0 o a
        end
      else heap0 o a.

  Lemma heap1_installed : env_ok = true -> heap_installed fast_heap1.
  Proof.
    intro Henv. split; [split|].
    - intros o a H1 _. unfold fast_heap1. rewrite H1. reflexivity.
    - intros o a Ho. unfold fast_heap1. rewrite Ho. destruct (pystr_eqb a a_serialize); reflexivity.
    - intros cn c Hf Hfast. unfold fast_heap1. rewrite pystr_eqb_refl, Hf, Hfast. reflexivity.
  Qed.
End Bridge.

(* ------------------------------------------------------------------ the theorems, for re-export (Props/C10.v)

   src_create_eq        create_serializer(cls, compact, serialize_none) of the source = create_serializer of the model:
                        the same exception class, and on success the heap [final_heap]: the class holds
                        [installed cn c sn compact] (per field [getter_py]: the raw getter for Number / String / Boolean
                        fields, the serializing getter for the others, under the mapped key) and
                        _created_fast_serializer = True ([final_heap_cells])
   src_create_fresh     the same from the heap in which nothing is created yet ([fast_heap0])
   src_serializer_eq    calling the installed serializer on an instance = fast_ser ... compact:=false, with 2n units of
                        dispatcher fuel for n class levels of the model
   src_compact_eq       calling the compact wrapper = fast_ser ... compact:=true (2n + 1 units)
   src_init_eq          FastSerializable.__init__: nothing when the class has a serializer of its own, else
                        create_serializer(cls) with the default flags, then the next __init__
   src_fs_serialize_eq  FastSerializable.serialize raises NotImplementedError
   heap0_inv / heap1_installed   the heaps the theorems speak about exist

   Side conditions (booleans; satisfied by env_fx below):
     env_ok      no class of the environment is named like a class of the package or FastSerializable; LPrim is one
                 of Number/Integer/Float/String/Boolean/NoneField; the object of an unmodelled field satisfies
                 other_ok_fast; defaults are plain data; field names are distinct; MAPPED KEYS ARE DISTINCT (keys_of);
                 a FastSerializable class refers directly only to FastSerializable classes of the environment
                 (what create_serializer checks)
     fits_env d  the depth fuel of _verify_is_fast_serializable exceeds the nesting of Array in every declaration
     insts_ok    instances are instances of classes of the environment and carry no attribute named
                 _additional_serialization
   and "the model predicts": the model's result is not Raise Unmodelled (nor, for create_serializer, OutOfFuel: the
   source does not re-create a serializer that exists, so it needs less fuel than the model). *)

(* ------------------------------------------------------------------ the side conditions are satisfiable *)

Lemma other_cat_fast : forall id b, other_ok_fast b (other_cat id b) = true /\ quiet 3 (other_cat id b) = true.
Proof.
  intros id b. unfold other_cat.
  destruct b, (N.eqb id 12), (N.eqb id 13), (N.eqb id 14), (N.eqb id 16), (N.eqb id 17); vm_compute; split; reflexivity.
Qed.

Definition mkfc (n : string) (fs : list tfd) (m : mapper) (fast : bool) : tclass :=
  {| t_name := s2p n; t_fields := fs; t_required := []; t_additional := true; t_ignore_none := false;
     t_mapper := m; t_fast := fast |}.

Definition env_fx : tenv :=
  [ mkfc "In" [mkf "a" t_int; mkf "d" (TLeaf (LSer 3 true))] MapCamel true;
    mkfc "NF" [mkf "a" t_int] MapNone false;
    mkfc "K" [ mkf "i_x" t_int; mkf "r" (TRef (s2p "In")); mkf "ar" (TArray (TArray (TRef (s2p "In"))));
               mkf "o" (TOpt false (TLeaf t_color)); mkf "s" (TSet (TRef (s2p "NF"))); mkf "n" (TLeaf (LPrim FNone));
               mkf "m" (TOther 16 false); mkf "u" (TUnion [t_str; LPrim FNone]) ]
        (MapDict [(s2p "i_x", MStr (s2p "k0"))]) true;
    mkfc "One" [mkf "only" t_int] MapUpper true;
    mkfc "B1" [mkf "x" (TArray (TRef (s2p "NF")))] MapNone false;
    mkfc "B2" [mkf "x" (TOther 15 true)] MapNone true;
    mkfc "B3" [mkf "x" (TUnion [t_str; t_color])] MapNone true;
    mkfc "B4" [mkf "a" t_int] (MapDict [(s2p "a", MFun)]) true ].

Definition no_oracle (_ : N) (_ : pyval) : res pyval := Raise Unmodelled.
Definition ext_fx : extern := fast_ext other_cat no_oracle no_oracle env_fx (fun _ => PNone).
Definition no_call : callfn := fun _ _ => Raise Unmodelled.
Definition names_fx : list string := ["In"; "NF"; "K"; "One"; "B1"; "B2"; "B3"; "B4"]%string.
Definition inst_in (z : Z) : pyval := PStruct (s2p "In") [(s2p "a", PNum (NInt z))].
Definition inst_k : pyval :=
  PStruct (s2p "K") [(s2p "i_x", PNum (NInt 3)); (s2p "r", inst_in 1); (s2p "ar", PList [PList [inst_in 2]]);
                     (s2p "o", PEnum (s2p "Color") (s2p "RED") (PNum (NInt 1)))].
Definition created (h : heap) (cn : string) (compact sn : bool) : heap :=
  match src_create_serializer 4 4 no_call ext_fx h (ref (s2p cn)) (PBool compact) (PBool sn) PNone with
  | Ok (h', _) => h'
  | Raise _ => h
  end.

Definition cls_fx (n : string) : tclass :=
  match find_tclass env_fx (s2p n) with Some c => c | None => mkfc "" [] MapNone false end.
Definition inst_one : pyval := PStruct (s2p "One") [(s2p "only", PNum (NInt 7))].

(* every hypothesis holds of this environment; the two sides compute to the same outcomes: created, TypeError (a class
   reference without the mix-in, OneOf, a two-type AnyOf), ValueError (a FunctionCall mapper); the class holds the
   serializer the theorems describe, the referenced class its default one; the installed serializers, applied through
   the dispatcher, return the model's documents (a nested document; the bare value under compact) *)
Example C10_fast_src_nonvacuous :
  env_ok other_cat env_fx = true /\ fits_env other_cat env_fx 4 = true /\
  insts_ok env_fx inst_k = true /\ insts_ok env_fx inst_one = true /\
  map (fun cn => match src_create_serializer 4 4 no_call ext_fx (fast_heap0 other_cat env_fx) (ref (s2p cn))
                                             (PBool false) (PBool false) PNone with
                 | Ok _ => Ok tt | Raise x => Raise x end) names_fx =
  [Ok tt; Ok tt; Ok tt; Ok tt; Raise TypeError; Raise TypeError; Raise TypeError; Raise ValueError] /\
  map (fun cn => create_serializer env_fx 4 (s2p cn)) names_fx =
  [Ok tt; Ok tt; Ok tt; Ok tt; Raise TypeError; Raise TypeError; Raise TypeError; Raise ValueError] /\
  created (fast_heap0 other_cat env_fx) "K" true true (s2p "K") a_serialize =
    Some (installed other_cat (s2p "K") (cls_fx "K") (PBool true) true) /\
  created (fast_heap0 other_cat env_fx) "K" true true (s2p "In") a_serialize =
    Some (installed other_cat (s2p "In") (cls_fx "In") (PBool false) false) /\
  created (fast_heap0 other_cat env_fx) "K" true true (s2p "K") a_created = Some (PBool true) /\
  src_apply 6 ext_fx (fast_heap1 other_cat env_fx) (ser_closure other_cat (s2p "K") (cls_fx "K") (PBool false)) [inst_k] =
  fast_ser no_oracle no_oracle env_fx 3 false false (s2p "K") inst_k /\
  fast_ser no_oracle no_oracle env_fx 3 false false (s2p "K") inst_k =
  Ok (PDict [(PStr (s2p "k0"), PNum (NInt 3)); (PStr (s2p "r"), PDict [(PStr (s2p "a"), PNum (NInt 1))]);
             (PStr (s2p "ar"), PList [PList [PDict [(PStr (s2p "a"), PNum (NInt 2))]]]); (PStr (s2p "o"), PStr (s2p "RED"))]) /\
  src_apply 3 ext_fx (fast_heap1 other_cat env_fx)
            (compact_closure (ser_closure other_cat (s2p "One") (cls_fx "One") (PBool false))) [inst_one] =
  fast_ser no_oracle no_oracle env_fx 1 false true (s2p "One") inst_one /\
  fast_ser no_oracle no_oracle env_fx 1 false true (s2p "One") inst_one = Ok (PNum (NInt 7)).
Proof. vm_compute. repeat split; reflexivity. Qed.

(* ------------------------------------------------------------------ where source and hand model part

   TWO FIELDS MAPPED TO THE SAME KEY (_serialization_mapper = {"a": "x", "b": "x"}).  create_serializer keeps its
   getters in a dict keyed by the mapped key, so the getter of the later field REPLACES the one of the earlier field:
   the earlier field is never read.  The hand model (fast_fields) evaluates every field and lets the later value
   override the earlier one in the document.  With a = "s" and b absent: the model says {"x": "s"} (b is None and is
   dropped, a stays), the source says {} (only b's getter exists, its None is dropped) -- and {} is what typedpy
   returns.  This is why the theorems ask for distinct mapped keys (class_ok / keys_of). *)
Definition env_dup : tenv :=
  [ mkfc "D" [mkf "a" (TLeaf t_str); mkf "b" t_int] (MapDict [(s2p "a", MStr (s2p "x")); (s2p "b", MStr (s2p "x"))]) true ].
Definition inst_dup : pyval := PStruct (s2p "D") [(s2p "a", PStr (s2p "s"))].
Definition ext_dup : extern := fast_ext other_cat no_oracle no_oracle env_dup (fun _ => PNone).

Example C10_fast_src_duplicate_keys_witness :
  env_ok other_cat env_dup = false /\
  create_serializer env_dup 3 (s2p "D") = Ok tt /\
  fast_ser no_oracle no_oracle env_dup 3 false false (s2p "D") inst_dup = Ok (PDict [(PStr (s2p "x"), PStr (s2p "s"))]) /\
  match src_create_serializer 3 3 no_call ext_dup (fast_heap0 other_cat env_dup) (ref (s2p "D")) (PBool false) (PBool false) PNone with
  | Ok (h, _) => match h (s2p "D") a_serialize with
                 | Some f => src_apply 6 ext_dup h f [inst_dup]
                 | None => Raise Unmodelled
                 end
  | Raise x => Raise x
  end = Ok (PDict []).
Proof. vm_compute. repeat split; reflexivity. Qed.

Print Assumptions src_create_eq.
Print Assumptions src_create_fresh.
Print Assumptions final_heap_cells.
Print Assumptions src_serializer_eq.
Print Assumptions src_compact_eq.
Print Assumptions src_init_eq.
Print Assumptions src_fs_serialize_eq.
Print Assumptions heap0_inv.
Print Assumptions heap1_installed.
Print Assumptions create_mono.
Print Assumptions other_cat_fast.
Print Assumptions C10_fast_src_nonvacuous.
Print Assumptions C10_fast_src_duplicate_keys_witness.
