(* The tie between the GENERATED translation of typedpy/serialization/fast_serialization.py (Gen/FastSrc.v: what
   FastSerializable.__init__, _get_value, _verify_is_fast_serializable, _get_serialize, create_serializer,
   set_compact_wrapper and the inner functions they define say NOW) and the hand-written model of Ser/Fast.v on
   which the C10 theorems are proved (create_serializer: the failure conditions; fast_ser: the installed serializer).

   Every theorem is about EVERY class environment, class, instance, fuel.  How a model-level class description is
   seen as Python-level objects is fixed in the first part of this file:
     - a Structure class is the reference [ref name]; its own attributes are in the heap ([fast_heap0]: __mro__,
       get_all_fields_by_name(), __name__; a FastSerializable class has FastSerializable in its __mro__);
     - a field is an instance [PStruct <real class name> <attributes>] ([ftf_py]); the object of a DECLARED field
       also carries _name and the name of the class that owns it ([fd_py]; Python objects have an identity);
     - the functions the file builds are data: [getter_py] (per field: _get_value.wrapped for Number / String /
       Boolean fields, _get_serialize.wrapped for the others), [ser_closure] (create_serializer.serializer with its
       items), [compact_closure] (set_compact_wrapper.wrapper);
     - the code outside the file is [fast_ext]: aggregate_serialization_mappers(cls) is the mapping the model's
       own_key describes, Field.__get__ is getattr_m, <field>.serialize is the model's fast_val (ClassReference.
       serialize calling the serializer installed on the referenced class), Structure._additional_serialization
       returns {}, first_in the first element. *)
From Coq Require Import ZArith QArith NArith String Ascii Bool Lia List.
Import ListNotations.
From TP Require Import Base.PyVal Base.PyOps Base.PyOps2 Base.PyObj Base.PyOpsFields Base.PyOpsFast
     Fields.FieldAst Ser.Trusted Ser.Fast Gen.FastSrc Ser.TrustedSrcProofs.
From TP Require Base.PyOpsSchema.
Local Open Scope Z_scope.

Notation ftbl := fast_class_table.

(* ------------------------------------------------------------------ how a declaration is seen as Python objects *)

Definition FS : pystr := s2p "FastSerializable".
Definition ST : pystr := s2p "Structure".
Definition a_serialize : pystr := s2p "serialize".
Definition a_created : pystr := s2p "_created_fast_serializer".
Definition a_fields : pystr := s2p "get_all_fields_by_name()".
Definition a_owner : pystr := s2p "<owner>".
Definition a_name : pystr := s2p "_name".

Definition fs_serialize_fn : pyval := fn_val (s2p "FastSerializable.serialize") [].
Definition st_additional_fn : pyval := fn_val (s2p "Structure._additional_serialization") [].

Definition with_attrs (o : pyval) (extra : list (pystr * pyval)) : pyval :=
  match o with PStruct c a => PStruct c (extra ++ a) | _ => o end.

(* which getter create_serializer builds for a field *)
Inductive getter_kind := GRaw | GSer.
Definition getter_of (tf : tfield) : getter_kind :=
  match tf with
  | TLeaf (LPrim FNone) => GSer
  | TLeaf (LPrim _) | TLeaf (LSer _ true) => GRaw
  | _ => GSer
  end.

(* the mapped key of a field in aggregate_serialization_mappers(cls) *)
Definition key_py (m : mapper) (k : pystr) : pyval :=
  match m with
  | MapDict kv => match alist_get kv k with
                  | Some MFun => mval_py MFun
                  | Some MObj => mval_py MObj
                  | _ => PStr (own_key m k)
                  end
  | _ => PStr (own_key m k)
  end.

Section Embedding.
  Variable other_obj : N -> bool -> pyval.

  Fixpoint ftf_py (tf : tfield) : pyval :=
    match tf with
    | TLeaf l => leaf_py l
    | TArray i => PStruct (s2p "Array") [(s2p "items", ftf_py i)]
    | TSet i => PStruct (s2p "Set") [(s2p "items", ftf_py i)]
    | TRef c => PStruct (s2p "ClassReference") [(s2p "_ty", ref c)]
    | TOpt nf f => anyof_py (if nf then [none_py; ftf_py f] else [ftf_py f; none_py]) true
    | TUnion ls => anyof_py (map leaf_py ls) (existsb is_none_leaf ls)
    | TOther id b => other_obj id b
    end.

  Definition fd_extra (cn : pystr) (fd : tfd) : list (pystr * pyval) :=
    [(a_name, PStr (f_name fd)); (a_owner, PStr cn)].
  Definition fd_py (cn : pystr) (fd : tfd) : pyval := with_attrs (ftf_py (f_ty fd)) (fd_extra cn fd).

  Definition ffields_py (cn : pystr) (fs : list tfd) : pyval :=
    PDict (map (fun fd => (PStr (f_name fd), fd_py cn fd)) fs).

  Definition mro_py (cn : pystr) (c : tclass) : pyval :=
    PList ([ref cn; ref ST] ++ if t_fast c then [ref FS] else []).

  (* the classes before any serializer is created *)
  Definition fast_heap0 (e : tenv) : heap :=
    fun o a =>
      if pystr_eqb o FS then (if pystr_eqb a a_serialize then Some fs_serialize_fn else None)
      else if pystr_eqb o ST then (if pystr_eqb a (s2p "_additional_serialization") then Some st_additional_fn else None)
      else match find_tclass e o with
           | Some c =>
               if pystr_eqb a a_fields then Some (ffields_py o (t_fields c))
               else if pystr_eqb a mro_attr then Some (mro_py o c)
               else if pystr_eqb a (s2p "__name__") then Some (PStr o)
               else None
           | None => None
           end.

  (* the functions the file builds, as data *)
  Definition obj_py (cn : pystr) (fd : tfd) : pyval :=
    match f_ty fd with TRef c' => ref c' | _ => fd_py cn fd end.

  Definition getter_py (cn : pystr) (fd : tfd) : pyval :=
    match getter_of (f_ty fd) with
    | GRaw => fn_val (s2p "_get_value.wrapped") [(s2p "field", fd_py cn fd); (s2p "owner", ref cn)]
    | GSer => fn_val (s2p "_get_serialize.wrapped")
                     [(s2p "field", fd_py cn fd); (s2p "obj", obj_py cn fd); (s2p "owner", ref cn)]
    end.

  Definition getters (cn : pystr) (m : mapper) (fs : list tfd) : list (pystr * pyval) :=
    map (fun fd => (own_key m (f_name fd), getter_py cn fd)) fs.

  Definition items_val (kv : list (pystr * pyval)) : pyval :=
    PList (map (fun p => PTuple [fst p; snd p]) (kv_py kv)).

  Definition ser_closure (cn : pystr) (c : tclass) (sn : pyval) : pyval :=
    fn_val (s2p "create_serializer.serializer")
           [(s2p "has_additional_properties", PBool true);
            (s2p "items", items_val (getters cn (t_mapper c) (t_fields c)));
            (s2p "serialize_none", sn);
            (s2p "with_undefined", PBool false)].

  Definition compact_closure (f : pyval) : pyval := fn_val (s2p "set_compact_wrapper.wrapper") [(s2p "func", f)].

  Definition installed (cn : pystr) (c : tclass) (sn : pyval) (compact : bool) : pyval :=
    if compact then compact_closure (ser_closure cn c sn) else ser_closure cn c sn.

  (* the heap create_serializer(cls, compact, serialize_none) leaves, from the heap [h1] in which the serializers of
     the referenced classes have been created *)
  Definition final_heap (h1 : heap) (cn : pystr) (c : tclass) (sn : pyval) (compact : bool) : heap :=
    let hs := heap_set h1 cn a_serialize (ser_closure cn c sn) in
    heap_set (if compact then heap_set hs cn a_serialize (compact_closure (ser_closure cn c sn)) else hs)
             cn a_created (PBool true).

  (* ---------------------------------------------------------------- the code outside the file *)
  Variable sser ofast : N -> pyval -> res pyval.
  Variable e : tenv.
  Variable agg_chain : tclass -> pyval.      (* what aggregate_serialization_mappers returns for a chain of mappers *)

  Definition agg_py (c : tclass) : pyval :=
    match t_mapper c with
    | MapList => agg_chain c
    | m => PDict (map (fun fd => (PStr (f_name fd), key_py m (f_name fd))) (t_fields c))
    end.

  (* ClassReference.serialize: getattr(self._ty, "serialize", None)(value), every FastSerializable class having its
     serializer (default flags) installed *)
  Definition class_ser (call : callfn) (c' : pystr) (x : pyval) : res pyval :=
    match find_tclass e c' with
    | Some cd => if t_fast cd then call (ser_closure c' cd (PBool false)) [x] else Raise TypeError
    | None => Raise Unmodelled
    end.

  Definition decl_of (attrs : list (pystr * pyval)) : option (tclass * tfd) :=
    match attrs with
    | (n1, PStr k) :: (n2, PStr cn) :: _ =>
        if pystr_eqb n1 a_name && pystr_eqb n2 a_owner then
          match find_tclass e cn with
          | Some c => match find_tfd (t_fields c) k with Some fd => Some (c, fd) | None => None end
          | None => None
          end
        else None
    | _ => None
    end.

  Definition ext_fn (name : pystr) (args : list pyval) : res pyval :=
    if pystr_eqb name (s2p "aggregate_serialization_mappers") then
      match args with
      | [POther t cn] => if pystr_eqb t ref_tag then
                           match find_tclass e cn with Some c => Ok (agg_py c) | None => Raise Unmodelled end
                         else Raise Unmodelled
      | _ => Raise Unmodelled
      end
    else if pystr_eqb name (s2p "first_in") then
      match args with
      | [PList (x :: _)] => Ok x
      | [PList []] => Ok PNone
      | _ => Raise Unmodelled
      end
    else Raise Unmodelled.

  Definition ext_meth (call : callfn) (o : pyval) (m : pystr) (args : list pyval) : res pyval :=
    if pystr_eqb m (s2p "__get__") then
      match o, args with
      | PStruct _ ((n1, PStr k) :: _), [PStruct _ a; POther t cn] =>
          (* the attribute, else the default the field of the owner class declares *)
          if pystr_eqb n1 a_name && pystr_eqb t ref_tag then
            match find_tclass e cn with Some c => Ok (getattr_m c a k) | None => Raise Unmodelled end
          else Raise Unmodelled
      | _, _ => Raise Unmodelled
      end
    else if pystr_eqb m a_serialize then
      match o, args with
      | PStruct _ attrs, [x] =>
          match decl_of attrs with
          | Some (_, fd) => fast_val sser ofast e (class_ser call) (f_ty fd) x
          | None => Raise Unmodelled
          end
      | _, _ => Raise Unmodelled
      end
    else if pystr_eqb m (s2p "__call__") then
      (* Structure._additional_serialization(self): the base implementation returns {} *)
      match o, args with
      | PStruct c [], [PStruct _ _] =>
          if pystr_eqb c (fn_prefix ++ s2p "Structure._additional_serialization") then Ok (PDict []) else Raise Unmodelled
      | _, _ => Raise Unmodelled
      end
    else if pystr_eqb m (s2p "super:FastSerializable.__init__") then Ok PNone
    else Raise Unmodelled.

  Definition fast_ext : extern := {| x_fn := ext_fn; x_meth := ext_meth |}.
End Embedding.

(* ------------------------------------------------------------------ small facts *)

(* closed comparisons of names are computed *)
Ltac str_eval :=
  repeat match goal with
  | |- context [pystr_eqb (s2p ?x) (s2p ?y)] =>
      let v := eval vm_compute in (pystr_eqb (s2p x) (s2p y)) in
      replace (pystr_eqb (s2p x) (s2p y)) with v by (vm_compute; reflexivity)
  | |- context [str_prefix fn_prefix (s2p ?x)] =>
      let v := eval vm_compute in (str_prefix fn_prefix (s2p x)) in
      replace (str_prefix fn_prefix (s2p x)) with v by (vm_compute; reflexivity)
  end.

Ltac eval_fcls :=
  repeat match goal with
  | |- context [class_known ftbl (s2p ?x)] =>
      let v := eval vm_compute in (class_known ftbl (s2p x)) in
      replace (class_known ftbl (s2p x)) with v by (vm_compute; reflexivity)
  | |- context [class_in ftbl (s2p ?x) ?ks] =>
      let v := eval vm_compute in (class_in ftbl (s2p x) ks) in
      replace (class_in ftbl (s2p x) ks) with v by (vm_compute; reflexivity)
  end.

Lemma alist_get_app {A} (a b : list (pystr * A)) k :
  alist_get (a ++ b) k = match alist_get a k with Some v => Some v | None => alist_get b k end.
Proof.
  induction a as [|[k' v'] t IH]; [reflexivity|]. cbn [app alist_get]. destruct (pystr_eqb k' k); [reflexivity|exact IH].
Qed.

Lemma find_tclass_name (e : tenv) cn c : find_tclass e cn = Some c -> t_name c = cn.
Proof.
  induction e as [|c0 t IH]; [discriminate|]. cbn [find_tclass].
  destruct (pystr_eqb (t_name c0) cn) eqn:E; [|exact IH].
  intro H. inversion H; subst. apply pystr_eqb_spec. exact E.
Qed.

Lemma fsinst_struct c a ks :
  fs_isinstance ftbl (PStruct c a) ks =
  if str_prefix fn_prefix c then Ok false
  else if class_known ftbl c then Ok (class_in ftbl c ks) else Raise Unmodelled.
Proof. reflexivity. Qed.

Lemma fsinst_ref n ks : fs_isinstance ftbl (ref n) ks = Ok false.
Proof. reflexivity. Qed.

(* ------------------------------------------------------------------ the classes of the embedded objects *)

Definition k_raw : list pystr := [s2p "Number"; s2p "String"; s2p "Boolean"].
Definition k_fieldish : list pystr := [s2p "Field"; s2p "ClassReference"].

Lemma leaf_facts_fast l :
  leaf_wf l = true ->
  str_prefix fn_prefix (leaf_cls l) = false /\ class_known ftbl (leaf_cls l) = true /\
  class_in ftbl (leaf_cls l) k_raw = (match getter_of (TLeaf l) with GRaw => true | GSer => false end) /\
  class_in ftbl (leaf_cls l) [s2p "Constant"] = false /\
  class_in ftbl (leaf_cls l) [s2p "ClassReference"] = false /\
  class_in ftbl (leaf_cls l) [s2p "Array"] = false /\
  class_in ftbl (leaf_cls l) [s2p "OneOf"] = false /\
  class_in ftbl (leaf_cls l) [s2p "AnyOf"] = false /\
  class_in ftbl (leaf_cls l) [s2p "NoneField"] = is_none_leaf l.
Proof.
  destruct l as [f|cls ms byv|vals|id isn]; cbn [leaf_wf leaf_cls getter_of is_none_leaf]; intro H.
  - destruct f as [k s c| | | | | | | | | | | | | | | | | |]; try discriminate H;
      [destruct k, s|..]; vm_compute; repeat split.
  - vm_compute; repeat split.
  - vm_compute; repeat split.
  - unfold ser_cls. destruct isn, (N.eqb id 1), (N.eqb id 2); vm_compute; repeat split.
Qed.

(* the attributes a leaf object carries: none of the method names the file calls *)
Lemma leaf_attrs_none l a :
  (a = s2p "__get__" \/ a = a_serialize \/ a = s2p "items" \/ a = s2p "_ty") -> alist_get (leaf_attrs l) a = None.
Proof.
  intros [H|[H|[H|H]]]; subst; destruct l as [f|cls ms byv|vals|id isn]; reflexivity.
Qed.

(* what is needed of the object that stands for an unmodelled field #id (Map, Tuple, Anything, Array without items,
   OneOf, ...): an instance of a class of the package that is not a Number / String / Boolean, not a Constant, not
   a ClassReference, not an AnyOf, a OneOf exactly when the model says so, that carries no callable named __get__ /
   serialize, and on which _verify_is_fast_serializable finds nothing to do within [n] levels of items ([quiet]) *)
Fixpoint quiet (n : nat) (o : pyval) : bool :=
  match n with
  | O => false
  | S m =>
      match o with
      | PStruct c attrs =>
          negb (str_prefix fn_prefix c) && class_known ftbl c && negb (class_in ftbl c [s2p "ClassReference"]) &&
          (if class_in ftbl c [s2p "Array"] then
             match alist_get attrs (s2p "items") with
             | Some it => match fs_isinstance ftbl it k_fieldish with
                          | Ok true => quiet m it
                          | Ok false => true
                          | Raise _ => false
                          end
             | None => false
             end
           else true)
      | _ => false
      end
  end.

Definition other_ok_fast (is_oneof : bool) (o : pyval) : bool :=
  match o with
  | PStruct c attrs =>
      negb (str_prefix fn_prefix c) && class_known ftbl c && negb (class_in ftbl c k_raw) &&
      negb (class_in ftbl c [s2p "Constant"]) && negb (class_in ftbl c [s2p "ClassReference"]) &&
      Bool.eqb (class_in ftbl c [s2p "OneOf"]) is_oneof && negb (class_in ftbl c [s2p "AnyOf"]) &&
      negb (alist_has attrs (s2p "__get__")) && negb (alist_has attrs a_serialize)
  | _ => false
  end.

(* an instance's own attributes shadow the methods of its class: the model (which reads an instance only through
   getattr) is about instances that carry no attribute named like the one method the serializer calls on them,
   and that are instances of classes of the environment *)
Definition inst_ok (a : list (pystr * pyval)) : bool :=
  negb (alist_has a (s2p "_additional_serialization")) && negb (alist_has a (s2p "_additional_serialization()")).

Fixpoint insts_ok (e : tenv) (v : pyval) : bool :=
  match v with
  | PList l | PTuple l | PDeque l | PSet _ l => forallb (insts_ok e) l
  | PDict kv => forallb (fun p => insts_ok e (fst p) && insts_ok e (snd p)) kv
  | PEnum _ _ x => insts_ok e x
  | PStruct nm attrs =>
      match find_tclass e nm with Some _ => true | None => false end &&
      inst_ok attrs && forallb (fun p => insts_ok e (snd p)) attrs
  | _ => true
  end.

Lemma mapM_guard {A B} (P : A -> bool) (f1 f2 : A -> res B) : forall l,
    (forall x, P x = true -> f2 x <> Raise Unmodelled -> f1 x = f2 x) ->
    forallb P l = true ->
    mapM f2 l <> Raise Unmodelled -> mapM f1 l = mapM f2 l.
Proof.
  induction l as [|x t IH]; intros Hf HP Hn; [reflexivity|]. cbn [mapM] in Hn |- *.
  cbn [forallb] in HP. apply andb_true_iff in HP as [HPx HPt].
  assert (Hx : f2 x <> Raise Unmodelled).
  { intro E. apply Hn. rewrite E. reflexivity. }
  rewrite (Hf x HPx Hx). destruct (f2 x) as [y|ex]; cbn [bind] in Hn |- *; [|reflexivity].
  rewrite IH; [reflexivity|exact Hf|exact HPt|]. intro E. apply Hn. rewrite E. reflexivity.
Qed.

Section Bridge.
  Variable other_obj : N -> bool -> pyval.
  Variable sser ofast : N -> pyval -> res pyval.
  Variable e : tenv.
  Variable agg_chain : tclass -> pyval.

  Notation tfpy := (ftf_py other_obj).
  Notation fdpy := (fd_py other_obj).
  Notation xt := (fast_ext other_obj sser ofast e agg_chain).
  Notation heap0 := (fast_heap0 other_obj e).
  Notation getter := (getter_py other_obj).
  Notation serc := (ser_closure other_obj).

  (* ---------------------------------------------------------------- side conditions (booleans) *)

  (* no class of the environment bears the name of a class of the package *)
  Definition env_names_ok : bool :=
    forallb (fun c => negb (class_known ftbl (t_name c)) && negb (pystr_eqb (t_name c) FS)) e.

  Definition shallow_wf (tf : tfield) : bool :=
    match tf with
    | TLeaf l => leaf_wf l
    | TOther id b => other_ok_fast b (other_obj id b)
    | TUnion ls => forallb leaf_wf ls
    | _ => true
    end.

  (* the class the model's fast_val is about: every fast class a field refers to DIRECTLY is in the environment
     and FastSerializable (create_serializer checks exactly this) *)
  Definition direct_refs_fast (c : tclass) : bool :=
    forallb (fun fd => match f_ty fd with TRef c' => class_is_fast e c' | _ => true end) (t_fields c).

  Definition keys_of (c : tclass) : list pystr := map (fun fd => own_key (t_mapper c) (f_name fd)) (t_fields c).

  Definition class_ok (c : tclass) : bool :=
    forallb (fun fd => shallow_wf (f_ty fd) && match f_default fd with Some d => insts_ok e d | None => true end)
            (t_fields c) &&
    nodupb (map f_name (t_fields c)) && nodupb (keys_of c).

  Definition env_ok : bool :=
    env_names_ok && forallb (fun c => class_ok c && (negb (t_fast c) || direct_refs_fast c)) e.

  (* ---------------------------------------------------------------- heaps *)

  Definition heap_base (h : heap) : Prop :=
    (forall o a, pystr_eqb a a_serialize = false -> pystr_eqb a a_created = false -> h o a = heap0 o a) /\
    (forall o a, find_tclass e o = None -> h o a = heap0 o a).

  (* every FastSerializable class of the environment has its serializer (default flags) installed *)
  Definition heap_installed (h : heap) : Prop :=
    heap_base h /\
    forall cn c, find_tclass e cn = Some c -> t_fast c = true -> h cn a_serialize = Some (serc cn c (PBool false)).

  Lemma names_ok_find c0 :
    env_names_ok = true -> (class_known ftbl c0 = true \/ c0 = FS) -> find_tclass e c0 = None.
  Proof.
    unfold env_names_ok. intros Hn Hk. induction e as [|c t IH]; [reflexivity|].
    cbn [forallb] in Hn. apply andb_true_iff in Hn as [H0 Ht]. apply andb_true_iff in H0 as [H1 H2].
    cbn [find_tclass]. destruct (pystr_eqb (t_name c) c0) eqn:E; [|exact (IH Ht)].
    apply pystr_eqb_spec in E. subst c0. destruct Hk as [Hk|Hk].
    - rewrite Hk in H1. discriminate H1.
    - rewrite Hk, pystr_eqb_refl in H2. discriminate H2.
  Qed.

  Lemma heap0_field_cls c0 a :
    env_names_ok = true -> class_known ftbl c0 = true ->
    pystr_eqb a (s2p "_additional_serialization") = false -> heap0 c0 a = None.
  Proof.
    intros Hn Hk Ha. unfold fast_heap0.
    destruct (pystr_eqb c0 FS) eqn:E1.
    { apply pystr_eqb_spec in E1. subst c0. vm_compute in Hk. discriminate Hk. }
    destruct (pystr_eqb c0 ST) eqn:E2; [rewrite Ha; reflexivity|].
    rewrite (names_ok_find c0 Hn (or_introl Hk)). reflexivity.
  Qed.

  Lemma field_cls_lookup h c0 a :
    heap_base h -> env_names_ok = true -> class_known ftbl c0 = true ->
    pystr_eqb a (s2p "_additional_serialization") = false -> cls_lookup h c0 a = None.
  Proof.
    intros [_ Hb] Hn Hk Ha. pose proof (names_ok_find c0 Hn (or_introl Hk)) as Hf.
    unfold cls_lookup, cls_mro. rewrite (Hb c0 mro_attr Hf), (heap0_field_cls c0 mro_attr Hn Hk eq_refl).
    cbn [mro_find]. rewrite (Hb c0 a Hf), (heap0_field_cls c0 a Hn Hk Ha). reflexivity.
  Qed.

  Lemma other_ok_split b o :
    other_ok_fast b o = true ->
    exists c0 attrs, o = PStruct c0 attrs /\ class_known ftbl c0 = true /\ str_prefix fn_prefix c0 = false /\
      class_in ftbl c0 k_raw = false /\ class_in ftbl c0 [s2p "Constant"] = false /\
      class_in ftbl c0 [s2p "ClassReference"] = false /\ class_in ftbl c0 [s2p "OneOf"] = b /\
      class_in ftbl c0 [s2p "AnyOf"] = false /\
      alist_get attrs (s2p "__get__") = None /\ alist_get attrs a_serialize = None.
  Proof.
    unfold other_ok_fast. destruct o as [| | | | | | | | | |c0 attrs|]; try discriminate. intro H.
    apply andb_true_iff in H as [H H9]. apply andb_true_iff in H as [H H8]. apply andb_true_iff in H as [H H7].
    apply andb_true_iff in H as [H H6]. apply andb_true_iff in H as [H H5]. apply andb_true_iff in H as [H H4].
    apply andb_true_iff in H as [H H3]. apply andb_true_iff in H as [H1 H2].
    apply negb_true_iff in H1, H3, H4, H5, H7, H8, H9. apply eqb_prop in H6.
    unfold alist_has in H8, H9.
    exists c0, attrs. repeat split; try assumption.
    - destruct (alist_get attrs (s2p "__get__")); [discriminate H8|reflexivity].
    - destruct (alist_get attrs a_serialize); [discriminate H9|reflexivity].
  Qed.

  (* the object of a field is an instance of a known class that carries neither __get__ nor serialize *)
  Lemma obj_struct tf :
    shallow_wf tf = true ->
    exists c0 attrs, tfpy tf = PStruct c0 attrs /\ class_known ftbl c0 = true /\ str_prefix fn_prefix c0 = false /\
                     alist_get attrs (s2p "__get__") = None /\ alist_get attrs a_serialize = None.
  Proof.
    destruct tf as [l|i|i|c'|nf f|ls|id b]; cbn [shallow_wf ftf_py]; intro H.
    - destruct (leaf_facts_fast l H) as (H1 & H2 & _). exists (leaf_cls l), (leaf_attrs l).
      repeat split; try assumption; apply leaf_attrs_none; auto.
    - eexists _, _. repeat split; vm_compute; reflexivity.
    - eexists _, _. repeat split; vm_compute; reflexivity.
    - eexists _, _. repeat split; vm_compute; reflexivity.
    - unfold anyof_py. eexists _, _. split; [reflexivity|]. repeat split; try (vm_compute; reflexivity).
    - unfold anyof_py. eexists _, _. split; [reflexivity|]. repeat split; try (vm_compute; reflexivity).
      + destruct (existsb is_none_leaf ls); reflexivity.
      + destruct (existsb is_none_leaf ls); reflexivity.
    - destruct (other_ok_split _ _ H) as (c0 & attrs & E & H1 & H2 & _ & _ & _ & _ & _ & H8 & H9).
      exists c0, attrs. repeat split; assumption.
  Qed.

  Lemma find_tfd_nodup : forall fs fd,
      nodupb (map f_name fs) = true -> In fd fs -> find_tfd fs (f_name fd) = Some fd.
  Proof.
    induction fs as [|f0 t IH]; intros fd Hn Hin; [contradiction|].
    cbn [map nodupb] in Hn. apply andb_true_iff in Hn as [H1 H2]. cbn [find_tfd].
    destruct Hin as [E|Hin].
    - subst. rewrite pystr_eqb_refl. reflexivity.
    - destruct (pystr_eqb (f_name f0) (f_name fd)) eqn:E; [|exact (IH fd H2 Hin)].
      apply pystr_eqb_spec in E. apply negb_true_iff in H1.
      assert (Hc : str_in (f_name f0) (map f_name t) = true).
      { apply str_in_In. rewrite E. apply in_map. exact Hin. }
      congruence.
  Qed.

  Lemma env_ok_find cn c :
    env_ok = true -> find_tclass e cn = Some c ->
    env_names_ok = true /\ class_ok c = true /\ (t_fast c = true -> direct_refs_fast c = true).
  Proof.
    unfold env_ok. intros H Hf. apply andb_true_iff in H as [Hn Ha]. split; [exact Hn|].
    clear Hn. induction e as [|c0 t IH]; [discriminate Hf|].
    cbn [forallb] in Ha. apply andb_true_iff in Ha as [H0 Ht]. cbn [find_tclass] in Hf.
    destruct (pystr_eqb (t_name c0) cn).
    - inversion Hf; subst. apply andb_true_iff in H0 as [H1 H2]. split; [exact H1|].
      intro Hfast. rewrite Hfast in H2. exact H2.
    - exact (IH Ht Hf).
  Qed.

  Definition fc_model (n : nat) : pystr -> pyval -> res pyval :=
    fun c' x => match find_tclass e c' with
                | Some cd => if t_fast cd then fast_ser sser ofast e n false false c' x else Raise TypeError
                | None => Raise Unmodelled
                end.

  (* what a call of the serializer installed on a referenced class returns *)
  Definition call_ok (n : nat) (call : callfn) : Prop :=
    forall c' cd x, find_tclass e c' = Some cd -> t_fast cd = true -> insts_ok e x = true ->
                    fast_ser sser ofast e n false false c' x <> Raise Unmodelled ->
                    call (serc c' cd (PBool false)) [x] = fast_ser sser ofast e n false false c' x.

  Lemma class_ser_fc n call :
    call_ok n call ->
    forall c' x, insts_ok e x = true -> fc_model n c' x <> Raise Unmodelled ->
                 class_ser other_obj e call c' x = fc_model n c' x.
  Proof.
    intros Hc c' x Hx Hn. unfold class_ser, fc_model in *.
    destruct (find_tclass e c') as [cd|] eqn:Hf; [|reflexivity].
    destruct (t_fast cd) eqn:Ht; [|reflexivity]. exact (Hc c' cd x Hf Ht Hx Hn).
  Qed.

  Lemma fast_val_guard fc1 fc2 :
    (forall c' x, insts_ok e x = true -> fc2 c' x <> Raise Unmodelled -> fc1 c' x = fc2 c' x) ->
    forall tf v, insts_ok e v = true -> fast_val sser ofast e fc2 tf v <> Raise Unmodelled ->
                 fast_val sser ofast e fc1 tf v = fast_val sser ofast e fc2 tf v.
  Proof.
    intro Hfc. induction tf as [l|item IH|item IH|c|nf f IH|ls|id o]; intros v Hv Hn; cbn [fast_val] in Hn |- *;
      try reflexivity.
    - destruct v; try reflexivity. cbn [insts_ok] in Hv.
      destruct item as [[f|cls ms byv|vals|id [|]]|i|i|c|nf f|ls|id o]; try reflexivity;
        (rewrite (mapM_guard (insts_ok e) _ _ l (fun x Hp Hx => IH x Hp Hx) Hv); [reflexivity|];
         intro E; apply Hn; rewrite E; reflexivity).
    - destruct v; try reflexivity. cbn [insts_ok] in Hv.
      destruct (match item with TRef c => if class_is_fast e c then Ok tt else Raise AttributeError | _ => Ok tt end)
        as [u|ex]; cbn [bind] in Hn |- *; [|reflexivity].
      rewrite (mapM_guard (insts_ok e) _ _ l (fun x Hp Hx => IH x Hp Hx) Hv); [reflexivity|].
      intro E. apply Hn. rewrite E. reflexivity.
    - exact (Hfc c v Hv Hn).
    - exact (IH v Hv Hn).
  Qed.

  Section Apply.
    Variable h : heap.
    Hypothesis Hh : heap_installed h.
    Hypothesis Henv : env_ok = true.

    (* field.__get__(self, owner) *)
    Lemma call_get call cn c nm a fd :
      find_tclass e cn = Some c -> shallow_wf (f_ty fd) = true ->
      py_call_method h call xt (fdpy cn fd) (s2p "__get__") [PStruct nm a; ref cn] = Ok (getattr_m c a (f_name fd)).
    Proof.
      intros Hf Hw. destruct (env_ok_find cn c Henv Hf) as (Hn & _ & _).
      destruct (obj_struct _ Hw) as (c0 & attrs & E & Hk & Hp & Hg & Hs).
      unfold fd_py. rewrite E. cbn [with_attrs]. unfold py_call_method.
      rewrite alist_get_app. unfold fd_extra at 1. cbn [alist_get]. unfold a_name, a_owner. str_eval. cbn iota.
      rewrite Hg. rewrite (field_cls_lookup h c0 (s2p "__get__") (proj1 Hh) Hn Hk eq_refl).
      cbn [x_meth fast_ext]. unfold ext_meth. str_eval. cbn iota. unfold fd_extra. cbn [app].
      unfold a_name, ref. str_eval. rewrite pystr_eqb_refl. cbn [andb]. cbn iota. rewrite Hf. reflexivity.
    Qed.
  
    Lemma env_cls_not_special cn c :
      find_tclass e cn = Some c -> pystr_eqb cn FS = false /\ pystr_eqb cn ST = false.
    Proof.
      intro Hf. destruct (env_ok_find cn c Henv Hf) as (Hn & _ & _). split.
      - destruct (pystr_eqb cn FS) eqn:E; [|reflexivity]. apply pystr_eqb_spec in E. subst.
        rewrite (names_ok_find FS Hn (or_intror eq_refl)) in Hf. discriminate Hf.
      - destruct (pystr_eqb cn ST) eqn:E; [|reflexivity]. apply pystr_eqb_spec in E. subst.
        rewrite (names_ok_find ST Hn (or_introl eq_refl)) in Hf. discriminate Hf.
    Qed.

    Lemma heap0_env cn c a :
      find_tclass e cn = Some c ->
      heap0 cn a = if pystr_eqb a a_fields then Some (ffields_py other_obj cn (t_fields c))
                   else if pystr_eqb a mro_attr then Some (mro_py cn c)
                   else if pystr_eqb a (s2p "__name__") then Some (PStr cn) else None.
    Proof.
      intro Hf. destruct (env_cls_not_special cn c Hf) as [H1 H2]. unfold fast_heap0. rewrite H1, H2, Hf. reflexivity.
    Qed.

    Lemma env_mro cn c :
      find_tclass e cn = Some c -> cls_mro h cn = [cn; ST] ++ if t_fast c then [FS] else [].
    Proof.
      intro Hf. unfold cls_mro. rewrite (proj1 (proj1 Hh) cn mro_attr eq_refl eq_refl), (heap0_env cn c mro_attr Hf).
      change (pystr_eqb mro_attr a_fields) with false. rewrite pystr_eqb_refl. unfold mro_py.
      destruct (t_fast c); reflexivity.
    Qed.

    (* C.serialize(val) for a FastSerializable class of the environment: the installed serializer is called *)
    Lemma call_ser_ref n call c' cd x :
      call_ok n call -> find_tclass e c' = Some cd -> t_fast cd = true -> insts_ok e x = true ->
      fast_ser sser ofast e n false false c' x <> Raise Unmodelled ->
      py_call_method h call xt (ref c') a_serialize [x] = fast_ser sser ofast e n false false c' x.
    Proof.
      intros Hc Hf Ht Hx Hn. unfold py_call_method, ref. rewrite pystr_eqb_refl.
      unfold cls_lookup. rewrite (env_mro c' cd Hf). cbn [app mro_find]. rewrite (proj2 Hh c' cd Hf Ht).
      exact (Hc c' cd x Hf Ht Hx Hn).
    Qed.

    Lemma decl_of_fd cn c fd rest :
      find_tclass e cn = Some c -> nodupb (map f_name (t_fields c)) = true -> In fd (t_fields c) ->
      decl_of e (fd_extra cn fd ++ rest) = Some (c, fd).
    Proof.
      intros Hf Hn Hin. unfold decl_of, fd_extra. cbn [app]. rewrite !pystr_eqb_refl. cbn [andb].
      rewrite Hf, (find_tfd_nodup _ fd Hn Hin). reflexivity.
    Qed.

    (* field.serialize(val) for the object of a declared field that is not a class reference *)
    Lemma call_ser_field n call cn c fd x :
      call_ok n call -> find_tclass e cn = Some c -> In fd (t_fields c) -> shallow_wf (f_ty fd) = true ->
      insts_ok e x = true ->
      fast_val sser ofast e (fc_model n) (f_ty fd) x <> Raise Unmodelled ->
      py_call_method h call xt (fdpy cn fd) a_serialize [x] = fast_val sser ofast e (fc_model n) (f_ty fd) x.
    Proof.
      intros Hc Hf Hin Hw Hx Hn. destruct (env_ok_find cn c Henv Hf) as (Hnm & Hok & _).
      unfold class_ok in Hok. apply andb_true_iff in Hok as [Hok _]. apply andb_true_iff in Hok as [_ Hnd].
      destruct (obj_struct _ Hw) as (c0 & attrs & E & Hk & Hp & Hg & Hs).
      unfold fd_py. rewrite E. cbn [with_attrs]. unfold py_call_method.
      rewrite alist_get_app. unfold fd_extra at 1. cbn [alist_get]. unfold a_name, a_owner, a_serialize. str_eval. cbn iota.
      fold a_serialize. rewrite Hs. rewrite (field_cls_lookup h c0 a_serialize (proj1 Hh) Hnm Hk eq_refl).
      cbn [x_meth fast_ext]. unfold ext_meth. unfold a_serialize. str_eval. cbn iota.
      rewrite (decl_of_fd cn c fd attrs Hf Hnd Hin).
      apply fast_val_guard; [|exact Hx|exact Hn]. exact (class_ser_fc n call Hc).
    Qed.

    Lemma getattr_ok cn c a k :
      find_tclass e cn = Some c -> forallb (fun p => insts_ok e (snd p)) a = true ->
      insts_ok e (getattr_m c a k) = true.
    Proof.
      intros Hf Ha. destruct (env_ok_find cn c Henv Hf) as (_ & Hok & _).
      unfold class_ok in Hok. apply andb_true_iff in Hok as [Hok _]. apply andb_true_iff in Hok as [Hok _].
      unfold getattr_m. destruct (alist_get a k) as [v|] eqn:E.
      - clear - Ha E. induction a as [|[k' v'] t IH]; [discriminate E|].
        cbn [forallb snd] in Ha. apply andb_true_iff in Ha as [H1 H2]. cbn [alist_get] in E.
        destruct (pystr_eqb k' k); [inversion E; subst; exact H1|exact (IH H2 E)].
      - destruct (find_tfd (t_fields c) k) as [fd|] eqn:E2; [|reflexivity].
        assert (Hin : In fd (t_fields c)).
        { clear - E2. induction (t_fields c) as [|f0 t IH]; [discriminate E2|]. cbn [find_tfd] in E2.
          destruct (pystr_eqb (f_name f0) k); [inversion E2; left; reflexivity|right; exact (IH E2)]. }
        rewrite forallb_forall in Hok. specialize (Hok fd Hin). apply andb_true_iff in Hok as [_ Hok].
        destruct (f_default fd); [exact Hok|reflexivity].
    Qed.

    (* ---------------------------------------------------------------- the getters *)

    (* what the model's fast_fields computes for one field *)
    Definition field_value (n : nat) (c : tclass) (a : list (pystr * pyval)) (fd : tfd) : res pyval :=
      let x := getattr_m c a (f_name fd) in
      if is_none x then Ok PNone
      else match f_ty fd with
           | TLeaf (LSer _ true) => Ok x
           | tf => fast_val sser ofast e (fc_model n) tf x
           end.

    Lemma getter_body n call cn c nm a fd :
      call_ok n call -> find_tclass e cn = Some c -> t_fast c = true -> In fd (t_fields c) ->
      forallb (fun p => insts_ok e (snd p)) a = true ->
      field_value n c a fd <> Raise Unmodelled ->
      src_apply_body call xt h (getter cn fd) [PStruct nm a] = field_value n c a fd.
    Proof.
      intros Hc Hf Hfc Hin Ha Hn. destruct (env_ok_find cn c Henv Hf) as (Hnm & Hok & Hrf).
      assert (Hw : shallow_wf (f_ty fd) = true).
      { unfold class_ok in Hok. apply andb_true_iff in Hok as [Hok _]. apply andb_true_iff in Hok as [Hok _].
        rewrite forallb_forall in Hok. specialize (Hok fd Hin). apply andb_true_iff in Hok as [Hok _]. exact Hok. }
      assert (Hxok : insts_ok e (getattr_m c a (f_name fd)) = true) by (exact (getattr_ok cn c a (f_name fd) Hf Ha)).
      unfold getter_py. destruct (getter_of (f_ty fd)) eqn:Hg.
      - (* _get_value.wrapped: the raw attribute *)
        unfold src_apply_body, fn_val. cbn [fn_code]. 
        change (str_prefix fn_prefix (fn_prefix ++ s2p "_get_value.wrapped")) with true. cbn iota.
        change (skipn (length fn_prefix) (fn_prefix ++ s2p "_get_value.wrapped")) with (s2p "_get_value.wrapped").
        str_eval. cbn iota. unfold src_get_value__wrapped.
        unfold clo_get. cbn [alist_get]. str_eval. cbn iota. cbn [bind].
        rewrite (call_get call cn c nm a fd Hf Hw). cbn [bind].
        unfold field_value in *. set (x := getattr_m c a (f_name fd)) in *.
        destruct (f_ty fd) as [[f|cls ms byv|vals|id [|]]|i|i|c'|nf f|ls|id ob]; try discriminate Hg.
        + (* Number / String / Boolean: Field.serialize is the identity there (the model declines on a Decimal) *)
          assert (Hv : fast_val sser ofast e (fc_model n) (TLeaf (LPrim f)) x =
                       match x with PNum (NDec _ _) => Raise Unmodelled | _ => Ok x end).
          { destruct f; try discriminate Hg; reflexivity. }
          rewrite Hv in Hn |- *. clear Hv.
          destruct x as [| |[| |]| | | | | | | | |]; cbn [is_none] in Hn |- *; try reflexivity.
          contradiction Hn; reflexivity.
        + destruct x; reflexivity.
      - (* _get_serialize.wrapped *)
        unfold src_apply_body, fn_val. cbn [fn_code].
        change (str_prefix fn_prefix (fn_prefix ++ s2p "_get_serialize.wrapped")) with true. cbn iota.
        change (skipn (length fn_prefix) (fn_prefix ++ s2p "_get_serialize.wrapped")) with (s2p "_get_serialize.wrapped").
        str_eval. cbn iota. unfold src_get_serialize__wrapped.
        unfold clo_get. cbn [alist_get]. str_eval. cbn iota. cbn [bind].
        rewrite (call_get call cn c nm a fd Hf Hw). cbn [bind].
        unfold field_value in *. set (x := getattr_m c a (f_name fd)) in *.
        change (py_is_not_none x) with (negb (is_none x)).
        destruct (is_none x) eqn:Hx; cbn [negb bind]; [reflexivity|].
        fold a_serialize.
        assert (Hm : (match f_ty fd with TLeaf (LSer _ true) => Ok x | tf => fast_val sser ofast e (fc_model n) tf x end)
                     = fast_val sser ofast e (fc_model n) (f_ty fd) x).
        { destruct (f_ty fd) as [[f|cls ms byv|vals|id [|]]|i|i|c'|nf f|ls|id ob]; try reflexivity. discriminate Hg. }
        rewrite Hm in Hn |- *. clear Hm.
        unfold obj_py. destruct (f_ty fd) as [l|i|i|c'|nf f|ls|id ob] eqn:Hty;
          try (rewrite <- Hty in *; rewrite (call_ser_field n call cn c fd x Hc Hf Hin Hw Hxok Hn); destruct (fast_val sser ofast e (fc_model n) (f_ty fd) x); reflexivity).
        (* a class reference: the class itself is the receiver *)
        cbn [fast_val] in Hn |- *.
        assert (Hfast : class_is_fast e c' = true).
        { specialize (Hrf Hfc). unfold direct_refs_fast in Hrf. rewrite forallb_forall in Hrf.
          specialize (Hrf fd Hin). rewrite Hty in Hrf. exact Hrf. }
        unfold class_is_fast in Hfast. unfold fc_model in Hn |- *.
        destruct (find_tclass e c') as [cd|] eqn:Hf'; [|discriminate Hfast]. rewrite Hfast in Hn |- *.
        rewrite (call_ser_ref n call c' cd x Hc Hf' Hfast Hxok Hn).
        destruct (fast_ser sser ofast e n false false c' x); reflexivity.
    Qed.
  
    (* ---------------------------------------------------------------- the dict the serializer builds *)

    Lemma fast_fields_step fv c a fd t :
      fast_fields fv c a (fd :: t) =
      (w <- (let x := getattr_m c a (f_name fd) in
             if is_none x then Ok PNone
             else match f_ty fd with TLeaf (LSer _ true) => Ok x | tf => fv tf x end) ;;
       r <- fast_fields fv c a t ;; Ok ((own_key (t_mapper c) (f_name fd), w) :: r)).
    Proof. reflexivity. Qed.

    Lemma fast_fields_step' n c a fd t :
      fast_fields (fast_val sser ofast e (fc_model n)) c a (fd :: t) =
      (w <- field_value n c a fd ;;
       r <- fast_fields (fast_val sser ofast e (fc_model n)) c a t ;; Ok ((own_key (t_mapper c) (f_name fd), w) :: r)).
    Proof. reflexivity. Qed.

    Lemma getters_eval (F : pyval * pyval -> res (option (pyval * pyval))) call2 n cn c nm a :
      (forall k v, F (k, v) = (t <- call2 v [PStruct nm a] ;; Ok (Some (k, t)))) ->
      forall fs,
        (forall fd, In fd fs -> field_value n c a fd <> Raise Unmodelled ->
                    call2 (getter cn fd) [PStruct nm a] = field_value n c a fd) ->
        fast_fields (fast_val sser ofast e (fc_model n)) c a fs <> Raise Unmodelled ->
        filterM F (kv_py (getters other_obj cn (t_mapper c) fs)) =
        match fast_fields (fast_val sser ofast e (fc_model n)) c a fs with
        | Ok r => Ok (kv_py r)
        | Raise x => Raise x
        end.
    Proof.
      intros HF. induction fs as [|fd t IH]; intros Hg Hn; [reflexivity|].
      rewrite fast_fields_step' in Hn |- *.
      unfold getters. cbn [map kv_py filterM fst snd]. fold (getters other_obj cn (t_mapper c) t). fold (kv_py (getters other_obj cn (t_mapper c) t)).
      rewrite HF.
      assert (Hx : field_value n c a fd <> Raise Unmodelled).
      { intro E. apply Hn. rewrite E. reflexivity. }
      rewrite (Hg fd (or_introl eq_refl) Hx).
      destruct (field_value n c a fd) as [w|ex]; cbn [bind] in Hn |- *; [|reflexivity].
      rewrite IH.
      - destruct (fast_fields (fast_val sser ofast e (fc_model n)) c a t) as [r|ex]; reflexivity.
      - intros fd' Hin. apply Hg. right. exact Hin.
      - intro E. apply Hn. rewrite E. reflexivity.
    Qed.

    Lemma fast_fields_keys fv c a : forall fs r,
        fast_fields fv c a fs = Ok r -> map fst r = map (fun fd => own_key (t_mapper c) (f_name fd)) fs.
    Proof.
      induction fs as [|fd t IH]; intros r H.
      - inversion H. reflexivity.
      - rewrite fast_fields_step in H.
        destruct (let x := getattr_m c a (f_name fd) in
                  if is_none x then Ok PNone
                  else match f_ty fd with TLeaf (LSer _ true) => Ok x | tf => fv tf x end) as [w|ex]; [|discriminate H].
        cbn [bind] in H. destruct (fast_fields fv c a t) as [r'|ex]; [|discriminate H]. cbn [bind] in H.
        inversion H; subst. cbn [map fst]. rewrite (IH r' eq_refl). reflexivity.
    Qed.

    Lemma dict_of_acc : forall (l acc : list (pystr * pyval)),
        fold_left (fun ac p => dict_set ac (PStr (fst p)) (snd p)) l (kv_py acc) =
        kv_py (fold_left (fun ac p => alist_set ac (fst p) (snd p)) l acc).
    Proof.
      induction l as [|[k v] t IH]; intro acc; [reflexivity|].
      cbn [fold_left fst snd]. rewrite dict_set_kv. apply IH.
    Qed.

    Lemma dict_of_nodup_model r : nodupb (map fst r) = true -> dict_of r = PDict (kv_py r).
    Proof.
      intro H. unfold dict_of. change (@nil (pyval * pyval)) with (kv_py []). rewrite dict_of_acc.
      rewrite (set_all_fresh r [] H). reflexivity.
    Qed.

    Lemma str_in_filter {A} (f : pystr * A -> bool) k : forall l,
        str_in k (map fst l) = false -> str_in k (map fst (filter f l)) = false.
    Proof.
      induction l as [|[k' v] t IH]; [reflexivity|]. unfold str_in in *. cbn [map fst existsb filter].
      intro H. apply orb_false_iff in H as [H1 H2]. destruct (f (k', v)); [|exact (IH H2)].
      cbn [map fst existsb]. rewrite H1. exact (IH H2).
    Qed.

    Lemma nodupb_filter {A} (f : pystr * A -> bool) : forall l,
        nodupb (map fst l) = true -> nodupb (map fst (filter f l)) = true.
    Proof.
      induction l as [|[k v] t IH]; [reflexivity|]. cbn [map fst nodupb filter]. intro H.
      apply andb_true_iff in H as [H1 H2]. destruct (f (k, v)); [|exact (IH H2)].
      cbn [map fst nodupb]. rewrite (IH H2), andb_true_r. apply negb_true_iff. apply negb_true_iff in H1.
      exact (str_in_filter f k t H1).
    Qed.

    Lemma drop_none_eval (F : pyval * pyval -> res (option (pyval * pyval))) :
      (forall k v, F (k, v) = (c <- Ok (py_is_not_none v) ;; if c then Ok (Some (k, v)) else Ok None)) ->
      forall r, filterM F (kv_py r) = Ok (kv_py (drop_none r)).
    Proof.
      intro HF. induction r as [|[k v] t IH]; [reflexivity|].
      cbn [kv_py map filterM fst snd]. fold (kv_py t). rewrite HF, IH. cbn [bind].
      unfold drop_none. cbn [filter snd]. change (py_is_not_none v) with (negb (is_none v)).
      destruct (is_none v); reflexivity.
    Qed.

    (* self._additional_serialization() for an instance of a class of the environment: Structure's own *)
    Lemma call_additional call cn c a :
      find_tclass e cn = Some c -> inst_ok a = true ->
      py_call_method h call xt (PStruct cn a) (s2p "_additional_serialization") [] = call st_additional_fn [PStruct cn a].
    Proof.
      intros Hf Hi. unfold inst_ok, alist_has in Hi. apply andb_true_iff in Hi as [H1 H2].
      unfold py_call_method.
      destruct (alist_get a (s2p "_additional_serialization")); [discriminate H1|].
      change (call_attr (s2p "_additional_serialization")) with (s2p "_additional_serialization()").
      destruct (alist_get a (s2p "_additional_serialization()")); [discriminate H2|].
      unfold cls_lookup. rewrite (env_mro cn c Hf). cbn [app mro_find].
      rewrite (proj1 (proj1 Hh) cn (s2p "_additional_serialization") eq_refl eq_refl), (heap0_env cn c _ Hf).
      change (pystr_eqb (s2p "_additional_serialization") a_fields) with false.
      change (pystr_eqb (s2p "_additional_serialization") mro_attr) with false.
      change (pystr_eqb (s2p "_additional_serialization") (s2p "__name__")) with false. cbn iota.
      rewrite (proj1 (proj1 Hh) ST (s2p "_additional_serialization") eq_refl eq_refl). reflexivity.
    Qed.

    Lemma serializer_body n call2 cn c nm cnm a (sn : bool) :
      find_tclass e cn = Some c -> find_tclass e nm = Some cnm -> inst_ok a = true ->
      (forall fd, In fd (t_fields c) -> field_value n c a fd <> Raise Unmodelled ->
                  call2 (getter cn fd) [PStruct nm a] = field_value n c a fd) ->
      call2 st_additional_fn [PStruct nm a] = Ok (PDict []) ->
      fast_ser sser ofast e (S n) sn false cn (PStruct nm a) <> Raise Unmodelled ->
      src_apply_body call2 xt h (serc cn c (PBool sn)) [PStruct nm a] =
      fast_ser sser ofast e (S n) sn false cn (PStruct nm a).
    Proof.
      intros Hf Hfn Hi Hg Hadd Hn. destruct (env_ok_find cn c Henv Hf) as (Hnm & Hok & _).
      unfold class_ok in Hok. apply andb_true_iff in Hok as [Hok Hkeys]. fold (keys_of c) in Hkeys.
      cbn [fast_ser] in Hn |- *. rewrite Hf in Hn |- *.
      fold (fc_model n) in Hn |- *.
      destruct (match t_mapper c with MapList => Raise Unmodelled | _ => Ok tt end) as [u|ex] eqn:Hml;
        [|destruct (t_mapper c); try discriminate Hml; inversion Hml; subst; contradiction Hn; reflexivity].
      cbn [bind] in Hn |- *.
      unfold src_apply_body, ser_closure, fn_val. cbn [fn_code].
      change (str_prefix fn_prefix (fn_prefix ++ s2p "create_serializer.serializer")) with true. cbn iota.
      change (skipn (length fn_prefix) (fn_prefix ++ s2p "create_serializer.serializer")) with (s2p "create_serializer.serializer").
      str_eval. cbn iota. unfold src_create_serializer__serializer.
      unfold clo_get. cbn [alist_get]. str_eval. cbn iota. cbn [bind].
      unfold items_val. rewrite iter_pairs_items. cbn [bind].
      assert (Hn' : fast_fields (fast_val sser ofast e (fc_model n)) c a (t_fields c) <> Raise Unmodelled).
      { intro E. apply Hn. rewrite E. reflexivity. }
      rewrite (getters_eval _ call2 n cn c nm a (fun _ _ => eq_refl) (t_fields c) Hg Hn').
      destruct (fast_fields (fast_val sser ofast e (fc_model n)) c a (t_fields c)) as [r|ex] eqn:Hr; cbn [bind] in Hn |- *;
        [|reflexivity].
      pose proof (fast_fields_keys _ c a _ r Hr) as Hk. fold (keys_of c) in Hk.
      assert (Hnd : nodupb (map fst r) = true) by (rewrite Hk; exact Hkeys).
      rewrite (dict_of_nodup r Hnd). cbn [bind py_truthy].
      match goal with |- _ = ?R => assert (Htail : R = Ok (dict_of (if sn then r else drop_none r))) end.
      { generalize (dict_of (if sn then r else drop_none r)). intro d0.
        destruct d0 as [| | | | | | | |[|[k0 v0] [|p0 t0]]| | |]; reflexivity. }
      rewrite Htail. clear Htail.
      destruct sn; cbn [bind py_truthy].
      - rewrite (call_additional call2 nm cnm a Hfn Hi), Hadd. cbn [bind].
        rewrite (dict_of_nodup_model r Hnd). reflexivity.
      - cbn [py_dict_items bind]. rewrite (drop_none_eval _ (fun _ _ => eq_refl) r). cbn [bind].
        assert (Hnd' : nodupb (map fst (drop_none r)) = true) by (apply nodupb_filter; exact Hnd).
        rewrite (dict_of_nodup _ Hnd'). cbn [bind].
        rewrite (call_additional call2 nm cnm a Hfn Hi), Hadd. cbn [bind].
        rewrite (dict_of_nodup_model _ Hnd'). reflexivity.
    Qed.
  
    (* ---------------------------------------------------------------- the installed serializer = fast_ser *)

    Lemma apply_S k f args : src_apply (S k) xt h f args = src_apply_body (src_apply k xt h) xt h f args.
    Proof. reflexivity. Qed.

    Lemma apply_additional k nm a : src_apply (S k) xt h st_additional_fn [PStruct nm a] = Ok (PDict []).
    Proof. reflexivity. Qed.

    Lemma fast_ser_struct n sn cp cn v :
      fast_ser sser ofast e (S n) sn cp cn v <> Raise Unmodelled -> exists nm a, v = PStruct nm a.
    Proof.
      cbn [fast_ser]. destruct (find_tclass e cn); [|intro H; contradiction H; reflexivity].
      destruct v; try (intro H; contradiction H; reflexivity). intros _. eexists _, _. reflexivity.
    Qed.

    (* x.serialize() after create_serializer(cls, serialize_none=sn): two units of fuel of the dispatcher (the
       serializer, then a getter) per class level of the model *)
    Theorem src_serializer_eq : forall n cn c v (sn : bool),
        find_tclass e cn = Some c -> t_fast c = true -> insts_ok e v = true ->
        fast_ser sser ofast e n sn false cn v <> Raise Unmodelled ->
        src_apply (2 * n) xt h (serc cn c (PBool sn)) [v] = fast_ser sser ofast e n sn false cn v.
    Proof.
      induction n as [|n IH]; intros cn c v sn Hf Hfast Hv Hn; [reflexivity|].
      replace (2 * S n)%nat with (S (S (2 * n))) by lia.
      destruct (fast_ser_struct n sn false cn v Hn) as (nm & a & ->).
      cbn [insts_ok] in Hv. apply andb_true_iff in Hv as [Hv Ha]. apply andb_true_iff in Hv as [Hnm Hi].
      destruct (find_tclass e nm) as [cnm|] eqn:Hfn; [|discriminate Hnm].
      rewrite apply_S.
      assert (Hc : call_ok n (src_apply (2 * n) xt h)).
      { intros c' cd x Hf' Ht' Hx Hn'. exact (IH c' cd x false Hf' Ht' Hx Hn'). }
      apply (serializer_body n _ cn c nm cnm a sn Hf Hfn Hi); [|apply apply_additional|exact Hn].
      intros fd Hin Hfv. rewrite apply_S.
      exact (getter_body n _ cn c nm a fd Hc Hf Hfast Hin Ha Hfv).
    Qed.

    (* the compact wrapper: one more unit *)
    Lemma fields_len cn c :
      find_tclass e cn = Some c ->
      forall call, py_call_method h call xt (ref cn) (s2p "get_all_fields_by_name") [] =
                   Ok (ffields_py other_obj cn (t_fields c)).
    Proof.
      intros Hf call. unfold py_call_method, ref. rewrite pystr_eqb_refl.
      unfold cls_lookup. rewrite (env_mro cn c Hf).
      assert (Hnone : forall a0, pystr_eqb a0 a_serialize = false -> pystr_eqb a0 a_created = false ->
                                 pystr_eqb a0 (s2p "_additional_serialization") = false ->
                                 mro_find h a0 ([cn; ST] ++ (if t_fast c then [FS] else [])) = heap0 cn a0).
      { intros a0 H1 H2 H3. cbn [app mro_find]. rewrite (proj1 (proj1 Hh) cn a0 H1 H2).
        destruct (heap0 cn a0) eqn:E; [reflexivity|].
        rewrite (proj1 (proj1 Hh) ST a0 H1 H2).
        assert (E2 : heap0 ST a0 = None) by (unfold fast_heap0; change (pystr_eqb ST FS) with false; rewrite pystr_eqb_refl, H3; reflexivity).
        rewrite E2. destruct (t_fast c); [|reflexivity]. cbn [mro_find].
        rewrite (proj1 (proj1 Hh) FS a0 H1 H2). unfold fast_heap0. rewrite pystr_eqb_refl, H1. reflexivity. }
      rewrite (Hnone (s2p "get_all_fields_by_name") eq_refl eq_refl eq_refl), (heap0_env cn c _ Hf).
      change (pystr_eqb (s2p "get_all_fields_by_name") a_fields) with false.
      change (pystr_eqb (s2p "get_all_fields_by_name") mro_attr) with false.
      change (pystr_eqb (s2p "get_all_fields_by_name") (s2p "__name__")) with false. cbn iota.
      change (call_attr (s2p "get_all_fields_by_name")) with a_fields.
      rewrite (Hnone a_fields eq_refl eq_refl eq_refl), (heap0_env cn c _ Hf). rewrite pystr_eqb_refl. reflexivity.
    Qed.
  
    Lemma len_is_1 {A} (l : list A) : py_eq (PNum (NInt (lenZ' l))) (zint 1) = Nat.eqb (length l) 1.
    Proof.
      unfold zint. cbn [py_eq as_num]. rewrite num_eqb_int. unfold lenZ'.
      destruct (Nat.eqb_spec (length l) 1) as [E|E].
      - rewrite E. reflexivity.
      - apply Z.eqb_neq. lia.
    Qed.

    (* the model's fast_ser, one level, with the final compact step apart *)
    Definition ser_dict (n : nat) (sn : bool) (c : tclass) (a : list (pystr * pyval)) : res (list (pyval * pyval)) :=
      _ <- match t_mapper c with MapList => Raise Unmodelled | _ => Ok tt end ;;
      r <- fast_fields (fast_val sser ofast e (fc_model n)) c a (t_fields c) ;;
      Ok (fold_left (fun acc p => dict_set acc (PStr (fst p)) (snd p)) (if sn then r else drop_none r) []).

    Lemma fast_ser_S n sn cp cn c nm a :
      find_tclass e cn = Some c ->
      fast_ser sser ofast e (S n) sn cp cn (PStruct nm a) =
      (kv <- ser_dict n sn c a ;;
       match kv with
       | [(_, x)] => if cp && Nat.eqb (length (t_fields c)) 1 then Ok x else Ok (PDict kv)
       | _ => Ok (PDict kv)
       end).
    Proof.
      intro Hf. cbn [fast_ser]. rewrite Hf. unfold ser_dict. fold (fc_model n).
      destruct (match t_mapper c with MapList => Raise Unmodelled | _ => Ok tt end); cbn [bind]; [|reflexivity].
      destruct (fast_fields (fast_val sser ofast e (fc_model n)) c a (t_fields c)) as [r|ex]; cbn [bind]; [|reflexivity].
      unfold dict_of.
      destruct (fold_left (fun acc p => dict_set acc (PStr (fst p)) (snd p)) (if sn then r else drop_none r) [])
        as [|[k0 v0] [|p0 t0]]; reflexivity.
    Qed.

    Theorem src_compact_eq : forall n cn c a (sn : bool),
        find_tclass e cn = Some c -> t_fast c = true -> insts_ok e (PStruct cn a) = true ->
        fast_ser sser ofast e n sn true cn (PStruct cn a) <> Raise Unmodelled ->
        src_apply (S (2 * n)) xt h (compact_closure (serc cn c (PBool sn))) [PStruct cn a] =
        fast_ser sser ofast e n sn true cn (PStruct cn a).
    Proof.
      intros n cn c a sn Hf Hfast Hv Hn. destruct n as [|n]; [reflexivity|].
      rewrite apply_S. unfold src_apply_body, compact_closure, fn_val. cbn [fn_code].
      change (str_prefix fn_prefix (fn_prefix ++ s2p "set_compact_wrapper.wrapper")) with true. cbn iota.
      change (skipn (length fn_prefix) (fn_prefix ++ s2p "set_compact_wrapper.wrapper")) with (s2p "set_compact_wrapper.wrapper").
      str_eval. cbn iota. unfold src_set_compact_wrapper__wrapper.
      unfold clo_get. cbn [alist_get]. str_eval. cbn iota. cbn [bind].
      rewrite (fast_ser_S n sn true cn c cn a Hf) in Hn |- *.
      assert (Hn2 : fast_ser sser ofast e (S n) sn false cn (PStruct cn a) <> Raise Unmodelled).
      { rewrite (fast_ser_S n sn false cn c cn a Hf). intro E. apply Hn.
        destruct (ser_dict n sn c a) as [kv|ex]; cbn [bind] in E |- *; [|exact E].
        destruct kv as [|[k0 v0] [|p0 t0]]; discriminate E. }
      fold (serc cn c (PBool sn)).
      rewrite (src_serializer_eq (S n) cn c (PStruct cn a) sn Hf Hfast Hv Hn2).
      rewrite (fast_ser_S n sn false cn c cn a Hf).
      destruct (ser_dict n sn c a) as [kv|ex]; cbn [bind]; [|reflexivity].
      assert (Hplain : (match kv with
                        | [(_, x)] => if false && Nat.eqb (length (t_fields c)) 1 then Ok x else Ok (PDict kv)
                        | _ => Ok (PDict kv)
                        end) = Ok (PDict kv)) by (destruct kv as [|[k0 v0] [|p0 t0]]; reflexivity).
      rewrite Hplain. clear Hplain. cbn [bind fld_class_of].
      rewrite (fields_len cn c Hf). unfold ffields_py. cbn [bind py_len py_eqv py_and].
      rewrite len_is_1, map_length.
      destruct (Nat.eqb (length (t_fields c)) 1); cbn [bind andb].
      - unfold py_eqv. rewrite len_is_1. destruct kv as [|[k0 v0] [|p0 t0]]; reflexivity.
      - destruct kv as [|[k0 v0] [|p0 t0]]; reflexivity.
    Qed.
  End Apply.
