(* The tie between the GENERATED translation of the trusted-deserialization classifier of
   typedpy/serialization/serialization.py (Gen/TrustedSrc.v: what _is_mapper_simple, _is_optional_anyof,
   _extract_non_nonefield_from_optional, _leading_option, _structure_simplicity_level, _enum_lookup,
   _get_enum_mapping, the tuple _valid_classes_for_trusted_deserialization and the class statements of the
   package say NOW) and the hand-written classifier of Ser/Trusted.v on which the C10 theorems are proved
   (mapper_simple, level_of / eligible, enum_targets with the by-name / by-value lookup, the non-None option of
   remap_field).

   Every theorem is about EVERY class environment, class, fuel.  How a model-level class description is seen
   as the Python-level argument `cls` is fixed in the first part of this file ([class_heap], [tf_py]):
   a Structure class is the reference [ref name]; its attributes get_all_fields_by_name() and
   _serialization_mapper are in the heap; a field is an instance [PStruct <real class name> <attributes>]. *)
From Coq Require Import ZArith QArith NArith String Ascii Bool Lia List Permutation.
Import ListNotations.
From TP Require Import Base.PyVal Base.PyOps Base.PyOps2 Base.PyObj Base.PyOpsFields
     Fields.FieldAst Ser.Trusted Gen.TrustedSrc.
Local Open Scope Z_scope.

(* ------------------------------------------------------------------ how a declaration is seen as Python objects *)

(* the real class of a primitive leaf (harness/fieldgen.py SIGN_CLASS) *)
Definition num_class (k : numkind) (s : sign) : pystr :=
  match k, s with
  | KNumber, SAny => s2p "Number" | KNumber, SPositive => s2p "Positive" | KNumber, SNegative => s2p "Negative"
  | KNumber, SNonPositive => s2p "NonPositive" | KNumber, SNonNegative => s2p "NonNegative"
  | KInteger, SAny => s2p "Integer" | KInteger, SPositive => s2p "PositiveInt" | KInteger, SNegative => s2p "NegativeInt"
  | KInteger, SNonPositive => s2p "NonPositiveInt" | KInteger, SNonNegative => s2p "NonNegativeInt"
  | KFloat, SAny => s2p "Float" | KFloat, SPositive => s2p "PositiveFloat" | KFloat, SNegative => s2p "NegativeFloat"
  | KFloat, SNonPositive => s2p "NonPositiveFloat" | KFloat, SNonNegative => s2p "NonNegativeFloat"
  end.

(* LPrim is documented (Ser/Trusted.v) as Integer/Float/Number/String/Boolean/NoneField *)
Definition prim_ok (f : field) : bool :=
  match f with FNumber _ _ _ | FString _ | FBoolean | FNone => true | _ => false end.

Definition prim_cls (f : field) : pystr :=
  match f with
  | FNumber k s _ => num_class k s
  | FString _ => s2p "String"
  | FBoolean => s2p "Boolean"
  | FNone => s2p "NoneField"
  | _ => s2p "Anything"
  end.

(* LSer: DateField / DateTime / TimeField, and DecimalNumber when is_number (harness/c10gen.py SER) *)
Definition ser_cls (id : N) (is_number : bool) : pystr :=
  if is_number then s2p "DecimalNumber"
  else if N.eqb id 1 then s2p "DateField" else if N.eqb id 2 then s2p "DateTime" else s2p "TimeField".

(* an enum.Enum class, seen as the mapping name -> member (as in Ser/EnumGuardProofs.v) *)
Definition enum_cls_py (cls : pystr) (ms : list (pystr * pyval)) : pyval :=
  PDict (map (fun m => (PStr (fst m), PEnum cls (fst m) (snd m))) ms).

Definition leaf_cls (l : leaf) : pystr :=
  match l with
  | LPrim f => prim_cls f
  | LEnum _ _ _ | LEnumLit _ => s2p "Enum"
  | LSer id isn => ser_cls id isn
  end.

(* Enum.__init__ with serialization_by_value: _enum_by_value = {e.value: e for e in self._enum_class} *)
Definition enum_byv_py (cls : pystr) (ms : list (pystr * pyval)) : pyval :=
  PDict (map (fun m => (snd m, PEnum cls (fst m) (snd m))) ms).

Definition leaf_attrs (l : leaf) : list (pystr * pyval) :=
  match l with
  | LEnum cls ms byv => [(s2p "_is_enum", PBool true); (s2p "_enum_class", enum_cls_py cls ms);
                         (s2p "serialization_by_value", PBool byv)] ++
                        (if byv then [(s2p "_enum_by_value", enum_byv_py cls ms)] else [])
  | LEnumLit vals => [(s2p "_is_enum", PBool false); (s2p "values", PList vals)]
  | _ => []
  end.

Definition leaf_py (l : leaf) : pyval := PStruct (leaf_cls l) (leaf_attrs l).

(* AnyOf.__init__: _fields, and _is_optional = True exactly when some option is a NoneField *)
Definition anyof_py (fs : list pyval) (opt : bool) : pyval :=
  PStruct (s2p "AnyOf")
          ([(s2p "_fields", PList fs); (s2p "get_fields()", PList fs)] ++
           if opt then [(s2p "_is_optional", PBool true)] else []).

Definition none_py : pyval := leaf_py (LPrim FNone).


(* mapper values: a string, a FunctionCall, any other object *)
Definition mval_py (v : mval) : pyval :=
  match v with
  | MStr s => PStr s
  | MFun => PStruct (s2p "FunctionCall") []
  | MObj => POther (s2p "object") []
  end.

Definition mappers_member (n : string) (v : Z) : pyval := PEnum (s2p "mappers") (s2p n) (zint v).

Section Embedding.
  (* the Python object of an unmodelled field #id (Map, Tuple, Anything, Array without items, OneOf...) and the
     chain a list-valued mapper stands for are parameters; what is needed of them is [other_ok] / [chain_ok] *)
  Variable other_obj : N -> bool -> pyval.
  Variable chain : list pyval.

  Fixpoint tf_py (tf : tfield) : pyval :=
    match tf with
    | TLeaf l => leaf_py l
    | TArray i => PStruct (s2p "Array") [(s2p "items", tf_py i)]
    | TSet i => PStruct (s2p "Set") [(s2p "items", tf_py i)]
    | TRef c => PStruct (s2p "ClassReference") [(s2p "get_type", ref c)]
    | TOpt nf f => anyof_py (if nf then [none_py; tf_py f] else [tf_py f; none_py]) true
    | TUnion ls => anyof_py (map leaf_py ls) (existsb is_none_leaf ls)
    | TOther id b => other_obj id b
    end.

  (* the value of the class attribute _serialization_mapper (absent for MapNone) *)
  Definition mapper_attr (m : mapper) : option pyval :=
    match m with
    | MapNone => None
    | MapCamel => Some (mappers_member "TO_CAMELCASE" 2)
    | MapUpper => Some (mappers_member "TO_LOWERCASE" 1)
    | MapDict kv => Some (PDict (map (fun p => (PStr (fst p), mval_py (snd p))) kv))
    | MapList => Some (PList chain)
    end.

  Definition fields_py (fs : list tfd) : pyval :=
    PDict (map (fun fd => (PStr (f_name fd), tf_py (f_ty fd))) fs).

  (* the class environment as a heap: class name -> attribute -> value *)
  Definition class_heap (e : tenv) : heap :=
    fun o a =>
      match find_tclass e o with
      | Some c =>
          if pystr_eqb a (s2p "get_all_fields_by_name()") then Some (fields_py (t_fields c))
          else if pystr_eqb a (s2p "_serialization_mapper") then mapper_attr (t_mapper c)
          else if pystr_eqb a (s2p "_ignore_none") then (if t_ignore_none c then Some (PBool true) else None)
          else if pystr_eqb a (s2p "__mro__") then Some (PList [ref o; ref (s2p "Structure")])   (* not Versioned *)
          else None
      | None => None
      end.
End Embedding.

Definition chain_ok (chain : list pyval) : bool := negb (Nat.eqb (length chain) 0).

(* the classifier's result *)
Definition level_val (l : level) : pyval :=
  match l with
  | NotNested => PEnum (s2p "_ClsSimplicity") (s2p "not_nested") (zint 1)
  | Nested => PEnum (s2p "_ClsSimplicity") (s2p "nested") (zint 2)
  end.

Definition level_res (r : res (option level)) : res pyval :=
  match r with
  | Ok None => Ok (PBool false)
  | Ok (Some l) => Ok (level_val l)
  | Raise x => Raise x
  end.

(* ------------------------------------------------------------------ small facts *)

Lemma pystr_eqb_sym a b : pystr_eqb a b = pystr_eqb b a.
Proof.
  destruct (pystr_eqb a b) eqn:H1; destruct (pystr_eqb b a) eqn:H2; try reflexivity.
  - apply pystr_eqb_spec in H1. subst. rewrite pystr_eqb_refl in H2. discriminate.
  - apply pystr_eqb_spec in H2. subst. rewrite pystr_eqb_refl in H1. discriminate.
Qed.

Lemma str_prefix_is_prefix : forall p s, str_prefix p s = is_prefix p s.
Proof. induction p as [|x p IH]; intros [|y s]; cbn [str_prefix is_prefix]; try reflexivity; try (rewrite IH; reflexivity). Qed.

Lemma str_endswith_ends_with suffix s : str_endswith suffix s = ends_with suffix s.
Proof. unfold str_endswith, ends_with. apply str_prefix_is_prefix. Qed.

Lemma ref_getattr_def (h : heap) n a d :
  fld_getattr_def h (ref n) a d = Ok (match h n a with Some v => v | None => d end).
Proof. reflexivity. Qed.

Lemma ref_getattr (h : heap) n a :
  fld_getattr h (ref n) a = match h n a with Some v => Ok v | None => Raise AttributeError end.
Proof. reflexivity. Qed.

(* ------------------------------------------------------------------ _is_mapper_simple *)

Lemma mapper_loop_eq (h : heap) : forall kv,
    src_is_mapper_simple_loop1 h (fun _ => Ok (PBool true)) (map (fun p => (PStr (fst p), mval_py (snd p))) kv) =
    Ok (PBool (forallb (fun p => negb (ends_with dot_mapper (fst p)) &&
                                 match snd p with MStr _ => true | _ => false end) kv)).
Proof.
  induction kv as [|[k v] t IH]; [reflexivity|].
  cbn [map src_is_mapper_simple_loop1 fst snd forallb py_str_endswith bind].
  rewrite str_endswith_ends_with. fold dot_mapper.
  destruct v; destruct (ends_with dot_mapper k);
    cbn [mval_py py_isinstance existsb isinstance1 orb py_not bind negb andb]; try reflexivity.
  exact IH.
Qed.

Theorem src_mapper_simple_heap : forall (h : heap) chain cn m,
    chain_ok chain = true ->
    h cn (s2p "_deserialization_mapper") = None ->
    h cn (s2p "_serialization_mapper") = mapper_attr chain m ->
    src_is_mapper_simple h (ref cn) = Ok (PBool (mapper_simple m)).
Proof.
  intros h chain cn m Hc Hd Hs. unfold src_is_mapper_simple.
  rewrite ref_getattr_def, Hs. cbn [bind]. rewrite ref_getattr_def, Hd. cbn [bind].
  destruct m as [| | |kv|]; cbn [mapper_attr mapper_simple].
  - reflexivity.
  - reflexivity.
  - reflexivity.
  - destruct kv as [|p t]; [reflexivity|].
    cbn [py_truthy map length Nat.eqb negb py_not bind py_in_lit py_in existsb py_eq orb py_isinstance isinstance1
         py_dict_items].
    exact (mapper_loop_eq h (p :: t)).
  - destruct chain as [|x t]; [discriminate Hc|]. reflexivity.
Qed.

(* ------------------------------------------------------------------ classes of the embedded objects *)

Notation tbl := field_class_table.
Notation valid := src_valid_classes_for_trusted_deserialization.

Lemma isinst_struct c a ks :
  fld_isinstance tbl (PStruct c a) ks = if class_known tbl c then Ok (class_in tbl c ks) else Raise Unmodelled.
Proof. reflexivity. Qed.

Definition leaf_wf (l : leaf) : bool := match l with LPrim f => prim_ok f | _ => true end.

Definition not_inst_of (v : pyval) (ks : list pystr) : bool :=
  match fld_isinstance tbl v ks with Ok false => true | _ => false end.

(* what is needed of the object that stands for an unmodelled field: an instance of a class of the package
   that is none of the classes the classifier accepts, and -- when it is an Array or a Set -- whose items are
   neither an accepted leaf nor a class reference (Array(), Array[Array[...]], Array(items=[...])) *)
Definition other_ok (o : pyval) : bool :=
  match o with
  | PStruct c attrs =>
      class_known tbl c && negb (class_in tbl c valid) && negb (class_in tbl c [s2p "AnyOf"]) &&
      negb (class_in tbl c [s2p "ClassReference"]) &&
      (if class_in tbl c [s2p "Array"] || class_in tbl c [s2p "Set"]
       then match alist_get attrs (s2p "items") with
            | Some it => not_inst_of it valid && not_inst_of it [s2p "ClassReference"]
            | None => false
            end
       else true)
  | _ => false
  end.

Lemma leaf_facts l :
  leaf_wf l = true ->
  class_known tbl (leaf_cls l) = true /\ class_in tbl (leaf_cls l) valid = true /\
  class_in tbl (leaf_cls l) [s2p "SerializableField"] = leaf_is_ser l /\
  class_in tbl (leaf_cls l) [s2p "AnyOf"] = false /\
  class_in tbl (leaf_cls l) [s2p "ClassReference"] = false.
Proof.
  destruct l as [f|cls ms byv|vals|id isn]; cbn [leaf_wf leaf_cls leaf_is_ser]; intro H.
  - destruct f as [k s c| | | | | | | | | | | | | | | | | |]; try discriminate H;
      [destruct k, s|..]; vm_compute; repeat split.
  - vm_compute; repeat split.
  - vm_compute; repeat split.
  - unfold ser_cls. destruct isn, (N.eqb id 1), (N.eqb id 2); vm_compute; repeat split.
Qed.

(* a leaf is an Enum field exactly when the model says so *)
Lemma leaf_is_enum l :
  leaf_wf l = true ->
  class_in tbl (leaf_cls l) [s2p "Enum"] = match l with LEnum _ _ _ | LEnumLit _ => true | _ => false end.
Proof.
  destruct l as [f|cls ms byv|vals|id isn]; cbn [leaf_wf leaf_cls]; intro H.
  - destruct f as [k s c| | | | | | | | | | | | | | | | | |]; try discriminate H;
      [destruct k, s|..]; vm_compute; reflexivity.
  - vm_compute; reflexivity.
  - vm_compute; reflexivity.
  - unfold ser_cls. destruct isn, (N.eqb id 1), (N.eqb id 2); vm_compute; reflexivity.
Qed.

Lemma leaf_is_none l : pystr_eqb (s2p "NoneField") (leaf_cls l) = is_none_leaf l.
Proof.
  destruct l as [f|cls ms byv|vals|id isn]; cbn [leaf_cls is_none_leaf].
  - destruct f as [k s c| | | | | | | | | | | | | | | | | |]; [destruct k, s|..]; vm_compute; reflexivity.
  - vm_compute; reflexivity.
  - vm_compute; reflexivity.
  - unfold ser_cls. destruct isn, (N.eqb id 1), (N.eqb id 2); vm_compute; reflexivity.
Qed.

(* closed class tests are computed against the generated table *)
Ltac eval_cls :=
  repeat match goal with
  | |- context [class_known tbl (s2p ?x)] =>
      let v := eval vm_compute in (class_known tbl (s2p x)) in
      replace (class_known tbl (s2p x)) with v by (vm_compute; reflexivity)
  | |- context [class_in tbl (s2p ?x) ?ks] =>
      let v := eval vm_compute in (class_in tbl (s2p x) ks) in
      replace (class_in tbl (s2p x) ks) with v by (vm_compute; reflexivity)
  end.

Definition is_inst (v : pyval) : bool := match v with PStruct _ _ => true | _ => false end.
Definition cls_of (v : pyval) : pystr := match v with PStruct c _ => c | _ => [] end.

(* ------------------------------------------------------------------ _is_optional_anyof, _extract_non_nonefield_from_optional *)

Lemma num_eqb_int a b : num_eqb (NInt a) (NInt b) = Z.eqb a b.
Proof.
  unfold num_eqb, Qeq_bool. cbn [num_to_Q Qnum Qden]. rewrite !Z.mul_1_r.
  unfold Zeq_bool. destruct (Z.eqb_spec a b) as [E|E].
  - subst. rewrite Z.compare_refl. reflexivity.
  - destruct (Z.compare_spec a b); try reflexivity. contradiction.
Qed.

Lemma len_is_2 {A} (l : list A) : py_eq (PNum (NInt (lenZ' l))) (zint 2) = Nat.eqb (length l) 2.
Proof.
  unfold zint. cbn [py_eq as_num]. rewrite num_eqb_int. unfold lenZ'.
  destruct (Nat.eqb_spec (length l) 2) as [E|E].
  - rewrite E. reflexivity.
  - apply Z.eqb_neq. lia.
Qed.

Lemma anyof_get_fields h fs opt : fld_getattr h (anyof_py fs opt) (s2p "get_fields()") = Ok (PList fs).
Proof. reflexivity. Qed.
Lemma anyof_fields h fs opt : fld_getattr h (anyof_py fs opt) (s2p "_fields") = Ok (PList fs).
Proof. reflexivity. Qed.
Lemma anyof_is_optional h fs opt :
  fld_getattr h (anyof_py fs opt) (s2p "_is_optional") = if opt then Ok (PBool true) else Raise AttributeError.
Proof. destruct opt; reflexivity. Qed.

Lemma anyof_is_optional_def h fs opt :
  fld_getattr_def h (anyof_py fs opt) (s2p "_is_optional") (PBool false) = Ok (PBool opt).
Proof. destruct opt; reflexivity. Qed.
Lemma anyof_isinst fs opt : fld_isinstance tbl (anyof_py fs opt) [s2p "AnyOf"] = Ok true.
Proof. unfold anyof_py. rewrite isinst_struct. eval_cls. reflexivity. Qed.

Lemma classes_of_insts : forall fs,
    forallb is_inst fs = true ->
    filterM (fun x => t <- fld_class_of x ;; Ok (Some t)) fs = Ok (map (fun v => ref (cls_of v)) fs).
Proof.
  induction fs as [|x t IH]; [reflexivity|]. cbn [forallb]. intro H. apply andb_true_iff in H as [Hx Ht].
  destruct x; try discriminate Hx. cbn [filterM fld_class_of bind map cls_of]. rewrite (IH Ht). reflexivity.
Qed.

Lemma in_class_refs n : forall fs,
    py_in (ref n) (map (fun v => ref (cls_of v)) fs) = existsb (fun v => pystr_eqb n (cls_of v)) fs.
Proof.
  induction fs as [|x t IH]; [reflexivity|].
  cbn [map py_in existsb]. unfold py_in in IH. rewrite IH. f_equal.
Qed.

Lemma optional_anyof_py (h : heap) fs opt :
  forallb is_inst fs = true ->
  src_is_optional_anyof h (anyof_py fs opt) =
  Ok (PBool (Nat.eqb (length fs) 2 && existsb (fun v => pystr_eqb (s2p "NoneField") (cls_of v)) fs)).
Proof.
  intro Hi. unfold src_is_optional_anyof. rewrite !anyof_get_fields.
  cbn [bind py_len py_eqv py_and_val]. rewrite len_is_2.
  destruct (Nat.eqb (length fs) 2); cbn [py_truthy andb]; [|reflexivity].
  cbn [bind py_iter]. rewrite (classes_of_insts fs Hi). cbn [bind py_in_dyn].
  unfold py_in_lit. rewrite in_class_refs. reflexivity.
Qed.

Lemma extract_anyof_py (h : heap) a b opt :
  is_inst b = true ->
  src_extract_non_nonefield_from_optional h (anyof_py [a; b] opt) =
  Ok (if pystr_eqb (cls_of b) (s2p "NoneField") then a else b).
Proof.
  intro Hb. destruct b; try discriminate Hb.
  unfold src_extract_non_nonefield_from_optional. rewrite anyof_get_fields. cbn [bind].
  change (py_subscript (PList [a; PStruct cls attrs]) (zint 1)) with (@Ok pyval (PStruct cls attrs)).
  change (py_subscript (PList [a; PStruct cls attrs]) (zint 0)) with (@Ok pyval a).
  cbn [bind fld_class_of cls_of]. unfold py_is_class, ref. rewrite pystr_eqb_refl. cbn [andb bind].
  destruct (pystr_eqb cls (s2p "NoneField")); reflexivity.
Qed.

(* ------------------------------------------------------------------ dicts keyed by names *)

Definition kv_py (l : list (pystr * pyval)) : list (pyval * pyval) := map (fun p => (PStr (fst p), snd p)) l.

Fixpoint nodupb (l : list pystr) : bool :=
  match l with
  | [] => true
  | x :: t => negb (str_in x t) && nodupb t
  end.

Lemma str_in_app x a b : str_in x (a ++ b) = str_in x a || str_in x b.
Proof. unfold str_in. apply existsb_app. Qed.

Lemma nodupb_app a : forall b,
    nodupb (a ++ b) = nodupb a && nodupb b && forallb (fun x => negb (str_in x b)) a.
Proof.
  induction a as [|x t IH]; intro b; cbn [app nodupb forallb].
  - rewrite andb_true_r. reflexivity.
  - rewrite IH, str_in_app, negb_orb.
    destruct (str_in x t), (str_in x b), (nodupb t), (nodupb b); reflexivity.
Qed.

Lemma dict_set_kv l k v : dict_set (kv_py l) (PStr k) v = kv_py (alist_set l k v).
Proof.
  induction l as [|[k' v'] t IH]; [reflexivity|].
  cbn [kv_py map fst snd dict_set alist_set py_eq]. fold (kv_py t).
  destruct (pystr_eqb k' k); [reflexivity|]. rewrite IH. reflexivity.
Qed.

Lemma alist_set_fresh {A} (a : list (pystr * A)) k v :
  str_in k (map fst a) = false -> alist_set a k v = a ++ [(k, v)].
Proof.
  induction a as [|[k' v'] t IH]; cbn [map fst alist_set app]; intro H; [reflexivity|].
  unfold str_in in H. cbn [existsb] in H. apply orb_false_iff in H as [H1 H2].
  rewrite pystr_eqb_sym, H1. rewrite (IH H2). reflexivity.
Qed.

Lemma set_all_fresh : forall (l acc : list (pystr * pyval)),
    nodupb (map fst (acc ++ l)) = true ->
    fold_left (fun a p => alist_set a (fst p) (snd p)) l acc = acc ++ l.
Proof.
  induction l as [|[k v] t IH]; intros acc H; cbn [fold_left fst snd].
  - rewrite app_nil_r. reflexivity.
  - assert (Hk : str_in k (map fst acc) = false).
    { rewrite map_app, nodupb_app in H. apply andb_true_iff in H as [_ H].
      cbn [map fst] in H. clear - H. induction acc as [|[k' v'] a IHa]; [reflexivity|].
      cbn [map fst forallb] in H |- *. apply andb_true_iff in H as [H1 H2].
      unfold str_in in H1 |- *. cbn [existsb] in H1 |- *. apply negb_true_iff in H1. apply orb_false_iff in H1 as [H1 _].
      rewrite pystr_eqb_sym, H1. exact (IHa H2). }
    rewrite (alist_set_fresh acc k v Hk). rewrite IH; rewrite <- app_assoc; [reflexivity|exact H].
Qed.

Lemma dict_build_kv : forall l acc,
    dict_build (kv_py acc) (kv_py l) = Ok (kv_py (fold_left (fun a p => alist_set a (fst p) (snd p)) l acc)).
Proof.
  induction l as [|[k v] t IH]; intro acc; [reflexivity|].
  cbn [kv_py map fst snd dict_build py_hashable' fold_left]. fold (kv_py t). fold (kv_py acc).
  rewrite dict_set_kv. apply IH.
Qed.

Lemma dict_of_nodup l : nodupb (map fst l) = true -> py_dict_of (kv_py l) = Ok (PDict (kv_py l)).
Proof.
  intro H. unfold py_dict_of. change (@nil (pyval * pyval)) with (kv_py []). rewrite dict_build_kv.
  rewrite (set_all_fresh l [] H). reflexivity.
Qed.

Lemma dict_merge_nodup a b :
  nodupb (map fst (a ++ b)) = true ->
  py_dict_merge (PDict (kv_py a)) (PDict (kv_py b)) = Ok (PDict (kv_py (a ++ b))).
Proof.
  intro H. cbn [py_dict_merge]. do 2 f_equal. rewrite <- (set_all_fresh b a H). clear H.
  revert a. induction b as [|[k v] t IH]; intro a; [reflexivity|].
  cbn [kv_py map fold_left fst snd]. fold (kv_py t). fold (kv_py a). rewrite dict_set_kv. apply IH.
Qed.

Lemma str_in_In x l : str_in x l = true <-> In x l.
Proof.
  unfold str_in. rewrite existsb_exists. split.
  - intros [y [Hy E]]. apply pystr_eqb_spec in E. subst. exact Hy.
  - intro H. exists x. split; [exact H | apply pystr_eqb_refl].
Qed.

Lemma nodupb_NoDup l : nodupb l = true <-> NoDup l.
Proof.
  induction l as [|x t IH]; cbn [nodupb].
  - split; [constructor | reflexivity].
  - rewrite andb_true_iff, negb_true_iff, IH. split.
    + intros [H1 H2]. constructor; [|exact H2]. intro Hin. apply str_in_In in Hin. congruence.
    + intro H. inversion H as [|? ? Hn Hd]; subst. split; [|exact Hd].
      destruct (str_in x t) eqn:E; [|reflexivity]. apply str_in_In in E. contradiction.
Qed.

Lemma class_in_mem c k ks : str_in k ks = true -> class_in tbl c [k] = true -> class_in tbl c ks = true.
Proof.
  unfold class_in. cbn [existsb]. rewrite orb_false_r. intros Hk Hc.
  apply existsb_exists. exists k. split; [apply str_in_In; exact Hk | exact Hc].
Qed.

Lemma subscript_0 x rest : py_subscript (PList (x :: rest)) (zint 0) = Ok x.
Proof.
  unfold py_subscript, zint, seq_index. cbn [length Z.of_nat Z.ltb Z.compare Z.leb orb Z.to_nat nth_error]. reflexivity.
Qed.

Section Bridge.
  Variable other_obj : N -> bool -> pyval.
  Variable chain : list pyval.
  Variable e : tenv.

  Notation tfpy := (tf_py other_obj).
  Notation heap_e := (class_heap other_obj chain e).

  Definition union_optional (ls : list leaf) : bool := Nat.eqb (length ls) 2 && existsb is_none_leaf ls.

  (* the objects the declaration is made of are the ones the model describes *)
  Fixpoint tf_wf (tf : tfield) : bool :=
    match tf with
    | TLeaf l => leaf_wf l
    | TArray i | TSet i => tf_wf i
    | TRef _ => true
    | TOpt _ f => tf_wf f
    | TUnion ls => forallb leaf_wf ls
    | TOther id b => other_ok (other_obj id b)
    end.

  (* TUnion is documented as "any OTHER AnyOf": not the two-option AnyOf with None, which is TOpt *)
  Definition tf_union_ok (tf : tfield) : bool :=
    match tf with TUnion ls => negb (union_optional ls) | _ => true end.

  Definition fields_wf (fs : list tfd) : bool := forallb (fun fd => tf_wf (f_ty fd)) fs.
  Definition fields_union_ok (fs : list tfd) : bool := forallb (fun fd => tf_union_ok (f_ty fd)) fs.
  Definition env_wf : bool := forallb (fun c => fields_wf (t_fields c) && fields_union_ok (t_fields c)) e.

  Lemma wf_is_inst tf : tf_wf tf = true -> is_inst (tfpy tf) = true.
  Proof.
    destruct tf; cbn [tf_wf tf_py]; intro H; try reflexivity.
    unfold other_ok in H. destruct (other_obj id is_oneof); try discriminate H. reflexivity.
  Qed.

  (* ---------------------------------------------------------------- _is_optional_anyof / the extraction on the embedded AnyOf *)

  Theorem src_optional_anyof_opt : forall (h : heap) nf f,
      tf_wf f = true ->
      src_is_optional_anyof h (tfpy (TOpt nf f)) = Ok (PBool true).
  Proof.
    intros h nf f Hf. pose proof (wf_is_inst f Hf) as Hi. cbn [tf_py].
    destruct nf; rewrite optional_anyof_py; cbn [forallb is_inst none_py leaf_py]; rewrite ?Hi; try reflexivity.
    cbn [length Nat.eqb existsb cls_of andb]. change (pystr_eqb (s2p "NoneField") (s2p "NoneField")) with true.
    rewrite orb_true_r. reflexivity.
  Qed.

  Theorem src_optional_anyof_union : forall (h : heap) ls,
      src_is_optional_anyof h (tfpy (TUnion ls)) = Ok (PBool (union_optional ls)).
  Proof.
    intros h ls. cbn [tf_py]. rewrite optional_anyof_py.
    - unfold union_optional. rewrite map_length. do 3 f_equal.
      induction ls as [|l t IH]; [reflexivity|]. cbn [map existsb]. rewrite IH. f_equal.
      unfold leaf_py. cbn [cls_of]. apply leaf_is_none.
    - induction ls as [|l t IH]; [reflexivity|]. exact IH.
  Qed.

  (* an embedded field whose class is NoneField is the NoneField leaf *)
  Lemma cls_of_none tf :
    tf_wf tf = true -> pystr_eqb (cls_of (tfpy tf)) (s2p "NoneField") = true -> tfpy tf = none_py.
  Proof.
    destruct tf as [l|i|i|c'|nf f|ls|id b]; cbn [tf_wf tf_py]; intros Hw Hc; try (vm_compute in Hc; discriminate Hc).
    - unfold leaf_py in Hc |- *. cbn [cls_of] in Hc. rewrite pystr_eqb_sym, leaf_is_none in Hc.
      destruct l as [f| | |]; try discriminate Hc. destruct f; try discriminate Hc. reflexivity.
    - unfold other_ok in Hw. destruct (other_obj id b) as [| | | | | | | | | |c attrs|]; try discriminate Hw.
      cbn [cls_of] in Hc. apply pystr_eqb_spec in Hc. subst c.
      apply andb_true_iff in Hw as [Hw _]. apply andb_true_iff in Hw as [Hw _]. apply andb_true_iff in Hw as [Hw _].
      apply andb_true_iff in Hw as [_ H2]. vm_compute in H2. discriminate H2.
  Qed.

  (* _extract_non_nonefield_from_optional returns the option that is not None, wherever None is listed:
     the model's remap_field *)
  Theorem src_extract_opt : forall (h : heap) nf f,
      tf_wf f = true ->
      src_extract_non_nonefield_from_optional h (tfpy (TOpt nf f)) = Ok (tfpy f).
  Proof.
    intros h nf f Hf. pose proof (wf_is_inst f Hf) as Hi. cbn [tf_py].
    destruct nf; rewrite extract_anyof_py; try reflexivity; try exact Hi.
    destruct (pystr_eqb (cls_of (tfpy f)) (s2p "NoneField")) eqn:E; [|reflexivity].
    rewrite (cls_of_none f Hf E). reflexivity.
  Qed.

  (* _leading_option: the non-None option of the two-option AnyOf with None, the first option of any other AnyOf *)
  Theorem src_leading_option_opt : forall (h : heap) nf f,
      tf_wf f = true ->
      src_leading_option h (tfpy (TOpt nf f)) = Ok (tfpy f).
  Proof.
    intros h nf f Hf. unfold src_leading_option. rewrite (src_optional_anyof_opt h nf f Hf).
    cbn [bind py_truthy]. rewrite (src_extract_opt h nf f Hf). reflexivity.
  Qed.

  Theorem src_leading_option_union : forall (h : heap) l ls,
      union_optional (l :: ls) = false ->
      src_leading_option h (tfpy (TUnion (l :: ls))) = Ok (leaf_py l).
  Proof.
    intros h l ls Hu. unfold src_leading_option. rewrite (src_optional_anyof_union h (l :: ls)), Hu.
    cbn [bind py_truthy tf_py map]. rewrite anyof_get_fields. cbn [bind]. rewrite subscript_0. reflexivity.
  Qed.

  (* ---------------------------------------------------------------- _structure_simplicity_level: the loop over the fields *)

  Section Loop.
    Variable n : nat.
    Variable rec : pyval -> res pyval.
    Hypothesis Hrec : forall c', level_of e n c' <> Raise Unmodelled -> rec (ref c') = level_res (level_of e n c').

    (* the loop of Ser/Trusted.v level_of, given a name (the same text) *)
    Fixpoint go_model (fs : list tfd) (lv : level) {struct fs} : res (option level) :=
      match fs with
      | [] => Ok (Some lv)
      | fd :: t =>
          let via_class c' :=
              match level_of e n c' with
              | Raise x => Raise x
              | Ok None => Ok None
              | Ok (Some _) => go_model t Nested
              end in
          match f_ty fd with
          | TLeaf l => go_model t (if leaf_is_ser l then Nested else lv)
          | TOpt _ _ => go_model t Nested
          | TUnion _ => go_model t lv
          | TArray (TLeaf _) => go_model t lv
          | TArray (TRef c') => via_class c'
          | TArray _ => Ok None
          | TSet (TLeaf _) => go_model t Nested
          | TSet (TRef c') => via_class c'
          | TSet _ => Ok None
          | TRef c' => via_class c'
          | TOther _ _ => Ok None
          end
      end.

    Definition after (k : pyval -> res pyval) (r : res (option level)) : res pyval :=
      match r with
      | Ok (Some lv) => k (level_val lv)
      | Ok None => Ok (PBool false)
      | Raise x => Raise x
      end.

    Notation loop1 := (src_structure_simplicity_level_loop1 heap_e rec).
    Notation loop2 := (src_structure_simplicity_level_loop2 heap_e rec).
    Notation nested := (level_val Nested).

    Lemma loop2_optional v k : forall fs s,
        src_is_optional_anyof heap_e v = Ok (PBool true) -> fs <> [] -> loop2 v k fs s = k nested.
    Proof.
      induction fs as [|f t IH]; intros s Ho Hne; [contradiction|].
      cbn [src_structure_simplicity_level_loop2]. rewrite Ho. cbn [bind py_truthy].
      destruct t as [|g t']; [reflexivity|]. apply IH; [exact Ho|discriminate].
    Qed.

    Lemma loop2_plain v k : forall fs s,
        src_is_optional_anyof heap_e v = Ok (PBool false) ->
        Forall (fun f => fld_isinstance tbl f valid = Ok true) fs -> loop2 v k fs s = k s.
    Proof.
      induction fs as [|f t IH]; intros s Ho Hv; [reflexivity|].
      inversion Hv as [|? ? Hf Ht]; subst.
      cbn [src_structure_simplicity_level_loop2]. rewrite Ho. cbn [bind py_truthy]. rewrite Hf.
      cbn [py_not bind negb]. apply IH; assumption.
    Qed.

    (* the test `isinstance(x, ClassReference) and _structure_simplicity_level(x.get_type)` on a reference *)
    Lemma ref_test c' :
      level_of e n c' <> Raise Unmodelled ->
      py_and (fld_isinstance tbl (tfpy (TRef c')) [s2p "ClassReference"])
             (fun _ => t1 <- fld_getattr heap_e (tfpy (TRef c')) (s2p "get_type") ;; t2 <- rec t1 ;; Ok (py_truthy t2)) =
      match level_of e n c' with
      | Raise x => Raise x
      | Ok None => Ok false
      | Ok (Some _) => Ok true
      end.
    Proof.
      intro Hn. cbn [tf_py]. rewrite isinst_struct. eval_cls. cbn [py_and bind].
      change (fld_getattr heap_e (PStruct (s2p "ClassReference") [(s2p "get_type", ref c')]) (s2p "get_type"))
        with (@Ok pyval (ref c')).
      cbn [bind]. rewrite (Hrec c' Hn).
      destruct (level_of e n c') as [[[|]|]|x]; reflexivity.
    Qed.

    Lemma loop1_eq : forall fs lv k,
        fields_wf fs = true -> fields_union_ok fs = true ->
        go_model fs lv <> Raise Unmodelled ->
        loop1 k (map (fun fd => tfpy (f_ty fd)) fs) (level_val lv) = after k (go_model fs lv).
    Proof.
      induction fs as [|fd t IH]; intros lv k Hwf Hun Hm; [reflexivity|].
      cbn [fields_wf forallb] in Hwf. apply andb_true_iff in Hwf as [Hw Hwt].
      cbn [fields_union_ok forallb] in Hun. apply andb_true_iff in Hun as [Hu Hut].
      fold (fields_wf t) in Hwt. fold (fields_union_ok t) in Hut.
      cbn [map]. cbn [go_model] in Hm |- *.
      destruct (f_ty fd) as [l|item|item|c'|nf f|ls|id b] eqn:Hty.
      - (* TLeaf *)
        destruct (leaf_facts l Hw) as (Hk & Hv & Hs & _).
        cbn [src_structure_simplicity_level_loop1 tf_py]. unfold leaf_py. rewrite !isinst_struct, Hk, Hv, Hs.
        cbn [bind]. rewrite <- (IH _ k Hwt Hut Hm). destruct (leaf_is_ser l); reflexivity.
      - (* TArray *)
        cbn [src_structure_simplicity_level_loop1]. cbn [tf_py]. rewrite !isinst_struct. eval_cls. cbn [bind].
        change (fld_getattr heap_e (PStruct (s2p "Array") [(s2p "items", tfpy item)]) (s2p "items"))
          with (@Ok pyval (tfpy item)).
        cbn [bind]. cbn [tf_wf] in Hw.
        destruct item as [l|i2|i2|c'|nf f|ls|id b].
        + destruct (leaf_facts l Hw) as (Hk & Hv & _).
          cbn [tf_py]. unfold leaf_py. rewrite !isinst_struct, Hk, Hv. cbn [bind].
          exact (IH _ k Hwt Hut Hm).
        + cbn [tf_py]. rewrite !isinst_struct. eval_cls. reflexivity.
        + cbn [tf_py]. rewrite !isinst_struct. eval_cls. reflexivity.
        + assert (Hn : level_of e n c' <> Raise Unmodelled).
          { intro E. apply Hm. rewrite E. reflexivity. }
          replace (fld_isinstance tbl (tfpy (TRef c')) valid) with (@Ok bool false)
            by (cbn [tf_py]; rewrite isinst_struct; eval_cls; reflexivity).
          cbn [bind]. rewrite (ref_test c' Hn).
          destruct (level_of e n c') as [[lv'|]|x]; cbn [bind after]; try reflexivity.
          exact (IH Nested k Hwt Hut Hm).
        + cbn [tf_py]. unfold anyof_py. rewrite !isinst_struct. eval_cls. reflexivity.
        + cbn [tf_py]. unfold anyof_py. rewrite !isinst_struct. eval_cls. reflexivity.
        + cbn [tf_wf] in Hw. cbn [tf_py]. unfold other_ok in Hw.
          destruct (other_obj id b) as [| | | | | | | | | |c attrs|]; try discriminate Hw.
          apply andb_true_iff in Hw as [Hw _]. apply andb_true_iff in Hw as [Hw H4]. apply andb_true_iff in Hw as [Hw H3].
          apply andb_true_iff in Hw as [H1 H2]. apply negb_true_iff in H2, H4.
          rewrite !isinst_struct, H1, H2, H4. reflexivity.
      - (* TSet *)
        cbn [src_structure_simplicity_level_loop1]. cbn [tf_py]. rewrite !isinst_struct. eval_cls. cbn [bind].
        change (fld_getattr heap_e (PStruct (s2p "Set") [(s2p "items", tfpy item)]) (s2p "items"))
          with (@Ok pyval (tfpy item)).
        cbn [bind]. cbn [tf_wf] in Hw.
        destruct item as [l|i2|i2|c'|nf f|ls|id b].
        + destruct (leaf_facts l Hw) as (Hk & Hv & _).
          cbn [tf_py]. unfold leaf_py. rewrite !isinst_struct, Hk, Hv. cbn [bind].
          exact (IH Nested k Hwt Hut Hm).
        + cbn [tf_py]. rewrite !isinst_struct. eval_cls. reflexivity.
        + cbn [tf_py]. rewrite !isinst_struct. eval_cls. reflexivity.
        + assert (Hn : level_of e n c' <> Raise Unmodelled).
          { intro E. apply Hm. rewrite E. reflexivity. }
          replace (fld_isinstance tbl (tfpy (TRef c')) valid) with (@Ok bool false)
            by (cbn [tf_py]; rewrite isinst_struct; eval_cls; reflexivity).
          cbn [bind]. rewrite (ref_test c' Hn).
          destruct (level_of e n c') as [[lv'|]|x]; cbn [bind after]; try reflexivity.
          exact (IH Nested k Hwt Hut Hm).
        + cbn [tf_py]. unfold anyof_py. rewrite !isinst_struct. eval_cls. reflexivity.
        + cbn [tf_py]. unfold anyof_py. rewrite !isinst_struct. eval_cls. reflexivity.
        + cbn [tf_wf] in Hw. cbn [tf_py]. unfold other_ok in Hw.
          destruct (other_obj id b) as [| | | | | | | | | |c attrs|]; try discriminate Hw.
          apply andb_true_iff in Hw as [Hw _]. apply andb_true_iff in Hw as [Hw H4]. apply andb_true_iff in Hw as [Hw H3].
          apply andb_true_iff in Hw as [H1 H2]. apply negb_true_iff in H2, H4.
          rewrite !isinst_struct, H1, H2, H4. reflexivity.
      - (* TRef *)
        assert (Hn : level_of e n c' <> Raise Unmodelled).
        { intro E. apply Hm. rewrite E. reflexivity. }
        cbn [src_structure_simplicity_level_loop1].
        replace (fld_isinstance tbl (tfpy (TRef c')) [s2p "SerializableField"]) with (@Ok bool false)
          by (cbn [tf_py]; rewrite isinst_struct; eval_cls; reflexivity).
        replace (fld_isinstance tbl (tfpy (TRef c')) valid) with (@Ok bool false)
          by (cbn [tf_py]; rewrite isinst_struct; eval_cls; reflexivity).
        replace (fld_isinstance tbl (tfpy (TRef c')) [s2p "AnyOf"]) with (@Ok bool false)
          by (cbn [tf_py]; rewrite isinst_struct; eval_cls; reflexivity).
        replace (fld_isinstance tbl (tfpy (TRef c')) [s2p "Array"]) with (@Ok bool false)
          by (cbn [tf_py]; rewrite isinst_struct; eval_cls; reflexivity).
        replace (fld_isinstance tbl (tfpy (TRef c')) [s2p "Set"]) with (@Ok bool false)
          by (cbn [tf_py]; rewrite isinst_struct; eval_cls; reflexivity).
        cbn [bind]. rewrite (ref_test c' Hn).
        destruct (level_of e n c') as [[lv'|]|x]; cbn [bind after]; try reflexivity.
        exact (IH Nested k Hwt Hut Hm).
      - (* TOpt *)
        cbn [tf_wf] in Hw.
        cbn [src_structure_simplicity_level_loop1].
        replace (fld_isinstance tbl (tfpy (TOpt nf f)) [s2p "SerializableField"]) with (@Ok bool false)
          by (cbn [tf_py]; unfold anyof_py; rewrite isinst_struct; eval_cls; reflexivity).
        replace (fld_isinstance tbl (tfpy (TOpt nf f)) valid) with (@Ok bool false)
          by (cbn [tf_py]; unfold anyof_py; rewrite isinst_struct; eval_cls; reflexivity).
        replace (fld_isinstance tbl (tfpy (TOpt nf f)) [s2p "AnyOf"]) with (@Ok bool true)
          by (cbn [tf_py]; unfold anyof_py; rewrite isinst_struct; eval_cls; reflexivity).
        cbn [bind].
        replace (fld_getattr heap_e (tfpy (TOpt nf f)) (s2p "get_fields()"))
          with (@Ok pyval (PList (if nf then [none_py; tfpy f] else [tfpy f; none_py])))
          by (cbn [tf_py]; rewrite anyof_get_fields; reflexivity).
        cbn [bind py_iter].
        rewrite loop2_optional; [exact (IH Nested k Hwt Hut Hm) | exact (src_optional_anyof_opt heap_e nf f Hw) | destruct nf; discriminate].
      - (* TUnion *)
        cbn [tf_wf] in Hw. cbn [tf_union_ok] in Hu. apply negb_true_iff in Hu.
        cbn [src_structure_simplicity_level_loop1].
        replace (fld_isinstance tbl (tfpy (TUnion ls)) [s2p "SerializableField"]) with (@Ok bool false)
          by (cbn [tf_py]; unfold anyof_py; rewrite isinst_struct; eval_cls; reflexivity).
        replace (fld_isinstance tbl (tfpy (TUnion ls)) valid) with (@Ok bool false)
          by (cbn [tf_py]; unfold anyof_py; rewrite isinst_struct; eval_cls; reflexivity).
        replace (fld_isinstance tbl (tfpy (TUnion ls)) [s2p "AnyOf"]) with (@Ok bool true)
          by (cbn [tf_py]; unfold anyof_py; rewrite isinst_struct; eval_cls; reflexivity).
        cbn [bind].
        replace (fld_getattr heap_e (tfpy (TUnion ls)) (s2p "get_fields()")) with (@Ok pyval (PList (map leaf_py ls)))
          by (cbn [tf_py]; rewrite anyof_get_fields; reflexivity).
        cbn [bind py_iter].
        rewrite loop2_plain; [exact (IH lv k Hwt Hut Hm) | rewrite src_optional_anyof_union, Hu; reflexivity |].
        clear - Hw. induction ls as [|l t' IHl]; [constructor|].
        cbn [forallb] in Hw. apply andb_true_iff in Hw as [Hl Ht]. cbn [map]. constructor; [|exact (IHl Ht)].
        destruct (leaf_facts l Hl) as (Hk & Hv & _). unfold leaf_py. rewrite isinst_struct, Hk, Hv. reflexivity.
      - (* TOther *)
        cbn [tf_wf] in Hw. cbn [tf_py]. unfold other_ok in Hw.
        destruct (other_obj id b) as [| | | | | | | | | |c attrs|]; try discriminate Hw.
        apply andb_true_iff in Hw as [Hw H5]. apply andb_true_iff in Hw as [Hw H4]. apply andb_true_iff in Hw as [Hw H3].
        apply andb_true_iff in Hw as [H1 H2]. apply negb_true_iff in H2, H3, H4.
        cbn [src_structure_simplicity_level_loop1]. rewrite !isinst_struct, H1, H2, H3, H4. cbn [bind py_and].
        destruct (class_in tbl c [s2p "Array"]) eqn:HA; cbn [orb] in H5.
        + cbn [bind]. unfold fld_getattr.
          destruct (alist_get attrs (s2p "items")) as [it|]; [|discriminate H5].
          apply andb_true_iff in H5 as [H6 H7]. unfold not_inst_of in H6, H7. cbn [bind].
          destruct (fld_isinstance tbl it valid) as [[|]|]; try discriminate H6.
          destruct (fld_isinstance tbl it [s2p "ClassReference"]) as [[|]|]; try discriminate H7.
          reflexivity.
        + destruct (class_in tbl c [s2p "Set"]) eqn:HS; [|reflexivity].
          cbn [bind]. unfold fld_getattr.
          destruct (alist_get attrs (s2p "items")) as [it|]; [|discriminate H5].
          apply andb_true_iff in H5 as [H6 H7]. unfold not_inst_of in H6, H7. cbn [bind].
          destruct (fld_isinstance tbl it valid) as [[|]|]; try discriminate H6.
          destruct (fld_isinstance tbl it [s2p "ClassReference"]) as [[|]|]; try discriminate H7.
          reflexivity.
    Qed.
  End Loop.

  Lemma level_of_S n cn :
    level_of e (S n) cn =
    match find_tclass e cn with
    | None => Raise Unmodelled
    | Some c => if negb (mapper_simple (t_mapper c)) then Raise ValueError else go_model n (t_fields c) NotNested
    end.
  Proof. reflexivity. Qed.

  Lemma env_wf_find : forall cn c,
      env_wf = true -> find_tclass e cn = Some c ->
      fields_wf (t_fields c) = true /\ fields_union_ok (t_fields c) = true.
  Proof.
    unfold env_wf. induction e as [|c0 t IH]; intros cn c Hw Hf; [discriminate Hf|].
    cbn [forallb] in Hw. apply andb_true_iff in Hw as [H0 Ht]. cbn [find_tclass] in Hf.
    destruct (pystr_eqb (t_name c0) cn).
    - inversion Hf; subst. apply andb_true_iff in H0. exact H0.
    - exact (IH cn c Ht Hf).
  Qed.

  Lemma heap_fields cn c :
    find_tclass e cn = Some c ->
    heap_e cn (s2p "get_all_fields_by_name()") = Some (fields_py other_obj (t_fields c)) /\
    heap_e cn (s2p "_deserialization_mapper") = None /\
    heap_e cn (s2p "_serialization_mapper") = mapper_attr chain (t_mapper c).
  Proof. intro Hf. unfold class_heap. rewrite Hf. repeat split. Qed.

  (* _is_mapper_simple on a class of the environment *)
  Theorem src_mapper_simple_eq : forall cn c,
      chain_ok chain = true -> find_tclass e cn = Some c ->
      src_is_mapper_simple heap_e (ref cn) = Ok (PBool (mapper_simple (t_mapper c))).
  Proof.
    intros cn c Hc Hf. destruct (heap_fields cn c Hf) as (_ & Hd & Hs).
    exact (src_mapper_simple_heap heap_e chain cn (t_mapper c) Hc Hd Hs).
  Qed.

  (* _structure_simplicity_level: wherever the model predicts, the source computes the same level, the same
     False, raises the same exception class (ValueError for an unsupported mapper) *)
  Theorem src_level_eq : forall fuel cn,
      chain_ok chain = true -> env_wf = true ->
      level_of e fuel cn <> Raise Unmodelled ->
      src_structure_simplicity_level fuel heap_e (ref cn) = level_res (level_of e fuel cn).
  Proof.
    intros fuel cn Hc Hw. revert cn. induction fuel as [|n IH]; intros cn Hm; [reflexivity|].
    rewrite level_of_S in Hm |- *. cbn [src_structure_simplicity_level].
    destruct (find_tclass e cn) as [c|] eqn:Hf; [|contradiction Hm; reflexivity].
    rewrite (src_mapper_simple_eq cn c Hc Hf). cbn [bind py_truthy py_not].
    destruct (mapper_simple (t_mapper c)); cbn [negb bind] in Hm |- *; [|reflexivity].
    destruct (heap_fields cn c Hf) as (Hg & _ & _).
    rewrite ref_getattr, Hg. cbn [bind]. unfold fields_py. cbn [py_dict_values py_dict_items bind]. rewrite map_map. cbn [snd].
    destruct (env_wf_find cn c Hw Hf) as [H1 H2].
    transitivity (after (fun v => Ok v) (go_model n (t_fields c) NotNested));
      [exact (loop1_eq n (src_structure_simplicity_level n heap_e) IH (t_fields c) NotNested (fun v => Ok v) H1 H2 Hm)|].
    destruct (go_model n (t_fields c) NotNested) as [[lv|]|x]; reflexivity.
  Qed.

  (* ---------------------------------------------------------------- _get_enum_mapping *)

  Definition target := (pystr * etarget)%type.
  (* _enum_lookup: the object the document value is looked up in *)
  Definition lookup_py (t : etarget) : pyval :=
    let '(cls, ms, byv) := t in if byv then enum_byv_py cls ms else enum_cls_py cls ms.
  Definition target_kv (t : target) : pystr * pyval := (fst t, lookup_py (snd t)).
  Definition targets_val (ts : list target) : pyval := PDict (kv_py (map target_kv ts)).

  (* the source builds the mapping of the plain Enum fields first, then the one of the Optional[Enum] fields,
     and merges them: the resulting dict lists the plain Enum fields FIRST (Ser/Trusted.v enum_order) *)
  Definition plain_fd (fd : tfd) : bool := is_plain_enum (f_ty fd).

  Definition items_py (fs : list tfd) : list (pyval * pyval) :=
    map (fun fd => (PStr (f_name fd), tfpy (f_ty fd))) fs.

  Definition tgt_py (k : pystr) (o : option etarget) : option (pyval * pyval) :=
    match o with Some t => Some (PStr k, lookup_py t) | None => None end.

  Lemma enum_targets_app : forall a b, enum_targets (a ++ b) = enum_targets a ++ enum_targets b.
  Proof. intros a b. unfold enum_targets. apply flat_map_app. Qed.

  Lemma filterM_targets (F : pyval * pyval -> res (option (pyval * pyval))) (sel : tfield -> bool) :
    (forall k tf, tf_wf tf = true -> tf_union_ok tf = true ->
                  F (PStr k, tfpy tf) = Ok (if sel tf then tgt_py k (enum_target tf) else None)) ->
    forall fs, fields_wf fs = true -> fields_union_ok fs = true ->
    filterM F (items_py fs) = Ok (kv_py (map target_kv (enum_targets (filter (fun fd => sel (f_ty fd)) fs)))).
  Proof.
    intros HF. induction fs as [|fd t IH]; intros Hw Hu; [reflexivity|].
    cbn [fields_wf forallb] in Hw. apply andb_true_iff in Hw as [Hw Hwt].
    cbn [fields_union_ok forallb] in Hu. apply andb_true_iff in Hu as [Hu Hut].
    cbn [items_py map filterM filter]. fold (items_py t). rewrite (HF _ _ Hw Hu), (IH Hwt Hut). cbn [bind].
    destruct (sel (f_ty fd)); [|reflexivity].
    unfold enum_targets. cbn [flat_map].
    destruct (enum_target (f_ty fd)) as [x|]; reflexivity.
  Qed.

  Lemma enum_order_perm fs : Permutation (enum_order fs) fs.
  Proof.
    unfold enum_order. induction fs as [|fd t IH]; [constructor|].
    cbn [filter]. destruct (is_plain_enum (f_ty fd)); cbn [negb app].
    - constructor. exact IH.
    - apply Permutation_sym, Permutation_cons_app, Permutation_sym. exact IH.
  Qed.

  Lemma enum_order_nodup fs : nodupb (map f_name fs) = true -> nodupb (map f_name (enum_order fs)) = true.
  Proof.
    rewrite !nodupb_NoDup. apply Permutation_NoDup, Permutation_map, Permutation_sym, enum_order_perm.
  Qed.

  Lemma targets_keys : forall l,
      nodupb (map f_name l) = true ->
      nodupb (map fst (enum_targets l)) = true /\
      (forall k, str_in k (map f_name l) = false -> str_in k (map fst (enum_targets l)) = false).
  Proof.
    unfold enum_targets. induction l as [|fd t IH]; intro Hn.
    - split; [reflexivity|intros; reflexivity].
    - cbn [map nodupb] in Hn. apply andb_true_iff in Hn as [H1 H2]. apply negb_true_iff in H1.
      destruct (IH H2) as [Hr Hk]. cbn [flat_map].
      assert (Hsub : forall k, str_in k (map f_name (fd :: t)) = false ->
                               str_in k (map fst (flat_map (fun fd0 => match enum_target (f_ty fd0) with
                                                                       | Some x => [(f_name fd0, x)] | None => [] end) t)) = false).
      { intros k Hkk. apply Hk. unfold str_in in Hkk |- *. cbn [map existsb] in Hkk. apply orb_false_iff in Hkk as [_ Hkk]. exact Hkk. }
      destruct (enum_target (f_ty fd)) as [x|]; cbn [app]; [|split; assumption].
      split.
      + cbn [map fst nodupb]. rewrite (Hk _ H1), Hr. reflexivity.
      + intros k Hkk. unfold str_in in Hkk |- *. cbn [map existsb fst] in Hkk |- *.
        apply orb_false_iff in Hkk as [Hk1 Hk2]. rewrite Hk1. cbn [orb]. apply Hk. exact Hk2.
  Qed.

  (* the test `isinstance(x, Enum) and getattr(x, "_is_enum", False)` on an embedded field *)
  Lemma enum_test (h : heap) tf :
    tf_wf tf = true ->
    py_and (fld_isinstance tbl (tfpy tf) [s2p "Enum"])
           (fun _ => t <- fld_getattr_def h (tfpy tf) (s2p "_is_enum") (PBool false) ;; Ok (py_truthy t)) =
    Ok (is_plain_enum tf).
  Proof.
    intro Ht. destruct tf as [l|i|i|c'|nf f|ls|id b]; cbn [tf_py is_plain_enum].
    - cbn [tf_wf] in Ht. destruct (leaf_facts l Ht) as (Hk & _). pose proof (leaf_is_enum l Ht) as He.
      unfold leaf_py. rewrite isinst_struct, Hk, He.
      destruct l as [f|cls ms byv|vals|id isn]; reflexivity.
    - rewrite isinst_struct. eval_cls. reflexivity.
    - rewrite isinst_struct. eval_cls. reflexivity.
    - rewrite isinst_struct. eval_cls. reflexivity.
    - unfold anyof_py. rewrite isinst_struct. eval_cls. reflexivity.
    - unfold anyof_py. rewrite isinst_struct. eval_cls. reflexivity.
    - cbn [tf_wf] in Ht. unfold other_ok in Ht.
      destruct (other_obj id b) as [| | | | | | | | | |c0 attrs|]; try discriminate Ht.
      apply andb_true_iff in Ht as [Ht _]. apply andb_true_iff in Ht as [Ht _]. apply andb_true_iff in Ht as [Ht _].
      apply andb_true_iff in Ht as [H1 H2]. apply negb_true_iff in H2.
      rewrite isinst_struct, H1.
      assert (HE : class_in tbl c0 [s2p "Enum"] = false).
      { destruct (class_in tbl c0 [s2p "Enum"]) eqn:E; [|reflexivity].
        rewrite (class_in_mem c0 (s2p "Enum") valid eq_refl E) in H2. discriminate H2. }
      rewrite HE. reflexivity.
  Qed.

  (* _enum_lookup of an Enum over an enum class: its members by name, or by value *)
  Lemma enum_lookup_py (h : heap) cls ms byv :
    src_enum_lookup h (leaf_py (LEnum cls ms byv)) = Ok (lookup_py (cls, ms, byv)).
  Proof. destruct byv; reflexivity. Qed.

  Lemma plain_target tf : is_plain_enum tf = true -> exists cls ms byv, tf = TLeaf (LEnum cls ms byv).
  Proof.
    destruct tf as [[f|cls ms byv|vals|id isn]|i|i|c'|nf f|ls|id b]; cbn [is_plain_enum]; try discriminate.
    intros _. exists cls, ms, byv. reflexivity.
  Qed.

  (* what follows the test: the entry of the mapping *)
  Lemma entry_after_test (h : heap) k tf :
    (if is_plain_enum tf then t <- src_enum_lookup h (tfpy tf) ;; Ok (Some (PStr k, t)) else Ok None) =
    Ok (if is_plain_enum tf then tgt_py k (enum_target tf) else None).
  Proof.
    destruct (is_plain_enum tf) eqn:E; [|reflexivity].
    destruct (plain_target tf E) as (cls & ms & byv & ->). cbn [tf_py]. rewrite enum_lookup_py. reflexivity.
  Qed.

  (* _get_enum_mapping: the dict the source builds is the model's enum_targets, taken in the order
     plain Enum fields first *)
  Theorem src_enum_mapping_eq : forall cn c,
      find_tclass e cn = Some c ->
      fields_wf (t_fields c) = true ->
      fields_union_ok (t_fields c) = true ->
      nodupb (map f_name (t_fields c)) = true ->
      src_get_enum_mapping heap_e (ref cn) = Ok (targets_val (enum_targets (enum_order (t_fields c)))).
  Proof.
    intros cn c Hf Hw Hu Hn. destruct (heap_fields cn c Hf) as (Hg & _ & _).
    unfold src_get_enum_mapping. rewrite ref_getattr, Hg. cbn [bind]. unfold fields_py. cbn [py_dict_items bind].
    fold (items_py (t_fields c)).
    match goal with |- context [filterM ?F (items_py (t_fields c))] => set (F1 := F) end.
    assert (HF1 : forall k tf, tf_wf tf = true -> tf_union_ok tf = true ->
                  F1 (PStr k, tfpy tf) = Ok (if is_plain_enum tf then tgt_py k (enum_target tf) else None)).
    { intros k tf Ht _. subst F1. cbv beta iota. rewrite (enum_test heap_e tf Ht). cbn [bind].
      apply entry_after_test. }
    rewrite (filterM_targets F1 is_plain_enum HF1 (t_fields c) Hw Hu). cbn [bind].
    pose proof (enum_order_nodup _ Hn) as Hn'. unfold enum_order in Hn' |- *.
    rewrite enum_targets_app.
    set (A := enum_targets (filter (fun fd => is_plain_enum (f_ty fd)) (t_fields c))).
    match goal with |- context [filterM ?F (items_py (t_fields c))] => set (F2 := F) end.
    assert (HF2 : forall k tf, tf_wf tf = true -> tf_union_ok tf = true ->
                  F2 (PStr k, tfpy tf) = Ok (if negb (is_plain_enum tf) then tgt_py k (enum_target tf) else None)).
    { intros k tf Ht Hut. subst F2. cbv beta iota.
      destruct tf as [l|i|i|c'|nf f|ls|id b]; cbn [tf_py].
      - cbn [tf_wf] in Ht. destruct (leaf_facts l Ht) as (Hk & _ & _ & Ha & _).
        unfold leaf_py. rewrite isinst_struct, Hk, Ha.
        destruct l as [f|cls ms byv|vals|id isn]; reflexivity.
      - rewrite isinst_struct. eval_cls. reflexivity.
      - rewrite isinst_struct. eval_cls. reflexivity.
      - rewrite isinst_struct. eval_cls. reflexivity.
      - (* TOpt *)
        cbn [tf_wf] in Ht.
        change (anyof_py (if nf then [none_py; tfpy f] else [tfpy f; none_py]) true) with (tfpy (TOpt nf f)).
        rewrite !(src_leading_option_opt heap_e nf f Ht).
        cbn [tf_py]. rewrite anyof_isinst, anyof_is_optional_def.
        cbn [py_and bind py_truthy]. rewrite (enum_test heap_e f Ht). cbn [bind].
        rewrite entry_after_test. cbn [is_plain_enum negb].
        destruct f as [[f0|cls ms byv|vals|id isn]|i|i|c'|nf' f'|ls|id b]; reflexivity.
      - (* TUnion *)
        cbn [tf_wf] in Ht. cbn [tf_union_ok] in Hut. apply negb_true_iff in Hut.
        destruct ls as [|l ls'].
        + cbn [map existsb]. rewrite anyof_isinst, anyof_is_optional_def. reflexivity.
        + change (anyof_py (map leaf_py (l :: ls')) (existsb is_none_leaf (l :: ls'))) with (tfpy (TUnion (l :: ls'))).
          rewrite !(src_leading_option_union heap_e l ls' Hut).
          cbn [tf_py]. rewrite anyof_isinst, anyof_is_optional_def.
          cbn [py_and bind py_truthy is_plain_enum negb enum_target].
          destruct (existsb is_none_leaf (l :: ls')) eqn:Hex; [|reflexivity].
          cbn [forallb] in Ht. apply andb_true_iff in Ht as [Hl _].
          change (leaf_py l) with (tfpy (TLeaf l)).
          rewrite (enum_test heap_e (TLeaf l) Hl). cbn [bind].
          rewrite entry_after_test. cbn [is_plain_enum enum_target].
          destruct l as [f0|cls ms byv|vals|id isn]; reflexivity.
      - cbn [tf_wf] in Ht. unfold other_ok in Ht.
        destruct (other_obj id b) as [| | | | | | | | | |c0 attrs|]; try discriminate Ht.
        apply andb_true_iff in Ht as [Ht _]. apply andb_true_iff in Ht as [Ht _]. apply andb_true_iff in Ht as [Ht H3].
        apply andb_true_iff in Ht as [H1 H2]. apply negb_true_iff in H3.
        rewrite isinst_struct, H1, H3. reflexivity. }
    rewrite (filterM_targets F2 (fun tf => negb (is_plain_enum tf)) HF2 (t_fields c) Hw Hu).
    set (B := enum_targets (filter (fun fd => negb (is_plain_enum (f_ty fd))) (t_fields c))).
    rewrite map_app, nodupb_app in Hn'. apply andb_true_iff in Hn' as [Hn1 Hn3]. apply andb_true_iff in Hn1 as [Hn1 Hn2].
    destruct (targets_keys _ Hn1) as [HAn _]. fold A in HAn.
    rewrite (dict_of_nodup (map target_kv A)) by (rewrite map_map; exact HAn). cbn [bind].
    destruct (targets_keys _ Hn2) as [HBn _]. fold B in HBn.
    rewrite (dict_of_nodup (map target_kv B)) by (rewrite map_map; exact HBn). cbn [bind].
    rewrite dict_merge_nodup.
    - unfold targets_val. rewrite map_app. reflexivity.
    - rewrite <- map_app, map_map. change (map (fun x => fst (target_kv x)) (A ++ B)) with (map fst (A ++ B)).
      pose proof (enum_order_nodup _ Hn) as Hn''.
      pose proof (proj1 (targets_keys _ Hn'')) as HAB. unfold enum_order in HAB. rewrite enum_targets_app in HAB.
      exact HAB.
  Qed.

  (* the order is the ONLY difference with the model's enum_targets (t_fields c): the same entries up to a
     permutation (and no field can make the construction fail any more) *)
  Theorem enum_order_same : forall fs, Permutation (enum_targets fs) (enum_targets (enum_order fs)).
  Proof.
    intro fs. unfold enum_targets. apply Permutation_flat_map, Permutation_sym, enum_order_perm.
  Qed.

  Theorem src_eligible_eq : forall fuel cn,
      chain_ok chain = true -> env_wf = true ->
      level_of e fuel cn <> Raise Unmodelled ->
      eligible e fuel cn =
      match src_structure_simplicity_level fuel heap_e (ref cn) with Ok v => py_truthy v | Raise _ => false end.
  Proof.
    intros fuel cn Hc Hw Hm. rewrite (src_level_eq fuel cn Hc Hw Hm). unfold eligible.
    destruct (level_of e fuel cn) as [[[|]|]|x]; reflexivity.
  Qed.
End Bridge.

(* ------------------------------------------------------------------ the theorems, for re-export (Props/C10.v)

   src_mapper_simple_eq      _is_mapper_simple(cls)              = mapper_simple (t_mapper c)
   src_optional_anyof_opt    _is_optional_anyof(Optional[f])     = True
   src_optional_anyof_union  _is_optional_anyof(AnyOf[leaves])   = union_optional ls   (two options, one of them None)
   src_extract_opt           _extract_non_nonefield_from_optional(AnyOf pair) = the option that is not None  (remap_field)
   src_leading_option_opt / _union   _leading_option: that option for the pair, fields[0] for any other AnyOf
   src_level_eq              _structure_simplicity_level(cls)    = level_of e fuel cn   wherever the model predicts
   src_eligible_eq           its truth value                     = eligible e fuel cn
   src_enum_mapping_eq       _get_enum_mapping(cls)              = enum_targets, plain Enum fields FIRST (enum_order)
   enum_order_same           enum_targets (enum_order fs) and enum_targets fs: permuted entries

   Side conditions (booleans; satisfied by env_ex below): chain_ok (a list-valued mapper is a non-empty list),
   env_wf / fields_wf (LPrim is one of Number/Integer/Float/String/Boolean/NoneField; the object of an unmodelled
   field satisfies other_ok; a TUnion is not the two-option AnyOf with None, which is TOpt), nodupb of the field names
   (get_all_fields_by_name() is a dict), and "the model predicts": level_of <> Raise Unmodelled (every class that is
   reached is in the environment). *)

(* ------------------------------------------------------------------ the side conditions are satisfiable *)

Definition inst (c : string) (attrs : list (pystr * pyval)) : pyval := PStruct (s2p c) attrs.

(* the catalogue of unmodelled fields of harness/c10gen.py (OTHER): Map, Tuple, Anything, Array(), OneOf,
   Array[Array[Integer]], Array(items=[Integer(), String()]) *)
Definition other_cat (id : N) (is_oneof : bool) : pyval :=
  if is_oneof then inst "OneOf" []
  else if N.eqb id 12 then inst "Tuple" []
  else if N.eqb id 13 then inst "Anything" []
  else if N.eqb id 14 then inst "Array" [(s2p "items", PNone)]
  else if N.eqb id 16 then inst "Array" [(s2p "items", inst "Array" [(s2p "items", inst "Integer" [])])]
  else if N.eqb id 17 then inst "Array" [(s2p "items", PList [inst "Integer" []; inst "String" []])]
  else inst "Map" [].

Lemma other_cat_ok : forall id b, other_ok (other_cat id b) = true.
Proof.
  intros id b. unfold other_cat.
  destruct b, (N.eqb id 12), (N.eqb id 13), (N.eqb id 14), (N.eqb id 16), (N.eqb id 17); vm_compute; reflexivity.
Qed.

Definition chain_ex : list pyval := [PDict []; mappers_member "TO_LOWERCASE" 1].

Definition mkc (n : string) (fs : list tfd) (m : mapper) : tclass :=
  {| t_name := s2p n; t_fields := fs; t_required := []; t_additional := true; t_ignore_none := false;
     t_mapper := m; t_fast := false |}.
Definition mkf (n : string) (t : tfield) : tfd := {| f_name := s2p n; f_ty := t; f_default := None |}.
Definition t_int : tfield := TLeaf (LPrim (FNumber KInteger SPositive no_numc)).
Definition t_str : leaf := LPrim (FString no_strc).
Definition color_ms : list (pystr * pyval) := [(s2p "RED", PNum (NInt 1)); (s2p "GREEN", PNum (NInt 2))].
Definition t_color : leaf := LEnum (s2p "Color") color_ms false.

Definition env_ex : tenv :=
  [ mkc "In" [mkf "a" t_int] MapCamel;
    mkc "Bad" [mkf "m" (TOther 10 false)] MapNone;
    mkc "Fun" [mkf "a" t_int] (MapDict [(s2p "a", MFun)]);
    mkc "C" [ mkf "i" t_int; mkf "d" (TLeaf (LSer 1 false)); mkf "r" (TRef (s2p "In"));
              mkf "o" (TOpt false (TLeaf t_color)); mkf "u" (TUnion [t_str; t_color; LPrim FNone]);
              mkf "ar" (TArray (TRef (s2p "In"))); mkf "s" (TSet (TLeaf t_str)); mkf "e" (TLeaf t_color);
              mkf "ov" (TOpt true (TLeaf (LEnum (s2p "Color") color_ms true))) ]
        (MapDict [(s2p "i", MStr (s2p "k0"))]);
    mkc "D" [mkf "x" (TArray (TRef (s2p "Bad")))] MapUpper;
    mkc "L" [mkf "a" t_int] MapList ].

(* every hypothesis of the theorems holds of this environment, and the two sides compute to the same values:
   nested, False (through a class with a Map field), ValueError (function mapper, chained mappers) *)
Example C10_src_nonvacuous :
  chain_ok chain_ex = true /\ env_wf other_cat env_ex = true /\
  forallb (fun c => nodupb (map f_name (t_fields c))) env_ex = true /\
  forallb (fun cn => negb (match level_of env_ex 4 (s2p cn) with Raise Unmodelled => true | _ => false end))
          ["In"; "Bad"; "Fun"; "C"; "D"; "L"]%string = true /\
  map (fun cn => src_structure_simplicity_level 4 (class_heap other_cat chain_ex env_ex) (ref (s2p cn)))
      ["In"; "C"; "D"; "Fun"; "L"]%string =
  [Ok (level_val NotNested); Ok (level_val Nested); Ok (PBool false); Raise ValueError; Raise ValueError] /\
  map (fun cn => level_of env_ex 4 (s2p cn)) ["In"; "C"; "D"; "Fun"; "L"]%string =
  [Ok (Some NotNested); Ok (Some Nested); Ok None; Raise ValueError; Raise ValueError] /\
  src_get_enum_mapping (class_heap other_cat chain_ex env_ex) (ref (s2p "C")) =
  Ok (PDict [(PStr (s2p "e"), enum_cls_py (s2p "Color") color_ms); (PStr (s2p "o"), enum_cls_py (s2p "Color") color_ms);
             (PStr (s2p "ov"), enum_byv_py (s2p "Color") color_ms)]).
Proof. vm_compute. repeat split; reflexivity. Qed.

(* ------------------------------------------------------------------ where source and hand model part *)

(* (1) ORDER of the enum mapping.  Class C: a = AnyOf[Enum[Color], None]; b = Enum[Color].  The model's
   enum_targets lists a before b (declaration order); the source's dict lists b before a.  With the document
   {"a": {"x": 1}, "b": "NOPE"} the model's trusted path (Ser/Trusted.v apply_enums over enum_targets) raises
   TypeError (unhashable value of a, looked at first); in the order the source really uses it is KeyError
   ("NOPE", b looked at first) -- and KeyError is what typedpy raises. *)
Definition env_order : tenv :=
  [ mkc "C" [mkf "a" (TOpt false (TLeaf t_color)); mkf "b" (TLeaf t_color)] MapNone ].
Definition doc_order : list (pystr * pyval) :=
  [(s2p "a", PDict [(PStr (s2p "x"), PNum (NInt 1))]); (s2p "b", PStr (s2p "NOPE"))].

Example C10_src_enum_order_witness :
  apply_enums (enum_targets (t_fields (mkc "C" [mkf "a" (TOpt false (TLeaf t_color)); mkf "b" (TLeaf t_color)] MapNone)))
              doc_order doc_order = Raise TypeError /\
  apply_enums (enum_targets (enum_order (t_fields (mkc "C" [mkf "a" (TOpt false (TLeaf t_color)); mkf "b" (TLeaf t_color)] MapNone))))
              doc_order doc_order = Raise KeyError /\
  trusted_cls (fun _ _ => true) (fun _ _ => Raise Unmodelled) env_order 3 Nested (s2p "C")
              (PDict (map (fun p => (PStr (fst p), snd p)) doc_order)) = Raise KeyError.
Proof. vm_compute. repeat split; reflexivity. Qed.
(* (the third conjunct used to read Raise TypeError: Ser/Trusted.v's trusted_cls iterated in declaration order;
   the model has since been repaired to use the source's order, so it now raises KeyError as typedpy does) *)

(* (2) the side condition on TUnion is needed: AnyOf[None, String] written as a TUnion (the harness writes it
   as TOpt) is "not nested" for the model and "nested" for the source *)
Definition env_union : tenv := [ mkc "C" [mkf "x" (TUnion [LPrim FNone; t_str])] MapNone ].
Example C10_src_union_side_condition_needed :
  env_wf other_cat env_union = false /\
  level_of env_union 3 (s2p "C") = Ok (Some NotNested) /\
  src_structure_simplicity_level 3 (class_heap other_cat chain_ex env_union) (ref (s2p "C")) = Ok (level_val Nested).
Proof. vm_compute. repeat split; reflexivity. Qed.

Print Assumptions src_mapper_simple_heap.
Print Assumptions src_mapper_simple_eq.
Print Assumptions src_optional_anyof_opt.
Print Assumptions src_optional_anyof_union.
Print Assumptions src_extract_opt.
Print Assumptions src_leading_option_opt.
Print Assumptions src_leading_option_union.
Print Assumptions src_level_eq.
Print Assumptions src_eligible_eq.
Print Assumptions src_enum_mapping_eq.
Print Assumptions enum_order_same.
Print Assumptions other_cat_ok.
Print Assumptions C10_src_nonvacuous.
Print Assumptions C10_src_enum_order_witness.
Print Assumptions C10_src_union_side_condition_needed.
