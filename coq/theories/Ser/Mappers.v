(* Model of typedpy/serialization/mappers.py for the rename-only fragment
   (explicit name->key dicts, DoNotSerialize, nested "<field>._mapper" dicts, TO_LOWERCASE,
   TO_CAMELCASE, lists chaining these, inheritance, nested classes reached directly or
   through Array/Set, camel_case_convert), of the key handling of serialize_internal /
   construct_fields_map (typedpy/serialization/serialization.py) and of
   Serializer/Deserializer.__validate__ (serialization_wrappers.py).
   Executable; no proofs here.  Strings are ASCII code points (pystr = list N);
   field names are ASCII identifiers (hypothesis [ident] of the theorems). *)
From Coq Require Import ZArith NArith Bool List.
Import ListNotations.
From TP Require Import Base.PyVal.
Local Open Scope N_scope.

(* ------------------------------------------------------------------ ASCII string functions *)

Definition is_lower (c : N) : bool := (97 <=? c) && (c <=? 122).
Definition is_upper (c : N) : bool := (65 <=? c) && (c <=? 90).
Definition is_digit (c : N) : bool := (48 <=? c) && (c <=? 57).
Definition us : N := 95.    (* "_" *)
Definition dotc : N := 46.  (* "." *)
Definition up (c : N) : N := if is_lower c then c - 32 else c.
Definition low (c : N) : N := if is_upper c then c + 32 else c.

(* str.upper() *)
Definition upper (s : pystr) : pystr := map up s.

(* str.title(): a cased character is upper-cased when it follows an uncased one (or starts
   the string) and lower-cased otherwise *)
Fixpoint title_aux (prev_cased : bool) (s : pystr) : pystr :=
  match s with
  | [] => []
  | c :: t =>
      if is_lower c || is_upper c
      then (if prev_cased then low c else up c) :: title_aux true t
      else c :: title_aux false t
  end.
Definition title (s : pystr) : pystr := title_aux false s.

(* str.split(sep) for a one-character separator *)
Fixpoint split_aux (sep : N) (cur : pystr) (s : pystr) : list pystr :=
  match s with
  | [] => [rev cur]
  | c :: t => if N.eqb c sep then rev cur :: split_aux sep [] t else split_aux sep (c :: cur) t
  end.
Definition split_on (sep : N) (s : pystr) : list pystr := split_aux sep [] s.

(* _convert_to_camelcase: words[0] + "".join(w.title() for w in words[1:]) *)
Definition camel (s : pystr) : pystr :=
  match split_on us s with
  | [] => []
  | w :: ws => w ++ concat (map title ws)
  end.

(* the statement's field-name shapes: ASCII identifiers *)
Definition ident_char (c : N) : bool := is_lower c || is_upper c || is_digit c || N.eqb c us.
Definition ident (s : pystr) : bool := negb (Nat.eqb (length s) 0) && forallb ident_char s.

(* ------------------------------------------------------------------ mappers *)

Inductive mval :=
| Key (s : pystr)                       (* a str: the key to use *)
| DoNot                                 (* the class DoNotSerialize *)
| Sub (m : list (pystr * mval)).        (* a dict: value of a "<field>._mapper" entry *)

Definition amap := list (pystr * mval).   (* a dict mapper; insertion order kept *)

Inductive mapper :=
| MDict (d : amap)
| MLower            (* mappers.TO_LOWERCASE : maps to UPPER-case keys *)
| MCamel.           (* mappers.TO_CAMELCASE *)

(* Python == on mapper values; dicts compare order-free (keys are unique) *)
Fixpoint mval_eqb (a b : mval) {struct a} : bool :=
  match a, b with
  | Key s, Key t => pystr_eqb s t
  | DoNot, DoNot => true
  | Sub l, Sub m =>
      Nat.eqb (length l) (length m) &&
      (fix all (l : list (pystr * mval)) : bool :=
         match l with
         | [] => true
         | (k, v) :: t =>
             match alist_get m k with Some w => mval_eqb v w | None => false end && all t
         end) l
  | _, _ => false
  end.

Definition amap_eqb (a b : amap) : bool := mval_eqb (Sub a) (Sub b).

Definition suffix : pystr := [46; 95; 109; 97; 112; 112; 101; 114].   (* "._mapper" *)

Definition ends_with_suffix (k : pystr) : option pystr :=
  let n := length k in
  let m := length suffix in
  if Nat.leb m n then
    if pystr_eqb (skipn (n - m) k) suffix then Some (firstn (n - m) k) else None
  else None.

(* _apply_mapper for a str-valued entry whose current key is s
   (val = previous_mapper.get(key, key) = s):  latest_mapper.get(val, val) *)
Definition apply_key (latest : mapper) (s : pystr) : mval :=
  match latest with
  | MCamel => Key (camel s)
  | MLower => Key (upper s)
  | MDict d => match alist_get d s with Some v => v | None => Key s end
  end.

(* `isinstance(latest_mapper, dict) and v == latest_mapper.get(k)` *)
Definition shortcut (latest : mapper) (k : pystr) (v : mval) : bool :=
  match latest with
  | MDict d => match alist_get d k with Some w => mval_eqb v w | None => false end
  | _ => false
  end.

Inductive subsel :=
| SubNone                 (* falsy: keep the previous nested mapper *)
| SubMap (m : mapper)     (* compose this mapper onto the nested one *)
| SubBad.                 (* not a mapping: TypeError("Mapper must be a mapping") *)

(* latest_mapper.get(f"{mapped_key}._mapper", latest_mapper.get(f"{field_name}._mapper"))
   if latest_mapper is a dict, else the enum member itself *)
Definition sub_of (latest : mapper) (mapped_key field_name : pystr) : subsel :=
  match latest with
  | MDict d =>
      let r := match alist_get d (mapped_key ++ suffix) with
               | Some x => Some x
               | None => alist_get d (field_name ++ suffix)
               end in
      match r with
      | None => SubNone
      | Some (Sub []) => SubNone
      | Some (Sub sd) => SubMap (MDict sd)
      | Some (Key []) => SubNone
      | Some _ => SubBad
      end
  | e => SubMap e
  end.

(* str(DoNotSerialize): what f"{mapped_key}._mapper" starts with when the field is mapped to the class
   DoNotSerialize -- "<class 'typedpy.serialization.mappers.DoNotSerialize'>" *)
Definition donot_repr : pystr := [60; 99; 108; 97; 115; 115; 32; 39; 116; 121; 112; 101; 100; 112; 121; 46; 115; 101; 114; 105; 97; 108; 105; 122; 97; 116; 105; 111; 110; 46; 109; 97; 112; 112; 101; 114; 115; 46; 68; 111; 78; 111; 116; 83; 101; 114; 105; 97; 108; 105; 122; 101; 39; 62].

(* mapped_key of a nested entry on the deserialization side:
   _apply_mapper(latest_mapper, field_name, previous_mapper, for_serialization, is_self=True) *)
Definition mapped_key_of (latest : mapper) (fname : pystr) : res pystr :=
  match apply_key latest fname with
  | Key s => Ok s
  | DoNot => Ok donot_repr
  | Sub _ => Raise Unmodelled   (* key built from a dict *)
  end.

(* one iteration of the loop of add_mapper_to_aggregation(latest, previous, for_serialization)
   over previous.items(); [rec sub v] is the recursive call for a nested mapper *)
Definition add_step (for_ser : bool) (latest : mapper) (rec : mapper -> mval -> res mval)
           (kv : pystr * mval) (acc : amap) : res amap :=
  let '(k, v') := kv in
  if shortcut latest k v' then Ok (alist_set acc k v') else
  match v' with
  | DoNot => Ok (alist_set acc k DoNot)
  | Key s => Ok (alist_set acc k (apply_key latest s))
  | Sub _ =>
      match ends_with_suffix k with
      | None => Raise ValueError
      | Some fname =>
          mk <- (if for_ser then Ok fname else mapped_key_of latest fname) ;;
          match sub_of latest mk fname with
          | SubNone => Ok (alist_set acc (mk ++ suffix) v')
          | SubBad => Raise TypeError
          | SubMap sub =>
              r' <- rec sub v' ;;
              Ok (alist_set acc (mk ++ suffix) r')
          end
      end
  end.

Definition add_loop (for_ser : bool) (latest : mapper) (rec : mapper -> mval -> res mval)
  : amap -> amap -> res amap :=
  fix go (l : amap) (acc : amap) {struct l} : res amap :=
    match l with
    | [] => Ok acc
    | kv :: t => a <- add_step for_ser latest rec kv acc ;; go t a
    end.

(* add_mapper_to_aggregation; the previous mapper is passed as [Sub prev] so that the recursion
   into nested mappers is structural *)
Fixpoint add_val (for_ser : bool) (latest : mapper) (v : mval) {struct v} : res mval :=
  match v with
  | Sub prev =>
      r <- add_loop for_ser latest (fun sub v' => add_val for_ser sub v') prev [] ;;
      Ok (Sub r)
  | _ => Raise Unmodelled
  end.

Definition add_agg (for_ser : bool) (latest : mapper) (prev : amap) : res amap :=
  r <- add_val for_ser latest (Sub prev) ;;
  match r with Sub m => Ok m | _ => Raise Unmodelled end.

Definition fold_add (for_ser : bool) (ms : list mapper) (base : res amap) : res amap :=
  fold_left (fun acc m => a <- acc ;; add_agg for_ser m a) ms base.

(* ------------------------------------------------------------------ classes *)

Inductive ckind := KRef | KArr | KSet.    (* a nested class reached directly / through Array / Set *)

(* a class as the mapper code sees it: all fields by name (base classes first), and the list
   of mappers collected over the MRO (get_aggregated_serialization_mapper) *)
Inductive classdef :=
| Class (fields : list (pystr * option (ckind * classdef))) (ms : list mapper).

Definition cfields (c : classdef) := match c with Class f _ => f end.
Definition cms (c : classdef) := match c with Class _ m => m end.
Definition field_names (c : classdef) : list pystr := map fst (cfields c).

(* _set_base_mapper_no_op: [rec c'] is aggregate_*_mappers(nested class) *)
Definition base_step (rec : classdef -> res amap) (f : pystr * option (ckind * classdef)) (acc : amap) : res amap :=
  match f with
  | (k, None) => Ok (alist_set acc k (Key k))
  | (k, Some (kd, c')) =>
      sub <- rec c' ;;
      let acc1 :=
          match kd, sub with
          | KRef, _ => alist_set acc (k ++ suffix) (Sub sub)
          | _, [] => acc                        (* `if values:` *)
          | _, _ => alist_set acc (k ++ suffix) (Sub sub)
          end in
      Ok (alist_set acc1 k (Key k))
  end.

Definition base_loop (rec : classdef -> res amap)
  : list (pystr * option (ckind * classdef)) -> amap -> res amap :=
  fix go (fs : list (pystr * option (ckind * classdef))) (acc : amap) {struct fs} : res amap :=
    match fs with
    | [] => Ok acc
    | f :: t => a <- base_step rec f acc ;; go t a
    end.

(* aggregate_(de)serialization_mappers(cls, override_mapper=None, camel_case_convert=False)
   with an explicit list of mappers [L] in place of the class's own (structural on the class) *)
Fixpoint agg_list (for_ser : bool) (c : classdef) (L : option (list mapper)) {struct c} : res amap :=
  match c with
  | Class fields ms =>
      fold_add for_ser (match L with Some l => l | None => ms end)
               (base_loop (fun c' => agg_list for_ser c' None) fields [])
  end.

Definition base_noop (for_ser : bool) (c : classdef) : res amap := agg_list for_ser c (Some []).

(* the mapper list actually used: `[override] if override else class list`, then TO_CAMELCASE
   when camel_case_convert *)
Definition used_list (c : classdef) (override : option amap) (camelflag : bool) : list mapper :=
  (match override with
   | Some ((_ :: _) as d) => [MDict d]
   | _ => cms c
   end) ++ (if camelflag then [MCamel] else []).

Definition aggregate (for_ser : bool) (c : classdef) (override : option amap) (camelflag : bool) : res amap :=
  agg_list for_ser c (Some (used_list c override camelflag)).

(* ------------------------------------------------------------------ hierarchies *)

(* what a class statement declares as _serialization_mapper *)
Inductive decl := DOne (m : mapper) | DMany (l : list mapper).
Definition decl_list (d : decl) : list mapper := match d with DOne m => [m] | DMany l => l end.

(* _get_all_values_of_attribute: walks the reversed MRO and reads the attribute with getattr,
   so a class that declares nothing yields its nearest ancestor's value AGAIN *)
Fixpoint collect_code (inherited : option decl) (levels : list (option decl)) : list mapper :=
  match levels with
  | [] => []
  | d :: t =>
      let cur := match d with Some x => Some x | None => inherited end in
      (match cur with Some x => decl_list x | None => [] end) ++ collect_code cur t
  end.

(* the declarative reading: each class contributes what it declares, base classes first *)
Fixpoint collect_decl (levels : list (option decl)) : list mapper :=
  match levels with
  | [] => []
  | Some x :: t => decl_list x ++ collect_decl t
  | None :: t => collect_decl t
  end.

(* class hierarchies as the harness generates them: levels base-first, each with its own fields
   and its own declaration *)
Inductive hclass :=
| HClass (levels : list (list (pystr * option (ckind * hclass)) * option decl)).

Fixpoint to_class (code : bool) (h : hclass) {struct h} : classdef :=
  match h with
  | HClass levels =>
      let fields :=
          (fix lv (ls : list (list (pystr * option (ckind * hclass)) * option decl)) :=
             match ls with
             | [] => []
             | (fs, _) :: t =>
                 (fix fl (fs : list (pystr * option (ckind * hclass))) :=
                    match fs with
                    | [] => []
                    | (k, None) :: u => (k, None) :: fl u
                    | (k, Some (kd, h')) :: u => (k, Some (kd, to_class code h')) :: fl u
                    end) fs ++ lv t
             end) levels in
      let decls := map snd levels in
      Class fields (if code then collect_code None decls else collect_decl decls)
  end.

(* ------------------------------------------------------------------ spec side: rename chains *)

(* one mapper applied to the current key; None = not serialized *)
Definition step (m : mapper) (st : option pystr) : option pystr :=
  match st with
  | None => None
  | Some s =>
      match m with
      | MLower => Some (upper s)
      | MCamel => Some (camel s)
      | MDict d =>
          match alist_get d s with
          | Some (Key t) => Some t
          | Some DoNot => None
          | _ => Some s
          end
      end
  end.

(* the declarative left-to-right composition of the renames *)
Definition rename_chain (ms : list mapper) (n : pystr) : option pystr :=
  fold_left (fun st m => step m st) ms (Some n).

(* what a mapper of the enclosing class contributes to the class nested under field f *)
Definition proj (f : pystr) (m : mapper) : list mapper :=
  match m with
  | MDict d =>
      match alist_get d (f ++ suffix) with
      | Some (Sub ((_ :: _) as sd)) => [MDict sd]
      | _ => []
      end
  | e => [e]
  end.

(* the mapper list in force for class c' nested under field f of a class whose list is L *)
Definition nested_list (L : list mapper) (f : pystr) (c' : classdef) : list mapper :=
  cms c' ++ flat_map (proj f) L.

Definition mval_of (o : option pystr) : mval := match o with Some s => Key s | None => DoNot end.

(* ------------------------------------------------------------------ instances and documents *)

Inductive ival :=
| IScal (z : Z)
| IStruct (x : list (pystr * ival))     (* populated fields only, in definition order *)
| IList (l : list ival).                (* Array / Set of nested structures *)

Inductive dval :=
| DScal (z : Z)
| DDict (d : list (pystr * dval))
| DList (l : list dval).

(* serialize_internal with a resolved mapper: keys only (scalar values are copied).
   One iteration over the populated attributes; [rec sub v] serializes a value *)
Definition ser_step (rec : option mval -> ival -> res dval) (am : amap)
           (kv : pystr * ival) (acc : list (pystr * dval)) : res (list (pystr * dval)) :=
  let '(k, v') := kv in
  match alist_get am k with
  | Some DoNot => Ok acc
  | e =>
      let key := match e with Some (Key s) => s | _ => k end in
      y <- rec (alist_get am (k ++ suffix)) v' ;;
      Ok (alist_set acc key y)
  end.

Definition ser_loop (rec : option mval -> ival -> res dval) (am : amap)
  : list (pystr * ival) -> list (pystr * dval) -> res (list (pystr * dval)) :=
  fix go (x : list (pystr * ival)) (acc : list (pystr * dval)) {struct x} :=
    match x with
    | [] => Ok acc
    | kv :: t => a <- ser_step rec am kv acc ;; go t a
    end.

Definition ser_items (rec : ival -> res dval) : list ival -> res (list dval) :=
  fix go (l : list ival) {struct l} :=
    match l with
    | [] => Ok []
    | x :: t => y <- rec x ;; ys <- go t ;; Ok (y :: ys)
    end.

Fixpoint ser_val (sub : option mval) (v : ival) {struct v} : res dval :=
  match v with
  | IScal z => Ok (DScal z)
  | IList l => r <- ser_items (fun x => ser_val sub x) l ;; Ok (DList r)
  | IStruct x =>
      match sub with
      | Some (Sub ((_ :: _) as am)) =>
          r <- ser_loop (fun sub' v' => ser_val sub' v') am x [] ;; Ok (DDict r)
      | _ => Raise Unmodelled      (* falls back to the nested class's own mappers *)
      end
  end.

Definition serialize (c : classdef) (override : option amap) (camelflag : bool) (x : list (pystr * ival)) : res dval :=
  am <- aggregate true c override camelflag ;;
  ser_val (Some (Sub am)) (IStruct x).

(* deserialize_structure_internal / construct_fields_map / get_processed_input, keys only.
   The result holds the class's fields only (undefined keys of the input are not modelled). *)

(* get_processed_input for a str-valued mapper entry (use_strict_mapping=False): the value under the
   mapped key, else the value under the field's own name; with the mapped key *)
Definition processed_input (dm : amap) (doc : list (pystr * dval)) (k : pystr) : res (option dval * pystr) :=
  match alist_get dm k with
  | Some (Key s) =>
      Ok (match alist_get doc s with
          | Some v => Some v
          | None => alist_get doc k      (* non-strict fall back to the field name *)
          end, s)
  | None => Ok (alist_get doc k, k)
  | Some _ => Raise TypeError            (* "mapper value must be a key ..." *)
  end.

(* construct_fields_map: mapper.get(f"{mapped_key}._mapper", mapper.get(f"{key}._mapper")) *)
Definition deser_sub_lookup (dm : amap) (mapped_key k : pystr) : option mval :=
  match alist_get dm (mapped_key ++ suffix) with
  | Some x => Some x
  | None => alist_get dm (k ++ suffix)
  end.

Definition sub_override_of (sub : option mval) : option amap :=
  match sub with Some (Sub m) => Some m | _ => None end.

(* deserialize_single_field for the field kinds of the model; [rec c' o d] deserializes a nested
   document with class c' under the explicit mapper o *)
Definition deser_value (rec : classdef -> option amap -> list (pystr * dval) -> res (list (pystr * ival)))
           (fk : option (ckind * classdef)) (sub_override : option amap) (v : dval) : res ival :=
  match fk, v with
  | None, DScal z => Ok (IScal z)
  | None, _ => Raise TypeError
  | Some (KRef, c'), DDict d' => x <- rec c' sub_override d' ;; Ok (IStruct x)
  | Some (KRef, _), _ => Raise TypeError
  | Some (_, c'), DList l =>
      xs <- (fix items (l : list dval) : res (list ival) :=
               match l with
               | [] => Ok []
               | DDict d' :: u =>
                   x <- rec c' sub_override d' ;;
                   xs <- items u ;; Ok (IStruct x :: xs)
               | _ :: _ => Raise TypeError
               end) l ;;
      Ok (IList xs)
  | Some (_, _), _ => Raise ValueError
  end.

(* the loop of construct_fields_map over the class's fields *)
Definition deser_loop (rec : classdef -> option amap -> list (pystr * dval) -> res (list (pystr * ival)))
           (dm : amap) (doc : list (pystr * dval))
  : list (pystr * option (ckind * classdef)) -> res (list (pystr * ival)) :=
  fix go (fs : list (pystr * option (ckind * classdef))) : res (list (pystr * ival)) :=
    match fs with
    | [] => Ok []
    | (k, fk) :: t =>
        pin <- processed_input dm doc k ;;
        let '(inp, mapped_key) := pin in
        match inp with
        | None => go t
        | Some v =>
            r <- deser_value rec fk (sub_override_of (deser_sub_lookup dm mapped_key k)) v ;;
            rest <- go t ;;
            Ok ((k, r) :: rest)
        end
    end.

Fixpoint deser_struct (c : classdef) (override : option amap) (camelflag : bool)
         (doc : list (pystr * dval)) {struct c} : res (list (pystr * ival)) :=
  match c with
  | Class fields ms =>
      dm <- aggregate false (Class fields ms) override camelflag ;;
      deser_loop (fun c' o d => deser_struct c' o camelflag d) dm doc fields
  end.

(* ------------------------------------------------------------------ wrappers *)

(* Serializer/Deserializer.__validate__: every mapper key's first dotted segment is a field *)
Definition first_segment (key : pystr) : pystr := hd [] (split_on dotc key).

Fixpoint wrapper_validate (fields : list pystr) (mapper_keys : list pystr) : res unit :=
  match mapper_keys with
  | [] => Ok tt
  | k :: t => if str_in (first_segment k) fields then wrapper_validate fields t else Raise ValueError
  end.

(* ------------------------------------------------------------------ the process-wide cache *)

(* aggregated_mapper_by_class: (class, json.dumps(override) or "", camel flag) -> aggregated mapper.
   json.dumps keeps the insertion order of a dict, so two explicit mappers give the same key iff
   they are the same ORDERED dict: structural equality.  A mapper holding DoNotSerialize is not
   JSON-serialisable: the call is then not cached at all. *)
Fixpoint mval_seqb (a b : mval) {struct a} : bool :=
  match a, b with
  | Key s, Key t => pystr_eqb s t
  | DoNot, DoNot => true
  | Sub l, Sub m =>
      (fix all2 (l m : list (pystr * mval)) : bool :=
         match l, m with
         | [], [] => true
         | (k, v) :: l', (k', w) :: m' => pystr_eqb k k' && mval_seqb v w && all2 l' m'
         | _, _ => false
         end) l m
  | _, _ => false
  end.

Fixpoint has_donot (v : mval) : bool :=
  match v with
  | Key _ => false
  | DoNot => true
  | Sub l => (fix any (l : list (pystr * mval)) : bool :=
                match l with
                | [] => false
                | (_, w) :: t => has_donot w || any t
                end) l
  end.

(* `json.dumps(override_mapper) if override_mapper else ""` *)
Definition norm_override (o : option amap) : option amap :=
  match o with Some ((_ :: _) as d) => Some d | _ => None end.

Definition cachable (o : option amap) : bool :=
  match norm_override o with Some d => negb (has_donot (Sub d)) | None => true end.

Definition cache_key := (N * option amap * bool)%type.
Definition cache_key_eqb (a b : cache_key) : bool :=
  let '(c1, o1, f1) := a in
  let '(c2, o2, f2) := b in
  N.eqb c1 c2 && Bool.eqb f1 f2 &&
  match o1, o2 with
  | None, None => true
  | Some x, Some y => mval_seqb (Sub x) (Sub y)
  | _, _ => false
  end.

Definition cache := list (cache_key * res amap).

Fixpoint cache_get (ch : cache) (k : cache_key) : option (res amap) :=
  match ch with
  | [] => None
  | (k', v) :: t => if cache_key_eqb k' k then Some v else cache_get t k
  end.

(* aggregate_serialization_mappers with its memo table; [key_of_req] builds the memo key, so that
   the key the code uses (class, mapper, flag) and weaker ones can be compared *)
Definition request := (N * option amap * bool)%type.

Definition full_key (r : request) : cache_key := let '(cid, o, f) := r in (cid, norm_override o, f).

Definition aggregate_cached_with (key_of_req : request -> cache_key) (table : N -> classdef) (ch : cache)
           (r : request) : res amap * cache :=
  let '(cid, override, camelflag) := r in
  if cachable override then
    match cache_get ch (key_of_req r) with
    | Some a => (a, ch)
    | None =>
        let a := aggregate true (table cid) override camelflag in
        (a, (key_of_req r, a) :: ch)
    end
  else (aggregate true (table cid) override camelflag, ch).

Definition aggregate_cached := aggregate_cached_with full_key.

(* a history of calls in one process: the answers, in order *)
Fixpoint serve_with (key_of_req : request -> cache_key) (table : N -> classdef) (ch : cache)
         (rs : list request) : list (res amap) :=
  match rs with
  | [] => []
  | r :: t => let '(a, ch') := aggregate_cached_with key_of_req table ch r in
              a :: serve_with key_of_req table ch' t
  end.

Definition serve := serve_with full_key.

(* the memo keys of two plausible simplifications: without the flag, without the explicit mapper *)
Definition key_no_flag (r : request) : cache_key := let '(cid, o, _) := r in (cid, norm_override o, false).
Definition key_no_override (r : request) : cache_key := let '(cid, _, f) := r in (cid, None, f).
