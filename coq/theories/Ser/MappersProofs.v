(* Lemmas and proofs about Ser/Mappers.v *)
From Coq Require Import ZArith NArith Bool List Lia.
Import ListNotations.
From TP Require Import Base.PyVal Ser.Mappers.

Lemma str_in_In s l : str_in s l = true <-> In s l.
Proof.
  unfold str_in. rewrite existsb_exists. split.
  - intros [x [Hin Heq]]. apply pystr_eqb_spec in Heq. subst. exact Hin.
  - intro H. exists s. split; [exact H | apply pystr_eqb_refl].
Qed.

Lemma wrapper_rejects_nonfield fields keys :
  (exists k, In k keys /\ ~ In (first_segment k) fields) ->
  wrapper_validate fields keys = Raise ValueError.
Proof.
  induction keys as [|k t IH]; intros [k0 [Hin Hnf]]; [destruct Hin|].
  cbn [wrapper_validate].
  destruct (str_in (first_segment k) fields) eqn:E; [|reflexivity].
  apply IH. destruct Hin as [->|Hin].
  - apply str_in_In in E. contradiction.
  - exists k0. split; assumption.
Qed.

Lemma wrapper_accepts_fields fields keys :
  (forall k, In k keys -> In (first_segment k) fields) ->
  wrapper_validate fields keys = Ok tt.
Proof.
  induction keys as [|k t IH]; intro H; [reflexivity|].
  cbn [wrapper_validate].
  assert (E : str_in (first_segment k) fields = true) by (apply str_in_In, H; left; reflexivity).
  rewrite E. apply IH. intros k' Hk'. apply H. right. exact Hk'.
Qed.

(* ------------------------------------------------------------------ association lists *)

Lemma alist_get_set_same {A} (l : list (pystr * A)) k v :
  alist_get (alist_set l k v) k = Some v.
Proof.
  induction l as [|[k' v'] t IH]; cbn [alist_set alist_get].
  - rewrite pystr_eqb_refl. reflexivity.
  - destruct (pystr_eqb k' k) eqn:E; cbn [alist_get]; rewrite E; [reflexivity | exact IH].
Qed.

Lemma alist_get_set_other {A} (l : list (pystr * A)) k k' v :
  k <> k' -> alist_get (alist_set l k v) k' = alist_get l k'.
Proof.
  intro Hne. induction l as [|[k0 v0] t IH]; cbn [alist_set alist_get].
  - destruct (pystr_eqb k k') eqn:E; [apply pystr_eqb_spec in E; contradiction | reflexivity].
  - destruct (pystr_eqb k0 k) eqn:E; cbn [alist_get].
    + apply pystr_eqb_spec in E. subst k0.
      destruct (pystr_eqb k k') eqn:E2; [apply pystr_eqb_spec in E2; contradiction | reflexivity].
    + destruct (pystr_eqb k0 k'); [reflexivity | exact IH].
Qed.

Lemma alist_set_keys {A} (l : list (pystr * A)) k v x :
  In x (map fst (alist_set l k v)) <-> In x (map fst l) \/ x = k.
Proof.
  induction l as [|[k0 v0] t IH]; cbn [alist_set map fst In].
  - split; intros [H|H]; auto; try contradiction. 
  - destruct (pystr_eqb k0 k) eqn:E; cbn [map fst In].
    + apply pystr_eqb_spec in E. subst k0. split; [intros [H|H]; auto | intros [[H|H]|H]; auto].
    + rewrite IH. split; [intros [H|[H|H]]; auto | intros [[H|H]|H]; auto].
Qed.

Lemma alist_get_In {A} (l : list (pystr * A)) k v : alist_get l k = Some v -> In k (map fst l).
Proof.
  induction l as [|[k0 v0] t IH]; cbn [alist_get map fst In]; [discriminate|].
  destruct (pystr_eqb k0 k) eqn:E; [apply pystr_eqb_spec in E; auto | auto].
Qed.

Lemma alist_get_None {A} (l : list (pystr * A)) k : ~ In k (map fst l) -> alist_get l k = None.
Proof.
  induction l as [|[k0 v0] t IH]; cbn [alist_get map fst In]; [reflexivity|].
  intro H. destruct (pystr_eqb k0 k) eqn:E.
  - apply pystr_eqb_spec in E. subst. exfalso. apply H. left. reflexivity.
  - apply IH. intro. apply H. right. assumption.
Qed.

(* ------------------------------------------------------------------ dots and the "._mapper" suffix *)

Definition nodot (s : pystr) : bool := negb (existsb (N.eqb dotc) s).

Lemma nodot_spec s : nodot s = true <-> ~ In dotc s.
Proof.
  unfold nodot. rewrite negb_true_iff. split.
  - intros H Hin. assert (existsb (N.eqb dotc) s = true) by (apply existsb_exists; exists dotc; split; [exact Hin | apply N.eqb_refl]). congruence.
  - intro H. destruct (existsb (N.eqb dotc) s) eqn:E; [|reflexivity].
    apply existsb_exists in E as [x [Hin Hx]]. apply N.eqb_eq in Hx. subst. contradiction.
Qed.

Lemma ident_nodot s : ident s = true -> nodot s = true.
Proof.
  unfold ident. intro H. apply andb_true_iff in H as [_ H]. apply nodot_spec. intro Hin.
  rewrite forallb_forall in H. specialize (H _ Hin). vm_compute in H. discriminate.
Qed.

Lemma suffix_has_dot : In dotc suffix.
Proof. left. reflexivity. Qed.

Lemma app_suffix_has_dot s : In dotc (s ++ suffix).
Proof. apply in_or_app. right. exact suffix_has_dot. Qed.

Lemma In_skipn {A} (x : A) n l : In x (skipn n l) -> In x l.
Proof.
  revert l; induction n as [|n IH]; intros l H; [exact H|].
  destruct l as [|y t]; [exact H|]. right. apply IH. exact H.
Qed.

Lemma ends_with_suffix_nodot k : nodot k = true -> ends_with_suffix k = None.
Proof.
  intro H. unfold ends_with_suffix.
  destruct (Nat.leb (length suffix) (length k)); [|reflexivity].
  destruct (pystr_eqb (skipn (length k - length suffix) k) suffix) eqn:E; [|reflexivity].
  apply pystr_eqb_spec in E. apply nodot_spec in H. exfalso. apply H.
  apply In_skipn with (n := (length k - length suffix)%nat). rewrite E. exact suffix_has_dot.
Qed.

Lemma ends_with_suffix_some k f : ends_with_suffix k = Some f -> k = f ++ suffix.
Proof.
  unfold ends_with_suffix.
  destruct (Nat.leb (length suffix) (length k)); [|discriminate].
  destruct (pystr_eqb (skipn (length k - length suffix) k) suffix) eqn:E; [|discriminate].
  intro H. inversion H; subst. apply pystr_eqb_spec in E.
  transitivity (firstn (length k - length suffix) k ++ skipn (length k - length suffix) k);
    [symmetry; apply firstn_skipn | f_equal; exact E].
Qed.

Lemma ends_with_suffix_app f : ends_with_suffix (f ++ suffix) = Some f.
Proof.
  unfold ends_with_suffix. rewrite app_length.
  assert (L : Nat.leb (length suffix) (length f + length suffix) = true) by (apply Nat.leb_le; lia).
  rewrite L. replace (length f + length suffix - length suffix)%nat with (length f) by lia.
  rewrite skipn_app, skipn_all, Nat.sub_diag. cbn [skipn app].
  rewrite pystr_eqb_refl. rewrite firstn_app, firstn_all, Nat.sub_diag. cbn [firstn]. rewrite app_nil_r. reflexivity.
Qed.

Lemma alist_set_nodup {A} (l : list (pystr * A)) k v :
  NoDup (map fst l) -> NoDup (map fst (alist_set l k v)).
Proof.
  induction l as [|[k0 v0] t IH]; cbn [alist_set map fst]; intro H.
  - constructor; [intros []|constructor].
  - inversion H as [|? ? Hnin Hnd]; subst.
    destruct (pystr_eqb k0 k) eqn:E; cbn [map fst].
    + constructor; assumption.
    + constructor; [|apply IH; exact Hnd].
      intro Hin. apply alist_set_keys in Hin as [Hin|Hin]; [contradiction|].
      subst. rewrite pystr_eqb_refl in E. discriminate.
Qed.

Lemma alist_get_nodup_In {A} (l : list (pystr * A)) k v :
  NoDup (map fst l) -> In (k, v) l -> alist_get l k = Some v.
Proof.
  induction l as [|[k0 v0] t IH]; cbn [map fst In alist_get]; intros Hnd Hin; [contradiction|].
  inversion Hnd as [|? ? Hnin Hnd']; subst.
  destruct Hin as [Heq|Hin].
  - inversion Heq; subst. rewrite pystr_eqb_refl. reflexivity.
  - destruct (pystr_eqb k0 k) eqn:E.
    + apply pystr_eqb_spec in E. subst. exfalso. apply Hnin. apply in_map_iff. exists (k, v). split; [reflexivity|exact Hin].
    + apply IH; assumption.
Qed.

Lemma alist_get_some_In {A} (l : list (pystr * A)) k v : alist_get l k = Some v -> In (k, v) l.
Proof.
  induction l as [|[k0 v0] t IH]; cbn [alist_get In]; [discriminate|].
  destruct (pystr_eqb k0 k) eqn:E.
  - apply pystr_eqb_spec in E. intro H. inversion H; subst. left. reflexivity.
  - intro H. right. apply IH. exact H.
Qed.

(* ------------------------------------------------------------------ one aggregation step *)

Definition is_sub (v : mval) : bool := match v with Sub _ => true | _ => false end.

(* what add_mapper_to_aggregation does to a str / DoNotSerialize entry *)
Definition entry_step (latest : mapper) (k : pystr) (v : mval) : mval :=
  if shortcut latest k v then v
  else match v with DoNot => DoNot | Key s => apply_key latest s | Sub x => Sub x end.

(* ... and to a nested-mapper entry of field f (serialization side) *)
Definition sub_entry_res (rec : mapper -> mval -> res mval) (latest : mapper) (f : pystr) (v : mval) : res mval :=
  match sub_of latest f f with
  | SubNone => Ok v
  | SubBad => Raise TypeError
  | SubMap sub => rec sub v
  end.

Section Step.
  Variable fs : bool.
  Variable latest : mapper.
  Variable rec : mapper -> mval -> res mval.

  Lemma add_step_shape k v acc acc' :
    add_step fs latest rec (k, v) acc = Ok acc' ->
    (is_sub v = false /\ acc' = alist_set acc k (entry_step latest k v)) \/
    (is_sub v = true /\ exists key val, acc' = alist_set acc key val /\ (key = k \/ (fs = false /\ In dotc key))).
  Proof.
    unfold add_step, entry_step. destruct (shortcut latest k v) eqn:Sc.
    - intro H. inversion H; subst. destruct v; cbn [is_sub]; [left|left|right]; try (split; reflexivity).
      split; [reflexivity|]. eexists _, _. split; [reflexivity|left; reflexivity].
    - destruct v as [s| |pm]; cbn [is_sub].
      + intro H. inversion H. left. split; reflexivity.
      + intro H. inversion H. left. split; reflexivity.
      + destruct (ends_with_suffix k) as [fname|] eqn:Ew; [|discriminate].
        apply ends_with_suffix_some in Ew.
        destruct fs.
        * cbn [bind]. destruct (sub_of latest fname fname); cbn [bind]; try discriminate.
          -- intro H. inversion H. right. split; [reflexivity|]. eexists _, _. split; [reflexivity|left; symmetry; exact Ew].
          -- destruct (rec m (Sub pm)); cbn [bind]; [|discriminate].
             intro H. inversion H. right. split; [reflexivity|]. eexists _, _. split; [reflexivity|left; symmetry; exact Ew].
        * destruct (mapped_key_of latest fname) as [s|]; cbn [bind]; try discriminate.
          destruct (sub_of latest s fname); cbn [bind]; try discriminate.
          -- intro H. inversion H. right. split; [reflexivity|]. eexists _, _. split; [reflexivity|right; split; [reflexivity|apply app_suffix_has_dot]].
          -- destruct (rec m (Sub pm)); cbn [bind]; [|discriminate].
             intro H. inversion H. right. split; [reflexivity|]. eexists _, _. split; [reflexivity|right; split; [reflexivity|apply app_suffix_has_dot]].
  Qed.

  Lemma add_loop_cons kv t acc :
    add_loop fs latest rec (kv :: t) acc = (a <- add_step fs latest rec kv acc ;; add_loop fs latest rec t a).
  Proof. reflexivity. Qed.

  Lemma add_loop_other k : (fs = true \/ nodot k = true) ->
    forall l acc r, ~ In k (map fst l) -> add_loop fs latest rec l acc = Ok r -> alist_get r k = alist_get acc k.
  Proof.
    intros Hk. induction l as [|[k0 v0] t IH]; intros acc r Hnin H.
    - cbn in H. inversion H. reflexivity.
    - rewrite add_loop_cons in H. destruct (add_step fs latest rec (k0, v0) acc) as [a|] eqn:St; cbn [bind] in H; [|discriminate].
      cbn [map fst In] in Hnin.
      rewrite (IH a r); [|intro; apply Hnin; right; assumption|exact H].
      apply add_step_shape in St as [[_ ->]|[_ [key [val [-> Hkey]]]]].
      + apply alist_get_set_other. intro; subst. apply Hnin. left. reflexivity.
      + apply alist_get_set_other. destruct Hkey as [->|[Hfs Hdot]].
        * intro; subst. apply Hnin. left. reflexivity.
        * destruct Hk as [Hk|Hk]; [congruence|]. apply nodot_spec in Hk. intro; subst. contradiction.
  Qed.

  Lemma add_loop_entry k v : (fs = true \/ nodot k = true) -> is_sub v = false ->
    forall l acc r, NoDup (map fst l) -> In (k, v) l -> add_loop fs latest rec l acc = Ok r ->
                    alist_get r k = Some (entry_step latest k v).
  Proof.
    intros Hk Hv. induction l as [|[k0 v0] t IH]; intros acc r Hnd Hin H; [destruct Hin|].
    rewrite add_loop_cons in H. destruct (add_step fs latest rec (k0, v0) acc) as [a|] eqn:St; cbn [bind] in H; [|discriminate].
    cbn [map fst] in Hnd. inversion Hnd as [|? ? Hnin Hnd']; subst.
    destruct Hin as [Heq|Hin].
    - inversion Heq; subst.
      rewrite (add_loop_other k Hk t a r Hnin H).
      apply add_step_shape in St as [[_ ->]|[Hs _]]; [apply alist_get_set_same | congruence].
    - apply (IH a r Hnd' Hin H).
  Qed.

  Lemma add_loop_nodup : forall l acc r, NoDup (map fst acc) -> add_loop fs latest rec l acc = Ok r -> NoDup (map fst r).
  Proof.
    induction l as [|[k0 v0] t IH]; intros acc r Hnd H.
    - cbn in H. inversion H; subst. exact Hnd.
    - rewrite add_loop_cons in H. destruct (add_step fs latest rec (k0, v0) acc) as [a|] eqn:St; cbn [bind] in H; [|discriminate].
      apply (IH a r); [|exact H].
      apply add_step_shape in St as [[_ ->]|[_ [key [val [-> _]]]]]; apply alist_set_nodup; exact Hnd.
  Qed.
End Step.

(* serialization side: a nested-mapper entry keeps its key and is composed with what the latest
   mapper says about that field *)
Lemma add_loop_sub_entry latest rec f pm :
  shortcut latest (f ++ suffix) (Sub pm) = false ->
  forall l acc r, NoDup (map fst l) -> In (f ++ suffix, Sub pm) l ->
    add_loop true latest rec l acc = Ok r ->
    exists r', sub_entry_res rec latest f (Sub pm) = Ok r' /\ alist_get r (f ++ suffix) = Some r'.
Proof.
  intros Hsc. induction l as [|[k0 v0] t IH]; intros acc r Hnd Hin H; [destruct Hin|].
  rewrite add_loop_cons in H. destruct (add_step true latest rec (k0, v0) acc) as [a|] eqn:St; cbn [bind] in H; [|discriminate].
  cbn [map fst] in Hnd. inversion Hnd as [|? ? Hnin Hnd']; subst.
  destruct Hin as [Heq|Hin]; [|apply (IH a r Hnd' Hin H)].
  inversion Heq; subst.
  rewrite (add_loop_other true latest rec (f ++ suffix) (or_introl eq_refl) t a r Hnin H).
  unfold add_step in St. rewrite Hsc, ends_with_suffix_app in St. cbn [bind] in St.
  unfold sub_entry_res. destruct (sub_of latest f f); cbn [bind] in St; try discriminate.
  - inversion St; subst. eexists. split; [reflexivity|apply alist_get_set_same].
  - destruct (rec m (Sub pm)); cbn [bind] in St; [|discriminate].
    inversion St; subst. eexists. split; [reflexivity|apply alist_get_set_same].
Qed.

(* ------------------------------------------------------------------ add_agg / fold_add *)

Lemma add_agg_loop fs latest prev am :
  add_agg fs latest prev = Ok am <->
  add_loop fs latest (fun sub v' => add_val fs sub v') prev [] = Ok am.
Proof.
  unfold add_agg. cbn [add_val].
  destruct (add_loop fs latest (fun sub v' => add_val fs sub v') prev []) as [r|e]; cbn [bind]; split; intro H; exact H.
Qed.

Lemma add_agg_nodup fs latest prev am : add_agg fs latest prev = Ok am -> NoDup (map fst am).
Proof.
  intro H. apply add_agg_loop in H. eapply add_loop_nodup; [|exact H]. constructor.
Qed.

Lemma add_agg_entry fs latest prev am k v :
  add_agg fs latest prev = Ok am -> NoDup (map fst prev) -> alist_get prev k = Some v ->
  is_sub v = false -> (fs = true \/ nodot k = true) ->
  alist_get am k = Some (entry_step latest k v).
Proof.
  intros H Hnd Hg Hv Hk. apply add_agg_loop in H.
  eapply add_loop_entry; eauto. apply alist_get_some_In. exact Hg.
Qed.

Lemma fold_add_raise fs L e : fold_add fs L (Raise e) = Raise e.
Proof. induction L as [|m t IH]; [reflexivity|]. cbn [fold_add fold_left bind]. exact IH. Qed.

Lemma fold_add_cons fs m t a : fold_add fs (m :: t) (Ok a) = fold_add fs t (add_agg fs m a).
Proof. reflexivity. Qed.

Lemma fold_add_app fs A B base : fold_add fs (A ++ B) base = fold_add fs B (fold_add fs A base).
Proof. unfold fold_add. apply fold_left_app. Qed.

Lemma fold_add_nodup fs : forall L a am, NoDup (map fst a) -> fold_add fs L (Ok a) = Ok am -> NoDup (map fst am).
Proof.
  induction L as [|m t IH]; intros a am Hnd H.
  - cbn in H. inversion H; subst. exact Hnd.
  - rewrite fold_add_cons in H. destruct (add_agg fs m a) as [a1|e] eqn:E; [|rewrite fold_add_raise in H; discriminate].
    eapply IH; [|exact H]. eapply add_agg_nodup; exact E.
Qed.

(* ------------------------------------------------------------------ the chain *)

Lemma mval_eqb_Key v s : mval_eqb v (Key s) = true -> v = Key s.
Proof.
  destruct v as [t| |m]; cbn [mval_eqb]; try discriminate.
  intro H. apply pystr_eqb_spec in H. subst. reflexivity.
Qed.

(* the code's treatment of an entry coincides with the declarative step: the dict does not hold a
   nested dict under a plain key, and the `v == latest_mapper.get(k)` shortcut does not fire on an
   entry that the same dict renames further *)
Definition step_ok (m : mapper) (n : pystr) (st : option pystr) : bool :=
  match m, st with
  | MDict d, Some s =>
      match alist_get d s with Some (Sub _) => false | _ => true end &&
      negb (shortcut m n (Key s) && negb (mval_eqb (apply_key m s) (Key s)))
  | _, _ => true
  end.

Fixpoint chain_ok (L : list mapper) (n : pystr) (st : option pystr) : bool :=
  match L with
  | [] => true
  | m :: t => step_ok m n st && chain_ok t n (step m st)
  end.

Lemma entry_step_spec m n st : step_ok m n st = true -> entry_step m n (mval_of st) = mval_of (step m st).
Proof.
  unfold entry_step. destruct st as [s|]; cbn [mval_of step].
  2:{ intros _. destruct (shortcut m n DoNot); reflexivity. }
  destruct m as [d| |]; cbn [step_ok shortcut apply_key]; try (intros _; reflexivity).
  intro H. apply andb_true_iff in H as [H1 H2]. apply negb_true_iff in H2.
  destruct (match alist_get d n with Some w => mval_eqb (Key s) w | None => false end) eqn:Sc.
  - cbn [andb] in H2. apply negb_false_iff in H2. apply mval_eqb_Key in H2.
    destruct (alist_get d s) as [[t| |x]|]; cbn [mval_of]; try congruence.
  - destruct (alist_get d s) as [[t| |x]|]; cbn [mval_of]; try reflexivity. discriminate.
Qed.

Lemma mval_of_not_sub st : is_sub (mval_of st) = false.
Proof. destruct st; reflexivity. Qed.

Lemma fold_add_chain fs n : (fs = true \/ nodot n = true) ->
  forall L a0 am st, NoDup (map fst a0) -> alist_get a0 n = Some (mval_of st) ->
    fold_add fs L (Ok a0) = Ok am -> chain_ok L n st = true ->
    alist_get am n = Some (mval_of (fold_left (fun st m => step m st) L st)).
Proof.
  intro Hk. induction L as [|m t IH]; intros a0 am st Hnd Hg H Hc.
  - cbn in H. inversion H; subst. exact Hg.
  - rewrite fold_add_cons in H. destruct (add_agg fs m a0) as [a1|e] eqn:E; [|rewrite fold_add_raise in H; discriminate].
    cbn [chain_ok] in Hc. apply andb_true_iff in Hc as [Hs Hc].
    cbn [fold_left]. apply (IH a1 am (step m st)); [eapply add_agg_nodup; exact E| |exact H|exact Hc].
    rewrite (add_agg_entry fs m a0 a1 n (mval_of st) E Hnd Hg (mval_of_not_sub st) Hk).
    rewrite entry_step_spec; [reflexivity|exact Hs].
Qed.

(* ------------------------------------------------------------------ the identity base mapper *)

Lemma base_loop_cons rec f t acc :
  base_loop rec (f :: t) acc = (a <- base_step rec f acc ;; base_loop rec t a).
Proof. reflexivity. Qed.

Lemma base_step_shape rec k fk acc a :
  base_step rec (k, fk) acc = Ok a ->
  exists acc1, a = alist_set acc1 k (Key k) /\ (acc1 = acc \/ exists v, acc1 = alist_set acc (k ++ suffix) v).
Proof.
  unfold base_step. destruct fk as [[kd c']|].
  - destruct (rec c') as [sub|]; cbn [bind]; [|discriminate]. intro H. inversion H.
    eexists. split; [reflexivity|].
    destruct kd; [right; eexists; reflexivity| |]; (destruct sub; [left; reflexivity|right; eexists; reflexivity]).
  - intro H. inversion H. eexists. split; [reflexivity|left; reflexivity].
Qed.

Lemma base_loop_nodup rec : forall fs acc r, NoDup (map fst acc) -> base_loop rec fs acc = Ok r -> NoDup (map fst r).
Proof.
  induction fs as [|[k fk] t IH]; intros acc r Hnd H.
  - cbn in H. inversion H; subst. exact Hnd.
  - rewrite base_loop_cons in H. destruct (base_step rec (k, fk) acc) as [a|] eqn:St; cbn [bind] in H; [|discriminate].
    apply (IH a r); [|exact H].
    apply base_step_shape in St as [acc1 [-> [->|[v ->]]]]; repeat apply alist_set_nodup; exact Hnd.
Qed.

Lemma base_loop_get rec n : nodot n = true ->
  forall fs acc r, base_loop rec fs acc = Ok r ->
    (In n (map fst fs) \/ alist_get acc n = Some (Key n)) -> alist_get r n = Some (Key n).
Proof.
  intro Hn. induction fs as [|[k fk] t IH]; intros acc r H Hor.
  - cbn in H. inversion H; subst. destruct Hor as [[]|Hg]. exact Hg.
  - rewrite base_loop_cons in H. destruct (base_step rec (k, fk) acc) as [a|] eqn:St; cbn [bind] in H; [|discriminate].
    apply (IH a r H).
    apply base_step_shape in St as [acc1 [-> Hacc1]].
    destruct (pystr_eqb k n) eqn:E.
    + apply pystr_eqb_spec in E. subst. right. apply alist_get_set_same.
    + apply pystr_eqb_neq in E. destruct Hor as [[Heq|Hin]|Hg]; [cbn in Heq; contradiction|left; exact Hin|].
      right. rewrite alist_get_set_other; [|exact E].
      destruct Hacc1 as [->|[v ->]]; [exact Hg|].
      rewrite alist_get_set_other; [exact Hg|].
      apply nodot_spec in Hn. intro Heq. apply Hn. rewrite <- Heq. apply app_suffix_has_dot.
Qed.

(* ------------------------------------------------------------------ T1: aggregated entry = chain *)

Theorem agg_is_chain fs c L am n :
  agg_list fs c (Some L) = Ok am ->
  In n (field_names c) -> ident n = true -> chain_ok L n (Some n) = true ->
  alist_get am n = Some (mval_of (rename_chain L n)).
Proof.
  destruct c as [fields ms]. cbn [agg_list]. intros H Hin Hid Hc.
  destruct (base_loop (fun c' => agg_list fs c' None) fields []) as [b|e] eqn:B; [|rewrite fold_add_raise in H; discriminate].
  assert (Hn : nodot n = true) by (apply ident_nodot; exact Hid).
  unfold rename_chain.
  eapply (fold_add_chain fs n (or_intror Hn) L b am (Some n)); [| |exact H|exact Hc].
  - eapply base_loop_nodup; [|exact B]. constructor.
  - cbn [mval_of]. eapply base_loop_get; [exact Hn|exact B|left; exact Hin].
Qed.

(* ------------------------------------------------------------------ collection over the MRO *)

Lemma collect_all_declared levels inh :
  Forall (fun d : option decl => d <> None) levels -> collect_code inh levels = collect_decl levels.
Proof.
  revert inh. induction levels as [|d t IH]; intros inh H; [reflexivity|].
  inversion H as [|? ? Hd Ht]; subst. destruct d as [x|]; [|contradiction].
  cbn [collect_code collect_decl]. rewrite IH; [reflexivity|exact Ht].
Qed.

(* ------------------------------------------------------------------ serialized key set, one level *)

Definition key_of (am : amap) (n : pystr) : option pystr :=
  match alist_get am n with
  | Some DoNot => None
  | Some (Key s) => Some s
  | _ => Some n
  end.

Definition keys_of {A} (l : list (pystr * A)) : list pystr := map fst l.

Lemma ser_loop_cons rec am kv t acc :
  ser_loop rec am (kv :: t) acc = (a <- ser_step rec am kv acc ;; ser_loop rec am t a).
Proof. reflexivity. Qed.

Lemma ser_loop_keys rec am k : forall x acc r,
  ser_loop rec am x acc = Ok r ->
  (In k (keys_of r) <-> In k (keys_of acc) \/ exists n, In n (keys_of x) /\ key_of am n = Some k).
Proof.
  induction x as [|[n v] t IH]; intros acc r H.
  - cbn in H. inversion H; subst. split; [intro; left; assumption|intros [Hl|[n [[] _]]]; exact Hl].
  - rewrite ser_loop_cons in H. destruct (ser_step rec am (n, v) acc) as [a|] eqn:St; cbn [bind] in H; [|discriminate].
    rewrite (IH a r H). clear IH H. unfold ser_step in St. unfold keys_of. cbn [map fst In].
    assert (Hcase : (key_of am n = None /\ a = acc) \/
                    (exists s y, key_of am n = Some s /\ a = alist_set acc s y)).
    { unfold key_of. destruct (alist_get am n) as [[s| |m]|].
      - destruct (rec (alist_get am (n ++ suffix)) v); cbn [bind] in St; [|discriminate]. inversion St. right. eexists _, _. split; reflexivity.
      - inversion St. left. split; reflexivity.
      - destruct (rec (alist_get am (n ++ suffix)) v); cbn [bind] in St; [|discriminate]. inversion St. right. eexists _, _. split; reflexivity.
      - destruct (rec (alist_get am (n ++ suffix)) v); cbn [bind] in St; [|discriminate]. inversion St. right. eexists _, _. split; reflexivity. }
    destruct Hcase as [[Hn ->]|[s [y [Hs ->]]]].
    + split.
      * intros [Hl|[n' [Hin Hk]]]; [left; exact Hl|right; exists n'; split; [right; exact Hin|exact Hk]].
      * intros [Hl|[n' [[Heq|Hin] Hk]]]; [left; exact Hl| |right; exists n'; split; assumption].
        subst n'. congruence.
    + split.
      * intros [Hl|[n' [Hin Hk]]].
        -- apply alist_set_keys in Hl as [Hl|Hl]; [left; exact Hl|]. subst. right. exists n. split; [left; reflexivity|exact Hs].
        -- right. exists n'. split; [right; exact Hin|exact Hk].
      * intros [Hl|[n' [[Heq|Hin] Hk]]].
        -- left. apply alist_set_keys. left. exact Hl.
        -- subst n'. left. apply alist_set_keys. right. congruence.
        -- right. exists n'. split; assumption.
Qed.

Theorem keys_exact_level c L am x dd :
  agg_list true c (Some L) = Ok am ->
  (forall n, In n (keys_of x) -> In n (field_names c) /\ ident n = true /\ chain_ok L n (Some n) = true) ->
  ser_val (Some (Sub am)) (IStruct x) = Ok (DDict dd) ->
  forall k, In k (keys_of dd) <-> exists n, In n (keys_of x) /\ rename_chain L n = Some k.
Proof.
  intros Hagg Hx Hser k. cbn [ser_val] in Hser. destruct am as [|e am']; [discriminate|].
  destruct (ser_loop (fun sub' v' => ser_val sub' v') (e :: am') x []) as [r|] eqn:Lp; cbn [bind] in Hser; [|discriminate].
  inversion Hser; subst r. rewrite (ser_loop_keys _ _ k _ _ _ Lp). cbn [keys_of map In].
  split.
  - intros [[]|[n [Hin Hk]]]. exists n. split; [exact Hin|].
    destruct (Hx n Hin) as [Hf [Hid Hc]].
    pose proof (agg_is_chain true c L _ n Hagg Hf Hid Hc) as Hg.
    unfold key_of in Hk. rewrite Hg in Hk. destruct (rename_chain L n); cbn [mval_of] in Hk; [exact Hk|discriminate].
  - intros [n [Hin Hk]]. right. exists n. split; [exact Hin|].
    destruct (Hx n Hin) as [Hf [Hid Hc]].
    pose proof (agg_is_chain true c L _ n Hagg Hf Hid Hc) as Hg.
    unfold key_of. rewrite Hg, Hk. reflexivity.
Qed.

Theorem donot_absent c L am x dd n :
  agg_list true c (Some L) = Ok am ->
  (forall n, In n (keys_of x) -> In n (field_names c) /\ ident n = true /\ chain_ok L n (Some n) = true) ->
  ser_val (Some (Sub am)) (IStruct x) = Ok (DDict dd) ->
  rename_chain L n = None ->
  forall k, In k (keys_of dd) -> exists n', n' <> n /\ In n' (keys_of x) /\ rename_chain L n' = Some k.
Proof.
  intros Hagg Hx Hser Hn k Hk.
  apply (keys_exact_level c L am x dd Hagg Hx Hser) in Hk as [n' [Hin Hc]].
  exists n'. split; [intro; subst; congruence|split; assumption].
Qed.

Theorem collide_only_if_mapper fs c L am n1 n2 k :
  agg_list fs c (Some L) = Ok am ->
  In n1 (field_names c) -> ident n1 = true -> chain_ok L n1 (Some n1) = true ->
  In n2 (field_names c) -> ident n2 = true -> chain_ok L n2 (Some n2) = true ->
  alist_get am n1 = Some (Key k) -> alist_get am n2 = Some (Key k) ->
  rename_chain L n1 = Some k /\ rename_chain L n2 = Some k.
Proof.
  intros Hagg H1 I1 C1 H2 I2 C2 G1 G2.
  rewrite (agg_is_chain fs c L am n1 Hagg H1 I1 C1) in G1.
  rewrite (agg_is_chain fs c L am n2 Hagg H2 I2 C2) in G2.
  destruct (rename_chain L n1), (rename_chain L n2); cbn [mval_of] in *; try discriminate.
  inversion G1; inversion G2; subst. split; reflexivity.
Qed.

(* ------------------------------------------------------------------ T2: the nested entry *)

Lemma base_loop_other rec key : forall fs acc r,
  base_loop rec fs acc = Ok r ->
  (forall k, In k (map fst fs) -> k <> key /\ k ++ suffix <> key) ->
  alist_get r key = alist_get acc key.
Proof.
  induction fs as [|[k fk] t IH]; intros acc r H Hk.
  - cbn in H. inversion H. reflexivity.
  - rewrite base_loop_cons in H. destruct (base_step rec (k, fk) acc) as [a|] eqn:St; cbn [bind] in H; [|discriminate].
    rewrite (IH a r H); [|intros k' Hin; apply Hk; right; exact Hin].
    destruct (Hk k (or_introl eq_refl)) as [N1 N2].
    apply base_step_shape in St as [acc1 [-> [->|[v ->]]]].
    + apply alist_get_set_other. exact N1.
    + rewrite alist_get_set_other; [|exact N1]. apply alist_get_set_other. exact N2.
Qed.

Lemma app_suffix_inj a b : a ++ suffix = b ++ suffix -> a = b.
Proof. apply app_inv_tail. Qed.

Lemma base_loop_get_sub rec f kd c' sub0 :
  rec c' = Ok sub0 -> (kd = KRef \/ sub0 <> []) ->
  forall fs acc r, base_loop rec fs acc = Ok r ->
    NoDup (map fst fs) -> (forall k, In k (map fst fs) -> nodot k = true) ->
    In (f, Some (kd, c')) fs ->
    alist_get r (f ++ suffix) = Some (Sub sub0).
Proof.
  intros Hrec Hne. induction fs as [|[k fk] t IH]; intros acc r H Hnd Hdots Hin; [destruct Hin|].
  rewrite base_loop_cons in H. destruct (base_step rec (k, fk) acc) as [a|] eqn:St; cbn [bind] in H; [|discriminate].
  cbn [map fst] in Hnd. inversion Hnd as [|? ? Hnin Hnd']; subst.
  destruct Hin as [Heq|Hin].
  - inversion Heq; subst. clear Heq.
    rewrite (base_loop_other rec (f ++ suffix) t a r H).
    + unfold base_step in St. rewrite Hrec in St. cbn [bind] in St. inversion St; subst a. clear St.
      assert (Hf : nodot f = true) by (apply Hdots; left; reflexivity).
      rewrite alist_get_set_other.
      2:{ apply nodot_spec in Hf. intro Heq. apply Hf. rewrite Heq. apply app_suffix_has_dot. }
      destruct kd; [apply alist_get_set_same| |];
        (destruct sub0; [destruct Hne as [?|?]; [discriminate|contradiction]|apply alist_get_set_same]).
    + intros k' Hk'. split.
      * assert (Hd : nodot k' = true) by (apply Hdots; right; exact Hk').
        apply nodot_spec in Hd. intro Heq. apply Hd. rewrite Heq. apply app_suffix_has_dot.
      * intro Heq. apply app_suffix_inj in Heq. subst. contradiction.
  - apply (IH a r H Hnd'); [intros k' Hk'; apply Hdots; right; exact Hk'|exact Hin].
Qed.

(* the `==` shortcut does not fire on the nested entry of field f anywhere along the list *)
Fixpoint nested_ok (L : list mapper) (f : pystr) (x : amap) : bool :=
  match L with
  | [] => true
  | m :: t =>
      negb (shortcut m (f ++ suffix) (Sub x)) &&
      match fold_add true (proj f m) (@Ok amap x) with
      | Ok x' => nested_ok t f x'
      | Raise _ => true
      end
  end.

Lemma add_agg_sub_entry m (a a1 : amap) f (x : amap) :
  add_agg true m a = Ok a1 -> NoDup (map fst a) -> alist_get a (f ++ suffix) = Some (Sub x) ->
  shortcut m (f ++ suffix) (Sub x) = false ->
  exists x', fold_add true (proj f m) (Ok x) = Ok x' /\ alist_get a1 (f ++ suffix) = Some (Sub x').
Proof.
  intros H Hnd Hg Hsc. apply add_agg_loop in H.
  destruct (add_loop_sub_entry m (fun sub v' => add_val true sub v') f x Hsc a [] a1 Hnd
              (alist_get_some_In _ _ _ Hg) H) as [r' [Hr' Hget]].
  unfold sub_entry_res in Hr'.
  assert (Hmap : forall sub, add_val true sub (Sub x) = Ok r' ->
                 exists x', fold_add true [sub] (Ok x) = Ok x' /\ r' = Sub x').
  { intros sub Hv. cbn [fold_add fold_left bind]. unfold add_agg. rewrite Hv. cbn [bind].
    cbn [add_val] in Hv. destruct (add_loop true sub (fun sub0 v' => add_val true sub0 v') x []); cbn [bind] in Hv; [|discriminate].
    inversion Hv; subst. eexists. split; reflexivity. }
  destruct m as [d| |]; cbn [sub_of proj] in *.
  - assert (E : match alist_get d (f ++ suffix) with Some x0 => Some x0 | None => alist_get d (f ++ suffix) end
                = alist_get d (f ++ suffix)) by (destruct (alist_get d (f ++ suffix)); reflexivity).
    rewrite E in Hr'. clear E.
    destruct (alist_get d (f ++ suffix)) as [[s| |sd]|].
    + destruct s; [|discriminate]. inversion Hr'; subst. exists x. split; [reflexivity|exact Hget].
    + discriminate.
    + destruct sd as [|e sd].
      * inversion Hr'; subst. exists x. split; [reflexivity|exact Hget].
      * destruct (Hmap _ Hr') as [x' [Hf ->]]. exists x'. split; [exact Hf|exact Hget].
    + inversion Hr'; subst. exists x. split; [reflexivity|exact Hget].
  - destruct (Hmap _ Hr') as [x' [Hf ->]]. exists x'. split; [exact Hf|exact Hget].
  - destruct (Hmap _ Hr') as [x' [Hf ->]]. exists x'. split; [exact Hf|exact Hget].
Qed.

Lemma fold_add_sub_entry f : forall L (a am x : amap),
  NoDup (map fst a) -> alist_get a (f ++ suffix) = Some (Sub x) ->
  fold_add true L (Ok a) = Ok am -> nested_ok L f x = true ->
  exists x', fold_add true (flat_map (proj f) L) (Ok x) = Ok x' /\ alist_get am (f ++ suffix) = Some (Sub x').
Proof.
  induction L as [|m t IH]; intros a am x Hnd Hg H Hok.
  - cbn in H. inversion H; subst. exists x. split; [reflexivity|exact Hg].
  - rewrite fold_add_cons in H. destruct (add_agg true m a) as [a1|e] eqn:E; [|rewrite fold_add_raise in H; discriminate].
    cbn [nested_ok] in Hok. apply andb_true_iff in Hok as [Hsc Hok]. apply negb_true_iff in Hsc.
    destruct (add_agg_sub_entry m a a1 f x E Hnd Hg Hsc) as [x1 [Hf1 Hg1]].
    rewrite Hf1 in Hok.
    destruct (IH a1 am x1 (add_agg_nodup _ _ _ _ E) Hg1 H Hok) as [x' [Hf Hget]].
    exists x'. split; [|exact Hget].
    cbn [flat_map]. rewrite fold_add_app, Hf1. exact Hf.
Qed.

Theorem nested_entry c L am f kd c' sub0 :
  agg_list true c (Some L) = Ok am ->
  NoDup (field_names c) -> (forall k, In k (field_names c) -> ident k = true) ->
  In (f, Some (kd, c')) (cfields c) ->
  agg_list true c' None = Ok sub0 -> (kd = KRef \/ sub0 <> []) ->
  nested_ok L f sub0 = true ->
  exists am', agg_list true c' (Some (nested_list L f c')) = Ok am' /\
              alist_get am (f ++ suffix) = Some (Sub am').
Proof.
  destruct c as [fields ms]. cbn [agg_list field_names cfields]. intros H Hnd Hid Hin Hsub Hne Hok.
  destruct (base_loop (fun c0 => agg_list true c0 None) fields []) as [b|e] eqn:B; [|rewrite fold_add_raise in H; discriminate].
  assert (Hb : alist_get b (f ++ suffix) = Some (Sub sub0)).
  { eapply (base_loop_get_sub (fun c0 => agg_list true c0 None) f kd c' sub0 Hsub Hne fields [] b B Hnd); [|exact Hin].
    intros k Hk. apply ident_nodot. apply Hid. exact Hk. }
  assert (Hbn : NoDup (map fst b)) by (eapply base_loop_nodup; [|exact B]; constructor).
  destruct (fold_add_sub_entry f L b am sub0 Hbn Hb H Hok) as [x' [Hf Hget]].
  exists x'. split; [|exact Hget].
  unfold nested_list. destruct c' as [fields' ms']. cbn [agg_list cms] in *.
  rewrite fold_add_app, Hsub. exact Hf.
Qed.

(* exactness one level down: T2 + the level theorem; [L] and [c] are arbitrary, so this iterates
   to any nesting depth *)
Theorem keys_exact_nested c L am f kd c' sub0 x' dd' :
  agg_list true c (Some L) = Ok am ->
  NoDup (field_names c) -> (forall k, In k (field_names c) -> ident k = true) ->
  In (f, Some (kd, c')) (cfields c) ->
  agg_list true c' None = Ok sub0 -> (kd = KRef \/ sub0 <> []) ->
  nested_ok L f sub0 = true ->
  (forall n, In n (keys_of x') -> In n (field_names c') /\ ident n = true /\
                                  chain_ok (nested_list L f c') n (Some n) = true) ->
  ser_val (alist_get am (f ++ suffix)) (IStruct x') = Ok (DDict dd') ->
  forall k, In k (keys_of dd') <-> exists n, In n (keys_of x') /\ rename_chain (nested_list L f c') n = Some k.
Proof.
  intros H Hnd Hid Hin Hsub Hne Hok Hx Hser.
  destruct (nested_entry c L am f kd c' sub0 H Hnd Hid Hin Hsub Hne Hok) as [am' [Hagg' Hget]].
  rewrite Hget in Hser.
  exact (keys_exact_level c' (nested_list L f c') am' x' dd' Hagg' Hx Hser).
Qed.

(* ------------------------------------------------------------------ round trip, mapper layer *)

Lemma ser_step_shape rec am n v acc a :
  ser_step rec am (n, v) acc = Ok a ->
  (key_of am n = None /\ a = acc) \/
  (exists s y, key_of am n = Some s /\ rec (alist_get am (n ++ suffix)) v = Ok y /\ a = alist_set acc s y).
Proof.
  unfold ser_step, key_of. intro St. destruct (alist_get am n) as [[s| |m]|].
  - destruct (rec (alist_get am (n ++ suffix)) v) eqn:R; cbn [bind] in St; [|discriminate]. inversion St. right. eexists _, _. repeat split; reflexivity.
  - inversion St. left. split; reflexivity.
  - destruct (rec (alist_get am (n ++ suffix)) v) eqn:R; cbn [bind] in St; [|discriminate]. inversion St. right. eexists _, _. repeat split; reflexivity.
  - destruct (rec (alist_get am (n ++ suffix)) v) eqn:R; cbn [bind] in St; [|discriminate]. inversion St. right. eexists _, _. repeat split; reflexivity.
Qed.

Lemma ser_loop_other rec am k : forall x acc r,
  ser_loop rec am x acc = Ok r ->
  (forall n, In n (keys_of x) -> key_of am n <> Some k) ->
  alist_get r k = alist_get acc k.
Proof.
  induction x as [|[n v] t IH]; intros acc r H Hk.
  - cbn in H. inversion H. reflexivity.
  - rewrite ser_loop_cons in H. destruct (ser_step rec am (n, v) acc) as [a|] eqn:St; cbn [bind] in H; [|discriminate].
    rewrite (IH a r H); [|intros n' Hin; apply Hk; right; exact Hin].
    apply ser_step_shape in St as [[_ ->]|[s [y [Hs [_ ->]]]]]; [reflexivity|].
    apply alist_get_set_other. intro; subst. apply (Hk n); [left; reflexivity|exact Hs].
Qed.

Lemma ser_loop_get rec am n v k : key_of am n = Some k ->
  forall x acc r, ser_loop rec am x acc = Ok r -> NoDup (keys_of x) ->
    (forall n', In n' (keys_of x) -> key_of am n' = Some k -> n' = n) ->
    In (n, v) x ->
    exists dv, rec (alist_get am (n ++ suffix)) v = Ok dv /\ alist_get r k = Some dv.
Proof.
  intros Hk. induction x as [|[n0 v0] t IH]; intros acc r H Hnd Hinj Hin; [destruct Hin|].
  rewrite ser_loop_cons in H. destruct (ser_step rec am (n0, v0) acc) as [a|] eqn:St; cbn [bind] in H; [|discriminate].
  unfold keys_of in Hnd. cbn [map fst] in Hnd. inversion Hnd as [|? ? Hnin Hnd']; subst.
  destruct Hin as [Heq|Hin].
  - inversion Heq; subst. clear Heq.
    apply ser_step_shape in St as [[Hn _]|[s [y [Hs [Hy ->]]]]]; [congruence|].
    assert (s = k) by congruence. subst s.
    exists y. split; [exact Hy|].
    rewrite (ser_loop_other rec am k t _ r H); [apply alist_get_set_same|].
    intros n' Hin' Hk'. apply Hnin. rewrite <- (Hinj n' (or_intror Hin') Hk'). exact Hin'.
  - apply (IH a r H Hnd'); [|exact Hin].
    intros n' Hin' Hk'. apply Hinj; [right; exact Hin'|exact Hk'].
Qed.

(* what the deserializer's lookups find in the serialized document (one level):
   a populated field's value sits under its chain key; an unpopulated field finds nothing, neither
   under its chain key nor under its own name *)
Theorem roundtrip_lookup c L am x dd :
  agg_list true c (Some L) = Ok am ->
  (forall n, In n (field_names c) -> ident n = true /\ chain_ok L n (Some n) = true) ->
  (forall n, In n (keys_of x) -> In n (field_names c)) -> NoDup (keys_of x) ->
  (* injective on the class's fields *)
  (forall n1 n2 k, In n1 (field_names c) -> In n2 (field_names c) ->
                   rename_chain L n1 = Some k -> rename_chain L n2 = Some k -> n1 = n2) ->
  ser_val (Some (Sub am)) (IStruct x) = Ok (DDict dd) ->
  (forall n v k, In (n, v) x -> rename_chain L n = Some k ->
                 exists dv, ser_val (alist_get am (n ++ suffix)) v = Ok dv /\ alist_get dd k = Some dv) /\
  (forall u k, In u (field_names c) -> ~ In u (keys_of x) -> rename_chain L u = Some k ->
               alist_get dd k = None /\
               ((forall n, In n (keys_of x) -> rename_chain L n <> Some u) -> alist_get dd u = None)).
Proof.
  intros Hagg Hf Hx Hnd Hinj Hser.
  assert (Hx' : forall n, In n (keys_of x) -> In n (field_names c) /\ ident n = true /\ chain_ok L n (Some n) = true).
  { intros n Hin. split; [apply Hx; exact Hin|apply Hf, Hx; exact Hin]. }
  pose proof (keys_exact_level c L am x dd Hagg Hx' Hser) as Hkeys.
  assert (Hkey : forall n, In n (field_names c) -> key_of am n = rename_chain L n).
  { intros n Hin. destruct (Hf n Hin) as [Hid Hc].
    unfold key_of. rewrite (agg_is_chain true c L am n Hagg Hin Hid Hc).
    destruct (rename_chain L n); reflexivity. }
  split.
  - intros n v k Hin Hk.
    assert (Hn : In n (keys_of x)) by (apply in_map_iff; exists (n, v); split; [reflexivity|exact Hin]).
    cbn [ser_val] in Hser. destruct am as [|e am']; [discriminate|].
    destruct (ser_loop (fun sub' v' => ser_val sub' v') (e :: am') x []) as [r|] eqn:Lp; cbn [bind] in Hser; [|discriminate].
    inversion Hser; subst r.
    apply (ser_loop_get (fun sub' v' => ser_val sub' v') (e :: am') n v k) with (x := x) (acc := []); auto.
    + rewrite Hkey; [exact Hk|apply Hx; exact Hn].
    + intros n' Hin' Hk'. rewrite Hkey in Hk' by (apply Hx; exact Hin').
      apply (Hinj n' n k); auto.
  - intros u k Hu Hnu Hk. split.
    + apply alist_get_None. intro Hin. apply Hkeys in Hin as [n [Hn Hkn]].
      assert (n = u) by (apply (Hinj n u k); auto). subst. contradiction.
    + intro Hcap. apply alist_get_None. intro Hin. apply Hkeys in Hin as [n [Hn Hkn]].
      apply (Hcap n Hn Hkn).
Qed.

(* ------------------------------------------------------------------ refutations (defects of the pinned code,
   reproduced by the faithful model) *)

Definition agg_is_chain_full : Prop :=
  forall fs c L am n, agg_list fs c (Some L) = Ok am -> In n (field_names c) -> ident n = true ->
                      alist_get am n = Some (mval_of (rename_chain L n)).

Definition sa : pystr := [97%N].
Definition sb : pystr := [98%N].
Definition sc : pystr := [99%N].

(* [{a: b}, {a: b, b: c}] : the chain gives c, the code keeps b *)
Lemma agg_is_chain_full_refuted : ~ agg_is_chain_full.
Proof.
  intro H.
  specialize (H true (Class [(sa, None)] [])
                [MDict [(sa, Key sb)]; MDict [(sa, Key sb); (sb, Key sc)]]
                [(sa, Key sb)] sa eq_refl (or_introl eq_refl) eq_refl).
  vm_compute in H. discriminate.
Qed.

(* [TO_LOWERCASE, {"A": "a_key"}] declared by the base class, nothing by the subclass *)
Lemma inherited_twice_refuted :
  exists levels n, rename_chain (collect_code None levels) n <> rename_chain (collect_decl levels) n.
Proof.
  exists [Some (DMany [MLower; MDict [([65%N], Key [97%N; 95%N; 107%N])]]); None], sa.
  vm_compute. discriminate.
Qed.

(* the full round-trip statement for the model: no field dropped, chain injective on the fields *)
Definition roundtrip_full : Prop :=
  forall c x doc,
    (forall n, In n (field_names c) -> exists k, rename_chain (cms c) n = Some k) ->
    (forall n1 n2 k, In n1 (field_names c) -> In n2 (field_names c) ->
                     rename_chain (cms c) n1 = Some k -> rename_chain (cms c) n2 = Some k -> n1 = n2) ->
    (forall n, In n (keys_of x) -> In n (field_names c)) ->
    serialize c None false x = Ok (DDict doc) ->
    deser_struct c None false doc = Ok x.

(* fields a, b ; mapper {a: b, b: c} ; instance with only a populated: the unpopulated b reads a's value *)
Lemma roundtrip_full_refuted : ~ roundtrip_full.
Proof.
  intro H.
  specialize (H (Class [(sa, None); (sb, None)] [MDict [(sa, Key sb); (sb, Key sc)]])
                [(sa, IScal 1%Z)] [(sb, DScal 1%Z)]).
  assert (Hd : deser_struct (Class [(sa, None); (sb, None)] [MDict [(sa, Key sb); (sb, Key sc)]]) None false
                            [(sb, DScal 1%Z)] = Ok [(sa, IScal 1%Z)]).
  { apply H.
    - intros n [<-|[<-|[]]]; eexists; vm_compute; reflexivity.
    - intros n1 n2 k [<-|[<-|[]]] [<-|[<-|[]]]; vm_compute; intros E1 E2; try reflexivity; congruence.
    - intros n [<-|[]]. left. reflexivity.
    - vm_compute. reflexivity. }
  vm_compute in Hd. discriminate.
Qed.

(* O (TO_CAMELCASE) -> n : N (no mapper) -> nn : NN (TO_LOWERCASE, field in_x): every level is
   drop-free and injective, serialization yields {"n": {"nn": {"INX": 1}}}, and deserialization of
   that document does not find in_x *)
Definition s_in_x : pystr := [105; 110; 95; 120]%N.
Definition s_n : pystr := [110%N].
Definition s_nn : pystr := [110; 110]%N.
Definition cNN := Class [(s_in_x, None)] [MLower].
Definition cN := Class [(s_nn, Some (KRef, cNN))] [].
Definition cO := Class [(s_n, Some (KRef, cN))] [MCamel].
Definition xO : list (pystr * ival) :=
  [(s_n, IStruct [(s_nn, IStruct [(s_in_x, IScal 1%Z)])])].

Lemma nested_depth2_roundtrip_refuted :
  exists doc, serialize cO None false xO = Ok (DDict doc) /\
              deser_struct cO None false doc <> Ok xO.
Proof.
  eexists. split; [vm_compute; reflexivity|]. vm_compute. discriminate.
Qed.
