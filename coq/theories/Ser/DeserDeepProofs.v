(* Deserialization, nested instances included (Ser/DeserEntry.v deser_checked):
   - deser_checked_agrees: whenever the domain-checked deserializer returns an instance, the model of
     typedpy's deserializer (Ser/Deserialize.v deser_struct) returns the same instance;
   - deser_checked_deep: that instance is valid for its class, and so is every Structure instance
     nested anywhere inside it (created by the deserializer for a nested object, or supplied).
   Both need one structural induction over the code of deserialize_single_field (deser_val): the first
   shows it monotone in the function used for nested classes, the second that it invents no instance. *)
From Coq Require Import ZArith NArith String Bool List Lia.
Import ListNotations.
From TP Require Import Base.PyVal Fields.FieldAst Fields.SetChain Fields.Doc Fields.Domain
  Struct.Shapes Struct.Instance Struct.Entry Struct.InstanceProofs Struct.NestedProofs
  Ser.Json Ser.Serialize Ser.Deserialize Ser.DeserEntry.

(* ------------------------------------------------------------------ refinement of results *)

Definition refines {A} (r1 r2 : res A) : Prop := r1 = r2 \/ r1 = Raise Unmodelled.

Lemma refines_refl {A} (r : res A) : refines r r.
Proof. left; reflexivity. Qed.

Lemma refines_ok {A} (r1 r2 : res A) x : refines r1 r2 -> r1 = Ok x -> r2 = Ok x.
Proof. intros [H|H] E; [rewrite <- H; exact E | rewrite H in E; discriminate]. Qed.

Lemma refines_bind {A B} (a1 a2 : res A) (k1 k2 : A -> res B) :
  refines a1 a2 -> (forall x, refines (k1 x) (k2 x)) -> refines (bind a1 k1) (bind a2 k2).
Proof.
  intros [H|H] Hk; subst.
  - destruct a2 as [x|x]; cbn [bind]; [apply Hk | apply refines_refl].
  - right; reflexivity.
Qed.

Lemma refines_rewrap {A} (a b : res A) : refines a b -> refines (rewrap a) (rewrap b).
Proof. intros [H|H]; subst; [apply refines_refl | right; reflexivity]. Qed.

Lemma refines_if {A} (b : bool) (c a1 a2 : res A) :
  refines a1 a2 -> refines (if b then c else a1) (if b then c else a2).
Proof. destruct b; [intros _; apply refines_refl | auto]. Qed.

Lemma refines_mapR {A B} (f1 f2 : A -> res B) l :
  (forall x, refines (f1 x) (f2 x)) -> refines (mapR f1 l) (mapR f2 l).
Proof.
  intro Hf. induction l as [|x t IH]; cbn [mapR]; [apply refines_refl|].
  destruct (Hf x) as [H|H]; rewrite H; [|right; reflexivity].
  destruct (f2 x) as [y|ex]; [|apply refines_refl].
  destruct IH as [IH|IH]; rewrite IH; [apply refines_refl | right; reflexivity].
Qed.

Section Monotone.
  Variable re_match : N -> pystr -> bool.
  Variable e : env.
  Variable ens : enums.
  Variables rec1 rec2 : bool -> pystr -> pyval -> res pyval.
  Hypothesis Hrec : forall ku c j, refines (rec1 ku c j) (rec2 ku c j).

  Notation dv1 := (deser_val re_match e ens rec1).
  Notation dv2 := (deser_val re_match e ens rec2).

  Definition M (f : field) : Prop := forall ku ign j, refines (dv1 ku ign f j) (dv2 ku ign f j).

  Lemma mono_pos fs : Forall M fs -> forall ku l,
    refines
      ((fix pos (fs : list field) (vs : list pyval) {struct fs} : res (list pyval) :=
          match fs with
          | [] => Ok vs
          | g :: fs' => match vs with
                        | [] => Raise IndexError
                        | x :: vs' => y <- rewrap (dv1 ku false g x) ;; ys <- pos fs' vs' ;; Ok (y :: ys)
                        end
          end) fs l)
      ((fix pos (fs : list field) (vs : list pyval) {struct fs} : res (list pyval) :=
          match fs with
          | [] => Ok vs
          | g :: fs' => match vs with
                        | [] => Raise IndexError
                        | x :: vs' => y <- rewrap (dv2 ku false g x) ;; ys <- pos fs' vs' ;; Ok (y :: ys)
                        end
          end) fs l).
  Proof.
    induction 1 as [|g fs' Hg _ IH]; intros ku l; [apply refines_refl|].
    destruct l as [|x vs']; [apply refines_refl|].
    apply refines_bind; [apply refines_rewrap, Hg|]. intro y.
    apply refines_bind; [apply IH|]. intro ys. apply refines_refl.
  Qed.

  Lemma mono_multi (k : multikind) (n0 : nat) gs : Forall M gs -> forall ku j des found failures,
    refines
      ((fix go (gs : list field) (des : pyval) (found : bool) (failures : nat) : res pyval :=
          match gs with
          | [] => if Nat.eqb failures n0 && negb (match k with MNot => true | _ => false end)
                  then Raise ValueError else Ok des
          | g :: t =>
              match dv1 ku false g j with
              | Ok d => match k with
                        | MAny => Ok d
                        | MNot => go t d found (S failures)
                        | MOne => if found then go t d found (S failures) else go t d true failures
                        | MAll => go t d true failures
                        end
              | Raise x => if model_exn x then Raise x
                           else match k with MAll => Raise ValueError | _ => go t des found (S failures) end
              end
          end) gs des found failures)
      ((fix go (gs : list field) (des : pyval) (found : bool) (failures : nat) : res pyval :=
          match gs with
          | [] => if Nat.eqb failures n0 && negb (match k with MNot => true | _ => false end)
                  then Raise ValueError else Ok des
          | g :: t =>
              match dv2 ku false g j with
              | Ok d => match k with
                        | MAny => Ok d
                        | MNot => go t d found (S failures)
                        | MOne => if found then go t d found (S failures) else go t d true failures
                        | MAll => go t d true failures
                        end
              | Raise x => if model_exn x then Raise x
                           else match k with MAll => Raise ValueError | _ => go t des found (S failures) end
              end
          end) gs des found failures).
  Proof.
    induction 1 as [|g t Hg _ IH]; intros ku j des found failures; [apply refines_refl|].
    destruct (Hg ku false j) as [H|H]; rewrite H; [|right; reflexivity].
    destruct (dv2 ku false g j) as [d|x].
    - destruct k; [apply IH | apply refines_refl | destruct found; apply IH | apply IH].
    - destruct (model_exn x); [apply refines_refl|]. destruct k; try apply IH. apply refines_refl.
  Qed.

  Ltac by_j j ign :=
    destruct j; try (destruct ign; cbn [orb]); try apply refines_refl.

  Theorem deser_val_monotone : forall f, M f.
  Proof.
    induction f using field_ind'; unfold M; intros ku ign j; cbn [deser_val];
      try (apply refines_refl).
    - (* FSeqEach *)
      destruct k; by_j j ign;
        (apply refines_bind; [apply refines_mapR; intro x; apply refines_rewrap, IHf | intro r; apply refines_refl]).
    - (* FSeqPos *)
      destruct k; by_j j ign; cbn [list_like]; apply refines_if;
        (apply refines_bind; [apply mono_pos; assumption | intro r; apply refines_refl]).
    - (* FSet Some *)
      by_j j ign;
        (apply refines_bind; [apply refines_mapR; intro x; apply refines_rewrap, IHf | intro r; apply refines_refl]).
    - (* FTuple *)
      destruct fs as [|g0 [|g1 fs']].
      + by_j j ign.
      + (* one item field: every element *)
        inversion H as [|? ? Hg0 _]; subst.
        by_j j ign;
          (apply refines_bind; [apply refines_mapR; intro x; apply refines_rewrap, Hg0 | intro r; apply refines_refl]).
      + by_j j ign; cbn [list_like]; apply refines_if;
          (apply refines_bind; [apply (mono_pos (g0 :: g1 :: fs')); assumption | intro r; apply refines_refl]).
    - (* FMapKV *)
      by_j j ign;
        (apply refines_bind; [|intro r; apply refines_refl];
         apply refines_mapR; intro p;
         apply refines_bind; [apply IHf1 | intro k'];
         apply refines_bind; [apply IHf2 | intro v']; apply refines_refl).
    - (* FAllOf *) by_j j ign; exact (mono_multi MAll (length fs) fs H ku _ _ false 0).
    - (* FAnyOf *) by_j j ign; exact (mono_multi MAny (length fs) fs H ku _ _ false 0).
    - (* FOneOf *) by_j j ign; exact (mono_multi MOne (length fs) fs H ku _ _ false 0).
    - (* FNot *) by_j j ign; exact (mono_multi MNot (length fs) fs H ku _ _ false 0).
    - (* FClassRef *) by_j j ign; apply Hrec.
  Qed.

  Lemma deser_fields_monotone ku ign fds kv : forall had,
    refines (deser_fields re_match e ens rec1 ku ign fds kv had) (deser_fields re_match e ens rec2 ku ign fds kv had).
  Proof.
    induction fds as [|fd t IH]; intro had; cbn [deser_fields]; [apply refines_refl|].
    destruct (dict_get kv (PStr (fd_name fd))) as [j|]; [|apply IH].
    destruct (deser_val_monotone (fd_field fd) ku ign j) as [H|H].
    - rewrite H. destruct j; try apply IH;
        (destruct (deser_val re_match e ens rec2 ku ign (fd_field fd) _) as [w|x];
         [apply refines_bind; [apply IH | intro; apply refines_refl]
         | match goal with |- context [if ?b then _ else _] => destruct b end; [apply IH | apply refines_refl]]).
    - rewrite H. destruct j; try apply IH; right; cbn [model_exn is_te_ve andb]; rewrite ?andb_false_r; reflexivity.
  Qed.
End Monotone.

(* ------------------------------------------------------------------ the checked deserializer agrees *)

Section Agree.
  Variable re_match : N -> pystr -> bool.
  Variable e : env.
  Variable ens : enums.
  Variable fl : dflags.

  Lemma checked_construct_refines c kw :
    refines (checked_construct re_match e c kw) (construct re_match e c kw).
  Proof.
    unfold checked_construct. destruct (kw_ok re_match e c kw && defaults_ok re_match e c);
      [apply refines_refl | right; reflexivity].
  Qed.

  Lemma deser_checked_refines : forall n ku cn j,
      refines (deser_checked re_match e ens fl n ku cn j) (deser_struct re_match e ens fl n ku cn j).
  Proof.
    induction n as [|n IH]; intros ku cn j; [apply refines_refl|].
    cbn [deser_checked deser_struct].
    destruct (find_class e cn) as [c|]; [|apply refines_refl].
    destruct j;
      try (destruct (if df_compact fl then compact_eligible c else None) as [fd|]; [|apply refines_refl];
           apply refines_bind;
           [apply (deser_val_monotone re_match e ens _ _ IH) | intro w; apply checked_construct_refines]).
    apply refines_bind; [apply (deser_fields_monotone re_match e ens _ _ IH)|].
    intro kw. match goal with |- context [str_keys ?l] => destruct (str_keys l) end;
      [apply checked_construct_refines | apply refines_refl].
  Qed.

  (* whenever the domain-checked deserializer returns, typedpy's (model) returns the same instance *)
  Theorem deser_checked_agrees n ku cn j x :
    deser_checked re_match e ens fl n ku cn j = Ok x -> deser_struct re_match e ens fl n ku cn j = Ok x.
  Proof. apply refines_ok, deser_checked_refines. Qed.
End Agree.

(* ------------------------------------------------------------------ no instance is invented *)

Lemma rewrap_ok {A} (r : res A) y : rewrap r = Ok y -> r = Ok y.
Proof. destruct r as [z|x]; cbn [rewrap]; [auto|]. destruct (is_te_ve x); discriminate. Qed.

Lemma rewrap_ve_ok {A} (r : res A) y : rewrap_ve r = Ok y -> r = Ok y.
Proof. destruct r as [z|x]; cbn [rewrap_ve]; [auto|]. destruct (is_ve x); discriminate. Qed.

Section Deep.
  Variable re_match : N -> pystr -> bool.
  Variable e : env.
  Variable ens : enums.
  Variable rec : bool -> pystr -> pyval -> res pyval.

  Notation dv := (deep_valid re_match e).
  Notation dval := (deser_val re_match e ens rec).

  Hypothesis Hrec : forall ku c j x, rec ku c j = Ok x -> dv j = true -> dv x = true.

  Definition V (f : field) : Prop := forall ku ign j w, dval ku ign f j = Ok w -> dv j = true -> dv w = true.

  Lemma dv_list_like j l : list_like j = Some l -> dv j = true -> forallb dv l = true.
  Proof. destruct j; cbn [list_like]; intro H; inversion H; subst; intro D; exact D. Qed.

  Lemma dv_build_seq t l w : build_seq t l = Ok w -> forallb dv l = true -> dv w = true.
  Proof.
    destruct t; cbn [build_seq]; intros H D; try (inversion H; subst; exact D).
    destruct (forallb py_hashable l); [|discriminate]. inversion H; subst.
    change (forallb dv (py_dedup l) = true). apply forallb_forall. intros y Hy.
    apply py_dedup_In in Hy. eapply forallb_In; eauto.
  Qed.

  Lemma dv_mapR (f : pyval -> res pyval) l :
    (forall x y, f x = Ok y -> dv x = true -> dv y = true) ->
    forall r, mapR f l = Ok r -> forallb dv l = true -> forallb dv r = true.
  Proof.
    intro Hf. induction l as [|x t IH]; cbn [mapR]; intros r H D.
    - inversion H; reflexivity.
    - cbn [forallb] in D. apply andb_true_iff in D as [Dx Dt].
      destruct (f x) as [y|] eqn:Ey; [|discriminate].
      destruct (mapR f t) as [ys|] eqn:Eys; [|discriminate]. inversion H; subst.
      cbn [forallb]. rewrite (Hf x y Ey Dx), (IH ys eq_refl Dt). reflexivity.
  Qed.

  Lemma deep_pos fs : Forall V fs -> forall ku l r,
    (fix pos (fs : list field) (vs : list pyval) {struct fs} : res (list pyval) :=
       match fs with
       | [] => Ok vs
       | g :: fs' => match vs with
                     | [] => Raise IndexError
                     | x :: vs' => y <- rewrap (dval ku false g x) ;; ys <- pos fs' vs' ;; Ok (y :: ys)
                     end
       end) fs l = Ok r ->
    forallb dv l = true -> forallb dv r = true.
  Proof.
    induction 1 as [|g fs' Hg _ IH]; intros ku l r H D.
    - inversion H; subst. exact D.
    - destruct l as [|x vs']; [discriminate|].
      cbn [forallb] in D. apply andb_true_iff in D as [Dx Dt].
      destruct (rewrap (dval ku false g x)) as [y|] eqn:Ey; [|discriminate]. cbn [bind] in H.
      match type of H with bind ?rr _ = _ => destruct rr as [ys|] eqn:Eys; [|discriminate] end.
      cbn [bind] in H. inversion H; subst. cbn [forallb].
      rewrite (Hg ku false x y (rewrap_ok _ _ Ey) Dx), (IH ku vs' ys Eys Dt). reflexivity.
  Qed.

  Lemma deep_multi (k : multikind) (n0 : nat) gs : Forall V gs -> forall ku j des found failures w,
    (fix go (gs : list field) (des : pyval) (found : bool) (failures : nat) : res pyval :=
       match gs with
       | [] => if Nat.eqb failures n0 && negb (match k with MNot => true | _ => false end)
               then Raise ValueError else Ok des
       | g :: t =>
           match dval ku false g j with
           | Ok d => match k with
                     | MAny => Ok d
                     | MNot => go t d found (S failures)
                     | MOne => if found then go t d found (S failures) else go t d true failures
                     | MAll => go t d true failures
                     end
           | Raise x => if model_exn x then Raise x
                        else match k with MAll => Raise ValueError | _ => go t des found (S failures) end
           end
       end) gs des found failures = Ok w ->
    dv j = true -> dv des = true -> dv w = true.
  Proof.
    induction 1 as [|g t Hg _ IH]; intros ku j des found failures w H Dj Dd.
    - destruct (Nat.eqb failures n0 && negb (match k with MNot => true | _ => false end)); [discriminate|].
      inversion H; subst. exact Dd.
    - destruct (dval ku false g j) as [d|x] eqn:Ed.
      + pose proof (Hg ku false j d Ed Dj) as Dd'.
        destruct k.
        * eapply IH; eauto.
        * inversion H; subst. exact Dd'.
        * destruct found; eapply IH; eauto.
        * eapply IH; eauto.
      + destruct (model_exn x); [discriminate|]. destruct k; try discriminate; eapply IH; eauto.
  Qed.

  Ltac bind_ok H :=
    match type of H with
    | bind ?r _ = Ok _ => let u := fresh "u" in destruct r as [u|] eqn:?; [|discriminate]; cbn [bind] in H
    end.

  Lemma deep_pairs f1 f2 : V f1 -> V f2 -> forall ku kv u,
    mapR (fun p : pyval * pyval => k' <- dval ku false f1 (fst p) ;; v' <- dval ku false f2 (snd p) ;; Ok (k', v')) kv = Ok u ->
    forallb (fun p => dv (fst p) && dv (snd p)) kv = true ->
    forallb (fun p => dv (fst p) && dv (snd p)) (dict_of_pairs [] u) = true.
  Proof.
    intros H1 H2 ku kv u HH Dj.
    assert (Hr : Forall (fun p => dv (fst p) = true /\ dv (snd p) = true) u).
    { revert u HH Dj. induction kv as [|p kv' IHkv]; cbn [mapR]; intros u0 HH Dj.
      - inversion HH; constructor.
      - cbn [forallb] in Dj. apply andb_true_iff in Dj as [Dp Dt]. apply andb_true_iff in Dp as [Dk Dx].
        destruct (dval ku false f1 (fst p)) as [k'|] eqn:Ek; [|discriminate]. cbn [bind] in HH.
        destruct (dval ku false f2 (snd p)) as [v'|] eqn:Ev; [|discriminate]. cbn [bind] in HH.
        match type of HH with match ?m with _ => _ end = _ => destruct m as [r'|] eqn:Er; [|discriminate] end.
        inversion HH; subst. constructor.
        + cbn [fst snd]. split; [eapply H1 | eapply H2]; eauto.
        + eapply IHkv; eauto. }
    pose proof (dict_of_pairs_Forall (fun k0 => dv k0 = true) (fun x => dv x = true) u [] (Forall_nil _) Hr) as HF.
    apply forallb_forall. intros p Hp. rewrite Forall_forall in HF. destruct (HF p Hp) as [A B].
    rewrite A, B. reflexivity.
  Qed.

  Ltac none_case H Dj :=
    try (inversion H; subst; (reflexivity || exact Dj)).

  Lemma deep_enum f cls members j w :
    deser_enum_cls re_match e ens f cls members j = Ok w -> dv j = true -> dv w = true.
  Proof.
    unfold deser_enum_cls. intros H Dj.
    destruct (enum_by_value ens cls).
    - destruct (negb (py_hashable j)); [discriminate|].
      match type of H with context [find ?p ?l] => destruct (find p l) as [m|] end; [|discriminate].
      inversion H; subst. destruct m as [nm x]. cbn [fst snd].
      (* the member's value comes from the enum table: treated as data *)
      exact (eq_refl : dv (PEnum cls nm x) = true).
    - destruct j; try (bind_ok H; inversion H; subst; exact Dj).
      destruct (alist_has members s); [|discriminate].
      match type of H with context [alist_get ?l ?k] => destruct (alist_get l k) end; [|discriminate].
      inversion H; subst. reflexivity.
  Qed.

  Theorem deser_val_deep : forall f, V f.
  Proof.
    induction f using field_ind'; unfold V; intros ku ign j w Hw Dj; cbn [deser_val] in Hw.
    - (* FNumber *) destruct j; try destruct ign; cbn [orb] in Hw; none_case Hw Dj; bind_ok Hw; inversion Hw; subst; exact Dj.
    - (* FString *) destruct j; try destruct ign; cbn [orb] in Hw; none_case Hw Dj; bind_ok Hw; inversion Hw; subst; exact Dj.
    - (* FBoolean *) destruct j; try destruct ign; cbn [orb] in Hw; none_case Hw Dj; bind_ok Hw; inversion Hw; subst; exact Dj.
    - (* FNone *) destruct j; try destruct ign; cbn [orb] in Hw; none_case Hw Dj; discriminate.
    - (* FAnything *) destruct j; try destruct ign; cbn [orb] in Hw; none_case Hw Dj.
    - (* FEnumLit *) destruct j; try destruct ign; cbn [orb] in Hw; none_case Hw Dj; apply rewrap_ve_ok in Hw;
        bind_ok Hw; inversion Hw; subst; exact Dj.
    - (* FEnumCls *) destruct j; try destruct ign; cbn [orb] in Hw; none_case Hw Dj; apply rewrap_ve_ok in Hw;
        eapply deep_enum; eauto.
    - (* FSeqAny *)
      destruct k; destruct j; try destruct ign; cbn [orb] in Hw; none_case Hw Dj;
        match type of Hw with match list_like ?v with _ => _ end = _ =>
          destruct (list_like v) as [l0|] eqn:El; [|discriminate] end;
        (eapply dv_build_seq; [exact Hw | eapply dv_list_like; eauto]).
    - (* FSeqEach *)
      destruct k; destruct j; try destruct ign; cbn [orb] in Hw; none_case Hw Dj;
        match type of Hw with match list_like ?v with _ => _ end = _ =>
          destruct (list_like v) as [l0|] eqn:El; [|discriminate] end;
        bind_ok Hw; (eapply dv_build_seq; [exact Hw|]);
        (eapply dv_mapR; [| eassumption | eapply dv_list_like; eauto]);
        intros x y Hx Dx; apply rewrap_ok in Hx; eapply IHf; eauto.
    - (* FSeqPos *)
      destruct k; destruct j; try destruct ign; cbn [orb] in Hw; none_case Hw Dj;
        match type of Hw with match list_like ?v with _ => _ end = _ =>
          destruct (list_like v) as [l0|] eqn:El; [|discriminate] end;
        (match type of Hw with (if ?b then _ else _) = _ => destruct b; [discriminate|] end);
        bind_ok Hw; (eapply dv_build_seq; [exact Hw|]);
        (eapply deep_pos; [eassumption | eassumption | eapply dv_list_like; eauto]).
    - (* FSet None *)
      destruct j; try destruct ign; cbn [orb] in Hw; none_case Hw Dj;
        match type of Hw with match list_like ?v with _ => _ end = _ =>
          destruct (list_like v) as [l0|] eqn:El; [|discriminate] end;
        (eapply dv_build_seq; [exact Hw | eapply dv_list_like; eauto]).
    - (* FSet Some *)
      destruct j; try destruct ign; cbn [orb] in Hw; none_case Hw Dj;
        match type of Hw with match list_like ?v with _ => _ end = _ =>
          destruct (list_like v) as [l0|] eqn:El; [|discriminate] end;
        bind_ok Hw; (eapply dv_build_seq; [exact Hw|]);
        (eapply dv_mapR; [| eassumption | eapply dv_list_like; eauto]);
        intros x y Hx Dx; apply rewrap_ok in Hx; eapply IHf; eauto.
    - (* FTuple *)
      destruct fs as [|g0 [|g1 fs']].
      + destruct j; try destruct ign; cbn [orb] in Hw; none_case Hw Dj;
          match type of Hw with match list_like ?v with _ => _ end = _ =>
            destruct (list_like v) as [l0|] eqn:El; [|discriminate] end;
          cbn [length Nat.ltb Nat.leb bind] in Hw;
          (eapply dv_build_seq; [exact Hw | eapply dv_list_like; eauto]).
      + (* one item field: every element *)
        inversion H as [|? ? Hg0 _]; subst.
        destruct j; try destruct ign; cbn [orb] in Hw; none_case Hw Dj;
          match type of Hw with match list_like ?v with _ => _ end = _ =>
            destruct (list_like v) as [l0|] eqn:El; [|discriminate] end;
          bind_ok Hw; (eapply dv_build_seq; [exact Hw|]);
          (eapply dv_mapR; [| eassumption | eapply dv_list_like; eauto]);
          intros x y Hx Dx; apply rewrap_ok in Hx; eapply Hg0; eauto.
      + destruct j; try destruct ign; cbn [orb] in Hw; none_case Hw Dj;
          match type of Hw with match list_like ?v with _ => _ end = _ =>
            destruct (list_like v) as [l0|] eqn:El; [|discriminate] end;
          (match type of Hw with (if ?b then _ else _) = _ => destruct b; [discriminate|] end);
          bind_ok Hw; (eapply dv_build_seq; [exact Hw|]);
          (eapply (deep_pos (g0 :: g1 :: fs')); [eassumption | eassumption | eapply dv_list_like; eauto]).
    - (* FMapAny *) destruct j; try destruct ign; cbn [orb] in Hw; none_case Hw Dj; try discriminate.
    - (* FMapKV *)
      destruct j; try destruct ign; cbn [orb] in Hw; none_case Hw Dj; try discriminate;
        bind_ok Hw;
        (match type of Hw with (if ?b then _ else _) = _ => destruct b; [|discriminate] end);
        inversion Hw; subst;
        match goal with HH : mapR _ _ = Ok _ |- _ => exact (deep_pairs f1 f2 IHf1 IHf2 _ _ _ HH Dj) end.
    - (* FAllOf *) destruct j; try destruct ign; cbn [orb] in Hw; none_case Hw Dj;
        eapply (deep_multi MAll (length fs) fs H); eauto.
    - (* FAnyOf *) destruct j; try destruct ign; cbn [orb] in Hw; none_case Hw Dj;
        eapply (deep_multi MAny (length fs) fs H); eauto.
    - (* FOneOf *) destruct j; try destruct ign; cbn [orb] in Hw; none_case Hw Dj;
        eapply (deep_multi MOne (length fs) fs H); eauto.
    - (* FNot *) destruct j; try destruct ign; cbn [orb] in Hw; none_case Hw Dj;
        eapply (deep_multi MNot (length fs) fs H); eauto.
    - (* FClassRef *) destruct j; try destruct ign; cbn [orb] in Hw; none_case Hw Dj; eapply Hrec; eauto.
  Qed.
End Deep.

(* ------------------------------------------------------------------ the deserialized instance is deeply valid *)

Section DeepStruct.
  Variable re_match : N -> pystr -> bool.
  Variable e : env.
  Variable ens : enums.
  Variable fl : dflags.

  Notation dv := (deep_valid re_match e).

  Lemma deser_fields_deep rec ku ign kv :
    (forall ku c j x, rec ku c j = Ok x -> dv j = true -> dv x = true) ->
    forallb (fun p => dv (fst p) && dv (snd p)) kv = true ->
    forall fds had kw,
      deser_fields re_match e ens rec ku ign fds kv had = Ok kw -> vals_deep re_match e kw = true.
  Proof.
    intros Hrec Dkv. induction fds as [|fd t IH]; intros had kw H; cbn [deser_fields] in H.
    - destruct had; [discriminate|]. inversion H; reflexivity.
    - destruct (dict_get kv (PStr (fd_name fd))) as [j|] eqn:Eg; [|eapply IH; eauto].
      assert (Dj : dv j = true).
      { clear - Eg Dkv. induction kv as [|[k x] kv' IHk]; [discriminate|].
        cbn [forallb fst snd] in Dkv. apply andb_true_iff in Dkv as [Dp Dt]. apply andb_true_iff in Dp as [_ Dx].
        cbn [dict_get] in Eg. destruct (py_eq k (PStr (fd_name fd))); [inversion Eg; subst; exact Dx | apply IHk; assumption]. }
      destruct j; try (eapply IH; eauto; fail);
        (destruct (deser_val re_match e ens rec ku ign (fd_field fd) _) as [w|x] eqn:Ew;
         [ match type of H with bind ?r _ = _ => destruct r as [rest|] eqn:Er; [|discriminate] end;
           cbn [bind] in H; inversion H; subst; unfold vals_deep; cbn [forallb snd];
           rewrite (deser_val_deep re_match e ens rec Hrec _ _ _ _ _ Ew Dj); cbn [andb]; exact (IH _ _ Er)
         | match type of H with (if ?b then _ else _) = _ => destruct b; [eapply IH; eauto | discriminate] end ]).
  Qed.

  Lemma str_keys_deep l : forall ex,
    str_keys l = Some ex -> forallb (fun p => dv (fst p) && dv (snd p)) l = true -> vals_deep re_match e ex = true.
  Proof.
    induction l as [|[k x] t IH]; intros ex H D; cbn [str_keys] in H.
    - inversion H; reflexivity.
    - cbn [forallb fst snd] in D. apply andb_true_iff in D as [Dp Dt]. apply andb_true_iff in Dp as [_ Dx].
      destruct k; try discriminate. destruct (str_keys t) as [r|]; [|discriminate]. inversion H; subst.
      unfold vals_deep. cbn [forallb snd]. rewrite Dx. exact (IH r eq_refl Dt).
  Qed.

  Lemma checked_construct_deep cn c kw x :
    find_class e cn = Some c -> class_defaults_deep re_match e c = true ->
    checked_construct re_match e c kw = Ok x -> vals_deep re_match e kw = true -> dv x = true.
  Proof.
    intros Hc Hdf H Hk. unfold checked_construct in H.
    destruct (kw_ok re_match e c kw && defaults_ok re_match e c) eqn:Eg; [|discriminate].
    apply andb_true_iff in Eg as [Ek Ed].
    destruct (construct_sound re_match e c kw x Ek Ed H) as [a [-> Ha]].
    rewrite dv_struct. apply andb_true_iff; split.
    - unfold inst_ok. rewrite (find_class_self e cn c Hc). exact Ha.
    - exact (construct_deep re_match e c kw (c_name c) a H Hk Hdf).
  Qed.

  (* whatever document is deserialized (Structure instances possibly supplied inside it being valid): the
     instance that comes out is valid for its class and so is every instance nested anywhere in it *)
  Theorem deser_checked_deep : env_defaults_deep re_match e = true -> forall n ku cn j x,
      deser_checked re_match e ens fl n ku cn j = Ok x -> dv j = true -> dv x = true.
  Proof.
    intro Henv. induction n as [|n IH]; intros ku cn j x H Dj; [discriminate|].
    cbn [deser_checked] in H.
    destruct (find_class e cn) as [c|] eqn:Hc; [|discriminate].
    pose proof (class_deep re_match e cn c Henv Hc) as Hdf.
    destruct j;
      try (destruct (if df_compact fl then compact_eligible c else None) as [fd|]; [|discriminate];
           match type of H with bind ?r _ = _ => destruct r as [w|] eqn:Ew; [|discriminate] end; cbn [bind] in H;
           eapply checked_construct_deep; [exact Hc | exact Hdf | exact H |];
           unfold vals_deep; cbn [forallb snd];
           rewrite (deser_val_deep re_match e ens _ IH _ _ _ _ _ Ew Dj); reflexivity).
    change (forallb (fun p => dv (fst p) && dv (snd p)) kv = true) in Dj.
    match type of H with bind ?r _ = _ => destruct r as [kw|] eqn:Ekw; [|discriminate] end. cbn [bind] in H.
    match type of H with context [str_keys ?l] => destruct (str_keys l) as [ex|] eqn:Eex; [|discriminate] end.
    eapply checked_construct_deep; [exact Hc | exact Hdf | exact H |].
    unfold vals_deep. rewrite forallb_app. apply andb_true_iff; split.
    - eapply str_keys_deep; [exact Eex|].
      destruct (ku && (c_additional c || negb (df_ignore_invalid fl))); [apply forallb_filter; exact Dj | reflexivity].
    - exact (deser_fields_deep _ ku (c_ignore_none c) kv IH Dj _ _ _ Ekw).
  Qed.

  (* both facts about the model of typedpy's deserializer itself *)
  Corollary deser_deep_sound : env_defaults_deep re_match e = true -> forall n ku cn j x,
      deser_checked re_match e ens fl n ku cn j = Ok x -> deep_valid re_match e j = true ->
      deser_struct re_match e ens fl n ku cn j = Ok x /\ deep_valid re_match e x = true.
  Proof.
    intros Henv n ku cn j x H Dj. split.
    - exact (deser_checked_agrees re_match e ens fl n ku cn j x H).
    - exact (deser_checked_deep Henv n ku cn j x H Dj).
  Qed.
End DeepStruct.
