(* Operators used by the GENERATED file Gen/SerSites.v (harness/genmods/ser_sites.py): which exceptions an
   `except` clause swallows, attribute reads of an enum member, value-level `or` / `and`.  Executable; no proofs. *)
From Coq Require Import ZArith NArith String List Bool. Import ListNotations.
From TP Require Import Base.PyVal Base.PyOps.
Local Open Scope string_scope.

Inductive catch_kind :=
| CatchAll                          (* except Exception / BaseException / a bare except *)
| CatchOnly (names : list pystr).   (* except (A, B, ...) *)

(* isinstance(exception x, the builtin class named n), for the exception classes of the model *)
Definition exn_isa (x : exn) (n : pystr) : bool :=
  let is s := pystr_eqb n (s2p s) in
  is "Exception" || is "BaseException" ||
  match x with
  | TypeError => is "TypeError"
  | ValueError => is "ValueError"
  | InvalidStructureErr => is "InvalidStructureErr" || is "TypeError" || is "ValueError"   (* counts as both in the model: is_te_ve *)
  | IndexError => is "IndexError" || is "LookupError"
  | KeyError => is "KeyError" || is "LookupError"
  | AttributeError => is "AttributeError"
  | OverflowError => is "OverflowError" || is "ArithmeticError"
  | ZeroDivisionError => is "ZeroDivisionError" || is "ArithmeticError"
  | NotImplementedError => is "NotImplementedError" || is "RuntimeError"
  | RuntimeError => is "RuntimeError"
  | OtherExn m => pystr_eqb n m
  | OutOfFuel | Unmodelled => false
  end.

Definition catches (k : catch_kind) (x : exn) : bool :=
  match k with
  | CatchAll => true
  | CatchOnly names => existsb (exn_isa x) names
  end.

(* value.name / value.value of an enum member *)
Definition py_getattr (v : pyval) (a : pystr) : res pyval :=
  match v with
  | PEnum _ n x =>
      if pystr_eqb a (s2p "value") then Ok x
      else if pystr_eqb a (s2p "name") then Ok (PStr n)
      else Raise AttributeError
  | PStruct _ _ | POther _ _ => Raise Unmodelled
  | _ => Raise AttributeError
  end.

(* `a or b` / `a and b` as VALUES: the first operand decides by its truthiness *)
Definition py_or_val (a : res pyval) (b : unit -> res pyval) : res pyval :=
  x <- a ;; if py_truthy x then Ok x else b tt.
Definition py_and_val (a : res pyval) (b : unit -> res pyval) : res pyval :=
  x <- a ;; if py_truthy x then b tt else Ok x.
