(* Spec side of C06: the DOCUMENTED reading of a JSON-like document as constructor arguments
   (docs/serialization.rst: numbers, strings and booleans as themselves; arrays for Array / Deque / Set /
   Tuple; objects for Map and nested structures; enum names — or values with serialization_by_value —
   for Enum fields over an enum class; a non-object document for a single-field wrapper when compact
   deserialization is on; docs/structures.rst for the treatment of keys that are not fields).
   Written from the documentation, independently of Ser/Deserialize.v: no pre-validation, no error
   collection, no dispatch order — the constructor (Struct/Instance.construct) is the only authority
   on validity.  Executable; no proofs here. *)
From Coq Require Import ZArith QArith NArith String Ascii Bool Lia List.
Import ListNotations.
From TP Require Import Base.PyVal Base.PyEq Fields.FieldAst Fields.SetChain Fields.Doc Struct.Instance Ser.Json Ser.Serialize
  Ser.Deserialize.
Local Open Scope Z_scope.

Fixpoint opt_all {A} (l : list (option A)) : option (list A) :=
  match l with
  | [] => Some []
  | Some x :: t => match opt_all t with Some r => Some (x :: r) | None => None end
  | None :: _ => None
  end.

Section DocRead.
  Variable re_match : N -> pystr -> bool.
  Variable e : env.
  Variable ens : enums.
  Variable fl : dflags.

  Definition enum_members_all (cls : pystr) (members : list (pystr * pyval)) : list (pystr * pyval) :=
    match find_enum ens cls with Some d => en_members d | None => members end.

  (* Multi-field wrappers.  The value of a wrapper field is a value of one of its alternatives, so the candidate
     readings of a document are its readings under each alternative g that g itself accepts -- for NotField also
     the document as itself (a value that matches no alternative stands for itself).  Duplicates (exact equality)
     are one reading.  The document is read as the first candidate the wrapper as a whole accepts (AnyOf: any
     candidate; OneOf: exactly one alternative matches it; AllOf: all do; NotField: none does).  When there are two
     or more DISTINCT candidates the documentation does not say which is meant: [ambiguous] below, and the
     checker then declines to judge the document. *)
  Definition option_readings (lft : field -> pyval -> option pyval) (fs : list field) (j : pyval) : list pyval :=
    flat_map (fun g => match lft g j with
                       | Some w => if is_ok (vset re_match e g w) then [w] else []
                       | None => []
                       end) fs.

  Fixpoint dedup_readings (l : list pyval) : list pyval :=
    match l with
    | [] => []
    | x :: t => x :: filter (fun y => negb (pyval_eqb x y)) (dedup_readings t)
    end.

  Definition pick_reading (accepts : pyval -> bool) (l : list pyval) : option pyval := find accepts l.

  Section WithRec.
    (* the instance a nested object stands for, if any *)
    Variable rec : pystr -> pyval -> option pyval.

    (* [lift f j]: the Python value that document j stands for where a value of f is expected;
       None = j is not the JSON form of anything for f *)
    Fixpoint lift (f : field) (j : pyval) {struct f} : option pyval :=
      let elems (g : field) (l : list pyval) := opt_all (map (lift g) l) in
      let positional (items : list field) (l : list pyval) :=
          (fix pos (fs : list field) (vs : list pyval) {struct fs} : option (list pyval) :=
             match fs, vs with
             | [], _ => Some vs
             | _, [] => Some []
             | g :: fs', x :: vs' =>
                 match lift g x, pos fs' vs' with
                 | Some y, Some ys => Some (y :: ys)
                 | _, _ => None
                 end
             end) items l in
      match f with
      | FNumber _ _ _ | FString _ | FBoolean | FEnumLit _ | FAnything => Some j
      | FNone => match j with PNone => Some PNone | _ => None end
      | FEnumCls cls members =>
          if enum_by_value ens cls then
            if py_hashable j then
              match find (fun m => py_eq (snd m) j) (enum_members_all cls members) with
              | Some m => Some (PEnum cls (fst m) (snd m))
              | None => None
              end
            else None
          else match j with
               | PStr s => match alist_get (enum_members_all cls members) s with
                           | Some x => Some (PEnum cls s x)
                           | None => None
                           end
               | _ => None
               end
      | FSeqAny k _ _ => match j with PList l => Some (seq_make k l) | _ => None end
      | FSeqEach k g _ _ =>
          match j with
          | PList l => match elems g l with Some r => Some (seq_make k r) | None => None end
          | _ => None
          end
      | FSeqPos k items _ _ _ =>
          match j with
          | PList l => match positional items l with Some r => Some (seq_make k r) | None => None end
          | _ => None
          end
      | FSet _ None _ =>
          match j with
          | PList l => if forallb py_hashable l then Some (PSet false (py_dedup l)) else None
          | _ => None
          end
      | FSet _ (Some g) _ =>
          match j with
          | PList l => match elems g l with
                       | Some r =>
                           (* every element is itself the image of a valid item (a set would silently merge
                              1.0 and true) *)
                           if forallb py_hashable r && forallb (fun w => is_ok (vset re_match e g w)) r
                           then Some (PSet false (py_dedup r)) else None
                       | None => None
                       end
          | _ => None
          end
      | FTuple [g] _ =>
          match j with
          | PList l => match elems g l with Some r => Some (PTuple r) | None => None end
          | _ => None
          end
      | FTuple items _ =>
          match j with
          | PList l => match positional items l with Some r => Some (PTuple r) | None => None end
          | _ => None
          end
      | FMapAny _ => match j with PDict _ => Some j | _ => None end
      | FMapKV kf vf _ =>
          match j with
          | PDict kv =>
              match opt_all (map (fun p => match lift kf (fst p), lift vf (snd p) with
                                           | Some k', Some v' => Some (k', v')
                                           | _, _ => None
                                           end) kv) with
              | Some r => if forallb (fun p => py_hashable (fst p)) r then Some (PDict (dict_of_pairs [] r)) else None
              | None => None
              end
          | _ => None
          end
      | FAnyOf fs => pick_reading (fun _ => true) (dedup_readings (option_readings lift fs j))
      | FOneOf fs | FAllOf fs =>
          pick_reading (fun w => is_ok (vset re_match e f w)) (dedup_readings (option_readings lift fs j))
      | FNot fs =>
          pick_reading (fun w => is_ok (vset re_match e f w)) (dedup_readings (j :: option_readings lift fs j))
      | FClassRef c => rec c j          (* an object, or the compact form of a single-field wrapper *)
      end.

    (* [ambiguous f j]: the reading of document j for declaration f is not decided.  Somewhere in it a multi-field
       wrapper has two or more distinct candidate readings (an over-approximation: alternatives that are not chosen
       are searched too), or one of the acceptance tests that select the candidates is one on which the model of the
       constructor DECLINES (vset raises Unmodelled, e.g. an int beyond 2^53 offered to a Float): [lift] counts such
       a test as "not accepted", which is not a prediction. *)
    Variable rec_amb : pystr -> pyval -> bool.

    Definition vset_declines (g : field) (w : pyval) : bool :=
      match vset re_match e g w with Raise x => model_exn x | Ok _ => false end.

    Definition reading_declines (g : field) (j : pyval) : bool :=
      match lift g j with Some w => vset_declines g w | None => false end.

    Fixpoint ambiguous (f : field) (j : pyval) {struct f} : bool :=
      let elems (g : field) (l : list pyval) := existsb (ambiguous g) l in
      let positional (items : list field) (l : list pyval) :=
          (fix pos (fs : list field) (vs : list pyval) {struct fs} : bool :=
             match fs, vs with
             | g :: fs', x :: vs' => ambiguous g x || pos fs' vs'
             | _, _ => false
             end) items l in
      let multi (is_not : bool) (fs : list field) :=
          let cands := dedup_readings ((if is_not then [j] else []) ++ option_readings lift fs j) in
          (2 <=? length cands)%nat
          || existsb (fun g => reading_declines g j) fs
          || existsb (vset_declines f) cands
          || (fix any (gs : list field) : bool :=
                match gs with
                | [] => false
                | g :: t => ambiguous g j || any t
                end) fs in
      match f with
      | FSet _ (Some g) _ =>
          match j with PList l => elems g l || existsb (reading_declines g) l | _ => false end
      | FSeqEach _ g _ _ | FTuple [g] _ =>
          match j with PList l => elems g l | _ => false end
      | FSeqPos _ items _ _ _ | FTuple items _ =>
          match j with PList l => positional items l | _ => false end
      | FMapKV kf vf _ =>
          match j with
          | PDict kv => existsb (fun p => ambiguous kf (fst p) || ambiguous vf (snd p)) kv
          | _ => false
          end
      | FAnyOf fs | FOneOf fs | FAllOf fs => multi false fs
      | FNot fs => multi true fs
      | FClassRef c => rec_amb c j
      | _ => false
      end.
  End WithRec.

  (* what happens to a key that is not a field (docs/structures.rst, defaults #1 and #10, and the
     keep_undefined argument): *)
  Inductive extra_policy := Keep | Drop | Reject.
  Definition extras_policy (c : classdef) (ku : bool) : extra_policy :=
    if negb ku then Drop
    else if c_additional c then Keep
    else if df_ignore_invalid fl then Drop else Reject.

  (* the keyword arguments document d stands for; None = d is not the JSON form of any *)
  Definition doc_to_kwargs (rec : pystr -> pyval -> option pyval) (c : classdef) (ku : bool) (d : pyval)
    : option kwargs :=
    match d with
    | PDict kv =>
        match str_keys kv with
        | None => None
        | Some skv =>
            opt_all
              (flat_map (fun p =>
                 match find_field (c_fields c) (fst p) with
                 | Some fd =>
                     if c_ignore_none c && is_none_val (snd p) then [Some (fst p, PNone)]
                     else [match lift rec (fd_field fd) (snd p) with Some w => Some (fst p, w) | None => None end]
                 | None =>
                     match extras_policy c ku with
                     | Keep => [Some p]
                     | Drop => []
                     | Reject => [None]
                     end
                 end) skv)
        end
    | _ =>
        match (if df_compact fl then compact_eligible c else None) with
        | Some fd =>
            if c_ignore_none c && is_none_val d then Some [(fd_name fd, PNone)]
            else match lift rec (fd_field fd) d with Some w => Some [(fd_name fd, w)] | None => None end
        | None => None
        end
    end.

  (* documented deserialization: read the document, then let the constructor decide *)
  Fixpoint spec_deser (n : nat) (ku : bool) (cn : pystr) (d : pyval) : res pyval :=
    match n with
    | O => Raise OutOfFuel
    | S n' =>
        match find_class e cn with
        | None => Raise Unmodelled
        | Some c =>
            let rec := fun cn' d' => match spec_deser n' ku cn' d' with Ok x => Some x | Raise _ => None end in
            match doc_to_kwargs rec c ku d with
            | Some kw => construct re_match e c kw
            | None => Raise TypeError
            end
        end
    end.

  (* a wrapper with several distinct readings somewhere in document d read for class cn (running out of fuel
     counts as ambiguous: the checker declines) *)
  Fixpoint doc_ambiguous (n : nat) (ku : bool) (cn : pystr) (d : pyval) : bool :=
    match n with
    | O => true
    | S n' =>
        match find_class e cn with
        | None => true
        | Some c =>
            let rec := fun cn' d' => match spec_deser n' ku cn' d' with Ok x => Some x | Raise _ => None end in
            let amb := ambiguous rec (doc_ambiguous n' ku) in
            match d with
            | PDict kv =>
                existsb (fun p => match fst p with
                                  | PStr k => match find_field (c_fields c) k with
                                              | Some fd => amb (fd_field fd) (snd p)
                                              | None => false
                                              end
                                  | _ => false
                                  end) kv
            | _ =>
                match (if df_compact fl then compact_eligible c else None) with
                | Some fd => amb (fd_field fd) d
                | None => false
                end
            end
        end
    end.
End DocRead.

(* Structure.__eq__ reads attributes with getattr: an attribute holding None and an absent one compare equal *)
Fixpoint strip_none (v : pyval) : pyval :=
  match v with
  | PList l => PList (map strip_none l)
  | PTuple l => PTuple (map strip_none l)
  | PDeque l => PDeque (map strip_none l)
  | PSet f l => PSet f (map strip_none l)
  | PDict kv =>
      PDict ((fix gd (l : list (pyval * pyval)) : list (pyval * pyval) :=
                match l with
                | [] => []
                | (k, x) :: t => (strip_none k, strip_none x) :: gd t
                end) kv)
  | PStruct c a =>
      PStruct c ((fix go (l : list (pystr * pyval)) : list (pystr * pyval) :=
                    match l with
                    | [] => []
                    | (k, x) :: t => match x with PNone => go t | _ => (k, strip_none x) :: go t end
                    end) a)
  | _ => v
  end.

(* "result-equivalent": both accept with equal instances, or both reject with TypeError/ValueError *)
Definition res_equiv_tv (a b : res pyval) : bool :=
  match a, b with
  | Ok x, Ok y => pyval_eqb (strip_none x) (strip_none y)
  | Raise x, Raise y => is_te_ve x && is_te_ve y
  | _, _ => false
  end.
