(* The tie between the GENERATED translation of the deserialization side of
   typedpy/serialization/serialization.py (Gen/DeserializeSrc.v: what deserialize_list_like, deserialize_array /
   _deque / _tuple / _set, deserialize_multifield_wrapper, deserialize_map, deserialize_single_field,
   construct_fields_map, deserialize_structure_internal and the class statements of the package say NOW) and the
   hand-written model Ser/Deserialize.v on which the C05 / C06 / C18 theorems are proved (deser_val, deser_fields,
   the extra-key filter of deser_struct).

   Every theorem is about EVERY declaration, document, fuel.  How a model-level declaration is seen as the
   Python-level argument `field` is fixed in the first part of this file ([fld_py]): a field is an instance
   [PStruct <real class name> <attributes the source reads>]; a Structure class is the reference [ref name], its
   attributes are in the heap ([class_heap]).  The configuration the model covers: no mapper, camel_case_convert
   off; `mapper`, `camel_case_convert` and `name` are nevertheless universally quantified wherever the translated
   function only hands them on. *)
From Coq Require Import ZArith QArith NArith String Ascii Bool Lia List.
Import ListNotations.
From TP Require Import Base.PyVal Base.PyOps Base.PyOps2 Base.PyObj Base.PyOpsFields Base.PyOpsDeserialize
     Fields.FieldAst Fields.SetChain Fields.Doc Struct.Instance Ser.Json Ser.Serialize Ser.Deserialize
     Gen.DeserializeSrc.
From TP Require Base.PyOpsVersioned Base.PyOpsDerive.
Local Open Scope Z_scope.

Notation tbl := src_class_table.
Notation xtbl := src_exn_table.

(* ------------------------------------------------------------------ how a declaration is seen as Python objects *)

(* the real class of a numeric leaf (harness/fieldgen.py SIGN_CLASS) *)
Definition num_class (k : numkind) (s : sign) : pystr :=
  match k, s with
  | KNumber, SAny => s2p "Number" | KNumber, SPositive => s2p "Positive" | KNumber, SNegative => s2p "Negative"
  | KNumber, SNonPositive => s2p "NonPositive" | KNumber, SNonNegative => s2p "NonNegative"
  | KInteger, SAny => s2p "Integer" | KInteger, SPositive => s2p "PositiveInt" | KInteger, SNegative => s2p "NegativeInt"
  | KInteger, SNonPositive => s2p "NonPositiveInt" | KInteger, SNonNegative => s2p "NonNegativeInt"
  | KFloat, SAny => s2p "Float" | KFloat, SPositive => s2p "PositiveFloat" | KFloat, SNegative => s2p "NegativeFloat"
  | KFloat, SNonPositive => s2p "NonPositiveFloat" | KFloat, SNonNegative => s2p "NonNegativeFloat"
  end.

Definition optZ_py (o : option Z) : pyval := match o with Some z => PNum (NInt z) | None => PNone end.
Definition optnum_py (o : option num) : pyval := match o with Some n => PNum n | None => PNone end.
Definition optN_py (o : option N) : pyval := match o with Some n => PNum (NInt (Z.of_N n)) | None => PNone end.

(* TypedField._ty of the numeric classes: Integer -> int, Float -> float, Number is not a TypedField *)
Definition num_ty (k : numkind) : list (pystr * pyval) :=
  match k with
  | KNumber => []
  | KInteger => [(s2p "_ty", bref (s2p "int"))]
  | KFloat => [(s2p "_ty", bref (s2p "float"))]
  end.

Definition numc_attrs (c : numc) : list (pystr * pyval) :=
  [(s2p "multiplesOf", optZ_py (multiplesOf c)); (s2p "minimum", optnum_py (minimum c));
   (s2p "maximum", optnum_py (maximum c)); (s2p "exclusiveMaximum", PBool (exclusiveMaximum c))].

Definition strc_attrs (c : strc) : list (pystr * pyval) :=
  [(s2p "minLength", optZ_py (minLength c)); (s2p "maxLength", optZ_py (maxLength c));
   (s2p "pattern", optN_py (pattern c))].

(* an enum.Enum class, seen as the mapping name -> member (as in Ser/EnumGuardProofs.v) *)
Definition enum_cls_py (cls : pystr) (ms : list (pystr * pyval)) : pyval :=
  PDict (map (fun m => (PStr (fst m), PEnum cls (fst m) (snd m))) ms).

Definition seq_cls (k : seqkind) : pystr := match k with SeqList => s2p "Array" | SeqDeque => s2p "Deque" end.
Definition seq_ty (k : seqkind) : pyval := match k with SeqList => bref (s2p "list") | SeqDeque => bref (s2p "deque") end.
Definition set_cls (imm : bool) : pystr := if imm then s2p "ImmutableSet" else s2p "Set".
Definition set_ty (imm : bool) : pyval := if imm then bref (s2p "frozenset") else bref (s2p "set").

(* the field object: its class, and the attributes the translated functions read (items, _ty, get_fields());
   the leaves also carry their constraints, so that the leaf methods the functions call (field._validate,
   field.deserialize) are functions of the object *)
Fixpoint fld_py (f : field) : pyval :=
  match f with
  | FNumber k s c => PStruct (num_class k s) (num_ty k ++ numc_attrs c)
  | FString c => PStruct (s2p "String") ((s2p "_ty", bref (s2p "str")) :: strc_attrs c)
  | FBoolean => PStruct (s2p "Boolean") [(s2p "_ty", bref (s2p "bool"))]
  | FNone => PStruct (s2p "NoneField") [(s2p "_ty", bref (s2p "NoneType"))]
  | FAnything => PStruct (s2p "Anything") []
  | FEnumLit vs => PStruct (s2p "Enum") [(s2p "_is_enum", PBool false); (s2p "values", PList vs)]
  | FEnumCls cls ms => PStruct (s2p "Enum") [(s2p "_is_enum", PBool true); (s2p "_enum_class", enum_cls_py cls ms);
                                             (s2p "_enum_class.__name__", PStr cls)]
  | FSeqAny k _ _ => PStruct (seq_cls k) [(s2p "items", PNone); (s2p "_ty", seq_ty k)]
  | FSeqEach k g _ _ => PStruct (seq_cls k) [(s2p "items", fld_py g); (s2p "_ty", seq_ty k)]
  | FSeqPos k fs _ _ _ => PStruct (seq_cls k) [(s2p "items", PList (map fld_py fs)); (s2p "_ty", seq_ty k)]
  | FSet imm None _ => PStruct (set_cls imm) [(s2p "items", PNone); (s2p "_ty", set_ty imm)]
  | FSet imm (Some g) _ => PStruct (set_cls imm) [(s2p "items", fld_py g); (s2p "_ty", set_ty imm)]
  | FTuple fs _ => PStruct (s2p "Tuple") [(s2p "items", PList (map fld_py fs)); (s2p "_ty", bref (s2p "tuple"))]
  | FMapAny _ => PStruct (s2p "Map") [(s2p "items", PNone); (s2p "_ty", bref (s2p "dict"))]
  | FMapKV kf vf _ => PStruct (s2p "Map") [(s2p "items", PList [fld_py kf; fld_py vf]); (s2p "_ty", bref (s2p "dict"))]
  | FAllOf fs => PStruct (s2p "AllOf") [(s2p "get_fields()", PList (map fld_py fs))]
  | FAnyOf fs => PStruct (s2p "AnyOf") [(s2p "get_fields()", PList (map fld_py fs))]
  | FOneOf fs => PStruct (s2p "OneOf") [(s2p "get_fields()", PList (map fld_py fs))]
  | FNot fs => PStruct (s2p "NotField") [(s2p "get_fields()", PList (map fld_py fs))]
  | FClassRef c => PStruct (s2p "ClassReference") [(s2p "_ty", ref c)]
  end.

(* ---- the leaf objects determine their declaration *)

Definition dec_optZ (v : pyval) : option (option Z) :=
  match v with PNone => Some None | PNum (NInt z) => Some (Some z) | _ => None end.
Definition dec_optnum (v : pyval) : option (option num) :=
  match v with PNone => Some None | PNum n => Some (Some n) | _ => None end.
Definition dec_optN (v : pyval) : option (option N) :=
  match v with PNone => Some None | PNum (NInt z) => Some (Some (Z.to_N z)) | _ => None end.
Definition dec_bool (v : pyval) : option bool := match v with PBool b => Some b | _ => None end.

Definition all_num_classes : list (numkind * sign) :=
  list_prod [KNumber; KInteger; KFloat] [SAny; SPositive; SNegative; SNonPositive; SNonNegative].
Definition dec_num_class (c : pystr) : option (numkind * sign) :=
  find (fun ks => pystr_eqb (num_class (fst ks) (snd ks)) c) all_num_classes.

Fixpoint dec_members (kv : list (pyval * pyval)) : option (list (pystr * pyval)) :=
  match kv with
  | [] => Some []
  | (PStr n, PEnum _ _ v) :: t => match dec_members t with Some r => Some ((n, v) :: r) | None => None end
  | _ => None
  end.

Definition obind {A B} (o : option A) (f : A -> option B) : option B := match o with Some a => f a | None => None end.

Definition dec_numc (attrs : list (pystr * pyval)) : option numc :=
  obind (obind (alist_get attrs (s2p "multiplesOf")) dec_optZ) (fun a =>
  obind (obind (alist_get attrs (s2p "minimum")) dec_optnum) (fun b =>
  obind (obind (alist_get attrs (s2p "maximum")) dec_optnum) (fun c =>
  obind (obind (alist_get attrs (s2p "exclusiveMaximum")) dec_bool) (fun d =>
  Some {| multiplesOf := a; minimum := b; maximum := c; exclusiveMaximum := d |})))).

Definition dec_strc (attrs : list (pystr * pyval)) : option strc :=
  obind (obind (alist_get attrs (s2p "minLength")) dec_optZ) (fun a =>
  obind (obind (alist_get attrs (s2p "maxLength")) dec_optZ) (fun b =>
  obind (obind (alist_get attrs (s2p "pattern")) dec_optN) (fun c =>
  Some {| minLength := a; maxLength := b; pattern := c |}))).

Definition leaf_of_py (o : pyval) : option field :=
  match o with
  | PStruct c attrs =>
      match dec_num_class c with
      | Some (k, s) => obind (dec_numc attrs) (fun nc => Some (FNumber k s nc))
      | None =>
          if pystr_eqb c (s2p "String") then obind (dec_strc attrs) (fun sc => Some (FString sc))
          else if pystr_eqb c (s2p "Boolean") then Some FBoolean
          else if pystr_eqb c (s2p "Enum") then
            match alist_get attrs (s2p "_is_enum") with
            | Some (PBool false) =>
                match alist_get attrs (s2p "values") with Some (PList vs) => Some (FEnumLit vs) | _ => None end
            | Some (PBool true) =>
                match alist_get attrs (s2p "_enum_class"), alist_get attrs (s2p "_enum_class.__name__") with
                | Some (PDict kv), Some (PStr cls) => obind (dec_members kv) (fun ms => Some (FEnumCls cls ms))
                | _, _ => None
                end
            | _ => None
            end
          else None
      end
  | _ => None
  end.

Definition is_validated (f : field) : bool :=
  match f with FNumber _ _ _ | FString _ | FBoolean => true | _ => false end.
Definition is_enum_field (f : field) : bool :=
  match f with FEnumLit _ | FEnumCls _ _ => true | _ => false end.

Lemma dec_members_enum cls ms : dec_members (map (fun m => (PStr (fst m), PEnum cls (fst m) (snd m))) ms) = Some ms.
Proof.
  induction ms as [|[n v] t IH]; [reflexivity|]. cbn [map dec_members fst snd]. rewrite IH. reflexivity.
Qed.

Lemma leaf_of_py_embed f : is_validated f || is_enum_field f = true -> leaf_of_py (fld_py f) = Some f.
Proof.
  destruct f as [k s c|c| | | |vs|cls ms| | | | | | | | | | | |]; cbn [is_validated is_enum_field orb];
    intro H; try discriminate H.
  - destruct c as [mo mi ma ex]. destruct k, s, mo, mi, ma; reflexivity.
  - destruct c as [mi ma pa]. destruct mi, ma, pa as [p|]; cbn; try reflexivity; rewrite N2Z.id; reflexivity.
  - reflexivity.
  - reflexivity.
  - cbn [fld_py leaf_of_py]. change (dec_num_class (s2p "Enum")) with (@None (numkind * sign)). cbv iota.
    change (pystr_eqb (s2p "Enum") (s2p "String")) with false.
    change (pystr_eqb (s2p "Enum") (s2p "Boolean")) with false.
    change (pystr_eqb (s2p "Enum") (s2p "Enum")) with true. cbv iota.
    change (alist_get [(s2p "_is_enum", PBool true); (s2p "_enum_class", enum_cls_py cls ms);
                       (s2p "_enum_class.__name__", PStr cls)] (s2p "_is_enum")) with (Some (PBool true)).
    cbv iota.
    change (alist_get [(s2p "_is_enum", PBool true); (s2p "_enum_class", enum_cls_py cls ms);
                       (s2p "_enum_class.__name__", PStr cls)] (s2p "_enum_class")) with (Some (enum_cls_py cls ms)).
    change (alist_get [(s2p "_is_enum", PBool true); (s2p "_enum_class", enum_cls_py cls ms);
                       (s2p "_enum_class.__name__", PStr cls)] (s2p "_enum_class.__name__")) with (Some (PStr cls)).
    unfold enum_cls_py. cbv iota. rewrite dec_members_enum. reflexivity.
Qed.

(* ------------------------------------------------------------------ small facts *)

Lemma hashable_eq : forall v, py_hashable' v = py_hashable v.
Proof.
  induction v using pyval_ind'; reflexivity.
Qed.

Lemma hashable_all_eq l : hashable_all l = forallb py_hashable l.
Proof. unfold hashable_all. induction l as [|x t IH]; [reflexivity|]. cbn [forallb]. rewrite hashable_eq, IH. reflexivity. Qed.

Lemma num_eqb_int a b : num_eqb (NInt a) (NInt b) = Z.eqb a b.
Proof.
  unfold num_eqb, Qeq_bool. cbn [num_to_Q Qnum Qden]. rewrite !Z.mul_1_r.
  unfold Zeq_bool. destruct (Z.eqb_spec a b) as [E|E].
  - subst. rewrite Z.compare_refl. reflexivity.
  - destruct (Z.compare_spec a b); try reflexivity. contradiction.
Qed.

(* `except (ValueError, TypeError)` / `except (TypeError, ValueError)` / `except Exception`, against the
   exception classes the source declares *)
Lemma caught_ve_te x : exn_caught xtbl x [s2p "ValueError"; s2p "TypeError"] = is_te_ve x.
Proof. destruct x; reflexivity. Qed.

Lemma caught_te_ve x : exn_caught xtbl x [s2p "TypeError"; s2p "ValueError"] = is_te_ve x.
Proof. destruct x; reflexivity. Qed.

Lemma caught_exception x : exn_caught xtbl x [s2p "Exception"] = negb (model_exn x).
Proof. destruct x; reflexivity. Qed.

Lemma rewrap_raise {A} x : @rewrap A (Raise x) = if is_te_ve x then Raise ValueError else Raise x.
Proof. reflexivity. Qed.

(* class tests do not look at the attributes *)
Lemma cls_inst_irrel c a ks r :
  cls_isinstance tbl (PStruct c []) ks = r -> cls_isinstance tbl (PStruct c a) ks = r.
Proof. intros <-. reflexivity. Qed.

(* closed class tests are computed against the generated table *)
Ltac cls_eval :=
  repeat match goal with
  | |- context [cls_isinstance tbl (PStruct (s2p ?c) ?a) ?ks] =>
      let r := eval vm_compute in (cls_isinstance tbl (PStruct (s2p c) []) ks) in
      rewrite (cls_inst_irrel (s2p c) a ks r) by (vm_compute; reflexivity)
  end.

Lemma num_class_tests k s a :
  cls_isinstance tbl (PStruct (num_class k s) a) ([s2p "Number"] ++ [s2p "String"] ++ [s2p "Boolean"]) = Ok true /\
  cls_isinstance tbl (PStruct (num_class k s) a) [s2p "SerializableField"] = Ok false /\
  cls_isinstance tbl (PStruct (num_class k s) a) [s2p "NoneField"] = Ok false.
Proof. destruct k, s; repeat split; apply cls_inst_irrel; vm_compute; reflexivity. Qed.

(* sequences *)
Lemma seq_index_at (pre : list pyval) x post : seq_index (pre ++ x :: post) (Z.of_nat (length pre)) = Ok x.
Proof.
  unfold seq_index. rewrite app_length. cbn [length].
  destruct (Z.ltb_spec (Z.of_nat (length pre)) 0) as [H|H]; [lia|].
  destruct (Z.ltb_spec (Z.of_nat (length pre)) 0); [lia|].
  destruct (Z.leb_spec (Z.of_nat (length pre + S (length post))) (Z.of_nat (length pre))); [lia|].
  cbn [orb]. rewrite Nat2Z.id. rewrite nth_error_app2 by lia. rewrite Nat.sub_diag. reflexivity.
Qed.

Lemma seq_index_end (pre : list pyval) : seq_index pre (Z.of_nat (length pre)) = Raise IndexError.
Proof.
  unfold seq_index.
  destruct (Z.ltb_spec (Z.of_nat (length pre)) 0) as [H|H]; [lia|].
  destruct (Z.ltb_spec (Z.of_nat (length pre)) 0); [lia|].
  destruct (Z.leb_spec (Z.of_nat (length pre)) (Z.of_nat (length pre))); [|lia].
  reflexivity.
Qed.

Lemma slice_from {A} (l : list A) n : (n <= length l)%nat ->
  PyOpsVersioned.slice_list (Some (Z.of_nat n)) None l = skipn n l.
Proof.
  intro H. unfold PyOpsVersioned.slice_list, PyOpsVersioned.clamp.
  destruct (Z.ltb_spec (Z.of_nat n) 0); [lia|]. rewrite Nat2Z.id.
  rewrite Nat.min_r by lia. rewrite firstn_all2; [reflexivity|]. rewrite skipn_length. lia.
Qed.


(* ------------------------------------------------------------------ the field-level functions *)

Section Field.
  Variable re_match : N -> pystr -> bool.
  Variable e : env.
  Variable ens : enums.
  Variable h : heap.
  Variable ext : extern.
  Variable rec : bool -> pystr -> pyval -> res pyval.

  (* Enum.deserialize, as the model has it *)
  Definition enum_deser (f : field) (j : pyval) : res pyval :=
    match f with
    | FEnumLit _ => _ <- validate_weak re_match e f j ;; Ok j
    | FEnumCls cls ms => deser_enum_cls re_match e ens f cls ms j
    | _ => Raise Unmodelled
    end.

  (* what the theorems need of the oracle: the two leaf methods the translated functions call are the model's *)
  Definition ext_agrees : Prop :=
    (forall f j, is_validated f = true ->
       ext (meth_name (s2p "_validate")) [fld_py f; j] [] = (_ <- validate_weak re_match e f j ;; Ok PNone)) /\
    (forall f j, is_enum_field f = true ->
       ext (meth_name (s2p "deserialize")) [fld_py f; j] [] = enum_deser f j).

  (* ---- deserialize_list_like, items a single field: the loop *)
  Lemma loop1_eq (R : recs) (gobj name kuv mapper camel ign : pyval) (M : pyval -> res pyval) (P : pyval -> bool)
        (Hg : forall x nm, P x = true -> r_deserialize_single_field R gobj x nm mapper kuv camel ign = M x)
        (k : pyval -> res pyval) :
    forall l i acc, forallb P l = true ->
      src_deserialize_list_like_loop1 h ext R name kuv mapper camel gobj ign k (enum_from i l) (PList acc) =
      match mapR (fun x => rewrap (M x)) l with Ok r => k (PList (acc ++ r)) | Raise x => Raise x end.
  Proof.
    induction l as [|x t IH]; intros i acc HP.
    - cbn [enum_from src_deserialize_list_like_loop1 mapR]. rewrite app_nil_r. reflexivity.
    - cbn [forallb] in HP. apply andb_true_iff in HP as [Hx Ht].
      cbn [enum_from src_deserialize_list_like_loop1 mapR].
      rewrite (Hg x _ Hx). destruct (M x) as [y|ex].
      + cbn [bind_or rewrap PyOpsDerive.py_list_append bind]. rewrite (IH _ _ Ht).
        destruct (mapR (fun x0 => rewrap (M x0)) t) as [r|ex']; [|reflexivity].
        rewrite <- app_assoc. reflexivity.
      + cbn [bind_or]. rewrite caught_ve_te. rewrite rewrap_raise. destruct (is_te_ve ex); reflexivity.
  Qed.

  (* ---- deserialize_list_like, items a list of fields: the positional loop *)
  Fixpoint pos_items (D : field -> pyval -> res pyval) (fs : list field) (vs : list pyval) : res (list pyval) :=
    match fs with
    | [] => Ok []
    | g :: fs' =>
        match vs with
        | [] => Raise IndexError
        | x :: vs' => y <- rewrap (D g x) ;; ys <- pos_items D fs' vs' ;; Ok (y :: ys)
        end
    end.

  Lemma pos_items_length D : forall fs vs ys, pos_items D fs vs = Ok ys -> (length fs <= length vs)%nat.
  Proof.
    induction fs as [|g fs IH]; intros vs ys H; [cbn; lia|].
    destruct vs as [|x vs]; [discriminate H|]. cbn [pos_items] in H.
    destruct (rewrap (D g x)) as [y|ex]; [|discriminate H]. cbn [bind] in H.
    destruct (pos_items D fs vs) as [r|ex] eqn:E; [|discriminate H]. specialize (IH _ _ E). cbn [length]. lia.
  Qed.

  Lemma fld_ignore_none g : fld_getattr_def h (fld_py g) (s2p "_ignore_none") (PBool false) = Ok (PBool false).
  Proof.
    destruct g as [k s c|c| | | |vs|cls ms|k sz u|k g sz u|k fs sz u a|imm [g|] sz|fs u|sz|kf vf sz|fs|fs|fs|fs|cn];
      try reflexivity.
    destruct k; reflexivity.
  Qed.

  Definition value_items (v : pyval) : option (list pyval) :=
    match v with PList l | PTuple l => Some l | _ => None end.

  (* what the positional loop needs of the entry point it calls: item i against element i *)
  Fixpoint pos_hyp (R : recs) (mapper kuv camel : pyval) (D : field -> pyval -> res pyval)
           (items : list field) (vs : list pyval) : Prop :=
    match items, vs with
    | g :: items', x :: vs' =>
        (forall nm, r_deserialize_single_field R (fld_py g) x nm mapper kuv camel (PBool false) = D g x) /\
        pos_hyp R mapper kuv camel D items' vs'
    | _, _ => True
    end.

  Lemma loop2_eq (R : recs) (value name kuv mapper camel : pyval) (D : field -> pyval -> res pyval)
        (k : pyval -> res pyval) :
    forall items pre vs acc,
      pos_hyp R mapper kuv camel D items vs ->
      value_items value = Some (pre ++ vs) ->
      src_deserialize_list_like_loop2 h ext R value name kuv mapper camel k
        (enum_from (Z.of_nat (length pre)) (map fld_py items)) (PList acc) =
      match pos_items D items vs with Ok ys => k (PList (acc ++ ys)) | Raise x => Raise x end.
  Proof.
    induction items as [|g items IH]; intros pre vs acc HF Hv.
    - cbn [map enum_from src_deserialize_list_like_loop2 pos_items]. rewrite app_nil_r. reflexivity.
    - cbn [map enum_from src_deserialize_list_like_loop2 pos_items].
      rewrite fld_ignore_none. cbn [bind_or].
      assert (Hsub : py_subscript value (zint (Z.of_nat (length pre))) =
                     match vs with [] => Raise IndexError | x :: _ => Ok x end).
      { destruct value; try discriminate Hv; cbn [value_items] in Hv; inversion Hv; subst;
          cbn [py_subscript zint]; (destruct vs as [|x vs']; [rewrite app_nil_r; apply seq_index_end | apply seq_index_at]). }
      rewrite Hsub. destruct vs as [|x vs'].
      + cbn [bind_or]. rewrite caught_ve_te. reflexivity.
      + cbn [bind_or]. cbn [pos_hyp] in HF. destruct HF as [Hg HF'].
        rewrite Hg. destruct (D g x) as [y|ex].
        * cbn [bind_or rewrap PyOpsDerive.py_list_append bind].
          replace (Z.of_nat (length pre) + 1) with (Z.of_nat (length (pre ++ [x]))) by (rewrite app_length; cbn [length]; lia).
          rewrite (IH (pre ++ [x]) vs' (acc ++ [y]) HF') by (rewrite <- app_assoc; exact Hv).
          destruct (pos_items D items vs') as [ys|ex']; [|reflexivity].
          rewrite <- app_assoc. reflexivity.
        * cbn [bind_or]. rewrite caught_ve_te, rewrap_raise. destruct (is_te_ve ex); reflexivity.
  Qed.

  (* ---- content_type(values) *)
  Definition ctype_of (t : seqtarget) : pyval :=
    match t with
    | TList => bref (s2p "list") | TDeque => bref (s2p "deque") | TTuple => bref (s2p "tuple") | TSet => bref (s2p "set")
    end.

  Lemma call_ctype t v l : py_iter v = Ok l ->
    (t' <- py_call ext (ctype_of t) [v] [] ;; Ok t') = build_seq t l.
  Proof.
    intro Hv. destruct t; cbn [ctype_of py_call bref]; unfold bref;
      change (pystr_eqb builtin_tag builtin_tag) with true; cbv iota;
      unfold call_builtin.
    - change (builtin_class (s2p "list")) with (Some K_list). cbv iota. rewrite Hv. reflexivity.
    - change (builtin_class (s2p "deque")) with (Some K_deque). cbv iota. rewrite Hv. reflexivity.
    - change (builtin_class (s2p "tuple")) with (Some K_tuple). cbv iota. rewrite Hv. reflexivity.
    - change (builtin_class (s2p "set")) with (Some K_set). cbv iota. rewrite Hv. cbn [bind build_seq].
      rewrite hashable_all_eq. destruct (forallb py_hashable l); reflexivity.
  Qed.

  Definition not_set (v : pyval) : bool := match v with PSet _ _ => false | _ => true end.

  (* the input-type guard, on the one kind of input where source and hand-written model part: a frozenset is not an
     instance of (list, tuple, set) *)
  Lemma list_like_frozenset_rejected (R : recs) fo ct l name kuv mapper camel :
    src_deserialize_list_like h ext R fo ct (PSet true l) name kuv mapper camel = Raise ValueError.
  Proof. reflexivity. Qed.

  Lemma fld_is_field g : cls_isinstance tbl (fld_py g) [s2p "Field"] = Ok true.
  Proof.
    destruct g as [k s c|c| | | |vs|cls ms|k sz u|k g sz u|k fs sz u a|imm [g|] sz|fs u|sz|kf vf sz|fs|fs|fs|fs|cn];
      cbn [fld_py]; try (apply cls_inst_irrel; vm_compute; reflexivity).
    - destruct k, s; apply cls_inst_irrel; vm_compute; reflexivity.
    - destruct k; apply cls_inst_irrel; vm_compute; reflexivity.
    - destruct k; apply cls_inst_irrel; vm_compute; reflexivity.
    - destruct k; apply cls_inst_irrel; vm_compute; reflexivity.
    - destruct imm; apply cls_inst_irrel; vm_compute; reflexivity.
    - destruct imm; apply cls_inst_irrel; vm_compute; reflexivity.
  Qed.

  (* deserialize_list_like(field, content_type, value, ...) for the three shapes of field.items *)
  (* `if isinstance(field, Tuple) and len(items) == 1: items = items[0]` *)
  Lemma len_eq_one (l : list pyval) : py_eqv (PNum (NInt (lenZ' l))) (zint 1) = Ok (Nat.eqb (length l) 1).
  Proof.
    unfold py_eqv, zint, lenZ'. cbn [py_eq as_num]. rewrite num_eqb_int. f_equal.
    destruct (Nat.eqb_spec (length l) 1) as [E|E]; [apply Z.eqb_eq; lia | apply Z.eqb_neq; lia].
  Qed.

  Lemma len_lt {A B} (a : list A) (b : list B) :
    py_lt (PNum (NInt (lenZ' a))) (PNum (NInt (lenZ' b))) = Ok (length a <? length b)%nat.
  Proof.
    unfold py_lt, zint, lenZ'. cbn [as_num]. rewrite num_ltb_int. f_equal.
    destruct (Nat.ltb_spec (length a) (length b)) as [E|E]; [apply Z.ltb_lt; lia | apply Z.ltb_ge; lia].
  Qed.

  (* the shape of field.items, as deserialize_list_like reads it:
     [Some g] -- every element against g: items is the Field g, or field is a Tuple whose items is the list [g] *)
  Definition items_each (fo : pyval) (g : field) : Prop :=
    (cls_isinstance tbl fo [s2p "Tuple"] = Ok false /\ fld_getattr h fo (s2p "items") = Ok (fld_py g)) \/
    (cls_isinstance tbl fo [s2p "Tuple"] = Ok true /\ fld_getattr h fo (s2p "items") = Ok (PList [fld_py g])).

  Lemma list_like_each (R : recs) fo (t : seqtarget) g j name kuv mapper camel (M : pyval -> res pyval) (P : pyval -> bool) :
    items_each fo g ->
    (forall x nm, P x = true -> r_deserialize_single_field R (fld_py g) x nm mapper kuv camel (PBool false) = M x) ->
    not_set j = true ->
    (forall l, list_like j = Some l -> forallb P l = true) ->
    src_deserialize_list_like h ext R fo (ctype_of t) j name kuv mapper camel =
    match list_like j with
    | None => Raise ValueError
    | Some l => r <- mapR (fun x => rewrap (M x)) l ;; build_seq t r
    end.
  Proof.
    intros Hitems Hg Hns HP. unfold src_deserialize_list_like.
    destruct j; try discriminate Hns; try reflexivity.
    - cbn [py_isinstance existsb isinstance1 orb py_not bind negb list_like].
      destruct Hitems as [[Htup Hitems]|[Htup Hitems]]; rewrite Hitems; cbn [bind]; rewrite Htup;
        cbn [py_and bind py_len]; [|rewrite len_eq_one; cbn [length Nat.eqb bind];
          change (py_subscript (PList [fld_py g]) (zint 0)) with (@Ok pyval (fld_py g)); cbn [bind]];
        (rewrite fld_is_field; cbn [bind]; rewrite fld_ignore_none; cbn [bind py_iter]; unfold py_enumerate;
         rewrite (loop1_eq R (fld_py g) name kuv mapper camel (PBool false) M P Hg) by (apply HP; reflexivity);
         cbn [app]; destruct (mapR (fun x => rewrap (M x)) l) as [r|ex]; [|reflexivity];
         cbn [bind]; apply call_ctype; reflexivity).
    - cbn [py_isinstance existsb isinstance1 orb py_not bind negb list_like].
      destruct Hitems as [[Htup Hitems]|[Htup Hitems]]; rewrite Hitems; cbn [bind]; rewrite Htup;
        cbn [py_and bind py_len]; [|rewrite len_eq_one; cbn [length Nat.eqb bind];
          change (py_subscript (PList [fld_py g]) (zint 0)) with (@Ok pyval (fld_py g)); cbn [bind]];
        (rewrite fld_is_field; cbn [bind]; rewrite fld_ignore_none; cbn [bind py_iter]; unfold py_enumerate;
         rewrite (loop1_eq R (fld_py g) name kuv mapper camel (PBool false) M P Hg) by (apply HP; reflexivity);
         cbn [app]; destruct (mapR (fun x => rewrap (M x)) l) as [r|ex]; [|reflexivity];
         cbn [bind]; apply call_ctype; reflexivity).
  Qed.

  Lemma pos_model_items (D : field -> pyval -> res pyval) : forall fs vs,
    (fix pos (fs : list field) (vs : list pyval) {struct fs} : res (list pyval) :=
       match fs with
       | [] => Ok vs
       | g :: fs' =>
           match vs with
           | [] => Raise IndexError
           | x :: vs' => y <- rewrap (D g x) ;; ys <- pos fs' vs' ;; Ok (y :: ys)
           end
       end) fs vs =
    (ys <- pos_items D fs vs ;; Ok (ys ++ skipn (length fs) vs)).
  Proof.
    induction fs as [|g fs IH]; intros vs; [reflexivity|].
    destruct vs as [|x vs]; [reflexivity|]. cbn [pos_items length skipn].
    destruct (rewrap (D g x)) as [y|ex]; [|reflexivity]. cbn [bind]. rewrite IH.
    destruct (pos_items D fs vs) as [ys|ex]; reflexivity.
  Qed.

  Lemma list_like_pos (R : recs) fo (t : seqtarget) items j name kuv mapper camel
        (D : field -> pyval -> res pyval) (istup : bool) :
    fld_getattr h fo (s2p "items") = Ok (PList (map fld_py items)) ->
    cls_isinstance tbl fo [s2p "Tuple"] = Ok istup ->
    (istup = true -> Nat.eqb (length items) 1 = false) ->
    not_set j = true ->
    (forall l, list_like j = Some l -> pos_hyp R mapper kuv camel D items l) ->
    src_deserialize_list_like h ext R fo (ctype_of t) j name kuv mapper camel =
    match list_like j with
    | None => Raise ValueError
    | Some l =>
        if (length l <? length items)%nat then Raise ValueError
        else r <- (ys <- pos_items D items l ;; Ok (ys ++ skipn (length items) l)) ;; build_seq t r
    end.
  Proof.
    intros Hitems Htup Hone Hns HP. unfold src_deserialize_list_like.
    assert (Hguard : py_and (cls_isinstance tbl fo [s2p "Tuple"])
                       (fun _ => t4 <- py_len (PList (map fld_py items)) ;; py_eqv t4 (zint 1)) = Ok false).
    { rewrite Htup. destruct istup; cbn [py_and bind py_len]; [|reflexivity].
      rewrite len_eq_one, map_length, (Hone eq_refl). reflexivity. }
    destruct j; try discriminate Hns; try reflexivity.
    - cbn [py_isinstance existsb isinstance1 orb py_not bind negb list_like]. rewrite Hitems. cbn [bind].
      rewrite Hguard.
      cbn [bind cls_isinstance py_isinstance existsb isinstance1 orb py_iter py_len].
      rewrite len_lt, map_length. cbn [bind]. destruct (length l <? length items)%nat; [reflexivity|].
      unfold py_enumerate.
      rewrite (loop2_eq R (PList l) name kuv mapper camel D _ items [] l [] (HP l eq_refl)) by reflexivity.
      destruct (pos_items D items l) as [ys|ex] eqn:E; [|reflexivity].
      pose proof (pos_items_length D _ _ _ E) as Hlen.
      cbn [app py_len bind]. unfold lenZ'. rewrite map_length.
      cbn [PyOpsVersioned.py_slice PyOpsVersioned.slice_index bind]. rewrite (slice_from l _ Hlen).
      cbn [py_list_extend py_iter bind]. apply call_ctype. reflexivity.
    - cbn [py_isinstance existsb isinstance1 orb py_not bind negb list_like]. rewrite Hitems. cbn [bind].
      rewrite Hguard.
      cbn [bind cls_isinstance py_isinstance existsb isinstance1 orb py_iter py_len].
      rewrite len_lt, map_length. cbn [bind]. destruct (length l <? length items)%nat; [reflexivity|].
      unfold py_enumerate.
      rewrite (loop2_eq R (PTuple l) name kuv mapper camel D _ items [] l [] (HP l eq_refl)) by reflexivity.
      destruct (pos_items D items l) as [ys|ex] eqn:E; [|reflexivity].
      pose proof (pos_items_length D _ _ _ E) as Hlen.
      cbn [app py_len bind]. unfold lenZ'. rewrite map_length.
      cbn [PyOpsVersioned.py_slice PyOpsVersioned.slice_index bind]. rewrite (slice_from l _ Hlen).
      cbn [py_list_extend py_iter bind]. apply call_ctype. reflexivity.
  Qed.

  Lemma list_like_plain (R : recs) fo (t : seqtarget) j name kuv mapper camel :
    fld_getattr h fo (s2p "items") = Ok PNone ->
    cls_isinstance tbl fo [s2p "Tuple"] = Ok false ->
    not_set j = true ->
    src_deserialize_list_like h ext R fo (ctype_of t) j name kuv mapper camel =
    match list_like j with
    | None => Raise ValueError
    | Some l => build_seq t l
    end.
  Proof.
    intros Hitems Htup Hns. unfold src_deserialize_list_like.
    destruct j; try discriminate Hns; try reflexivity.
    - cbn [py_isinstance existsb isinstance1 orb py_not bind negb list_like]. rewrite Hitems. cbn [bind].
      rewrite Htup.
      cbn [py_and bind cls_isinstance py_isinstance existsb isinstance1 orb]. apply call_ctype. reflexivity.
    - cbn [py_isinstance existsb isinstance1 orb py_not bind negb list_like]. rewrite Hitems. cbn [bind].
      rewrite Htup.
      cbn [py_and bind cls_isinstance py_isinstance existsb isinstance1 orb]. apply call_ctype. reflexivity.
  Qed.

  (* ---- deserialize_multifield_wrapper *)
  Definition kind_cls (k : multikind) : pystr :=
    match k with MAll => s2p "AllOf" | MAny => s2p "AnyOf" | MOne => s2p "OneOf" | MNot => s2p "NotField" end.

  (* the model's loop over the options, with the code after the loop as a parameter *)
  Definition multi_goK (D : field -> res pyval) (k : multikind) (K : pyval -> bool -> nat -> res pyval) :=
    fix go (gs : list field) (des : pyval) (found : bool) (failures : nat) {struct gs} : res pyval :=
      match gs with
      | [] => K des found failures
      | g :: t =>
          match D g with
          | Ok d =>
              match k with
              | MAny => Ok d
              | MNot => go t d found (S failures)
              | MOne => if found then go t d found (S failures) else go t d true failures
              | MAll => go t d true failures
              end
          | Raise x =>
              if model_exn x then Raise x
              else match k with
                   | MAll => Raise ValueError
                   | _ => go t des found (S failures)
                   end
          end
      end.

  Lemma zint_succ n : PyOpsDeserialize.py_iadd (zint (Z.of_nat n)) (zint 1) = Ok (zint (Z.of_nat (S n))).
  Proof. cbn [PyOpsDeserialize.py_iadd zint PyOpsVersioned.py_add PyOpsVersioned.as_int]. rewrite Nat2Z.inj_succ. reflexivity. Qed.

  Lemma multi_loop_eq (R : recs) (k : multikind) attrs j name kuv mapper camel (D : field -> res pyval)
        (Ksrc : pyval -> pyval -> pyval -> pyval -> res pyval) (Kmod : pyval -> bool -> nat -> res pyval)
        (HK : forall des found failures errs,
            Ksrc des (PBool found) (zint (Z.of_nat failures)) (PList errs) = Kmod des found failures) :
    forall gs des found failures errs,
      Forall (fun g => forall nm, r_deserialize_single_field R (fld_py g) j nm mapper kuv camel (PBool false) = D g) gs ->
      src_deserialize_multifield_wrapper_loop1 h ext R (PStruct (kind_cls k) attrs) j name kuv mapper camel Ksrc
        (map fld_py gs) des (PBool found) (zint (Z.of_nat failures)) (PList errs) =
      multi_goK D k Kmod gs des found failures.
  Proof.
    induction gs as [|g gs IH]; intros des found failures errs HF.
    - cbn [map src_deserialize_multifield_wrapper_loop1 multi_goK]. apply HK.
    - inversion HF as [|g' gs' Hg HF']; subst.
      cbn [map src_deserialize_multifield_wrapper_loop1 multi_goK].
      rewrite fld_ignore_none. cbn [bind_or]. rewrite Hg.
      destruct (D g) as [d|ex].
      + cbn [bind_or]. destruct k; cbn [kind_cls]; cls_eval; cbn [bind_or py_and bind py_truthy].
        * (* AllOf *) apply IH; exact HF'.
        * (* AnyOf *) reflexivity.
        * (* OneOf *) destruct found.
          -- rewrite caught_exception. cbn [model_exn negb]. rewrite zint_succ.
             cbn [bind PyOpsDerive.py_list_append]. cls_eval. cbn [bind]. apply IH; exact HF'.
          -- apply IH; exact HF'.
        * (* NotField *) rewrite caught_exception. cbn [model_exn negb]. rewrite zint_succ.
          cbn [bind PyOpsDerive.py_list_append]. cls_eval. cbn [bind]. apply IH; exact HF'.
      + cbn [bind_or]. rewrite caught_exception. destruct (model_exn ex); cbn [negb]; [reflexivity|].
        rewrite zint_succ. cbn [bind PyOpsDerive.py_list_append].
        destruct k; cbn [kind_cls]; cls_eval; cbn [bind]; try reflexivity; apply IH; exact HF'.
  Qed.

  Lemma multifield_eq (R : recs) (k : multikind) fs j name kuv mapper camel (D : field -> res pyval) :
    Forall (fun g => forall nm, r_deserialize_single_field R (fld_py g) j nm mapper kuv camel (PBool false) = D g) fs ->
    src_deserialize_multifield_wrapper h ext R (PStruct (kind_cls k) [(s2p "get_fields()", PList (map fld_py fs))])
      j name kuv mapper camel =
    multi_goK D k (fun des _ failures =>
                     if Nat.eqb failures (length fs) && negb (match k with MNot => true | _ => false end)
                     then Raise ValueError else Ok des) fs j false O.
  Proof.
    intro HF. unfold src_deserialize_multifield_wrapper.
    change (fld_getattr h (PStruct (kind_cls k) [(s2p "get_fields()", PList (map fld_py fs))]) (s2p "get_fields()"))
      with (@Ok pyval (PList (map fld_py fs))).
    cbn [bind py_iter].
    apply (multi_loop_eq R k _ j name kuv mapper camel D _ _) with (found := false) (failures := O) (errs := []); [|exact HF].
    intros des found failures errs. cbn [bind py_len py_and py_eqv]. unfold lenZ'. rewrite map_length.
    cbn [zint py_eq as_num]. rewrite num_eqb_int.
    replace (Z.of_nat failures =? Z.of_nat (length fs)) with (Nat.eqb failures (length fs)).
    2:{ destruct (Nat.eqb_spec failures (length fs)) as [E|E]; symmetry; [apply Z.eqb_eq; lia | apply Z.eqb_neq; lia]. }
    destruct (Nat.eqb failures (length fs)); cbn [andb]; [|reflexivity].
    destruct k; cbn [kind_cls]; cls_eval; reflexivity.
  Qed.

  (* ---- deserialize_map *)
  (* CPython evaluates `res[key_expr] = value_expr` value first, then the key; the hand-written model deserializes
     the key first.  The two agree on an entry unless BOTH fail, with different exceptions; and the model tests the
     hashability of the deserialized keys after all entries, the source entry by entry. *)
  Definition entry_ok (rk rv : res pyval) : bool :=
    match rk, rv with
    | Raise x, Raise y => exn_eqb x y
    | Ok k', Ok _ => py_hashable k'
    | _, _ => true
    end.

  Lemma exn_eqb_eq x y : exn_eqb x y = true -> x = y.
  Proof.
    destruct x, y; cbn [exn_eqb]; intro H; try discriminate H; try reflexivity.
    apply pystr_eqb_spec in H. subst. reflexivity.
  Qed.

  Lemma map_loop_eq (R : recs) (kfo vfo name camel kuv : pyval) (Dk Dv : pyval -> res pyval) (Pk Pv : pyval -> bool)
        (K : pyval -> res pyval)
        (Hk : forall x nm, Pk x = true -> r_deserialize_single_field R kfo x nm PNone kuv camel (PBool false) = Dk x)
        (Hv : forall x nm, Pv x = true -> r_deserialize_single_field R vfo x nm PNone kuv camel (PBool false) = Dv x)
        (Hvi : fld_getattr_def h vfo (s2p "_ignore_none") (PBool false) = Ok (PBool false)) :
    forall kv acc,
      forallb (fun p => Pk (fst p) && Pv (snd p) && entry_ok (Dk (fst p)) (Dv (snd p))) kv = true ->
      src_deserialize_map_loop1 h ext R name camel kuv kfo vfo K kv (PDict acc) =
      match mapR (fun p => k' <- Dk (fst p) ;; v' <- Dv (snd p) ;; Ok (k', v')) kv with
      | Ok r => K (PDict (dict_of_pairs acc r))
      | Raise x => Raise x
      end.
  Proof.
    induction kv as [|[k v] kv IH]; intros acc HP; [reflexivity|].
    cbn [forallb fst snd] in HP. apply andb_true_iff in HP as [HP Ht]. apply andb_true_iff in HP as [HP He].
    apply andb_true_iff in HP as [Hpk Hpv].
    cbn [src_deserialize_map_loop1 mapR fst snd]. rewrite Hvi. cbn [bind].
    rewrite (Hv v _ Hpv), (Hk k _ Hpk).
    destruct (Dk k) as [k'|xk]; destruct (Dv v) as [v'|xv]; cbn [bind entry_ok] in *.
    - rewrite <- hashable_eq in He. cbn [PyOpsDerive.py_setitem]. rewrite He. cbn [bind]. rewrite (IH _ Ht).
      destruct (mapR _ kv); reflexivity.
    - reflexivity.
    - reflexivity.
    - apply exn_eqb_eq in He. subst. reflexivity.
  Qed.

  Lemma map_entries_hashable (Dk Dv : pyval -> res pyval) : forall kv r,
    forallb (fun p => entry_ok (Dk (fst p)) (Dv (snd p))) kv = true ->
    mapR (fun p => k' <- Dk (fst p) ;; v' <- Dv (snd p) ;; Ok (k', v')) kv = Ok r ->
    forallb (fun p => py_hashable (fst p)) r = true.
  Proof.
    induction kv as [|[k v] kv IH]; intros r HP H.
    - inversion H. reflexivity.
    - cbn [forallb fst snd] in HP. apply andb_true_iff in HP as [He Ht].
      cbn [mapR fst snd] in H. destruct (Dk k) as [k'|]; [|discriminate H].
      destruct (Dv v) as [v'|]; [|discriminate H]. cbn [bind] in H.
      destruct (mapR _ kv) as [r'|] eqn:E; [|discriminate H]. inversion H; subst.
      cbn [forallb fst entry_ok] in *. rewrite He. apply (IH _ Ht eq_refl).
  Qed.

  (* keys of a dict: pairwise different (an earlier key on the left of ==, as dict insertion compares) *)
  Fixpoint keys_distinct (seen : list pyval) (kv : list (pyval * pyval)) : bool :=
    match kv with
    | [] => true
    | (k, _) :: t => forallb (fun k' => negb (py_eq k' k)) seen && keys_distinct (seen ++ [k]) t
    end.

  Lemma dict_set_fresh : forall acc k v,
    forallb (fun k' => negb (py_eq k' k)) (map fst acc) = true -> dict_set acc k v = acc ++ [(k, v)].
  Proof.
    induction acc as [|[k' v'] acc IH]; intros k v H; [reflexivity|].
    cbn [map fst forallb] in H. apply andb_true_iff in H as [H1 H2].
    cbn [dict_set app]. destruct (py_eq k' k); [discriminate H1|]. rewrite (IH _ _ H2). reflexivity.
  Qed.

  Lemma dict_of_pairs_distinct : forall kv acc,
    keys_distinct (map fst acc) kv = true -> dict_of_pairs acc kv = acc ++ kv.
  Proof.
    induction kv as [|[k v] kv IH]; intros acc H; [cbn; rewrite app_nil_r; reflexivity|].
    cbn [keys_distinct] in H. apply andb_true_iff in H as [H1 H2].
    cbn [dict_of_pairs]. rewrite (dict_set_fresh _ _ _ H1). rewrite IH.
    - rewrite <- app_assoc. reflexivity.
    - rewrite map_app. exact H2.
  Qed.

  Lemma mapR_id_pairs : forall kv : list (pyval * pyval),
    mapR (fun p => k' <- Ok (fst p) ;; v' <- Ok (snd p) ;; Ok (k', v')) kv = Ok kv.
  Proof. induction kv as [|[k v] kv IH]; [reflexivity|]. cbn [mapR]. rewrite IH. reflexivity. Qed.

  Lemma map_kv_eq (R : recs) kf vf j name camel kuv (Dk Dv : pyval -> res pyval) (Pk Pv : pyval -> bool) :
    (forall x nm, Pk x = true -> r_deserialize_single_field R (fld_py kf) x nm PNone kuv camel (PBool false) = Dk x) ->
    (forall x nm, Pv x = true -> r_deserialize_single_field R (fld_py vf) x nm PNone kuv camel (PBool false) = Dv x) ->
    (forall kv, j = PDict kv ->
       forallb (fun p => Pk (fst p) && Pv (snd p) && entry_ok (Dk (fst p)) (Dv (snd p))) kv = true) ->
    src_deserialize_map h ext R
      (PStruct (s2p "Map") [(s2p "items", PList [fld_py kf; fld_py vf]); (s2p "_ty", bref (s2p "dict"))]) j name camel kuv =
    match j with
    | PDict kv =>
        r <- mapR (fun p => k' <- Dk (fst p) ;; v' <- Dv (snd p) ;; Ok (k', v')) kv ;;
        if forallb (fun p => py_hashable (fst p)) r then Ok (PDict (dict_of_pairs [] r)) else Raise TypeError
    | _ => Raise TypeError
    end.
  Proof.
    intros Hk Hv HP. unfold src_deserialize_map. destruct j; try reflexivity.
    specialize (HP kv eq_refl).
    cbn [py_isinstance existsb isinstance1 orb py_not bind negb].
    change (fld_getattr h (PStruct (s2p "Map") [(s2p "items", PList [fld_py kf; fld_py vf]); (s2p "_ty", bref (s2p "dict"))])
                        (s2p "items")) with (@Ok pyval (PList [fld_py kf; fld_py vf])).
    cbn [bind py_truthy length Nat.eqb negb PyOpsDerive.py_unpack PyOpsDerive.py_iter_items py_dict_items].
    rewrite (map_loop_eq R (fld_py kf) (fld_py vf) name camel kuv Dk Dv Pk Pv _ Hk Hv (fld_ignore_none vf) kv [] HP).
    destruct (mapR _ kv) as [r|ex] eqn:E; [|reflexivity]. cbn [bind].
    rewrite (map_entries_hashable Dk Dv kv r); [reflexivity| |exact E].
    clear -HP. induction kv as [|p kv IH]; [reflexivity|]. cbn [forallb] in *.
    apply andb_true_iff in HP as [H1 H2]. apply andb_true_iff in H1 as [_ H1]. rewrite H1. exact (IH H2).
  Qed.

  Lemma map_any_eq (R : recs) j name camel kuv (P : pyval -> bool) :
    (forall x nm, P x = true -> r_deserialize_single_field R PNone x nm PNone kuv camel (PBool false) = Ok x) ->
    (forall kv, j = PDict kv ->
       forallb (fun p => P (fst p) && P (snd p) && py_hashable (fst p)) kv = true /\ keys_distinct [] kv = true) ->
    src_deserialize_map h ext R (PStruct (s2p "Map") [(s2p "items", PNone); (s2p "_ty", bref (s2p "dict"))]) j name camel kuv =
    match j with PDict _ => Ok j | _ => Raise TypeError end.
  Proof.
    intros HN HP. unfold src_deserialize_map. destruct j; try reflexivity.
    destruct (HP kv eq_refl) as [HP1 HP2].
    cbn [py_isinstance existsb isinstance1 orb py_not bind negb].
    change (fld_getattr h (PStruct (s2p "Map") [(s2p "items", PNone); (s2p "_ty", bref (s2p "dict"))]) (s2p "items"))
      with (@Ok pyval PNone).
    cbn [bind py_truthy py_dict_items].
    rewrite (map_loop_eq R PNone PNone name camel kuv (fun x => Ok x) (fun x => Ok x) P P _ HN HN eq_refl kv []).
    - cbv beta. rewrite mapR_id_pairs. rewrite (dict_of_pairs_distinct kv [] HP2). reflexivity.
    - clear -HP1. induction kv as [|p kv IH]; [reflexivity|]. cbn [forallb entry_ok] in *.
      apply andb_true_iff in HP1 as [H1 H2]. rewrite H1. exact (IH H2).
  Qed.

  (* ------------------------------------------------------------------ side conditions *)

  (* documents: no set anywhere (a JSON document has none; the model reads a frozenset as a list, the source rejects
     it, and the source cannot index a set positionally); dicts are real dicts (hashable, pairwise different keys);
     no value is tagged with the name of a class of the package (a [PStruct c _] is an instance of a user's
     Structure class), nor is it the translation's "unbound local" marker or a class object *)
  Fixpoint doc_ok (v : pyval) : bool :=
    let fix all (l : list pyval) : bool :=
        match l with [] => true | x :: t => doc_ok x && all t end in
    match v with
    | PSet _ _ => false
    | PList l | PTuple l | PDeque l => all l
    | PDict kv =>
        forallb (fun p => py_hashable (fst p)) kv && keys_distinct [] kv &&
        (fix alld (l : list (pyval * pyval)) : bool :=
           match l with [] => true | (k, x) :: t => doc_ok k && doc_ok x && alld t end) kv
    | PStruct c _ | PEnum c _ _ => negb (class_known tbl c)
    | POther t _ => negb (class_known tbl t) && negb (pystr_eqb t unbound_tag) && negb (pystr_eqb t ref_tag)
    | _ => true
    end.

  Lemma doc_ok_all l :
    (fix all (l : list pyval) : bool := match l with [] => true | x :: t => doc_ok x && all t end) l = forallb doc_ok l.
  Proof. induction l as [|x t IH]; [reflexivity|]. cbn [forallb]. rewrite IH. reflexivity. Qed.

  Lemma doc_ok_alld kv :
    (fix alld (l : list (pyval * pyval)) : bool :=
       match l with [] => true | (k, x) :: t => doc_ok k && doc_ok x && alld t end) kv =
    forallb (fun p => doc_ok (fst p) && doc_ok (snd p)) kv.
  Proof. induction kv as [|[k x] t IH]; [reflexivity|]. cbn [forallb fst snd]. rewrite IH. reflexivity. Qed.

  Lemma doc_ok_items j l : doc_ok j = true -> list_like j = Some l -> forallb doc_ok l = true.
  Proof.
    destruct j; cbn [list_like]; intros H E; try discriminate E; inversion E; subst;
      cbn [doc_ok] in H; try discriminate H; rewrite doc_ok_all in H; exact H.
  Qed.

  Lemma doc_ok_not_set j : doc_ok j = true -> not_set j = true.
  Proof. destruct j; cbn [doc_ok not_set]; intro H; try reflexivity; discriminate H. Qed.

  Lemma doc_ok_bound j : doc_ok j = true -> is_unbound j = false.
  Proof.
    destruct j; cbn [doc_ok is_unbound]; intro H; try reflexivity.
    apply andb_true_iff in H as [H _]. apply andb_true_iff in H as [_ H].
    destruct (pystr_eqb tag unbound_tag); [discriminate H | reflexivity].
  Qed.

  Lemma doc_ok_dict kv : doc_ok (PDict kv) = true ->
    forallb (fun p => py_hashable (fst p)) kv = true /\ keys_distinct [] kv = true /\
    forallb (fun p => doc_ok (fst p) && doc_ok (snd p)) kv = true.
  Proof.
    cbn [doc_ok]. rewrite doc_ok_alld. intro H. apply andb_true_iff in H as [H H3].
    apply andb_true_iff in H as [H1 H2]. auto.
  Qed.

  (* isinstance(source_val, Structure) *)
  Lemma doc_is_structure j : doc_ok j = true ->
    cls_isinstance tbl j [s2p "Structure"] = Ok (match j with PStruct _ _ => true | _ => false end).
  Proof.
    destruct j; cbn [doc_ok cls_isinstance]; intro H; try reflexivity.
    - destruct (class_known tbl cls) eqn:E; [discriminate H|]. cbn [str_in existsb orb].
      destruct (pystr_eqb cls (s2p "Structure")) eqn:E2; [|reflexivity].
      apply pystr_eqb_spec in E2. subst. vm_compute in E. discriminate E.
    - destruct (class_known tbl cls); [discriminate H|]. reflexivity.
    - apply andb_true_iff in H as [H _]. apply andb_true_iff in H as [H _].
      destruct (class_known tbl tag); [discriminate H|]. reflexivity.
  Qed.

  (* processed_input is not Undefined *)
  Lemma doc_not_classobj j n : doc_ok j = true -> py_is_classobj j n = Ok false.
  Proof.
    destruct j; cbn [doc_ok py_is_classobj]; intro H; try reflexivity.
    apply andb_true_iff in H as [_ H]. destruct (pystr_eqb tag ref_tag); [discriminate H|]. reflexivity.
  Qed.

  (* the Map entries on which the two evaluation orders agree, along the part of the document each declaration reads *)
  Fixpoint order_ok (ku : bool) (f : field) (j : pyval) {struct f} : bool :=
    let each (g : field) :=
        match list_like j with Some l => forallb (order_ok ku g) l | None => true end in
    let positional (items : list field) :=
        match list_like j with
        | Some l => (fix go (fs : list field) (vs : list pyval) {struct fs} : bool :=
                       match fs, vs with
                       | g :: fs', x :: vs' => order_ok ku g x && go fs' vs'
                       | _, _ => true
                       end) items l
        | None => true
        end in
    match f with
    | FSeqEach _ g _ _ => each g
    | FSet _ (Some g) _ => each g
    | FSeqPos _ items _ _ _ => positional items
    | FTuple [g] _ => each g
    | FTuple items _ => positional items
    | FAllOf fs | FAnyOf fs | FOneOf fs | FNot fs => forallb (fun g => order_ok ku g j) fs
    | FMapKV kf vf _ =>
        match j with
        | PDict kv =>
            forallb (fun p => order_ok ku kf (fst p) && order_ok ku vf (snd p) &&
                              entry_ok (deser_val re_match e ens rec ku false kf (fst p))
                                       (deser_val re_match e ens rec ku false vf (snd p))) kv
        | _ => true
        end
    | _ => true
    end.

  (* fuel: three calls per level of nesting (deserialize_single_field -> deserialize_array -> deserialize_list_like) *)
  Fixpoint fdepth (f : field) : nat :=
    let fix mx (l : list field) : nat := match l with [] => O | x :: t => Nat.max (fdepth x) (mx t) end in
    match f with
    | FSeqEach _ g _ _ => S (fdepth g)
    | FSet _ (Some g) _ => S (fdepth g)
    | FSeqPos _ fs _ _ _ => S (mx fs)
    | FTuple fs _ => S (mx fs)
    | FAllOf fs | FAnyOf fs | FOneOf fs | FNot fs => S (mx fs)
    | FMapKV kf vf _ => S (Nat.max (fdepth kf) (fdepth vf))
    | _ => 1%nat
    end.

  Definition fdepths (l : list field) : nat := fold_right (fun x n => Nat.max (fdepth x) n) O l.

  Lemma fdepth_mx l :
    (fix mx (l : list field) : nat := match l with [] => O | x :: t => Nat.max (fdepth x) (mx t) end) l = fdepths l.
  Proof. induction l as [|x t IH]; [reflexivity|]. cbn [fdepths fold_right]. rewrite IH. reflexivity. Qed.

  Lemma fdepths_in g l : In g l -> (fdepth g <= fdepths l)%nat.
  Proof.
    induction l as [|x t IH]; intros H; [destruct H|]. cbn [fdepths fold_right]. destruct H as [->|H]; [lia|].
    specialize (IH H). unfold fdepths in IH. lia.
  Qed.

  (* ------------------------------------------------------------------ the hand-written deser_val, one level unfolded *)

  Definition isFNone (f : field) : bool := match f with FNone => true | _ => false end.
  Definition seq_target (k : seqkind) : seqtarget := match k with SeqList => TList | SeqDeque => TDeque end.

  Definition deser_body (ku : bool) (f : field) (j : pyval) : res pyval :=
    let D := deser_val re_match e ens rec in
    let each (t : seqtarget) (g : field) :=
        match list_like j with
        | None => Raise ValueError
        | Some l => r <- mapR (fun x => rewrap (D ku false g x)) l ;; build_seq t r
        end in
    let positional (t : seqtarget) (items : list field) :=
        match list_like j with
        | None => Raise ValueError
        | Some l =>
            if (length l <? length items)%nat then Raise ValueError
            else r <- (ys <- pos_items (D ku false) items l ;; Ok (ys ++ skipn (length items) l)) ;; build_seq t r
        end in
    let plain (t : seqtarget) :=
        match list_like j with
        | None => Raise ValueError
        | Some l => build_seq t l
        end in
    let multi (k : multikind) (fs : list field) :=
        multi_goK (fun g => D ku false g j) k
                  (fun des _ failures =>
                     if Nat.eqb failures (length fs) && negb (match k with MNot => true | _ => false end)
                     then Raise ValueError else Ok des) fs j false O in
    match f with
    | FNumber _ _ _ | FString _ | FBoolean => _ <- validate_weak re_match e f j ;; Ok j
    | FSeqAny k _ _ => plain (seq_target k)
    | FSeqEach k g _ _ => each (seq_target k) g
    | FSeqPos k items _ _ _ => positional (seq_target k) items
    | FTuple [g] _ => each TTuple g
    | FTuple items _ => positional TTuple items
    | FSet _ (Some g) _ => each TSet g
    | FSet _ None _ => plain TSet
    | FAllOf fs => multi MAll fs
    | FAnyOf fs => multi MAny fs
    | FOneOf fs => multi MOne fs
    | FNot fs => multi MNot fs
    | FClassRef c => match j with PStruct _ _ => Ok j | _ => rec ku c j end
    | FMapKV kf vf _ =>
        match j with
        | PDict kv =>
            r <- mapR (fun p => k' <- D ku false kf (fst p) ;; v' <- D ku false vf (snd p) ;; Ok (k', v')) kv ;;
            if forallb (fun p => py_hashable (fst p)) r then Ok (PDict (dict_of_pairs [] r)) else Raise TypeError
        | _ => Raise TypeError
        end
    | FMapAny _ => match j with PDict _ => Ok j | _ => Raise TypeError end
    | FEnumLit _ => rewrap_ve (_ <- validate_weak re_match e f j ;; Ok j)
    | FEnumCls cls members => rewrap_ve (deser_enum_cls re_match e ens f cls members j)
    | FAnything => Ok j
    | FNone => Raise ValueError
    end.

  Lemma deser_body_tuple_pos ku fs u j : Nat.eqb (length fs) 1 = false ->
    deser_body ku (FTuple fs u) j =
    match list_like j with
    | None => Raise ValueError
    | Some l =>
        if (length l <? length fs)%nat then Raise ValueError
        else r <- (ys <- pos_items (deser_val re_match e ens rec ku false) fs l ;; Ok (ys ++ skipn (length fs) l)) ;;
             build_seq TTuple r
    end.
  Proof. intro H. destruct fs as [|g0 [|g1 fs']]; [reflexivity | discriminate H | reflexivity]. Qed.

  Lemma deser_val_body ku ign f j :
    deser_val re_match e ens rec ku ign f j =
    if py_is_none j && (ign || isFNone f) then Ok PNone else deser_body ku f j.
  Proof.
    destruct f as [k s c|c| | | |vs|cls ms|k sz u|k g sz u|k fs sz u a|imm [g|] sz|fs u|sz|kf vf sz|fs|fs|fs|fs|cn].
    10: { destruct k; destruct j; destruct ign; cbn [deser_val deser_body py_is_none andb orb isFNone list_like seq_target];
          try reflexivity; rewrite pos_model_items; reflexivity. }
    12: { destruct j; destruct ign; cbn [deser_val deser_body py_is_none andb orb isFNone list_like seq_target];
          try reflexivity; rewrite pos_model_items; reflexivity. }
    all: try (destruct k); destruct j; destruct ign; reflexivity.
  Qed.

  (* ------------------------------------------------------------------ results are never the "unbound local" marker *)

  Hypothesis Hrec : forall ku c j v, rec ku c j = Ok v -> is_unbound v = false.

  Lemma build_seq_bound t l v : build_seq t l = Ok v -> is_unbound v = false.
  Proof.
    destruct t; cbn [build_seq]; intro H; try (inversion H; reflexivity).
    destruct (forallb py_hashable l); inversion H; reflexivity.
  Qed.

  Lemma bind_build_bound (X : res (list pyval)) t v : (r <- X ;; build_seq t r) = Ok v -> is_unbound v = false.
  Proof. destruct X as [r|ex]; cbn [bind]; [apply build_seq_bound | discriminate]. Qed.

  Lemma multi_bound (D : field -> res pyval) k n : forall gs des found failures v,
    Forall (fun g => forall w, D g = Ok w -> is_unbound w = false) gs ->
    is_unbound des = false ->
    multi_goK D k (fun des _ failures =>
                     if Nat.eqb failures n && negb (match k with MNot => true | _ => false end)
                     then Raise ValueError else Ok des) gs des found failures = Ok v ->
    is_unbound v = false.
  Proof.
    induction gs as [|g gs IH]; intros des found failures v HF Hd H.
    - cbn [multi_goK] in H. destruct (Nat.eqb failures n && _); [discriminate H|]. inversion H; subst. exact Hd.
    - inversion HF as [|g' gs' Hg HF']; subst. cbn [multi_goK] in H.
      destruct (D g) as [d|ex] eqn:E.
      + specialize (Hg d eq_refl). destruct k.
        * exact (IH _ _ _ _ HF' Hg H).
        * inversion H; subst; exact Hg.
        * destruct found; exact (IH _ _ _ _ HF' Hg H).
        * exact (IH _ _ _ _ HF' Hg H).
      + destruct (model_exn ex); [discriminate H|]. destruct k; try discriminate H; exact (IH _ _ _ _ HF' Hd H).
  Qed.

  Lemma rewrap_ve_ok {A} (r : res A) v : rewrap_ve r = Ok v -> r = Ok v.
  Proof. destruct r as [a|x]; cbn [rewrap_ve]; [auto|]. destruct (is_ve x); discriminate. Qed.

  Lemma deser_val_bound : forall f ku ign j v,
    doc_ok j = true -> deser_val re_match e ens rec ku ign f j = Ok v -> is_unbound v = false.
  Proof.
    intro f.
    induction f as [k s c|c| | | |vs|cls ms|k sz u|k g sz u IHg|k fs sz u a IHfs|imm sz|imm g sz IHg|fs u IHfs|sz
                    |kf vf sz IHk IHv|fs IHfs|fs IHfs|fs IHfs|fs IHfs|cn] using field_ind';
      intros ku ign j v Hj HV; rewrite deser_val_body in HV;
      (destruct (py_is_none j && (ign || _)); [inversion HV; reflexivity|]); cbn [deser_body] in HV.
    - destruct (validate_weak re_match e _ j); [|discriminate HV]. inversion HV; subst. apply doc_ok_bound; exact Hj.
    - destruct (validate_weak re_match e _ j); [|discriminate HV]. inversion HV; subst. apply doc_ok_bound; exact Hj.
    - destruct (validate_weak re_match e _ j); [|discriminate HV]. inversion HV; subst. apply doc_ok_bound; exact Hj.
    - discriminate HV.
    - inversion HV; subst. apply doc_ok_bound; exact Hj.
    - apply rewrap_ve_ok in HV.
      destruct (validate_weak re_match e _ j); [|discriminate HV]. inversion HV; subst. apply doc_ok_bound; exact Hj.
    - apply rewrap_ve_ok in HV. unfold deser_enum_cls in HV.
      destruct (enum_by_value ens cls).
      + destruct (negb (py_hashable j)); [discriminate HV|]. destruct (find _ _); inversion HV; reflexivity.
      + destruct j; try (destruct (validate_weak re_match e _ _); [|discriminate HV]; inversion HV; subst;
                         apply doc_ok_bound; exact Hj).
        destruct (alist_has ms s); [|discriminate HV]. destruct (alist_get _ s); inversion HV; reflexivity.
    - destruct (list_like j); [|discriminate HV]. exact (build_seq_bound _ _ _ HV).
    - destruct (list_like j); [|discriminate HV]. exact (bind_build_bound _ _ _ HV).
    - destruct (list_like j) as [l|]; [|discriminate HV].
      destruct (length l <? length fs)%nat; [discriminate HV|]. exact (bind_build_bound _ _ _ HV).
    - destruct (list_like j); [|discriminate HV]. exact (build_seq_bound _ _ _ HV).
    - destruct (list_like j); [|discriminate HV]. exact (bind_build_bound _ _ _ HV).
    - destruct fs as [|g0 [|g1 fs']]; (destruct (list_like j) as [l|]; [|discriminate HV]);
        try (destruct (length l <? _)%nat; [discriminate HV|]); exact (bind_build_bound _ _ _ HV).
    - destruct j; inversion HV; reflexivity.
    - destruct j; try discriminate HV. destruct (mapR _ kv) as [r|]; [|discriminate HV]. cbn [bind] in HV.
      destruct (forallb _ r); inversion HV; reflexivity.
    - refine (multi_bound (fun g => deser_val re_match e ens rec ku false g j) MAll (length fs) fs j false O v _
                          (doc_ok_bound _ Hj) HV).
      eapply Forall_impl; [|exact IHfs]. intros g Hg w Hw. exact (Hg _ _ _ _ Hj Hw).
    - refine (multi_bound (fun g => deser_val re_match e ens rec ku false g j) MAny (length fs) fs j false O v _
                          (doc_ok_bound _ Hj) HV).
      eapply Forall_impl; [|exact IHfs]. intros g Hg w Hw. exact (Hg _ _ _ _ Hj Hw).
    - refine (multi_bound (fun g => deser_val re_match e ens rec ku false g j) MOne (length fs) fs j false O v _
                          (doc_ok_bound _ Hj) HV).
      eapply Forall_impl; [|exact IHfs]. intros g Hg w Hw. exact (Hg _ _ _ _ Hj Hw).
    - refine (multi_bound (fun g => deser_val re_match e ens rec ku false g j) MNot (length fs) fs j false O v _
                          (doc_ok_bound _ Hj) HV).
      eapply Forall_impl; [|exact IHfs]. intros g Hg w Hw. exact (Hg _ _ _ _ Hj Hw).
    - destruct j; try exact (Hrec _ _ _ _ HV). inversion HV; reflexivity.
  Qed.

  (* ------------------------------------------------------------------ deserialize_single_field: the dispatch *)

  Hypothesis Hext : ext_agrees.

  (* deserialize_structure_internal(cls, the_dict, name, use_strict_mapping, mapper, keep_undefined, ...) for a nested
     class reference: the model's [rec] *)
  Definition dsi_of : pyval -> pyval -> pyval -> pyval -> pyval -> pyval -> pyval -> pyval -> pyval -> res pyval :=
    fun cls d _ _ _ ku _ _ _ =>
      match cls with
      | POther t c => if pystr_eqb t ref_tag then rec (py_truthy ku) c d else Raise Unmodelled
      | _ => Raise Unmodelled
      end.

  Definition outer_of : recs :=
    {| r_deserialize_list_like := fun _ _ _ _ _ _ _ => Raise Unmodelled;
       r_deserialize_array := fun _ _ _ _ _ _ => Raise Unmodelled;
       r_deserialize_deque := fun _ _ _ _ _ _ => Raise Unmodelled;
       r_deserialize_tuple := fun _ _ _ _ _ _ => Raise Unmodelled;
       r_deserialize_set := fun _ _ _ _ _ _ => Raise Unmodelled;
       r_deserialize_multifield_wrapper := fun _ _ _ _ _ _ => Raise Unmodelled;
       r_deserialize_map := fun _ _ _ _ _ => Raise Unmodelled;
       r_deserialize_single_field := fun _ _ _ _ _ _ _ => Raise Unmodelled;
       r_construct_fields_map := fun _ _ _ _ _ _ _ _ _ => Raise Unmodelled;
       r_deserialize_structure_internal := dsi_of;
       r_get_processed_input := fun _ _ _ _ _ => Raise Unmodelled |}.

  Definition F (fuel : nat) : recs := src_field_fix h ext outer_of fuel.

  Lemma F_dsf n : r_deserialize_single_field (F (S n)) = src_deserialize_single_field h ext (F n).
  Proof. reflexivity. Qed.
  Lemma F_array n : r_deserialize_array (F (S n)) = src_deserialize_array h ext (F n).
  Proof. reflexivity. Qed.
  Lemma F_deque n : r_deserialize_deque (F (S n)) = src_deserialize_deque h ext (F n).
  Proof. reflexivity. Qed.
  Lemma F_tuple n : r_deserialize_tuple (F (S n)) = src_deserialize_tuple h ext (F n).
  Proof. reflexivity. Qed.
  Lemma F_set n : r_deserialize_set (F (S n)) = src_deserialize_set h ext (F n).
  Proof. reflexivity. Qed.
  Lemma F_list_like n : r_deserialize_list_like (F (S n)) = src_deserialize_list_like h ext (F n).
  Proof. reflexivity. Qed.
  Lemma F_multi n : r_deserialize_multifield_wrapper (F (S n)) = src_deserialize_multifield_wrapper h ext (F n).
  Proof. reflexivity. Qed.
  Lemma F_map n : r_deserialize_map (F (S n)) = src_deserialize_map h ext (F n).
  Proof. reflexivity. Qed.
  Lemma F_dsi n : r_deserialize_structure_internal (F n) = dsi_of.
  Proof. destruct n; reflexivity. Qed.

  Lemma first_test j ign b :
    py_and (Ok (py_is_none j)) (fun _ => py_or (Ok (py_truthy (PBool ign))) (fun _ => Ok b)) =
    Ok (py_is_none j && (ign || b)).
  Proof. destruct (py_is_none j), ign; reflexivity. Qed.

  Lemma is_none_eq j : py_is_none j = true -> j = PNone.
  Proof. destruct j; cbn; intro H; try discriminate H; reflexivity. Qed.

  (* the shortcut for TypedFields over str / int / float does not apply to the container, None and reference fields *)
  Definition prim_types : list pyval := [bref (s2p "str"); bref (s2p "int"); bref (s2p "float")].
  Lemma t2_false cls attrs t :
    alist_get attrs (s2p "_ty") = Some t -> py_hashable' t = true -> py_in t prim_types = false ->
    (t4 <- fld_getattr_def h (PStruct cls attrs) (s2p "_ty") (PStr []) ;;
     t5 <- PyOpsDerive.py_set_display [bref (s2p "str"); bref (s2p "int"); bref (s2p "float")] ;;
     py_in_dyn t4 t5) = Ok false.
  Proof.
    intros Ha Hh Hi. cbn [fld_getattr_def]. rewrite Ha. cbn [bind].
    change (PyOpsDerive.py_set_display [bref (s2p "str"); bref (s2p "int"); bref (s2p "float")])
      with (@Ok pyval (PSet false prim_types)).
    cbn [bind py_in_dyn]. unfold py_in_hashed. rewrite Hh, Hi. reflexivity.
  Qed.

  Lemma ret_local (X : res pyval) :
    (forall v, X = Ok v -> is_unbound v = false) ->
    (t <- X ;; t' <- py_local t ;; Ok t') = X.
  Proof.
    intro H. destruct X as [v|ex]; [|reflexivity]. cbn [bind]. unfold py_local. rewrite (H v eq_refl). reflexivity.
  Qed.

  (* `try: value = field.deserialize(source_val)  except ValueError as e: raise ValueError(...)`, then `return value` *)
  Lemma caught_ve x : exn_caught xtbl x [s2p "ValueError"] = is_ve x.
  Proof. destruct x; vm_compute; reflexivity. Qed.

  Lemma ret_serializable (X : res pyval) :
    (forall v, rewrap_ve X = Ok v -> is_unbound v = false) ->
    bind_or X (fun x => if exn_caught xtbl x [s2p "ValueError"] then Raise ValueError else Raise x)
            (fun t => t' <- py_local t ;; Ok t') = rewrap_ve X.
  Proof.
    intro H. destruct X as [v|ex]; cbn [bind_or rewrap_ve].
    - unfold py_local. rewrite (H v eq_refl). reflexivity.
    - rewrite caught_ve. reflexivity.
  Qed.

  Lemma ret_local2 (X : res pyval) :
    (forall v, X = Ok v -> is_unbound v = false) ->
    (t <- (t1 <- X ;; Ok t1) ;; t' <- py_local t ;; Ok t') = X.
  Proof.
    intro H. destruct X as [v|ex]; [|reflexivity]. cbn [bind]. unfold py_local. rewrite (H v eq_refl). reflexivity.
  Qed.

  Lemma prim_tests f : is_validated f = true ->
    cls_isinstance tbl (fld_py f) ([s2p "Number"] ++ [s2p "String"] ++ [s2p "Boolean"]) = Ok true /\
    cls_isinstance tbl (fld_py f) [s2p "SerializableField"] = Ok false /\
    cls_isinstance tbl (fld_py f) [s2p "NoneField"] = Ok false.
  Proof.
    destruct f; intro H; try discriminate H; cbn [fld_py].
    - apply num_class_tests.
    - repeat split; apply cls_inst_irrel; vm_compute; reflexivity.
    - repeat split; apply cls_inst_irrel; vm_compute; reflexivity.
  Qed.

  Lemma dsf_prim (R : recs) f j name mapper kuv camel ign :
    is_validated f = true -> doc_ok j = true ->
    src_deserialize_single_field h ext R (fld_py f) j name mapper kuv camel (PBool ign) =
    if py_is_none j && (ign || isFNone f) then Ok PNone else deser_body false f j.
  Proof.
    destruct Hext as [Hval _]. intros Hf Hj. unfold src_deserialize_single_field.
    destruct (prim_tests f Hf) as [T1 [T2 T3]].
    rewrite T3, first_test. cbn [bind].
    replace (isFNone f) with false by (destruct f; try discriminate Hf; reflexivity).
    destruct (py_is_none j && (ign || false)) eqn:Hn.
    { apply andb_true_iff in Hn as [Hn _]. apply is_none_eq in Hn. subst. reflexivity. }
    rewrite T1, T2. cbn [py_and py_not bind negb].
    replace (py_meth ext (fld_py f) (s2p "_validate") [j] []) with (ext (meth_name (s2p "_validate")) [fld_py f; j] [])
      by (destruct f; try discriminate Hf; reflexivity).
    rewrite (Hval f j Hf).
    replace (deser_body false f j) with (_ <- validate_weak re_match e f j ;; Ok j)
      by (destruct f; try discriminate Hf; reflexivity).
    destruct (validate_weak re_match e f j); [|reflexivity].
    cbn [bind]. unfold py_local. rewrite (doc_ok_bound _ Hj). reflexivity.
  Qed.

  Lemma body_bound ku ign f j v :
    py_is_none j && (ign || isFNone f) = false -> doc_ok j = true -> deser_body ku f j = Ok v -> is_unbound v = false.
  Proof.
    intros Hn Hj H. apply (deser_val_bound f ku ign j v Hj). rewrite deser_val_body, Hn. exact H.
  Qed.

  Lemma wrap_array n fo j name kuv mapper camel :
    r_deserialize_array (F (S (S n))) fo j name kuv mapper camel =
    (t1 <- src_deserialize_list_like h ext (F n) fo (ctype_of TList) j name kuv mapper camel ;; Ok t1).
  Proof. reflexivity. Qed.
  Lemma wrap_deque n fo j name kuv mapper camel :
    r_deserialize_deque (F (S (S n))) fo j name kuv mapper camel =
    (t1 <- src_deserialize_list_like h ext (F n) fo (ctype_of TDeque) j name kuv mapper camel ;; Ok t1).
  Proof. reflexivity. Qed.
  Lemma wrap_tuple n fo j name kuv mapper camel :
    r_deserialize_tuple (F (S (S n))) fo j name kuv mapper camel =
    (t1 <- src_deserialize_list_like h ext (F n) fo (ctype_of TTuple) j name kuv mapper camel ;; Ok t1).
  Proof. reflexivity. Qed.
  Lemma wrap_set n fo j name kuv mapper camel :
    r_deserialize_set (F (S (S n))) fo j name kuv mapper camel =
    (t1 <- src_deserialize_list_like h ext (F n) fo (ctype_of TSet) j name kuv mapper camel ;; Ok t1).
  Proof. reflexivity. Qed.

  Lemma kw_raise : forall l ex, kw_of_pairs l = Raise ex -> ex = TypeError.
  Proof.
    induction l as [|[k v] t IH]; intros ex H; [discriminate H|]. cbn [kw_of_pairs] in H.
    destruct k; try (inversion H; reflexivity). destruct (kw_of_pairs t) as [r|ex'] eqn:E; [discriminate H|].
    inversion H; subst. exact (IH _ eq_refl).
  Qed.

  Lemma kw_nonempty p t : match kw_of_pairs (p :: t) with Ok [] => False | Ok _ => True | Raise x => x = TypeError end.
  Proof.
    destruct (kw_of_pairs (p :: t)) as [[|q r]|ex] eqn:E; [|exact I|exact (kw_raise _ _ E)].
    destruct p as [k v]. cbn [kw_of_pairs] in E. destruct k; try discriminate E.
    destruct (kw_of_pairs t); discriminate E.
  Qed.

  Lemma forallb_and {A} (f g : A -> bool) l :
    forallb f l = true -> forallb g l = true -> forallb (fun x => f x && g x) l = true.
  Proof.
    induction l as [|x t IH]; [reflexivity|]. cbn [forallb]. intros H1 H2.
    apply andb_true_iff in H1 as [H1 H1']. apply andb_true_iff in H2 as [H2 H2']. rewrite H1, H2. exact (IH H1' H2').
  Qed.

  Lemma each_items ku g j l :
    doc_ok j = true -> match list_like j with Some l => forallb (order_ok ku g) l | None => true end = true ->
    list_like j = Some l -> forallb (fun x => doc_ok x && order_ok ku g x) l = true.
  Proof.
    intros Hj Ho E. rewrite E in Ho. apply forallb_and; [exact (doc_ok_items _ _ Hj E) | exact Ho].
  Qed.

  Lemma pos_hyp_of (R : recs) ku mapper camel : forall items l,
    Forall (fun g => forall x nm, doc_ok x = true -> order_ok ku g x = true ->
              r_deserialize_single_field R (fld_py g) x nm mapper (PBool ku) camel (PBool false) =
              deser_val re_match e ens rec ku false g x) items ->
    forallb doc_ok l = true ->
    (fix go (fs : list field) (vs : list pyval) {struct fs} : bool :=
       match fs, vs with
       | g :: fs', x :: vs' => order_ok ku g x && go fs' vs'
       | _, _ => true
       end) items l = true ->
    pos_hyp R mapper (PBool ku) camel (deser_val re_match e ens rec ku false) items l.
  Proof.
    induction items as [|g items IH]; intros l HF Hd Ho; [exact I|].
    destruct l as [|x l]; [exact I|]. inversion HF as [|g' items' Hg HF']; subst.
    cbn [forallb] in Hd. apply andb_true_iff in Hd as [Hx Hd]. apply andb_true_iff in Ho as [Hox Ho].
    cbn [pos_hyp]. split; [intro nm; exact (Hg x nm Hx Hox) | exact (IH l HF' Hd Ho)].
  Qed.

  (* deserialize_single_field(None, x): the item fields of a Map without items *)
  Lemma dsf_pynone (R : recs) x nm m ku c :
    is_unbound x = false -> src_deserialize_single_field h ext R PNone x nm m ku c (PBool false) = Ok x.
  Proof.
    intro Hx. unfold src_deserialize_single_field. cbn [cls_isinstance py_truthy].
    destruct (py_is_none x); cbn [py_and py_or py_not bind negb py_is_none];
      unfold py_local; rewrite Hx; reflexivity.
  Qed.

  Lemma wrap_map n fo j name camel kuv :
    r_deserialize_map (F (S n)) fo j name camel kuv = src_deserialize_map h ext (F n) fo j name camel kuv.
  Proof. reflexivity. Qed.

  Lemma wrap_multi n fo j name kuv mapper camel :
    r_deserialize_multifield_wrapper (F (S n)) fo j name kuv mapper camel =
    src_deserialize_multifield_wrapper h ext (F n) fo j name kuv mapper camel.
  Proof. reflexivity. Qed.

  Ltac chain := cbn [py_and py_or py_not bind negb py_is_none].
  Ltac none_case Hn :=
    match goal with
    | |- context [if ?b then Ok ?j else _] =>
        destruct b eqn:Hn;
        [ apply andb_true_iff in Hn as [Hn _]; apply is_none_eq in Hn; subst; reflexivity | ]
    end.

  Theorem src_single_field_eq : forall f fuel ku ign j name mapper camel,
    (3 * fdepth f <= fuel)%nat -> doc_ok j = true -> order_ok ku f j = true ->
    r_deserialize_single_field (F fuel) (fld_py f) j name mapper (PBool ku) camel (PBool ign) =
    deser_val re_match e ens rec ku ign f j.
  Proof.
    destruct Hext as [Hval Hdes].
    intro f.
    induction f as [k s c|c| | | |vs|cls ms|k sz u|k g sz u IHg|k fs sz u a IHfs|imm sz|imm g sz IHg|fs u IHfs|sz
                    |kf vf sz IHk IHv|fs IHfs|fs IHfs|fs IHfs|fs IHfs|cn] using field_ind';
      intros fuel ku ign j name mapper camel Hfuel Hj Ho;
      (destruct fuel as [|fuel]; [cbn [fdepth] in Hfuel; lia|]);
      rewrite F_dsf, deser_val_body.
    - (* FNumber *) rewrite (dsf_prim _ (FNumber k s c)) by (try reflexivity; exact Hj). reflexivity.
    - (* FString *) rewrite (dsf_prim _ (FString c)) by (try reflexivity; exact Hj). reflexivity.
    - (* FBoolean *) rewrite (dsf_prim _ FBoolean) by (try reflexivity; exact Hj). reflexivity.
    - (* FNone *)
      unfold src_deserialize_single_field. cbn [fld_py]. cls_eval. rewrite first_test.
      rewrite (t2_false _ _ (bref (s2p "NoneType"))) by reflexivity.
      cbn [bind isFNone]. none_case Hn. chain. reflexivity.
    - (* FAnything *)
      unfold src_deserialize_single_field. cbn [fld_py]. cls_eval. rewrite first_test.
      cbn [bind isFNone]. none_case Hn. chain. cbn [deser_body].
      unfold py_local. rewrite (doc_ok_bound _ Hj). reflexivity.
    - (* FEnumLit *)
      unfold src_deserialize_single_field. cbn [fld_py]. cls_eval. rewrite first_test.
      cbn [bind isFNone]. none_case Hn. chain. cbn [py_meth].
      change (PStruct (s2p "Enum") [(s2p "_is_enum", PBool false); (s2p "values", PList vs)]) with (fld_py (FEnumLit vs)).
      rewrite (Hdes (FEnumLit vs) j eq_refl).
      apply ret_serializable. intros v Hv. exact (body_bound ku ign (FEnumLit vs) j v Hn Hj Hv).
    - (* FEnumCls *)
      unfold src_deserialize_single_field. cbn [fld_py]. cls_eval. rewrite first_test.
      cbn [bind isFNone]. none_case Hn. chain. cbn [py_meth].
      change (PStruct (s2p "Enum") [(s2p "_is_enum", PBool true); (s2p "_enum_class", enum_cls_py cls ms);
                                    (s2p "_enum_class.__name__", PStr cls)]) with (fld_py (FEnumCls cls ms)).
      rewrite (Hdes (FEnumCls cls ms) j eq_refl).
      apply ret_serializable. intros v Hv. exact (body_bound ku ign (FEnumCls cls ms) j v Hn Hj Hv).
    - (* FSeqAny *)
      destruct fuel as [|[|fuel]]; [cbn [fdepth] in Hfuel; lia | cbn [fdepth] in Hfuel; lia |].
      unfold src_deserialize_single_field. destruct k; cbn [fld_py seq_cls seq_ty]; cls_eval; rewrite first_test.
      + rewrite (t2_false _ _ (bref (s2p "list"))) by reflexivity.
        cbn [bind isFNone]. none_case Hn. chain.
        rewrite wrap_array, list_like_plain by (try reflexivity; apply doc_ok_not_set; exact Hj).
        apply ret_local2. intros v Hv. exact (body_bound ku ign (FSeqAny SeqList sz u) j v Hn Hj Hv).
      + rewrite (t2_false _ _ (bref (s2p "deque"))) by reflexivity.
        cbn [bind isFNone]. none_case Hn. chain.
        rewrite wrap_deque, list_like_plain by (try reflexivity; apply doc_ok_not_set; exact Hj).
        apply ret_local2. intros v Hv. exact (body_bound ku ign (FSeqAny SeqDeque sz u) j v Hn Hj Hv).
    - (* FSeqEach *)
      cbn [fdepth] in Hfuel. destruct fuel as [|[|fuel]]; [lia | lia |].
      assert (Hg : forall x nm, doc_ok x && order_ok ku g x = true ->
                 r_deserialize_single_field (F fuel) (fld_py g) x nm mapper (PBool ku) camel (PBool false) =
                 deser_val re_match e ens rec ku false g x).
      { intros x nm Hx. apply andb_true_iff in Hx as [Hx1 Hx2]. apply IHg; [lia | exact Hx1 | exact Hx2]. }
      cbn [order_ok] in Ho.
      unfold src_deserialize_single_field. destruct k; cbn [fld_py seq_cls seq_ty]; cls_eval; rewrite first_test.
      + rewrite (t2_false _ _ (bref (s2p "list"))) by reflexivity.
        cbn [bind isFNone]. none_case Hn. chain.
        rewrite wrap_array.
        rewrite (list_like_each (F fuel) _ TList g j name (PBool ku) mapper camel
                                (fun x => deser_val re_match e ens rec ku false g x)
                                (fun x => doc_ok x && order_ok ku g x));
          [ | left; split; reflexivity | exact Hg | exact (doc_ok_not_set _ Hj) | exact (fun l => each_items ku g j l Hj Ho) ].
        apply ret_local2. intros v Hv. exact (body_bound ku ign (FSeqEach SeqList g sz u) j v Hn Hj Hv).
      + rewrite (t2_false _ _ (bref (s2p "deque"))) by reflexivity.
        cbn [bind isFNone]. none_case Hn. chain.
        rewrite wrap_deque.
        rewrite (list_like_each (F fuel) _ TDeque g j name (PBool ku) mapper camel
                                (fun x => deser_val re_match e ens rec ku false g x)
                                (fun x => doc_ok x && order_ok ku g x));
          [ | left; split; reflexivity | exact Hg | exact (doc_ok_not_set _ Hj) | exact (fun l => each_items ku g j l Hj Ho) ].
        apply ret_local2. intros v Hv. exact (body_bound ku ign (FSeqEach SeqDeque g sz u) j v Hn Hj Hv).
    - (* FSeqPos *)
      cbn [fdepth] in Hfuel. rewrite fdepth_mx in Hfuel. destruct fuel as [|[|fuel]]; [lia | lia |].
      assert (HF : Forall (fun g => forall x nm, doc_ok x = true -> order_ok ku g x = true ->
                      r_deserialize_single_field (F fuel) (fld_py g) x nm mapper (PBool ku) camel (PBool false) =
                      deser_val re_match e ens rec ku false g x) fs).
      { apply Forall_forall. intros g Hin x nm Hx1 Hx2. rewrite Forall_forall in IHfs.
        apply (IHfs g Hin); [pose proof (fdepths_in g fs Hin); lia | exact Hx1 | exact Hx2]. }
      assert (HP : forall l, list_like j = Some l ->
                 pos_hyp (F fuel) mapper (PBool ku) camel (deser_val re_match e ens rec ku false) fs l).
      { intros l E. cbn [order_ok] in Ho. rewrite E in Ho.
        exact (pos_hyp_of (F fuel) ku mapper camel fs l HF (doc_ok_items _ _ Hj E) Ho). }
      unfold src_deserialize_single_field. destruct k; cbn [fld_py seq_cls seq_ty]; cls_eval; rewrite first_test.
      + rewrite (t2_false _ _ (bref (s2p "list"))) by reflexivity.
        cbn [bind isFNone]. none_case Hn. chain.
        rewrite wrap_array.
        rewrite (list_like_pos (F fuel) _ TList fs j name (PBool ku) mapper camel (deser_val re_match e ens rec ku false) false);
          [ | reflexivity | reflexivity | discriminate | exact (doc_ok_not_set _ Hj) | exact HP ].
        apply ret_local2. intros v Hv. exact (body_bound ku ign (FSeqPos SeqList fs sz u a) j v Hn Hj Hv).
      + rewrite (t2_false _ _ (bref (s2p "deque"))) by reflexivity.
        cbn [bind isFNone]. none_case Hn. chain.
        rewrite wrap_deque.
        rewrite (list_like_pos (F fuel) _ TDeque fs j name (PBool ku) mapper camel (deser_val re_match e ens rec ku false) false);
          [ | reflexivity | reflexivity | discriminate | exact (doc_ok_not_set _ Hj) | exact HP ].
        apply ret_local2. intros v Hv. exact (body_bound ku ign (FSeqPos SeqDeque fs sz u a) j v Hn Hj Hv).
    - (* FSet, no items *)
      destruct fuel as [|[|fuel]]; [cbn [fdepth] in Hfuel; lia | cbn [fdepth] in Hfuel; lia |].
      unfold src_deserialize_single_field. destruct imm; cbn [fld_py set_cls set_ty]; cls_eval; rewrite first_test.
      + rewrite (t2_false _ _ (bref (s2p "frozenset"))) by reflexivity.
        cbn [bind isFNone]. none_case Hn. chain.
        rewrite wrap_set, list_like_plain by (try reflexivity; apply doc_ok_not_set; exact Hj).
        apply ret_local2. intros v Hv. exact (body_bound ku ign (FSet true None sz) j v Hn Hj Hv).
      + rewrite (t2_false _ _ (bref (s2p "set"))) by reflexivity.
        cbn [bind isFNone]. none_case Hn. chain.
        rewrite wrap_set, list_like_plain by (try reflexivity; apply doc_ok_not_set; exact Hj).
        apply ret_local2. intros v Hv. exact (body_bound ku ign (FSet false None sz) j v Hn Hj Hv).
    - (* FSet, items a field *)
      cbn [fdepth] in Hfuel. destruct fuel as [|[|fuel]]; [lia | lia |].
      assert (Hg : forall x nm, doc_ok x && order_ok ku g x = true ->
                 r_deserialize_single_field (F fuel) (fld_py g) x nm mapper (PBool ku) camel (PBool false) =
                 deser_val re_match e ens rec ku false g x).
      { intros x nm Hx. apply andb_true_iff in Hx as [Hx1 Hx2]. apply IHg; [lia | exact Hx1 | exact Hx2]. }
      cbn [order_ok] in Ho.
      unfold src_deserialize_single_field. destruct imm; cbn [fld_py set_cls set_ty]; cls_eval; rewrite first_test.
      + rewrite (t2_false _ _ (bref (s2p "frozenset"))) by reflexivity.
        cbn [bind isFNone]. none_case Hn. chain.
        rewrite wrap_set.
        rewrite (list_like_each (F fuel) _ TSet g j name (PBool ku) mapper camel
                                (fun x => deser_val re_match e ens rec ku false g x)
                                (fun x => doc_ok x && order_ok ku g x));
          [ | left; split; reflexivity | exact Hg | exact (doc_ok_not_set _ Hj) | exact (fun l => each_items ku g j l Hj Ho) ].
        apply ret_local2. intros v Hv. exact (body_bound ku ign (FSet true (Some g) sz) j v Hn Hj Hv).
      + rewrite (t2_false _ _ (bref (s2p "set"))) by reflexivity.
        cbn [bind isFNone]. none_case Hn. chain.
        rewrite wrap_set.
        rewrite (list_like_each (F fuel) _ TSet g j name (PBool ku) mapper camel
                                (fun x => deser_val re_match e ens rec ku false g x)
                                (fun x => doc_ok x && order_ok ku g x));
          [ | left; split; reflexivity | exact Hg | exact (doc_ok_not_set _ Hj) | exact (fun l => each_items ku g j l Hj Ho) ].
        apply ret_local2. intros v Hv. exact (body_bound ku ign (FSet false (Some g) sz) j v Hn Hj Hv).
    - (* FTuple *)
      cbn [fdepth] in Hfuel. rewrite fdepth_mx in Hfuel. destruct fuel as [|[|fuel]]; [lia | lia |].
      assert (HF : Forall (fun g => forall x nm, doc_ok x = true -> order_ok ku g x = true ->
                      r_deserialize_single_field (F fuel) (fld_py g) x nm mapper (PBool ku) camel (PBool false) =
                      deser_val re_match e ens rec ku false g x) fs).
      { apply Forall_forall. intros g Hin x nm Hx1 Hx2. rewrite Forall_forall in IHfs.
        apply (IHfs g Hin); [pose proof (fdepths_in g fs Hin); lia | exact Hx1 | exact Hx2]. }
      unfold src_deserialize_single_field. cbn [fld_py]. cls_eval. rewrite first_test.
      rewrite (t2_false _ _ (bref (s2p "tuple"))) by reflexivity.
      cbn [bind isFNone]. none_case Hn. chain.
      rewrite wrap_tuple.
      assert (Hone : (exists g, fs = [g]) \/ Nat.eqb (length fs) 1 = false).
      { destruct fs as [|g [|g' fs']]; [right; reflexivity | left; exists g; reflexivity | right; reflexivity]. }
      destruct Hone as [[g ->]|Hone].
      + (* one item field: every element *)
        inversion HF as [|g' fs' Hg0 _]; subst.
        assert (Hg : forall x nm, doc_ok x && order_ok ku g x = true ->
                   r_deserialize_single_field (F fuel) (fld_py g) x nm mapper (PBool ku) camel (PBool false) =
                   deser_val re_match e ens rec ku false g x).
        { intros x nm Hx. apply andb_true_iff in Hx as [Hx1 Hx2]. exact (Hg0 x nm Hx1 Hx2). }
        cbn [order_ok] in Ho.
        rewrite (list_like_each (F fuel) _ TTuple g j name (PBool ku) mapper camel
                                (fun x => deser_val re_match e ens rec ku false g x)
                                (fun x => doc_ok x && order_ok ku g x));
          [ | right; split; reflexivity | exact Hg | exact (doc_ok_not_set _ Hj) | exact (fun l => each_items ku g j l Hj Ho) ].
        apply ret_local2. intros v Hv. exact (body_bound ku ign (FTuple [g] u) j v Hn Hj Hv).
      + assert (HP : forall l, list_like j = Some l ->
                   pos_hyp (F fuel) mapper (PBool ku) camel (deser_val re_match e ens rec ku false) fs l).
        { intros l E.
          assert (Ho' : order_ok ku (FSeqPos SeqList fs no_sizec false None) j = true).
          { destruct fs as [|g0 [|g1 fs']]; [exact Ho | discriminate Hone | exact Ho]. }
          cbn [order_ok] in Ho'. rewrite E in Ho'.
          exact (pos_hyp_of (F fuel) ku mapper camel fs l HF (doc_ok_items _ _ Hj E) Ho'). }
        rewrite (list_like_pos (F fuel) _ TTuple fs j name (PBool ku) mapper camel (deser_val re_match e ens rec ku false) true);
          [ | reflexivity | reflexivity | intros _; exact Hone | exact (doc_ok_not_set _ Hj) | exact HP ].
        rewrite (deser_body_tuple_pos ku fs u j Hone).
        apply ret_local2. intros v Hv. rewrite <- (deser_body_tuple_pos ku fs u j Hone) in Hv.
        exact (body_bound ku ign (FTuple fs u) j v Hn Hj Hv).
    - (* FMapAny *)
      cbn [fdepth] in Hfuel. destruct fuel as [|[|fuel]]; [lia | lia |].
      unfold src_deserialize_single_field. cbn [fld_py]. cls_eval. rewrite first_test.
      rewrite (t2_false _ _ (bref (s2p "dict"))) by reflexivity.
      cbn [bind isFNone]. none_case Hn. chain.
      rewrite wrap_map.
      rewrite (map_any_eq (F (S fuel)) j name camel (PBool ku) (fun x => negb (is_unbound x))).
      + apply ret_local. intros v Hv. exact (body_bound ku ign (FMapAny sz) j v Hn Hj Hv).
      + intros x nm Hx. rewrite F_dsf. apply dsf_pynone. destruct (is_unbound x); [discriminate Hx | reflexivity].
      + intros kv ->. destruct (doc_ok_dict kv Hj) as [H1 [H2 H3]]. split; [|exact H2].
        apply forallb_forall. intros p Hp. rewrite forallb_forall in H1, H3.
        specialize (H1 p Hp). specialize (H3 p Hp). apply andb_true_iff in H3 as [Ha Hb].
        rewrite (doc_ok_bound _ Ha), (doc_ok_bound _ Hb), H1. reflexivity.
    - (* FMapKV *)
      cbn [fdepth] in Hfuel. destruct fuel as [|[|fuel]]; [lia | lia |].
      unfold src_deserialize_single_field. cbn [fld_py]. cls_eval. rewrite first_test.
      rewrite (t2_false _ _ (bref (s2p "dict"))) by reflexivity.
      cbn [bind isFNone]. none_case Hn. chain.
      rewrite wrap_map.
      rewrite (map_kv_eq (F (S fuel)) kf vf j name camel (PBool ku)
                         (fun x => deser_val re_match e ens rec ku false kf x)
                         (fun x => deser_val re_match e ens rec ku false vf x)
                         (fun x => doc_ok x && order_ok ku kf x) (fun x => doc_ok x && order_ok ku vf x)).
      + apply ret_local. intros v Hv. exact (body_bound ku ign (FMapKV kf vf sz) j v Hn Hj Hv).
      + intros x nm Hx. apply andb_true_iff in Hx as [Hx1 Hx2]. apply IHk; [lia | exact Hx1 | exact Hx2].
      + intros x nm Hx. apply andb_true_iff in Hx as [Hx1 Hx2]. apply IHv; [lia | exact Hx1 | exact Hx2].
      + intros kv ->. destruct (doc_ok_dict kv Hj) as [_ [_ H3]]. cbn [order_ok] in Ho.
        apply forallb_forall. intros p Hp. rewrite forallb_forall in Ho, H3.
        specialize (Ho p Hp). specialize (H3 p Hp). apply andb_true_iff in H3 as [Ha Hb].
        apply andb_true_iff in Ho as [Ho He]. apply andb_true_iff in Ho as [Hok Hov].
        rewrite Ha, Hb, Hok, Hov, He. reflexivity.
    - (* FAllOf *)
      cbn [fdepth] in Hfuel. rewrite fdepth_mx in Hfuel. destruct fuel as [|fuel]; [lia|].
      assert (HF : Forall (fun g => forall nm,
                      r_deserialize_single_field (F fuel) (fld_py g) j nm mapper (PBool ku) camel (PBool false) =
                      deser_val re_match e ens rec ku false g j) fs).
      { apply Forall_forall. intros g Hin nm. rewrite Forall_forall in IHfs. cbn [order_ok] in Ho.
        rewrite forallb_forall in Ho.
        apply (IHfs g Hin); [pose proof (fdepths_in g fs Hin); lia | exact Hj | exact (Ho g Hin)]. }
      unfold src_deserialize_single_field. cbn [fld_py]. cls_eval. rewrite first_test.
      cbn [bind isFNone]. none_case Hn. chain.
      rewrite wrap_multi. change (s2p "AllOf") with (kind_cls MAll).
      rewrite (multifield_eq (F fuel) MAll fs j name (PBool ku) mapper camel
                             (fun g => deser_val re_match e ens rec ku false g j) HF).
      apply ret_local. intros v Hv. exact (body_bound ku ign (FAllOf fs) j v Hn Hj Hv).
    - (* FAnyOf *)
      cbn [fdepth] in Hfuel. rewrite fdepth_mx in Hfuel. destruct fuel as [|fuel]; [lia|].
      assert (HF : Forall (fun g => forall nm,
                      r_deserialize_single_field (F fuel) (fld_py g) j nm mapper (PBool ku) camel (PBool false) =
                      deser_val re_match e ens rec ku false g j) fs).
      { apply Forall_forall. intros g Hin nm. rewrite Forall_forall in IHfs. cbn [order_ok] in Ho.
        rewrite forallb_forall in Ho.
        apply (IHfs g Hin); [pose proof (fdepths_in g fs Hin); lia | exact Hj | exact (Ho g Hin)]. }
      unfold src_deserialize_single_field. cbn [fld_py]. cls_eval. rewrite first_test.
      cbn [bind isFNone]. none_case Hn. chain.
      rewrite wrap_multi. change (s2p "AnyOf") with (kind_cls MAny).
      rewrite (multifield_eq (F fuel) MAny fs j name (PBool ku) mapper camel
                             (fun g => deser_val re_match e ens rec ku false g j) HF).
      apply ret_local. intros v Hv. exact (body_bound ku ign (FAnyOf fs) j v Hn Hj Hv).
    - (* FOneOf *)
      cbn [fdepth] in Hfuel. rewrite fdepth_mx in Hfuel. destruct fuel as [|fuel]; [lia|].
      assert (HF : Forall (fun g => forall nm,
                      r_deserialize_single_field (F fuel) (fld_py g) j nm mapper (PBool ku) camel (PBool false) =
                      deser_val re_match e ens rec ku false g j) fs).
      { apply Forall_forall. intros g Hin nm. rewrite Forall_forall in IHfs. cbn [order_ok] in Ho.
        rewrite forallb_forall in Ho.
        apply (IHfs g Hin); [pose proof (fdepths_in g fs Hin); lia | exact Hj | exact (Ho g Hin)]. }
      unfold src_deserialize_single_field. cbn [fld_py]. cls_eval. rewrite first_test.
      cbn [bind isFNone]. none_case Hn. chain.
      rewrite wrap_multi. change (s2p "OneOf") with (kind_cls MOne).
      rewrite (multifield_eq (F fuel) MOne fs j name (PBool ku) mapper camel
                             (fun g => deser_val re_match e ens rec ku false g j) HF).
      apply ret_local. intros v Hv. exact (body_bound ku ign (FOneOf fs) j v Hn Hj Hv).
    - (* FNot *)
      cbn [fdepth] in Hfuel. rewrite fdepth_mx in Hfuel. destruct fuel as [|fuel]; [lia|].
      assert (HF : Forall (fun g => forall nm,
                      r_deserialize_single_field (F fuel) (fld_py g) j nm mapper (PBool ku) camel (PBool false) =
                      deser_val re_match e ens rec ku false g j) fs).
      { apply Forall_forall. intros g Hin nm. rewrite Forall_forall in IHfs. cbn [order_ok] in Ho.
        rewrite forallb_forall in Ho.
        apply (IHfs g Hin); [pose proof (fdepths_in g fs Hin); lia | exact Hj | exact (Ho g Hin)]. }
      unfold src_deserialize_single_field. cbn [fld_py]. cls_eval. rewrite first_test.
      cbn [bind isFNone]. none_case Hn. chain.
      rewrite wrap_multi. change (s2p "NotField") with (kind_cls MNot).
      rewrite (multifield_eq (F fuel) MNot fs j name (PBool ku) mapper camel
                             (fun g => deser_val re_match e ens rec ku false g j) HF).
      apply ret_local. intros v Hv. exact (body_bound ku ign (FNot fs) j v Hn Hj Hv).
    - (* FClassRef *)
      unfold src_deserialize_single_field. cbn [fld_py]. cls_eval. rewrite first_test.
      rewrite (t2_false _ _ (ref cn)) by reflexivity.
      cbn [bind isFNone]. none_case Hn. chain.
      rewrite (doc_is_structure j Hj). rewrite F_dsi.
      change (fld_getattr_def h (PStruct (s2p "ClassReference") [(s2p "_ty", ref cn)]) (s2p "_ty") PNone)
        with (@Ok pyval (ref cn)).
      cbn [deser_body].
      destruct j; cbn [bind negb dsi_of ref]; change (pystr_eqb ref_tag ref_tag) with true; cbv iota; cbn [py_truthy];
        try (apply ret_local2; intros v Hv; exact (Hrec _ _ _ _ Hv)).
      reflexivity.
  Qed.
End Field.

(* ------------------------------------------------------------------ the structure-level functions *)

Definition is_nil {A} (l : list A) : bool := match l with [] => true | _ => false end.

(* a field name is an identifier: no "." (get_processed_input reads a mapped key as a dotted path) *)
Definition ident_ok (n : pystr) : bool := negb (existsb (N.eqb 46%N) n).

Section Struct.
  Variable re_match : N -> pystr -> bool.
  Variable e : env.
  Variable ens : enums.
  Variable h : heap.
  Variable ext : extern.
  Variable rec : bool -> pystr -> pyval -> res pyval.
  Hypothesis Hrec : forall ku c j v, rec ku c j = Ok v -> is_unbound v = false.
  Hypothesis Hext : ext_agrees re_match e ens ext.

  (* the two untranslated helpers construct_fields_map calls, in the configuration the model covers (the class's
     aggregated mapper is the no-op one: every field name maps to itself):
       deep_get(the_dict, key, enable_undefined=False) is the_dict.get(key) for a key without "." (commons.deep_get
       itself is translated and bridged in Ser/VersionedSrcProofs.v: src_deep_get),
       raise_errs_if_needed(cls, errors) raises InvalidStructureErr exactly when errors is not empty *)
  Definition ext_struct_agrees : Prop :=
    (forall n kv eu,
        ident_ok n = true -> py_truthy eu = false ->
        ext (s2p "deep_get") [PDict kv; PStr n] [(s2p "enable_undefined", eu)] =
        Ok (match dict_get kv (PStr n) with Some v => v | None => PNone end)) /\
    (forall cls errs,
        ext (s2p "raise_errs_if_needed") [cls; PList errs] [] =
        if is_nil errs then Ok PNone else Raise InvalidStructureErr).
  Hypothesis Hext2 : ext_struct_agrees.

  (* what construct_fields_map reads of the heap: cls._constants is empty, cls._enable_undefined_value unset,
     Structure.failing_fast() true *)
  Definition cfm_heap_ok (cn : pystr) : bool :=
    match h cn (s2p "_constants") with
    | None | Some (PDict []) | Some (PList []) => true
    | _ => false
    end &&
    match h cn (s2p "_enable_undefined_value") with None => true | Some v => negb (py_truthy v) end &&
    match h (s2p "Structure") (s2p "failing_fast()") with Some v => py_truthy v | None => false end.

  Definition enc_fields (fds : list fdecl) : list (pyval * pyval) :=
    map (fun fd => (PStr (fd_name fd), fld_py (fd_field fd))) fds.
  Definition enc_kw (kw : list (pystr * pyval)) : list (pyval * pyval) :=
    map (fun p => (PStr (fst p), snd p)) kw.

  (* the class's no-op mapper knows every field *)
  Definition noop_on (m : list (pyval * pyval)) (fds : list fdecl) : bool :=
    forallb (fun fd => match dict_get m (PStr (fd_name fd)) with
                       | Some (PStr s) => pystr_eqb s (fd_name fd)
                       | _ => false
                       end && ident_ok (fd_name fd)) fds.

  Definition key_absent (acc : list (pyval * pyval)) (n : pystr) : bool :=
    forallb (fun k' => negb (py_eq k' (PStr n))) (map fst acc).

  Lemma deser_fields_names rec' ku ign kv : forall fds had kw,
    deser_fields re_match e ens rec' ku ign fds kv had = Ok kw ->
    forall n, In n (map fst kw) -> In n (map fd_name fds).
  Proof.
    induction fds as [|fd t IH]; intros had kw H n Hin.
    - cbn [deser_fields] in H. destruct had; [discriminate H|]. inversion H; subst. destruct Hin.
    - cbn [deser_fields] in H. cbn [map]. 
      destruct (dict_get kv (PStr (fd_name fd))) as [v|]; [|right; exact (IH _ _ H n Hin)].
      destruct v; try (right; exact (IH _ _ H n Hin));
        (destruct (deser_val re_match e ens rec' ku ign (fd_field fd) _) as [w|x];
         [ destruct (deser_fields re_match e ens rec' ku ign t kv had) as [rest|] eqn:E; [|discriminate H];
           cbn [bind] in H; inversion H; subst; cbn [map fst] in Hin; destruct Hin as [<-|Hin];
           [left; reflexivity | right; exact (IH _ _ E n Hin)]
         | destruct (negb _ && is_te_ve x); [right; exact (IH _ _ H n Hin) | discriminate H] ]).
  Qed.

  Lemma meth_get2 m k d : py_hashable' k = true ->
    py_meth ext (PDict m) (s2p "get") [k; d] [] = Ok (match dict_get m k with Some v => v | None => d end).
  Proof.
    intro Hk. unfold py_meth. change (pystr_eqb (s2p "get") (s2p "get")) with true. cbv iota.
    unfold PyOpsVersioned.py_dict_get. rewrite Hk. reflexivity.
  Qed.

  Lemma meth_get1 m k : py_hashable' k = true ->
    py_meth ext (PDict m) (s2p "get") [k] [] = Ok (match dict_get m k with Some v => v | None => PNone end).
  Proof.
    intro Hk. unfold py_meth. change (pystr_eqb (s2p "get") (s2p "get")) with true. cbv iota.
    unfold PyOpsVersioned.py_dict_get. rewrite Hk. reflexivity.
  Qed.

  Lemma ref_getattr_def' n a d :
    fld_getattr_def h (ref n) a d = Ok (match h n a with Some v => v | None => d end).
  Proof. reflexivity. Qed.

  Lemma ref_getattr' n a :
    fld_getattr h (ref n) a = match h n a with Some v => Ok v | None => Raise AttributeError end.
  Proof. reflexivity. Qed.

  Lemma noop_on_in m fds fd : noop_on m fds = true -> In fd fds ->
    dict_get m (PStr (fd_name fd)) = Some (PStr (fd_name fd)) /\ ident_ok (fd_name fd) = true.
  Proof.
    unfold noop_on. rewrite forallb_forall. intros H Hin. specialize (H fd Hin).
    apply andb_true_iff in H as [H1 H2]. split; [|exact H2].
    destruct (dict_get m (PStr (fd_name fd))) as [[| | |s| | | | | | | |]|]; try discriminate H1.
    apply pystr_eqb_spec in H1. subst. reflexivity.
  Qed.

  Lemma key_absent_fresh acc n w : key_absent acc n = true -> dict_set acc (PStr n) w = acc ++ [(PStr n, w)].
  Proof. intro H. apply dict_set_fresh. exact H. Qed.

  (* get_processed_input(key, mapper, the_dict, ...) for an entry mapper[key] = s, a str *)
  Lemma gpi_key (R : recs) n s m kv eu us :
    ident_ok s = true -> dict_get m (PStr n) = Some (PStr s) -> py_truthy eu = false ->
    src_get_processed_input h ext R (PStr n) (PDict m) (PDict kv) eu us =
    Ok (let val := match dict_get kv (PStr s) with Some v => v | None => PNone end in
        if negb (py_is_none val) || py_truthy us then val
        else match dict_get kv (PStr n) with Some v => v | None => PNone end).
  Proof.
    intros Hs Hm Heu. destruct Hext2 as [Hdg _]. unfold src_get_processed_input.
    cbn [py_subscript py_dict_getitem py_hashable']. rewrite Hm.
    cbn [bind cls_isinstance py_isinstance existsb isinstance1 orb].
    rewrite (Hdg s kv eu Hs Heu). cbn [bind py_or].
    destruct (negb (py_is_none match dict_get kv (PStr s) with Some v => v | None => PNone end)); cbn [bind orb].
    - reflexivity.
    - destruct (py_truthy us); cbn [bind]; [reflexivity|]. rewrite meth_get1 by reflexivity. reflexivity.
  Qed.

  Lemma cfm_loop_eq (R Rg : recs) cn m kv ku ign (usm camel : pyval) :
    cfm_heap_ok cn = true ->
    forall fds acc errs,
      (fds <> [] -> forall a b c0 d e0, r_get_processed_input R a b c0 d e0 = src_get_processed_input h ext Rg a b c0 d e0) ->
      noop_on m fds = true ->
      NoDup (map fd_name fds) ->
      (forall fd, In fd fds -> key_absent acc (fd_name fd) = true) ->
      (forall fd v nm mp, In fd fds -> dict_get kv (PStr (fd_name fd)) = Some v -> py_is_none v = false ->
           r_deserialize_single_field R (fld_py (fd_field fd)) v nm mp (PBool ku) camel (PBool ign) =
           deser_val re_match e ens rec ku ign (fd_field fd) v) ->
      (forall fd v, In fd fds -> dict_get kv (PStr (fd_name fd)) = Some v -> doc_ok v = true) ->
      src_construct_fields_map_loop1 h ext R (PBool ku) (PDict m) (PDict kv) (ref cn) usm camel (PBool ign) (PBool false)
        (fun res errs' => _ <- ext (s2p "raise_errs_if_needed") [ref cn; errs'] [] ;; Ok res)
        (enc_fields fds) (PDict acc) (PList errs) =
      match deser_fields re_match e ens rec ku ign fds kv (negb (is_nil errs)) with
      | Ok kw => Ok (PDict (acc ++ enc_kw kw))
      | Raise x => Raise x
      end.
  Proof.
    intro Hheap. destruct Hext2 as [_ Hraise].
    unfold cfm_heap_ok in Hheap. apply andb_true_iff in Hheap as [Hheap Hff]. apply andb_true_iff in Hheap as [Hconst Heu].
    induction fds as [|fd fds IH]; intros acc errs HgpiR Hnoop Hnd Hfresh Hdsf Hdoc.
    - cbn [enc_fields map src_construct_fields_map_loop1 deser_fields]. rewrite Hraise.
      destruct errs; cbn [is_nil negb bind enc_kw map]; [rewrite app_nil_r|]; reflexivity.
    - destruct (noop_on_in m (fd :: fds) fd Hnoop (or_introl eq_refl)) as [Hm Hid].
      assert (Hnoop' : noop_on m fds = true).
      { unfold noop_on in *. cbn [forallb] in Hnoop. apply andb_true_iff in Hnoop as [_ Hn]. exact Hn. }
      inversion Hnd as [|n0 l0 Hnotin Hnd']; subst.
      assert (HgpiR' : fds <> [] -> forall a b c0 d e0,
                 r_get_processed_input R a b c0 d e0 = src_get_processed_input h ext Rg a b c0 d e0)
        by (intros _; apply HgpiR; discriminate).
      assert (IH' := fun acc errs Hf => IH acc errs HgpiR' Hnoop' Hnd' Hf
                      (fun fd0 v nm mp Hin => Hdsf fd0 v nm mp (or_intror Hin))
                      (fun fd0 v Hin => Hdoc fd0 v (or_intror Hin))).
      assert (Hfresh' : forall fd0, In fd0 fds -> key_absent acc (fd_name fd0) = true)
        by (intros fd0 Hin; exact (Hfresh fd0 (or_intror Hin))).
      cbn [enc_fields map src_construct_fields_map_loop1 deser_fields]. fold (enc_fields fds).
      rewrite meth_get2 by reflexivity. rewrite Hm. cbn [bind].
      rewrite ref_getattr_def'.
      assert (Hc : (t12 <- Ok (match h cn (s2p "_constants") with Some v => v | None => PList [] end) ;;
                    py_in_dyn (PStr (fd_name fd)) t12) = Ok false).
      { destruct (h cn (s2p "_constants")) as [[| | | |[|? ?]| | | |[|? ?]| | |]|]; try discriminate Hconst; reflexivity. }
      rewrite Hc. cbn [bind].
      assert (Hin : py_in_dyn (PStr (fd_name fd)) (PDict m) = Ok true).
      { cbn [py_in_dyn py_hashable']. unfold dict_has. rewrite Hm. reflexivity. }
      rewrite Hin. cbn [bind].
      rewrite HgpiR by discriminate. rewrite (gpi_key Rg (fd_name fd) (fd_name fd) m kv (PBool false) usm Hid Hm eq_refl).
      cbv zeta.
      assert (Hsame : forall (b : bool) (x : pyval), (if b then x else x) = x) by (intros [] x; reflexivity).
      rewrite Hsame. cbn [bind].
      rewrite ref_getattr_def'.
      assert (Heu' : py_truthy (match h cn (s2p "_enable_undefined_value") with Some v => v | None => PBool false end) = false).
      { destruct (h cn (s2p "_enable_undefined_value")) as [v|]; [|reflexivity].
        destruct (py_truthy v); [discriminate Heu | reflexivity]. }
      destruct (dict_get kv (PStr (fd_name fd))) as [v|] eqn:Ekv.
      2:{ cbn [py_is_none negb py_or bind]. rewrite Heu'. cbn [py_truthy]. apply IH'. exact Hfresh'. }
      destruct (py_is_none v) eqn:Hnone.
      { apply is_none_eq in Hnone. subst v. cbn [py_is_none negb py_or bind]. rewrite Heu'. cbn [py_truthy].
        apply IH'. exact Hfresh'. }
      cbn [negb py_or bind py_truthy].
      rewrite meth_get1 by reflexivity. cbn [bind]. rewrite meth_get2 by reflexivity. cbn [bind].
      rewrite (doc_not_classobj v _ (Hdoc fd v (or_introl eq_refl) Ekv)). cbn [py_not bind negb].
      rewrite ref_getattr'. destruct (h (s2p "Structure") (s2p "failing_fast()")) as [ff|]; [|discriminate Hff].
      cbn [bind py_and]. rewrite Hff.
      rewrite (Hdsf fd v _ _ (or_introl eq_refl) Ekv Hnone).
      assert (Hmodel : forall X Y : res (list (pystr * pyval)),
                 match v with PNone => X | _ => Y end = Y) by (intros X Y; destruct v; try reflexivity; discriminate Hnone).
      rewrite Hmodel.
      assert (Hnext : forall fd0, In fd0 fds -> forall w, key_absent (acc ++ [(PStr (fd_name fd), w)]) (fd_name fd0) = true).
      { intros fd0 Hin0 w. pose proof (Hfresh' fd0 Hin0) as Hk0. unfold key_absent in *.
        rewrite map_app, forallb_app. cbn [map fst forallb]. rewrite Hk0. cbn [py_eq andb].
        destruct (pystr_eqb (fd_name fd) (fd_name fd0)) eqn:E; [|reflexivity].
        apply pystr_eqb_spec in E. exfalso. apply Hnotin. rewrite E. apply in_map. exact Hin0. }
      destruct (py_truthy v) eqn:Htr; cbn [bind].
      + (* fail fast *)
        destruct (deser_val re_match e ens rec ku ign (fd_field fd) v) as [w|x]; cbn [bind andb negb]; [|reflexivity].
        cbn [PyOpsDerive.py_setitem py_hashable' bind]. rewrite (key_absent_fresh acc _ w (Hfresh fd (or_introl eq_refl))).
        rewrite (IH' _ errs (fun fd0 Hin0 => Hnext fd0 Hin0 w)).
        destruct (deser_fields re_match e ens rec ku ign fds kv (negb (is_nil errs))) as [rest|x]; [|reflexivity].
        cbn [bind enc_kw map fst snd]. rewrite <- app_assoc. reflexivity.
      + (* a falsy input: TypeError / ValueError are collected *)
        destruct (deser_val re_match e ens rec ku ign (fd_field fd) v) as [w|x]; cbn [bind_or negb andb].
        * cbn [PyOpsDerive.py_setitem py_hashable' bind_or]. rewrite (key_absent_fresh acc _ w (Hfresh fd (or_introl eq_refl))).
          rewrite (IH' _ errs (fun fd0 Hin0 => Hnext fd0 Hin0 w)).
          destruct (deser_fields re_match e ens rec ku ign fds kv (negb (is_nil errs))) as [rest|x]; [|reflexivity].
          cbn [bind enc_kw map fst snd]. rewrite <- app_assoc. reflexivity.
        * rewrite caught_te_ve. destruct (is_te_ve x); [|reflexivity].
          cbn [PyOpsDerive.py_list_append bind]. rewrite (IH' acc (errs ++ [exn_val x]) Hfresh').
          replace (negb (is_nil (errs ++ [exn_val x]))) with true by (destruct errs; reflexivity). reflexivity.
  Qed.

  (* construct_fields_map(field_by_name, keep_undefined, mapper, input_dict, cls, ...) for ANY record of entry points
     whose deserialize_single_field is the model's deser_val on the fields of the class and the values the
     document has for them *)
  Theorem src_construct_fields_map_gen (R Rg : recs) cn fds m kv ku ign (usm camel : pyval) :
    cfm_heap_ok cn = true ->
    (fds <> [] -> forall a b c0 d e0, r_get_processed_input R a b c0 d e0 = src_get_processed_input h ext Rg a b c0 d e0) ->
    noop_on m fds = true ->
    NoDup (map fd_name fds) ->
    (forall fd v nm mp, In fd fds -> dict_get kv (PStr (fd_name fd)) = Some v -> py_is_none v = false ->
         r_deserialize_single_field R (fld_py (fd_field fd)) v nm mp (PBool ku) camel (PBool ign) =
         deser_val re_match e ens rec ku ign (fd_field fd) v) ->
    (forall fd v, In fd fds -> dict_get kv (PStr (fd_name fd)) = Some v -> doc_ok v = true) ->
    src_construct_fields_map h ext R (PDict (enc_fields fds)) (PBool ku) (PDict m) (PDict kv) (ref cn) usm camel
                             (PBool ign) (PBool false) =
    match deser_fields re_match e ens rec ku ign fds kv false with
    | Ok kw => Ok (PDict (enc_kw kw))
    | Raise x => Raise x
    end.
  Proof.
    intros Hheap HgpiR Hnoop Hnd Hdsf Hdoc. unfold src_construct_fields_map.
    assert (Hm : py_or_val (Ok (PDict m)) (fun _ => Ok (PDict [])) = Ok (PDict m)) by (destruct m; reflexivity).
    rewrite Hm. cbn [bind py_dict_items].
    exact (cfm_loop_eq R Rg cn m kv ku ign usm camel Hheap fds [] [] HgpiR Hnoop Hnd (fun _ _ => eq_refl) Hdsf Hdoc).
  Qed.

  (* ---- with the generated knot of the field-level functions *)
  Definition fields_covered (ku : bool) (fds : list fdecl) (kv : list (pyval * pyval)) : bool :=
    forallb (fun fd => match dict_get kv (PStr (fd_name fd)) with
                       | Some v => doc_ok v && order_ok re_match e ens rec ku (fd_field fd) v
                       | None => true
                       end) fds.
  Definition fields_depth (fds : list fdecl) : nat := fdepths (map fd_field fds).

  Theorem src_construct_fields_map_eq cn fds m kv ku ign (usm camel : pyval) fuel :
    cfm_heap_ok cn = true ->
    noop_on m fds = true ->
    NoDup (map fd_name fds) ->
    fields_covered ku fds kv = true ->
    (3 * fields_depth fds <= fuel)%nat ->
    src_construct_fields_map h ext (F h ext rec fuel) (PDict (enc_fields fds)) (PBool ku) (PDict m) (PDict kv) (ref cn)
                             usm camel (PBool ign) (PBool false) =
    match deser_fields re_match e ens rec ku ign fds kv false with
    | Ok kw => Ok (PDict (enc_kw kw))
    | Raise x => Raise x
    end.
  Proof.
    intros Hheap Hnoop Hnd Hcov Hfuel. unfold fields_covered in Hcov. rewrite forallb_forall in Hcov.
    apply (src_construct_fields_map_gen (F h ext rec fuel) (F h ext rec (pred fuel)) cn fds m kv ku ign usm camel Hheap);
      [ | exact Hnoop | exact Hnd | | ].
    - intros Hne a b c0 d e0. destruct fuel as [|fuel]; [|reflexivity].
      destruct fds as [|fd0 fds0]; [contradiction|]. exfalso. unfold fields_depth in Hfuel. cbn [map fdepths fold_right] in Hfuel.
      assert (1 <= fdepth (fd_field fd0))%nat
        by (destruct (fd_field fd0); cbn [fdepth]; try lia;
            repeat match goal with |- context [match ?o with Some _ => _ | None => _ end] => destruct o end; lia).
      lia.
    - intros fd v nm mp Hin Hv _. specialize (Hcov fd Hin). rewrite Hv in Hcov. apply andb_true_iff in Hcov as [Hd Ho].
      apply (src_single_field_eq re_match e ens h ext rec Hrec Hext); [|exact Hd|exact Ho].
      pose proof (fdepths_in (fd_field fd) (map fd_field fds) (in_map fd_field _ _ Hin)). unfold fields_depth in Hfuel. lia.
    - intros fd v Hin Hv. specialize (Hcov fd Hin). rewrite Hv in Hcov. apply andb_true_iff in Hcov as [Hd _]. exact Hd.
  Qed.

  (* ---- deserialize_structure_internal: the extra-key filter
         kwargs = {k: v for k, v in input_dict.items() if k not in field_by_name and keep_undefined and
                   (additional_props is True or not TypedPyDefaults.ignore_invalid_...) and k not in cls._constants} *)
  Lemma pystr_eqb_sym a b : pystr_eqb a b = pystr_eqb b a.
  Proof.
    destruct (pystr_eqb a b) eqn:H1; destruct (pystr_eqb b a) eqn:H2; try reflexivity.
    - apply pystr_eqb_spec in H1. subst. rewrite pystr_eqb_refl in H2. discriminate.
    - apply pystr_eqb_spec in H2. subst. rewrite pystr_eqb_refl in H1. discriminate.
  Qed.

  Lemma dict_has_fields (c : classdef) k : dict_has (enc_fields (c_fields c)) k = is_field_key c k.
  Proof.
    unfold dict_has, is_field_key, Instance.field_names. induction (c_fields c) as [|fd t IH].
    - destruct k; reflexivity.
    - cbn [enc_fields map dict_get]. destruct k; cbn [py_eq]; try exact IH.
      cbn [str_in existsb]. rewrite (pystr_eqb_sym s (fd_name fd)). destruct (pystr_eqb (fd_name fd) s); [reflexivity|].
      exact IH.
  Qed.

  Lemma keys_distinct_filter (p : pyval * pyval -> bool) : forall kv seen seen',
    (forall k, In k seen' -> In k seen) -> keys_distinct seen kv = true -> keys_distinct seen' (filter p kv) = true.
  Proof.
    induction kv as [|[k v] t IH]; intros seen seen' Hinc H; [reflexivity|].
    cbn [keys_distinct] in H. apply andb_true_iff in H as [H1 H2]. cbn [filter].
    destruct (p (k, v)).
    - cbn [keys_distinct]. apply andb_true_iff. split.
      + apply forallb_forall. intros k' Hk'. rewrite forallb_forall in H1. exact (H1 k' (Hinc k' Hk')).
      + apply (IH (seen ++ [k])); [|exact H2]. intros k' Hk'. apply in_app_or in Hk'. apply in_or_app.
        destruct Hk' as [Hk'|Hk']; [left; exact (Hinc _ Hk') | right; exact Hk'].
    - apply (IH (seen ++ [k])); [|exact H2]. intros k' Hk'. apply in_or_app. left. exact (Hinc _ Hk').
  Qed.

  Lemma dict_build_distinct : forall kv acc,
    forallb (fun p => py_hashable (fst p)) kv = true -> keys_distinct (map fst acc) kv = true ->
    dict_build acc kv = Ok (acc ++ kv).
  Proof.
    induction kv as [|[k v] t IH]; intros acc Hh Hd; [cbn; rewrite app_nil_r; reflexivity|].
    cbn [forallb fst] in Hh. apply andb_true_iff in Hh as [Hk Hh]. cbn [keys_distinct] in Hd.
    apply andb_true_iff in Hd as [H1 H2]. cbn [dict_build]. rewrite hashable_eq, Hk.
    rewrite (dict_set_fresh _ _ _ H1). rewrite IH; [rewrite <- app_assoc; reflexivity | exact Hh | rewrite map_app; exact H2].
  Qed.

  Definition extra_keys (c : classdef) (ku flag : bool) (kv : list (pyval * pyval)) : list (pyval * pyval) :=
    if ku && (c_additional c || negb flag) then filter (fun p => negb (is_field_key c (fst p))) kv else [].

  Lemma src_extra_keys_list (R : recs) cn (c : classdef) kv ku (flag : bool) :
    h (s2p "TypedPyDefaults") (s2p "ignore_invalid_additional_properties_in_deserialization") = Some (PBool flag) ->
    match h cn (s2p "_constants") with None | Some (PDict []) | Some (PList []) => true | _ => false end = true ->
    forallb (fun p => py_hashable (fst p)) kv = true ->
    src_deserialize_structure_internal_comp_kwargs h ext R (PBool ku) (PDict (enc_fields (c_fields c)))
                                                   (PBool (c_additional c)) (ref cn) kv =
    Ok (extra_keys c ku flag kv).
  Proof.
    intros Hflag Hconst Hh. unfold src_deserialize_structure_internal_comp_kwargs.
    assert (Hstep : forall k v : pyval,
               py_hashable k = true ->
               (c0 <- py_and (py_not (py_in_dyn k (PDict (enc_fields (c_fields c)))))
                      (fun _ => py_and (Ok (py_truthy (PBool ku)))
                      (fun _ => py_and (py_or (Ok (py_is_true (PBool (c_additional c))))
                                              (fun _ => py_not (t80 <- fld_getattr h (ref (s2p "TypedPyDefaults"))
                                                                      (s2p "ignore_invalid_additional_properties_in_deserialization") ;;
                                                                Ok (py_truthy t80))))
                      (fun _ => t81 <- fld_getattr_def h (ref cn) (s2p "_constants") (PList []) ;;
                                py_not (py_in_dyn k t81)))) ;;
                if c0 then Ok (Some (k, v)) else Ok None) =
               Ok (if negb (is_field_key c k) && (ku && (c_additional c || negb flag)) then Some (k, v) else None)).
    { intros k v Hk. cbn [py_in_dyn]. rewrite hashable_eq, Hk, dict_has_fields.
      rewrite ref_getattr', Hflag, ref_getattr_def'.
      assert (Hc : (t81 <- Ok (match h cn (s2p "_constants") with Some v0 => v0 | None => PList [] end) ;;
                    py_not (py_in_dyn k t81)) = Ok true).
      { destruct (h cn (s2p "_constants")) as [[| | | |[|? ?]| | | |[|? ?]| | |]|]; try discriminate Hconst;
          cbn [bind py_in_dyn py_in_lit py_in existsb py_not negb]; try reflexivity.
        rewrite hashable_eq, Hk. reflexivity. }
      rewrite Hc.
      destruct (is_field_key c k), ku, (c_additional c), flag; reflexivity. }
    assert (Hfil : forall l, forallb (fun p => py_hashable (fst p)) l = true ->
               filterM (fun '((v_k, v_v) : pyval * pyval) =>
                 (c0 <- py_and (py_not (py_in_dyn v_k (PDict (enc_fields (c_fields c)))))
                      (fun _ => py_and (Ok (py_truthy (PBool ku)))
                      (fun _ => py_and (py_or (Ok (py_is_true (PBool (c_additional c))))
                                              (fun _ => py_not (t80 <- fld_getattr h (ref (s2p "TypedPyDefaults"))
                                                                      (s2p "ignore_invalid_additional_properties_in_deserialization") ;;
                                                                Ok (py_truthy t80))))
                      (fun _ => t81 <- fld_getattr_def h (ref cn) (s2p "_constants") (PList []) ;;
                                py_not (py_in_dyn v_k t81)))) ;;
                  if c0 then Ok (Some (v_k, v_v)) else Ok None)) l =
               Ok (filter (fun p => negb (is_field_key c (fst p)) && (ku && (c_additional c || negb flag))) l)).
    { induction l as [|[k v] t IH]; intro Hl; [reflexivity|].
      cbn [forallb fst] in Hl. apply andb_true_iff in Hl as [Hk Hl].
      cbn [filterM filter fst]. rewrite (Hstep k v Hk). cbn [bind]. rewrite (IH Hl). cbn [bind].
      destruct (negb (is_field_key c k) && (ku && (c_additional c || negb flag))); reflexivity. }
    rewrite (Hfil kv Hh). f_equal. unfold extra_keys.
    destruct (ku && (c_additional c || negb flag)).
    - apply filter_ext. intros p. rewrite andb_true_r. reflexivity.
    - clear. induction kv as [|p t IH]; [reflexivity|]. cbn [filter]. rewrite andb_false_r. exact IH.
  Qed.

  Lemma extra_keys_dict (c : classdef) ku flag kv :
    forallb (fun p => py_hashable (fst p)) kv = true -> keys_distinct [] kv = true ->
    py_dict_of (extra_keys c ku flag kv) = Ok (PDict (extra_keys c ku flag kv)).
  Proof.
    intros Hh Hd. unfold py_dict_of. rewrite (dict_build_distinct _ []); [reflexivity| |].
    - unfold extra_keys. destruct (ku && _); [|reflexivity].
      clear -Hh. induction kv as [|p t IH]; [reflexivity|]. cbn [forallb filter] in *.
      apply andb_true_iff in Hh as [H1 H2]. destruct (negb _); [cbn [forallb]; rewrite H1|]; exact (IH H2).
    - unfold extra_keys. destruct (ku && _); [|reflexivity].
      apply (keys_distinct_filter _ kv [] []); [intros k Hk; exact Hk | exact Hd].
  Qed.

  Theorem src_extra_keys_eq (R : recs) cn (c : classdef) kv ku (flag : bool) :
    h (s2p "TypedPyDefaults") (s2p "ignore_invalid_additional_properties_in_deserialization") = Some (PBool flag) ->
    match h cn (s2p "_constants") with None | Some (PDict []) | Some (PList []) => true | _ => false end = true ->
    forallb (fun p => py_hashable (fst p)) kv = true -> keys_distinct [] kv = true ->
    (r <- src_deserialize_structure_internal_comp_kwargs h ext R (PBool ku) (PDict (enc_fields (c_fields c)))
                                                        (PBool (c_additional c)) (ref cn) kv ;; py_dict_of r) =
    Ok (PDict (if ku && (c_additional c || negb flag)
               then filter (fun p => negb (is_field_key c (fst p))) kv else [])).
  Proof.
    intros Hflag Hconst Hh Hd. rewrite (src_extra_keys_list R cn c kv ku flag Hflag Hconst Hh). cbn [bind].
    exact (extra_keys_dict c ku flag kv Hh Hd).
  Qed.

  (* ------------------------------------------------------------------ deserialize_structure_internal, one class level *)
  Variable fl : dflags.

  (* the model's deser_struct (S n), with the nested levels as [rec] *)
  Definition struct_step (ku : bool) (cn : pystr) (j : pyval) : res pyval :=
    match find_class e cn with
    | None => Raise Unmodelled
    | Some c =>
        match j with
        | PDict kv =>
            let extras :=
                if ku && (c_additional c || negb (df_ignore_invalid fl))
                then filter (fun p => negb (is_field_key c (fst p))) kv else [] in
            kw <- deser_fields re_match e ens rec ku (c_ignore_none c) (c_fields c) kv false ;;
            match str_keys extras with
            | Some ex => construct re_match e c (ex ++ kw)
            | None => Raise TypeError
            end
        | _ =>
            match (if df_compact fl then compact_eligible c else None) with
            | Some fd =>
                w <- deser_val re_match e ens rec true (c_ignore_none c) (fd_field fd) j ;;
                construct re_match e c [(fd_name fd, w)]
            | None => Raise TypeError
            end
        end
    end.

  (* how a class description is seen as the class object [ref cn] and the two configuration objects *)
  Definition class_dict_py (c : classdef) : list (pyval * pyval) :=
    [(PStr (s2p "_additional_properties"), PBool (c_additional c));
     (PStr (s2p "_required"), PList (map PStr (c_required c)))].

  Record heap_models (cn : pystr) (c : classdef) : Prop := {
    hm_not_versioned : h cn (issubclass_attr (s2p "Versioned")) = None;
    hm_fields : h cn (s2p "get_all_fields_by_name()") = Some (PDict (enc_fields (c_fields c)));
    hm_dict : h cn (s2p "__dict__") = Some (PDict (class_dict_py c));
    hm_ignore_none : match h cn (s2p "_ignore_none") with Some v => v | None => PBool false end = PBool (c_ignore_none c);
    hm_aggr : h cn (s2p "get_aggregated_deserialization_mapper()") = Some (PList []);
    hm_constants : h cn (s2p "_constants") = Some (PDict []);
    hm_eu : h cn (s2p "_enable_undefined_value") = None;
    hm_field_attr : forall fd, In fd (c_fields c) -> h cn (fd_name fd) = Some (fld_py (fd_field fd));
    hm_ff : h (s2p "Structure") (s2p "failing_fast()") = Some (PBool true);
    hm_apd : exists v, h (s2p "TypedPyDefaults") (s2p "additional_properties_default") = Some v;
    hm_compact : h (s2p "TypedPyDefaults") (s2p "compact_deserialization_default") = Some (PBool (df_compact fl));
    hm_ignore_invalid : h (s2p "TypedPyDefaults") (s2p "ignore_invalid_additional_properties_in_deserialization") =
                        Some (PBool (df_ignore_invalid fl)) }.

  (* the untranslated callees of deserialize_structure_internal, in the configuration the model covers:
       aggregate_deserialization_mappers(cls, mapper, False) is the class's no-op mapper,
       cls( **kwargs ) / cls(value) is the model's constructor *)
  Record ext_class_agrees (cn : pystr) (c : classdef) (m : list (pyval * pyval)) : Prop := {
    xc_aggregate : forall mp, ext (s2p "aggregate_deserialization_mappers") [ref cn; mp; PBool false] [] = Ok (PDict m);
    xc_noop : noop_on m (c_fields c) = true;
    xc_call_kw : forall kw, ext call_name [ref cn] kw = construct re_match e c kw;
    xc_call_pos : forall fd w, c_fields c = [fd] -> ext call_name [ref cn; w] [] = construct re_match e c [(fd_name fd, w)] }.

  (* the entry points deserialize_structure_internal calls: the field-level knot and construct_fields_map over it *)
  Definition struct_recs (fuel : nat) : recs :=
    let Fld := F h ext rec fuel in
    {| r_deserialize_list_like := r_deserialize_list_like Fld;
       r_deserialize_array := r_deserialize_array Fld;
       r_deserialize_deque := r_deserialize_deque Fld;
       r_deserialize_tuple := r_deserialize_tuple Fld;
       r_deserialize_set := r_deserialize_set Fld;
       r_deserialize_multifield_wrapper := r_deserialize_multifield_wrapper Fld;
       r_deserialize_map := r_deserialize_map Fld;
       r_deserialize_single_field := r_deserialize_single_field Fld;
       r_construct_fields_map := src_construct_fields_map h ext Fld;
       r_deserialize_structure_internal := dsi_of rec;
       r_get_processed_input := r_get_processed_input Fld |}.

  (* the documents covered at this level *)
  Definition struct_covered (ku : bool) (c : classdef) (j : pyval) : bool :=
    match j with
    | PDict kv => forallb (fun p => py_hashable (fst p)) kv && keys_distinct [] kv &&
                  fields_covered ku (c_fields c) kv
    | _ => match c_fields c with
           | [fd] => doc_ok j && order_ok re_match e ens rec true (fd_field fd) j
           | _ => true
           end
    end.

  Lemma obj_issubclass_ref n ks :
    obj_issubclass h (ref n) ks =
    Ok (existsb (fun k => match h n (issubclass_attr k) with Some b => py_truthy b | None => false end) ks).
  Proof. reflexivity. Qed.

  Lemma deser_fields_nodup rec' ku ign kv : forall fds had kw,
    NoDup (map fd_name fds) ->
    deser_fields re_match e ens rec' ku ign fds kv had = Ok kw -> NoDup (map fst kw).
  Proof.
    induction fds as [|fd t IH]; intros had kw Hnd H.
    - cbn [deser_fields] in H. destruct had; [discriminate H|]. inversion H; subst. constructor.
    - inversion Hnd as [|n0 l0 Hnotin Hnd']; subst. cbn [deser_fields] in H.
      destruct (dict_get kv (PStr (fd_name fd))) as [v|]; [|exact (IH _ _ Hnd' H)].
      destruct v; try exact (IH _ _ Hnd' H);
        (destruct (deser_val re_match e ens rec' ku ign (fd_field fd) _) as [w|x];
         [ destruct (deser_fields re_match e ens rec' ku ign t kv had) as [rest|] eqn:E; [|discriminate H];
           cbn [bind] in H; inversion H; subst; cbn [map fst]; constructor;
           [ intro Hin; apply Hnotin; exact (deser_fields_names rec' ku ign kv _ _ _ E _ Hin) | exact (IH _ _ Hnd' E) ]
         | destruct (negb _ && is_te_ve x); [exact (IH _ _ Hnd' H) | discriminate H] ]).
  Qed.

  (* kwargs.update(fields map): the extra keys are not field names, the field names are pairwise different *)
  Lemma update_append (c : classdef) : forall kw extras,
    forallb (fun p => negb (is_field_key c (fst p))) extras = true ->
    (forall n, In n (map fst kw) -> In n (map fd_name (c_fields c))) ->
    NoDup (map fst kw) ->
    fold_left (fun acc p => dict_set acc (fst p) (snd p)) (enc_kw kw) extras = extras ++ enc_kw kw.
  Proof.
    assert (Hgen : forall kw acc,
               (forall n, In n (map fst kw) -> key_absent acc n = true) -> NoDup (map fst kw) ->
               fold_left (fun acc p => dict_set acc (fst p) (snd p)) (enc_kw kw) acc = acc ++ enc_kw kw).
    { induction kw as [|[n w] t IH]; intros acc Hab Hnd; [cbn; rewrite app_nil_r; reflexivity|].
      inversion Hnd as [|n0 l0 Hnotin Hnd']; subst.
      cbn [enc_kw map fold_left fst snd]. rewrite (key_absent_fresh acc n w (Hab n (or_introl eq_refl))).
      fold (enc_kw t). rewrite IH; [rewrite <- app_assoc; reflexivity | | exact Hnd'].
      intros n' Hin'. pose proof (Hab n' (or_intror Hin')) as Hk. unfold key_absent in *.
      rewrite map_app, forallb_app. rewrite Hk. cbn [map fst forallb py_eq andb].
      destruct (pystr_eqb n n') eqn:E; [|reflexivity]. apply pystr_eqb_spec in E. subst. contradiction. }
    intros kw extras Hex Hnames Hnd. apply Hgen; [|exact Hnd].
    intros n Hin. specialize (Hnames n Hin). unfold key_absent. apply forallb_forall. intros k Hk.
    apply in_map_iff in Hk as [[k' v'] [Hk1 Hk2]]. cbn [fst] in Hk1. subst k'.
    rewrite forallb_forall in Hex. specialize (Hex _ Hk2). cbn [fst] in Hex.
    destruct k; try reflexivity. cbn [py_eq]. cbn [is_field_key] in Hex.
    destruct (pystr_eqb s n) eqn:E; [|reflexivity]. apply pystr_eqb_spec in E. subst s.
    exfalso. unfold Instance.field_names, str_in in Hex. apply negb_true_iff in Hex.
    assert (Ht : existsb (pystr_eqb n) (map fd_name (c_fields c)) = true).
    { apply existsb_exists. exists n. split; [exact Hnames | apply pystr_eqb_refl]. }
    rewrite Ht in Hex. discriminate Hex.
  Qed.

  Lemma kw_of_pairs_app : forall extras kw,
    kw_of_pairs (extras ++ enc_kw kw) =
    match str_keys extras with Some ex => Ok (ex ++ kw) | None => Raise TypeError end.
  Proof.
    induction extras as [|[k v] t IH]; intro kw.
    - cbn [app str_keys]. induction kw as [|[n w] kw IHk]; [reflexivity|].
      cbn [enc_kw map kw_of_pairs fst snd]. fold (enc_kw kw). rewrite IHk. reflexivity.
    - cbn [app kw_of_pairs str_keys]. destruct k; try reflexivity. rewrite IH.
      destruct (str_keys t); reflexivity.
  Qed.

  Lemma len1 (x : pyval) : py_eq (PNum (NInt (lenZ' [x]))) (zint 1) = true.
  Proof. reflexivity. Qed.

  Lemma len2 (x y : pyval) t : py_eq (PNum (NInt (lenZ' (x :: y :: t)))) (zint 1) = false.
  Proof.
    cbn [zint py_eq as_num]. rewrite num_eqb_int. unfold lenZ'. cbn [length]. apply Z.eqb_neq. lia.
  Qed.

  Lemma req_eq req n :
    py_eq (PList (map PStr req)) (PList [PStr n]) = match req with [r] => pystr_eqb r n | _ => false end.
  Proof.
    destruct req as [|r [|r2 t]]; cbn [map py_eq]; [reflexivity | apply andb_true_r | apply andb_false_r].
  Qed.

  Lemma py_call_ref n args kw : py_call ext (ref n) args kw = ext call_name (ref n :: args) kw.
  Proof. reflexivity. Qed.

  Lemma not_dict_match {A} j (X : list (pyval * pyval) -> A) (Y : A) :
    py_isinstance j [K_dict] = false -> match j with PDict kv => X kv | _ => Y end = Y.
  Proof. destruct j; cbn; intro H; try reflexivity; discriminate H. Qed.

  Lemma extra_keys_nonfield (c : classdef) ku flag kv :
    forallb (fun p => negb (is_field_key c (fst p))) (extra_keys c ku flag kv) = true.
  Proof.
    unfold extra_keys. destruct (ku && _); [|reflexivity].
    induction kv as [|p t IH]; [reflexivity|]. cbn [filter]. destruct (negb (is_field_key c (fst p))) eqn:E; [|exact IH].
    cbn [forallb]. rewrite E. exact IH.
  Qed.

  (* `if keep_undefined: for m in cls.get_aggregated_deserialization_mapper(): ...; if (camel_case_convert or
     isinstance(mapper, mappers)) and not ...: keep_undefined = False` leaves keep_undefined as it is when no mapper
     is declared and the aggregated mapper is a dict *)
  Lemma ku_prefix (R : recs) cn m (K : pyval -> res pyval) ku :
    h cn (s2p "get_aggregated_deserialization_mapper()") = Some (PList []) ->
    (c0 <- Ok (py_truthy (PBool ku)) ;;
     if c0 then (t47 <- fld_getattr h (ref cn) (s2p "get_aggregated_deserialization_mapper()") ;;
                 t48 <- py_iter t47 ;;
                 src_deserialize_structure_internal_loop1 h ext R (PDict m)
                   (fun v_ku => c1 <- py_and (py_or (Ok (py_truthy (PBool false)))
                                                      (fun _ => cls_isinstance tbl (PDict m) [s2p "mappers"]))
                                              (fun _ => py_not (t53 <- fld_getattr_def h (ref cn) (s2p "_additional_properties") (PBool false) ;;
                                                                Ok (py_truthy t53))) ;;
                                if c1 then K (PBool false) else K v_ku) t48 (PBool ku))
     else K (PBool ku)) = K (PBool ku).
  Proof.
    intro Ha. destruct ku; cbn [py_truthy bind]; [|reflexivity].
    rewrite ref_getattr', Ha. reflexivity.
  Qed.

  Theorem src_structure_internal_step fuel cn c m j name usm mapper ku ssv :
    find_class e cn = Some c -> heap_models cn c -> ext_class_agrees cn c m ->
    NoDup (map fd_name (c_fields c)) ->
    struct_covered ku c j = true ->
    (3 * fields_depth (c_fields c) <= fuel)%nat ->
    src_deserialize_structure_internal h ext (struct_recs fuel) (ref cn) j name usm mapper (PBool ku) (PBool false)
                                       (PBool false) ssv =
    struct_step ku cn j.
  Proof.
    intros Hfind HM HX Hnd Hcov Hfuel. destruct HM, HX. destruct hm_apd0 as [apd Hapd].
    unfold src_deserialize_structure_internal, struct_step. rewrite Hfind.
    rewrite obj_issubclass_ref. cbn [existsb]. rewrite hm_not_versioned0. cbn [orb bind py_truthy py_and].
    rewrite xc_aggregate0. cbn [bind].
    match goal with
    | |- (if ku then _ else ?X) = _ =>
        let K := eval pattern (PBool ku) in X in
        match K with
        | ?f _ => transitivity (f (PBool ku)); [exact (ku_prefix (struct_recs fuel) cn m f ku hm_aggr0) | cbv beta]
        end
    end.
    rewrite ref_getattr_def', hm_ignore_none0. cbn [bind].
    rewrite ref_getattr', hm_fields0. cbn [bind]. rewrite ref_getattr', hm_dict0. cbn [bind].
    rewrite ref_getattr', Hapd. cbn [bind]. rewrite meth_get2 by reflexivity.
    change (dict_get (class_dict_py c) (PStr (s2p "_additional_properties"))) with (Some (PBool (c_additional c))).
    cbn [bind].
    destruct (py_isinstance j [K_dict]) eqn:Hisd.
    - (* a dict *)
      destruct j; try discriminate Hisd. cbn [py_not bind negb py_dict_items].
      cbn [struct_covered] in Hcov. apply andb_true_iff in Hcov as [Hcov Hfc]. apply andb_true_iff in Hcov as [Hh Hd].
      rewrite (src_extra_keys_list (struct_recs fuel) cn c kv ku (df_ignore_invalid fl) hm_ignore_invalid0)
        by (try rewrite hm_constants0; try reflexivity; exact Hh).
      cbn [bind]. rewrite (extra_keys_dict c ku (df_ignore_invalid fl) kv Hh Hd). cbn [bind].
      rewrite ref_getattr_def', hm_eu0. cbn [bind].
      change (r_construct_fields_map (struct_recs fuel)) with (src_construct_fields_map h ext (F h ext rec fuel)).
      rewrite (src_construct_fields_map_eq cn (c_fields c) m kv ku (c_ignore_none c) usm (PBool false) fuel);
        [ | unfold cfm_heap_ok; rewrite hm_constants0, hm_eu0, hm_ff0; reflexivity | exact xc_noop0 | exact Hnd
          | exact Hfc | exact Hfuel ].
      fold (extra_keys c ku (df_ignore_invalid fl) kv).
      destruct (deser_fields re_match e ens rec ku (c_ignore_none c) (c_fields c) kv false) as [kw|x] eqn:Edf; [|reflexivity].
      cbn [bind py_dict_update].
      rewrite (update_append c kw _ (extra_keys_nonfield c ku (df_ignore_invalid fl) kv)
                             (deser_fields_names rec ku (c_ignore_none c) kv _ _ _ Edf)
                             (deser_fields_nodup rec ku (c_ignore_none c) kv _ _ _ Hnd Edf)).
      cbn [bind py_star_kwargs]. rewrite kw_of_pairs_app.
      destruct (str_keys (extra_keys c ku (df_ignore_invalid fl) kv)) as [ex|]; [|reflexivity].
      cbn [bind]. rewrite py_call_ref, xc_call_kw0. destruct (construct re_match e c (ex ++ kw)); reflexivity.
    - (* not a dict: the compact form, for a class that wraps a single required field *)
      rewrite (not_dict_match j _ _ Hisd). cbn [py_not bind negb py_dict_keys py_dict_items].
      assert (Hlist : forall l, py_call ext (bref (s2p "list")) [PList l] [] = Ok (PList l)) by reflexivity.
      rewrite Hlist. cbn [bind]. rewrite meth_get2 by reflexivity.
      change (dict_get (class_dict_py c) (PStr (s2p "_required"))) with (Some (PList (map PStr (c_required c)))).
      cbn [bind]. rewrite ref_getattr', hm_compact0.
      unfold compact_eligible.
      destruct (c_fields c) as [|fd [|fd2 fds]] eqn:Efields.
      + destruct (df_compact fl); reflexivity.
      + cbn [enc_fields map fst]. cbn [py_len bind py_eqv py_and]. rewrite len1. cbn [bind]. rewrite req_eq.
        cbn [py_is_false py_truthy bind].
        destruct (c_required c) as [|r [|r2 req]]; cbn [bind]; try (destruct (df_compact fl); reflexivity).
        destruct (pystr_eqb r (fd_name fd)) eqn:Er; cbn [bind andb]; [|destruct (df_compact fl); reflexivity].
        destruct (c_additional c); cbn [bind negb]; [destruct (df_compact fl); reflexivity|].
        destruct (df_compact fl); cbn [bind]; [|reflexivity].
        cbn [py_subscript zint seq_index]. 
        change (seq_index [PStr (fd_name fd)] 0) with (@Ok pyval (PStr (fd_name fd))). cbn [bind fld_getattr_dyn_def].
        rewrite ref_getattr_def', (hm_field_attr0 fd) by (left; reflexivity). cbn [bind].
        change (r_deserialize_single_field (struct_recs fuel)) with (r_deserialize_single_field (F h ext rec fuel)).
        unfold struct_covered in Hcov. rewrite Efields in Hcov.
        assert (Hcov' : doc_ok j && order_ok re_match e ens rec true (fd_field fd) j = true).
        { destruct j; try exact Hcov. cbn [py_isinstance existsb isinstance1 orb] in Hisd. discriminate Hisd. }
        apply andb_true_iff in Hcov' as [Hdj Hoj].
        rewrite (src_single_field_eq re_match e ens h ext rec Hrec Hext (fd_field fd) fuel true (c_ignore_none c) j);
          [ | unfold fields_depth in Hfuel; cbn [map fdepths fold_right] in Hfuel; lia
            | exact Hdj | exact Hoj ].
        destruct (deser_val re_match e ens rec true (c_ignore_none c) (fd_field fd) j) as [w|x]; [|reflexivity].
        cbn [bind]. rewrite py_call_ref, (xc_call_pos0 fd w eq_refl).
        destruct (construct re_match e c [(fd_name fd, w)]); reflexivity.
      + cbn [enc_fields map fst]. cbn [py_len bind py_eqv py_and]. rewrite len2. cbn [bind].
        destruct (df_compact fl); reflexivity.
  Qed.
End Struct.

(* ------------------------------------------------------------------ the model's own nesting: rec := deser_struct n *)

Lemma deser_struct_step re_match e ens fl n ku cn j :
  deser_struct re_match e ens fl (S n) ku cn j =
  struct_step re_match e ens (deser_struct re_match e ens fl n) fl ku cn j.
Proof. reflexivity. Qed.

Lemma construct_bound re_match e c kw v : construct re_match e c kw = Ok v -> is_unbound v = false.
Proof.
  unfold construct. intro H.
  destruct (has_dup (map fst kw)); [discriminate H|]. destruct (negb (bind_ok c kw)); [discriminate H|].
  destruct (set_all re_match e c [] _) as [a0|]; [|discriminate H]. cbn [bind] in H.
  destruct (set_all re_match e c a0 _) as [a1|]; [|discriminate H]. cbn [bind] in H.
  destruct (set_all re_match e c a1 _) as [a2|]; [|discriminate H]. cbn [bind] in H.
  destruct (hook_ok (c_hook c) a2); inversion H. reflexivity.
Qed.

Lemma deser_struct_bound re_match e ens fl : forall n ku cn j v,
  deser_struct re_match e ens fl n ku cn j = Ok v -> is_unbound v = false.
Proof.
  intros [|n] ku cn j v H; [discriminate H|]. rewrite deser_struct_step in H. unfold struct_step in H.
  destruct (find_class e cn) as [c|]; [|discriminate H]. destruct j;
    try (destruct (if df_compact fl then compact_eligible c else None) as [fd|]; [|discriminate H];
         destruct (deser_val _ _ _ _ _ _ _ _) as [w|]; [|discriminate H]; exact (construct_bound _ _ _ _ _ H)).
  destruct (deser_fields _ _ _ _ _ _ _ _ _) as [kw|]; [|discriminate H]. cbn [bind] in H.
  destruct (str_keys _) as [ex|]; [|discriminate H]. exact (construct_bound _ _ _ _ _ H).
Qed.

(* deserialize_structure_internal against deser_struct: level S n of the model, the nested class references resolved
   by level n of the model *)
Theorem src_structure_internal_eq re_match e ens fl h ext n fuel cn c m j name usm mapper ku ssv :
  ext_agrees re_match e ens ext ->
  ext_struct_agrees ext ->
  find_class e cn = Some c ->
  heap_models h fl cn c ->
  ext_class_agrees re_match e ext cn c m ->
  NoDup (map fd_name (c_fields c)) ->
  struct_covered re_match e ens (deser_struct re_match e ens fl n) ku c j = true ->
  (3 * fields_depth (c_fields c) <= fuel)%nat ->
  src_deserialize_structure_internal h ext (struct_recs h ext (deser_struct re_match e ens fl n) fuel) (ref cn) j name usm
                                     mapper (PBool ku) (PBool false) (PBool false) ssv =
  deser_struct re_match e ens fl (S n) ku cn j.
Proof.
  intros Hext Hext2 Hfind HM HX Hnd Hcov Hfuel. rewrite deser_struct_step.
  exact (src_structure_internal_step re_match e ens h ext (deser_struct re_match e ens fl n)
           (deser_struct_bound re_match e ens fl n) Hext Hext2 fl fuel cn c m j name usm mapper ku ssv
           Hfind HM HX Hnd Hcov Hfuel).
Qed.

(* ------------------------------------------------------------------ the oracle premises are satisfiable *)

(* the leaf methods, read off the field objects *)
Definition model_ext (re_match : N -> pystr -> bool) (e : env) (ens : enums) : extern :=
  fun name args kw =>
    if pystr_eqb name (meth_name (s2p "_validate")) then
      match args, kw with
      | [fo; j], [] =>
          match leaf_of_py fo with
          | Some f => if is_validated f then (_ <- validate_weak re_match e f j ;; Ok PNone) else Raise Unmodelled
          | None => Raise Unmodelled
          end
      | _, _ => Raise Unmodelled
      end
    else if pystr_eqb name (meth_name (s2p "deserialize")) then
      match args, kw with
      | [fo; j], [] =>
          match leaf_of_py fo with
          | Some f => enum_deser re_match e ens f j
          | None => Raise Unmodelled
          end
      | _, _ => Raise Unmodelled
      end
    else Raise Unmodelled.

Lemma model_ext_agrees re_match e ens : ext_agrees re_match e ens (model_ext re_match e ens).
Proof.
  split; intros f j Hf.
  - unfold model_ext. change (pystr_eqb (meth_name (s2p "_validate")) (meth_name (s2p "_validate"))) with true. cbv iota.
    rewrite leaf_of_py_embed by (rewrite Hf; reflexivity). rewrite Hf. reflexivity.
  - unfold model_ext. change (pystr_eqb (meth_name (s2p "deserialize")) (meth_name (s2p "_validate"))) with false.
    change (pystr_eqb (meth_name (s2p "deserialize")) (meth_name (s2p "deserialize"))) with true. cbv iota.
    rewrite leaf_of_py_embed by (rewrite Hf; apply orb_true_r). reflexivity.
Qed.

(* deserialize_single_field with the leaf methods read off the field objects: no premise about the oracle left *)
Theorem src_single_field_model re_match e ens h rec f fuel ku ign j name mapper camel :
  (forall ku c j v, rec ku c j = Ok v -> is_unbound v = false) ->
  (3 * fdepth f <= fuel)%nat -> doc_ok j = true -> order_ok re_match e ens rec ku f j = true ->
  r_deserialize_single_field (F h (model_ext re_match e ens) rec fuel) (fld_py f) j name mapper (PBool ku) camel (PBool ign) =
  deser_val re_match e ens rec ku ign f j.
Proof.
  intros Hrec. exact (src_single_field_eq re_match e ens h (model_ext re_match e ens) rec Hrec
                                          (model_ext_agrees re_match e ens) f fuel ku ign j name mapper camel).
Qed.

(* ------------------------------------------------------------------ examples: the side conditions hold of ordinary inputs;
   where they fail, source and hand-written model DISAGREE (the real library follows the source) *)

Definition ex_rec : bool -> pystr -> pyval -> res pyval := fun _ _ _ => Raise Unmodelled.
Definition ex_re : N -> pystr -> bool := fun _ _ => true.
Definition ex_heap : heap := fun _ _ => None.
Definition ex_int : field := FNumber KInteger SAny no_numc.
Definition ex_src (f : field) (j : pyval) : res pyval :=
  r_deserialize_single_field (F ex_heap (model_ext ex_re [] []) ex_rec 20) (fld_py f) j (PStr (s2p "value")) PNone
                             (PBool true) (PBool false) (PBool false).
Definition ex_model (f : field) (j : pyval) : res pyval := deser_val ex_re [] [] ex_rec true false f j.

(* a nested declaration and a JSON-like document that satisfy every side condition, and on which both sides
   compute the same non-trivial value *)
Definition ex_field : field :=
  FAnyOf [FMapKV (FString no_strc) (FSeqEach SeqList ex_int no_sizec false) no_sizec;
          FTuple [ex_int; FString no_strc] false].
Definition ex_doc : pyval := PDict [(PStr (s2p "a"), PList [PNum (NInt 1); PNum (NInt 2)]); (PStr (s2p "b"), PList [])].

Example side_conditions_satisfiable :
  doc_ok ex_doc = true /\ order_ok ex_re [] [] ex_rec true ex_field ex_doc = true /\
  (3 * fdepth ex_field <= 20)%nat /\
  ex_src ex_field ex_doc = Ok ex_doc /\ ex_model ex_field ex_doc = Ok ex_doc.
Proof. repeat split; try (vm_compute; reflexivity). vm_compute. lia. Qed.

(* DISAGREEMENT 1 (deserialize_map): `res[key] = value` evaluates the value first; the model deserializes the key
   first.  Map[String(maxLength=1), Integer] on {"abc": "x"}: the source (and the library) raise TypeError (the
   value), the hand-written model ValueError (the key).  [order_ok] excludes exactly this. *)
Definition ex_map : field := FMapKV (FString {| minLength := None; maxLength := Some 1; pattern := None |}) ex_int no_sizec.
Definition ex_map_doc : pyval := PDict [(PStr (s2p "abc"), PStr (s2p "x"))].
Example map_order_disagreement :
  ex_src ex_map ex_map_doc = Raise TypeError /\ ex_model ex_map ex_map_doc = Raise ValueError /\
  order_ok ex_re [] [] ex_rec true ex_map ex_map_doc = false.
Proof. vm_compute. repeat split. Qed.

(* DISAGREEMENT 2 (deserialize_list_like): isinstance(value, (list, tuple, set)) is False for a frozenset; the model's
   list_like accepts it.  [doc_ok] (no set inside a document) excludes it. *)
Example frozenset_disagreement :
  ex_src (FSeqEach SeqList ex_int no_sizec false) (PSet true [PNum (NInt 1)]) = Raise ValueError /\
  ex_model (FSeqEach SeqList ex_int no_sizec false) (PSet true [PNum (NInt 1)]) = Ok (PList [PNum (NInt 1)]).
Proof. vm_compute. split; reflexivity. Qed.

(* DISAGREEMENT 3 (deserialize_list_like, positional items): value[i] on a set is a TypeError (re-raised as
   ValueError); the model reads the set as a list. *)
Example set_positional_disagreement :
  ex_src (FSeqPos SeqList [ex_int] no_sizec false None) (PSet false [PNum (NInt 1)]) = Raise ValueError /\
  ex_model (FSeqPos SeqList [ex_int] no_sizec false None) (PSet false [PNum (NInt 1)]) = Ok (PList [PNum (NInt 1)]).
Proof. vm_compute. split; reflexivity. Qed.

(* ------------------------------------------------------------------ the structure-level premises are satisfiable *)

(* the class objects and the two configuration objects, as a heap *)
Definition class_heap (e : env) (fl : dflags) : heap :=
  fun o a =>
    if pystr_eqb o (s2p "TypedPyDefaults") then
      if pystr_eqb a (s2p "ignore_invalid_additional_properties_in_deserialization") then Some (PBool (df_ignore_invalid fl))
      else if pystr_eqb a (s2p "compact_deserialization_default") then Some (PBool (df_compact fl))
      else if pystr_eqb a (s2p "additional_properties_default") then Some (PBool true)
      else None
    else if pystr_eqb o (s2p "Structure") then
      if pystr_eqb a (s2p "failing_fast()") then Some (PBool true) else None
    else
      match find_class e o with
      | Some c =>
          if pystr_eqb a (s2p "get_all_fields_by_name()") then Some (PDict (enc_fields (c_fields c)))
          else if pystr_eqb a (s2p "__dict__") then Some (PDict (class_dict_py c))
          else if pystr_eqb a (s2p "_ignore_none") then Some (PBool (c_ignore_none c))
          else if pystr_eqb a (s2p "_constants") then Some (PDict [])
          else if pystr_eqb a (s2p "get_aggregated_deserialization_mapper()") then Some (PList [])
          else match find_field (c_fields c) a with
               | Some fd => Some (fld_py (fd_field fd))
               | None => None
               end
      | None => None
      end.

Definition noop_mapper (c : classdef) : list (pyval * pyval) :=
  map (fun fd => (PStr (fd_name fd), PStr (fd_name fd))) (c_fields c).

(* an oracle for every call that leaves the translated functions in the covered configuration *)
Definition full_ext (re_match : N -> pystr -> bool) (e : env) (ens : enums) : extern :=
  fun name args kw =>
    if pystr_eqb name (s2p "deep_get") then
      match args with
      | [PDict kv; k] => Ok (match dict_get kv k with Some v => v | None => PNone end)
      | _ => Raise Unmodelled
      end
    else if pystr_eqb name (s2p "raise_errs_if_needed") then
      match args with
      | [_; PList errs] => if is_nil errs then Ok PNone else Raise InvalidStructureErr
      | _ => Raise Unmodelled
      end
    else if pystr_eqb name (s2p "aggregate_deserialization_mappers") then
      match args with
      | POther _ cn :: _ => match find_class e cn with Some c => Ok (PDict (noop_mapper c)) | None => Raise Unmodelled end
      | _ => Raise Unmodelled
      end
    else if pystr_eqb name call_name then
      match args with
      | [POther _ cn] => match find_class e cn with Some c => construct re_match e c kw | None => Raise Unmodelled end
      | [POther _ cn; w] =>
          match find_class e cn with
          | Some c => match c_fields c with
                      | fd :: _ => construct re_match e c [(fd_name fd, w)]
                      | [] => Raise TypeError
                      end
          | None => Raise Unmodelled
          end
      | _ => Raise Unmodelled
      end
    else model_ext re_match e ens name args kw.

Lemma full_ext_agrees re_match e ens : ext_agrees re_match e ens (full_ext re_match e ens).
Proof.
  destruct (model_ext_agrees re_match e ens) as [H1 H2]. split; intros f j Hf.
  - rewrite <- (H1 f j Hf). reflexivity.
  - rewrite <- (H2 f j Hf). reflexivity.
Qed.

Lemma full_ext_struct_agrees re_match e ens : ext_struct_agrees (full_ext re_match e ens).
Proof. split; intros; reflexivity. Qed.

(* a class with two fields, a document with an extra key: all the premises of src_structure_internal_eq hold, and
   both sides construct the same instance *)
Definition ex_class : classdef :=
  {| c_name := s2p "P"; c_ancestors := [];
     c_fields := [ {| fd_name := s2p "a"; fd_field := ex_int; fd_immutable := false; fd_default := None |};
                   {| fd_name := s2p "b"; fd_field := FSeqEach SeqList (FString no_strc) no_sizec false;
                      fd_immutable := false; fd_default := None |} ];
     c_required := [s2p "a"]; c_additional := true; c_ignore_none := false; c_immutable := false; c_hook := HookNone |}.
Definition ex_env : env := [ex_class].
Definition ex_flags : dflags := {| df_ignore_invalid := false; df_compact := false |}.
Definition ex_struct_doc : pyval :=
  PDict [(PStr (s2p "a"), PNum (NInt 3)); (PStr (s2p "x"), PStr (s2p "extra")); (PStr (s2p "b"), PList [PStr (s2p "s")])].

Example structure_premises_satisfiable :
  heap_models (class_heap ex_env ex_flags) ex_flags (s2p "P") ex_class /\
  ext_class_agrees ex_re ex_env (full_ext ex_re ex_env []) (s2p "P") ex_class (noop_mapper ex_class) /\
  NoDup (map fd_name (c_fields ex_class)) /\
  struct_covered ex_re ex_env [] (deser_struct ex_re ex_env [] ex_flags 1) true ex_class ex_struct_doc = true /\
  (3 * fields_depth (c_fields ex_class) <= 20)%nat /\
  is_ok (deser_struct ex_re ex_env [] ex_flags 2 true (s2p "P") ex_struct_doc) = true.
Proof.
  split; [|split; [|split; [|split; [|split]]]].
  - constructor; try reflexivity.
    + intros fd [<-|[<-|[]]]; reflexivity.
    + exists (PBool true). reflexivity.
  - constructor; try reflexivity. intros fd w H. inversion H.
  - cbn [c_fields ex_class map fd_name]. constructor; [|constructor; [|constructor]].
    + intros [H|[]]. discriminate H.
    + intros [].
  - vm_compute. reflexivity.
  - vm_compute. lia.
  - vm_compute. reflexivity.
Qed.

(* ------------------------------------------------------------------ assumptions *)
Print Assumptions loop1_eq.
Print Assumptions loop2_eq.
Print Assumptions list_like_each.
Print Assumptions list_like_pos.
Print Assumptions list_like_plain.
Print Assumptions list_like_frozenset_rejected.
Print Assumptions multi_loop_eq.
Print Assumptions multifield_eq.
Print Assumptions map_kv_eq.
Print Assumptions map_any_eq.
Print Assumptions deser_val_body.
Print Assumptions src_single_field_eq.
Print Assumptions src_single_field_model.
Print Assumptions src_construct_fields_map_gen.
Print Assumptions src_construct_fields_map_eq.
Print Assumptions src_extra_keys_list.
Print Assumptions src_extra_keys_eq.
Print Assumptions src_structure_internal_step.
Print Assumptions src_structure_internal_eq.
Print Assumptions model_ext_agrees.
Print Assumptions full_ext_agrees.
Print Assumptions full_ext_struct_agrees.
Print Assumptions side_conditions_satisfiable.
Print Assumptions map_order_disagreement.
Print Assumptions frozenset_disagreement.
Print Assumptions set_positional_disagreement.
Print Assumptions structure_premises_satisfiable.
