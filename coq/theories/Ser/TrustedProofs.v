(* Proofs about Ser/Trusted.v (C10). *)
From Coq Require Import ZArith QArith NArith String Ascii Bool Lia List.
Import ListNotations.
From TP Require Import Base.PyVal Base.PyEq Fields.FieldAst Fields.SetChain Struct.Instance Ser.Trusted.
Local Open Scope Z_scope.

(* ------------------------------------------------------------------ association lists *)

Lemma alist_set_notin {A} (a : list (pystr * A)) n v :
  alist_has a n = false -> alist_set a n v = a ++ [(n, v)].
Proof.
  unfold alist_has. induction a as [|[k x] a IH]; cbn [alist_get alist_set app]; intro H; [reflexivity|].
  destruct (pystr_eqb k n) eqn:E; [discriminate|]. rewrite IH; [reflexivity | exact H].
Qed.

Lemma alist_has_app_one {A} (a : list (pystr * A)) n v m :
  alist_has (a ++ [(n, v)]) m = alist_has a m || pystr_eqb n m.
Proof.
  unfold alist_has. induction a as [|[k x] a IH]; cbn [alist_get app].
  - destruct (pystr_eqb n m); reflexivity.
  - destruct (pystr_eqb k m); [reflexivity | exact IH].
Qed.

Lemma str_in_find_field fs k :
  str_in k (map fd_name fs) = true -> exists fd, find_field fs k = Some fd.
Proof.
  unfold str_in. induction fs as [|d fs IH]; cbn [map existsb find_field]; intro H; [discriminate|].
  destruct (pystr_eqb (fd_name d) k) eqn:E; [eexists; reflexivity|].
  apply orb_true_iff in H as [H|H].
  - assert (k = fd_name d) by (apply pystr_eqb_spec; exact H). subst.
    rewrite pystr_eqb_refl in E. discriminate.
  - exact (IH H).
Qed.

(* ------------------------------------------------------------------ from_trusted_data *)

Section FromTrusted.
  Variable re_match : N -> pystr -> bool.
  Variable e : env.

  (* the arguments are already in the normal form the validated path would store:
     every key is a field, every value is a fixpoint of its field's __set__ chain, and no value is
     a None that the class would ignore *)
  Definition arg_normal (c : classdef) (p : pystr * pyval) : Prop :=
    exists fd, find_field (c_fields c) (fst p) = Some fd /\
               vset re_match e (fd_field fd) (snd p) = Ok (snd p) /\
               (c_ignore_none c && is_none_val (snd p) && negb (is_required c (fst p))) = false.

  Lemma set_all_normal c : forall kw acc,
      Forall (arg_normal c) kw ->
      has_dup (map fst kw) = false ->
      forallb (fun p => negb (alist_has acc (fst p))) kw = true ->
      set_all re_match e c acc kw = Ok (acc ++ kw).
  Proof.
    induction kw as [|[k v] kw IH]; intros acc Hn Hd Hacc; cbn [set_all].
    - rewrite app_nil_r. reflexivity.
    - inversion Hn as [|? ? [fd [Hf [Hv Hi]]] Hn']; subst. cbn [fst snd] in *.
      cbn [map has_dup fst] in Hd. apply orb_false_iff in Hd as [Hd1 Hd2].
      cbn [forallb fst] in Hacc. apply andb_true_iff in Hacc as [Ha1 Ha2].
      apply negb_true_iff in Ha1.
      unfold setattr. rewrite andb_false_r. rewrite Hf. rewrite Hi. rewrite Hv.
      rewrite Ha1. rewrite andb_false_r. cbn [andb].
      rewrite (alist_set_notin acc k v Ha1).
      rewrite (IH (acc ++ [(k, v)]) Hn' Hd2).
      + rewrite <- app_assoc. reflexivity.
      + clear - Ha2 Hd1. induction kw as [|[k' v'] kw IH]; [reflexivity|].
        cbn [forallb fst] in *. cbn [map fst] in Hd1. unfold str_in in Hd1. cbn [existsb] in Hd1.
        apply orb_false_iff in Hd1 as [H1 H2]. apply andb_true_iff in Ha2 as [A1 A2].
        rewrite alist_has_app_one. apply negb_true_iff in A1. rewrite A1, H1. cbn [orb negb andb].
        apply IH; assumption.
  Qed.

  Definition kw_normal (c : classdef) (kw : list (pystr * pyval)) : Prop :=
    Forall (arg_normal c) kw /\ defaults_of c kw = [].

  (* C10, third clause, for arguments in normal form *)
  Lemma from_trusted_equals_validated c kw x :
    kw_normal c kw ->
    construct re_match e c kw = Ok x ->
    from_trusted c kw = x.
  Proof.
    intros [Hn Hdef] H. unfold construct in H.
    destruct (has_dup (map fst kw)) eqn:Hd; [discriminate|].
    destruct (negb (bind_ok c kw)); [discriminate|].
    assert (Hall : forall (l : list (pystr * pyval)), Forall (arg_normal c) l ->
                   filter (fun p => str_in (fst p) (field_names c)) l = l /\
                   filter (fun p => negb (str_in (fst p) (field_names c))) l = []).
    { induction l as [|p l IH]; intro F; [split; reflexivity|].
      inversion F as [|? ? [fd [Hf _]] F']; subst. cbn [filter].
      assert (Hin : str_in (fst p) (field_names c) = true).
      { unfold field_names, str_in. clear - Hf. induction (c_fields c) as [|d fs IH]; [discriminate|].
        cbn [find_field] in Hf. cbn [map existsb].
        destruct (pystr_eqb (fd_name d) (fst p)) eqn:E.
        - assert (fd_name d = fst p) by (apply pystr_eqb_spec; exact E).
          rewrite <- H. rewrite pystr_eqb_refl. reflexivity.
        - rewrite (IH Hf). apply orb_true_r. }
      rewrite Hin. cbn [negb]. destruct (IH F') as [A B]. rewrite A, B. split; reflexivity. }
    destruct (Hall kw Hn) as [Hb He]. rewrite Hb, He, Hdef in H.
    cbn [set_all bind] in H.
    rewrite (set_all_normal c kw [] Hn Hd) in H.
    - cbn [app bind] in H. destruct (hook_ok (c_hook c) kw); [|discriminate].
      inversion H. reflexivity.
    - clear. induction kw as [|p kw IH]; [reflexivity|]. cbn [forallb]. rewrite IH. reflexivity.
  Qed.
End FromTrusted.

(* ------------------------------------------------------------------ trusted deserialization *)

Section Proofs.
  Variable re_match : N -> pystr -> bool.
  Variable sdeser : N -> pyval -> res pyval.
  Variable ostore : N -> pyval -> res pyval.
  Variable e : tenv.

  Lemma find_tclass_name env0 cn c : find_tclass env0 cn = Some c -> t_name c = cn.
  Proof.
    induction env0 as [|c0 t IH]; cbn [find_tclass]; intro H; [discriminate|].
    destruct (pystr_eqb (t_name c0) cn) eqn:E.
    - inversion H; subst. apply pystr_eqb_spec. exact E.
    - exact (IH H).
  Qed.

  Lemma lookup_reg_not_none inh c kv k v : lookup_reg inh c kv k = Some v -> is_none v = false.
  Proof.
    unfold lookup_reg.
    set (v0 := deep_get_path (PDict kv) (split_on 46 (reg_key inh c k) [])).
    set (v1 := if is_none v0 then match dict_get kv (PStr k) with Some x => x | None => PNone end else v0).
    destruct (is_none v1) eqn:E; intro H; [discriminate|]. inversion H; subst. exact E.
  Qed.

  (* a flat field: a primitive leaf without default whose document entry, found by the regular
     key lookup under the field's own name, is already the value its __set__ chain stores *)
  Definition flat_field (c : tclass) (kv : list (pyval * pyval)) (doc : list (pystr * pyval)) (fd : tfd) : Prop :=
    exists f, f_ty fd = TLeaf (LPrim f) /\ f_default fd = None /\
              lookup_reg [] c kv (f_name fd) = alist_get doc (f_name fd) /\
              (forall v, alist_get doc (f_name fd) = Some v -> vset re_match [] f v = Ok v).

  Definition present (doc : list (pystr * pyval)) (fd : tfd) : list (pystr * pyval) :=
    match alist_get doc (f_name fd) with Some v => [(f_name fd, v)] | None => [] end.

  (* a value its __set__ chain stores unchanged is not the empty list / dict NoneField turns into None *)
  Lemma reg_leaf_prim_normal f v :
    vset re_match [] f v = Ok v -> reg_leaf re_match sdeser (LPrim f) v = Ok v.
  Proof.
    intro H. destruct f; cbn [reg_leaf]; exact H.
  Qed.

  Lemma collect_flat dc dc0 c kv doc : forall fs,
      (forall fd, In fd fs -> flat_field c kv doc fd) ->
      collect_reg (reg_store re_match sdeser ostore dc dc0) [] c kv fs = Ok (flat_map (present doc) fs).
  Proof.
    induction fs as [|fd fs IH]; intro H; cbn [collect_reg flat_map]; [reflexivity|].
    destruct (H fd (or_introl eq_refl)) as [f [Hty [_ [Hl Hv]]]].
    rewrite (IH (fun fd' Hin => H fd' (or_intror Hin))).
    change (present doc fd) with
      (match alist_get doc (f_name fd) with Some v => [(f_name fd, v)] | None => [] end).
    rewrite Hl.
    destruct (alist_get doc (f_name fd)) as [v|] eqn:E; [|reflexivity].
    rewrite Hty. cbn [reg_store]. rewrite (reg_leaf_prim_normal f v (Hv v eq_refl)). cbn [bind].
    rewrite (lookup_reg_not_none [] c kv (f_name fd) v Hl).
    reflexivity.
  Qed.

  Lemma enum_targets_flat c kv doc : forall fs,
      (forall fd, In fd fs -> flat_field c kv doc fd) -> enum_targets fs = [].
  Proof.
    unfold enum_targets. induction fs as [|fd fs IH]; intro H; cbn [flat_map]; [reflexivity|].
    destruct (H fd (or_introl eq_refl)) as [f [Hty _]]. rewrite Hty. cbn [enum_target enum_leaf_target app].
    exact (IH (fun fd' Hin => H fd' (or_intror Hin))).
  Qed.

  Lemma defaults_flat c kv doc (a : list (pystr * pyval)) : forall fs,
      (forall fd, In fd fs -> flat_field c kv doc fd) ->
      flat_map (fun fd => match f_default fd with
                          | Some d => if alist_has a (f_name fd) then [] else [(f_name fd, d)]
                          | None => []
                          end) fs = [].
  Proof.
    induction fs as [|fd fs IH]; intro H; cbn [flat_map]; [reflexivity|].
    destruct (H fd (or_introl eq_refl)) as [f [_ [Hd _]]]. rewrite Hd.
    rewrite (IH (fun fd' Hin => H fd' (or_intror Hin))). reflexivity.
  Qed.

  (* C10, first clause, on the flat fragment: the trusted path returns exactly the instance the
     regular path returns *)
  Lemma trusted_flat n ku cn c kv doc x :
    find_tclass e cn = Some c ->
    doc_alist kv = Some doc ->
    t_mapper c <> MapList ->
    (forall fd, In fd (t_fields c) -> flat_field c kv doc fd) ->
    rename_doc c doc = doc ->
    ((ku && negb (is_special (t_mapper c)) && t_additional c) = true -> extras_of c kv = []) ->
    deser_regular re_match sdeser ostore e (S n) ku [] cn (PDict kv) = Ok x ->
    trusted_cls re_match sdeser e (S n) NotNested cn (PDict kv) = Ok x.
  Proof.
    intros Hc Hdoc Hm Hflat Hren Hex H.
    cbn [deser_regular] in H. cbn [trusted_cls]. rewrite Hc in *. rewrite Hdoc in *.
    assert (Hm' : forall A (a b : A), match t_mapper c with MapList => a | _ => b end = b)
      by (intros; destruct (t_mapper c); try reflexivity; contradiction Hm; reflexivity).
    rewrite Hm' in H. rewrite Hm'. cbn [bind].
    rewrite (collect_flat _ _ c kv doc (t_fields c) Hflat) in H. cbn [bind] in H.
    unfold defaults_for in H. rewrite (defaults_flat c kv doc _ (t_fields c) Hflat) in H.
    cbn [app] in H.
    assert (Hflat' : forall fd, In fd (enum_order (t_fields c)) -> flat_field c kv doc fd).
    { intros fd Hin. apply Hflat. unfold enum_order in Hin. apply in_app_or in Hin.
      destruct Hin as [Hin|Hin]; apply filter_In in Hin; exact (proj1 Hin). }
    rewrite Hren. rewrite (enum_targets_flat c kv doc (enum_order (t_fields c)) Hflat'). cbn [bind apply_enums].
    unfold from_trusted_map. rewrite (find_tclass_name e cn c Hc).
    destruct (negb (forallb (fun r => alist_has (flat_map (present doc) (t_fields c)) r) (t_required c)));
      [discriminate|].
    destruct (ku && negb (is_special (t_mapper c)) && t_additional c) eqn:Eku.
    - rewrite (Hex eq_refl) in H. cbn [app] in H. exact H.
    - cbn [app] in H. exact H.
  Qed.

  (* for a class the classifier rejects (returns False), the flag changes nothing *)
  Lemma ineligible_same fuel ku cn d :
    level_of e fuel cn = Ok None ->
    deser_trusted re_match sdeser ostore e fuel ku cn d = deser_regular re_match sdeser ostore e fuel ku [] cn d.
  Proof. intro H. unfold deser_trusted. rewrite H. reflexivity. Qed.
End Proofs.
