(* Proofs about Ser/FastState.v (C10, fast serialization over histories of a class family). *)
From Coq Require Import ZArith NArith String List Bool Lia.
Import ListNotations.
From TP Require Import Base.PyVal Base.PyEq Fields.FieldAst Fields.SetChain Ser.Trusted Ser.Fast Ser.FastProofs
     Ser.FastState.

(* ------------------------------------------------------------------ small facts *)

Lemma alist_get_head {A} (l : list (pystr * A)) k v : alist_get ((k, v) :: l) k = Some v.
Proof. cbn [alist_get]. rewrite pystr_eqb_refl. reflexivity. Qed.

Lemma alist_get_cons_ext {A} (l : list (pystr * A)) k v c :
  alist_get l c <> None -> alist_get ((k, v) :: l) c <> None.
Proof. intro H. cbn [alist_get]. destruct (pystr_eqb k c); [discriminate|exact H]. Qed.

(* the order in which own serializers appear: nothing is ever removed *)
Definition ext (o o' : ownmap) : Prop := forall c, alist_get o c <> None -> alist_get o' c <> None.

Lemma ext_refl o : ext o o.
Proof. intros c H. exact H. Qed.
Lemma ext_trans a b c : ext a b -> ext b c -> ext a c.
Proof. intros H1 H2 x Hx. apply H2, H1, Hx. Qed.

Definition all_default (o : ownmap) : Prop := Forall (fun p => snd p = dconf) o.

Section Proofs.
  Variable sser : N -> pyval -> res pyval.
  Variable ofast : N -> pyval -> res pyval.
  Variable e : tenv.
  Variable ps : list (pystr * pystr).

  (* ================================================================ A. what a history does to the state *)

  (* a step function on own-maps that only ever adds entries, all generated with the default flags *)
  Definition grows (f : ownmap -> ores) : Prop :=
    forall o, ext o (fst (f o)) /\ (all_default o -> all_default (fst (f o))).

  Lemma verify_grows cr tf :
    (forall c, grows (fun o => cr o c)) -> grows (fun o => verify e ps cr o tf).
  Proof.
    intro Hcr. induction tf as [l|item IH|item IH|c|nf f IH|ls|id o]; intro own; cbn [verify];
      try (split; [apply ext_refl|intro H; exact H]).
    - destruct item; try (split; [apply ext_refl|intro H; exact H]); apply IH.
    - destruct (find_tclass e c) as [cd|]; [|split; [apply ext_refl|intro H; exact H]].
      destruct (t_fast cd); [|split; [apply ext_refl|intro H; exact H]].
      destruct (resolve e ps own c); [apply Hcr|split; [apply ext_refl|intro H; exact H]].
    - destruct (1 <? length (non_none ls))%nat; split; try apply ext_refl; intro H; exact H.
    - destruct o; split; try apply ext_refl; intro H; exact H.
  Qed.

  Lemma create_fields_grows cr m fs :
    (forall c, grows (fun o => cr o c)) -> grows (fun o => create_fields e ps cr o m fs).
  Proof.
    intro Hcr. induction fs as [|fd t IH]; intro own; cbn [create_fields].
    - split; [apply ext_refl|intro H; exact H].
    - destruct (mapped_as_str m (f_name fd)); [|split; [apply ext_refl|intro H; exact H]].
      set (step := match f_ty fd with
                   | TLeaf (LPrim FNone) => verify e ps cr own (f_ty fd)
                   | TLeaf (LPrim _) | TLeaf (LSer _ true) => (own, Ok tt)
                   | tf => verify e ps cr own tf
                   end).
      assert (Hs : ext own (fst step) /\ (all_default own -> all_default (fst step))).
      { subst step. pose proof (verify_grows cr (f_ty fd) Hcr own) as Hv.
        destruct (f_ty fd) as [[f| | |id b]| | | | | |]; try exact Hv.
        - destruct f; try exact Hv; split; try apply ext_refl; intro H; exact H.
        - destruct b; [split; [apply ext_refl|intro H; exact H]|exact Hv]. }
      destruct step as [own1 r]. cbn [fst] in Hs. destruct Hs as [He Hd].
      destruct r as [u|x].
      + destruct (IH own1) as [He2 Hd2]. split; [eapply ext_trans; eauto|intro H; apply Hd2, Hd, H].
      + cbn [fst]. split; [exact He|exact Hd].
  Qed.

  Lemma create_grows fuel : forall cn cf,
      forall o, ext o (fst (create e ps fuel o cn cf)) /\
                (all_default o -> cf = dconf -> all_default (fst (create e ps fuel o cn cf))).
  Proof.
    induction fuel as [|n IH]; intros cn cf own; cbn [create].
    - split; [apply ext_refl|intros H _; exact H].
    - destruct (find_tclass e cn) as [c|]; [|split; [apply ext_refl|intros H _; exact H]].
      assert (Hg : forall c', grows (fun o => create e ps n o c' dconf)).
      { intros c' o. destruct (IH c' dconf o) as [H1 H2]. split; [exact H1|intro H; apply H2; [exact H|reflexivity]]. }
      pose proof (create_fields_grows (fun o c' => create e ps n o c' dconf) (t_mapper c) (t_fields c) Hg own) as Hf.
      destruct (create_fields e ps (fun o c' => create e ps n o c' dconf) own (t_mapper c) (t_fields c)) as [own1 r].
      cbn [fst] in Hf. destruct Hf as [He Hd]. destruct r as [u|x]; cbn [fst].
      + split.
        * intros x Hx. apply alist_get_cons_ext, He, Hx.
        * intros H Hcf. constructor; [exact Hcf|apply Hd, H].
      + split; [exact He|intros H _; apply Hd, H].
  Qed.

  Lemma create_ok_own fuel own cn cf own' :
    create e ps fuel own cn cf = (own', Ok tt) -> alist_get own' cn = Some cf.
  Proof.
    destruct fuel as [|n]; cbn [create]; [discriminate|].
    destruct (find_tclass e cn) as [c|]; [|discriminate].
    destruct (create_fields e ps (fun o c' => create e ps n o c' dconf) own (t_mapper c) (t_fields c)) as [own1 r].
    destruct r; [|discriminate]. intro H. inversion H. apply alist_get_head.
  Qed.

  Lemma inst_class_grows cn : grows (fun o => inst_class e ps o cn).
  Proof.
    intro own. unfold inst_class. destruct (alist_get own cn).
    - split; [apply ext_refl|intro H; exact H].
    - destruct (create_grows HFUEL cn dconf own) as [H1 H2]. split; [exact H1|intro H; apply H2; [exact H|reflexivity]].
  Qed.

  Lemma inst_class_ok own cn own' : inst_class e ps own cn = (own', Ok tt) -> alist_get own' cn <> None.
  Proof.
    unfold inst_class. destruct (alist_get own cn) eqn:Hg.
    - intro H. inversion H. subst. rewrite Hg. discriminate.
    - intro H. apply create_ok_own in H. rewrite H. discriminate.
  Qed.

  Lemma inst_seq_grows f l : (forall v, grows (fun o => f o v)) -> grows (fun o => inst_seq f o l).
  Proof.
    intro Hf. induction l as [|x t IH]; intro own; cbn [inst_seq].
    - split; [apply ext_refl|intro H; exact H].
    - destruct (Hf x own) as [H1 H2]. destruct (f own x) as [own1 r]. cbn [fst] in H1, H2. destruct r.
      + destruct (IH own1) as [H3 H4]. split; [eapply ext_trans; eauto|intro H; apply H4, H2, H].
      + split; [exact H1|exact H2].
  Qed.

  Lemma inst_tree_grows fuel : forall v, grows (fun o => inst_tree e ps fuel o v).
  Proof.
    induction fuel as [|n IH]; intros v own; cbn [inst_tree].
    - split; [apply ext_refl|intro H; exact H].
    - destruct v; try (split; [apply ext_refl|intro H; exact H]); try apply (inst_seq_grows _ _ IH).
      destruct (inst_seq_grows (inst_tree e ps n) (map snd attrs) IH own) as [H1 H2].
      destruct (inst_seq (inst_tree e ps n) own (map snd attrs)) as [own1 r]. cbn [fst] in H1, H2. destruct r.
      + destruct (inst_class_grows cls own1) as [H3 H4]. split; [eapply ext_trans; eauto|intro H; apply H4, H2, H].
      + split; [exact H1|exact H2].
  Qed.

  (* a constructor call that returned has left the class with a serializer of its own *)
  Lemma inst_tree_ok n own cn a own' :
    inst_tree e ps (S n) own (PStruct cn a) = (own', Ok tt) -> alist_get own' cn <> None.
  Proof.
    cbn [inst_tree]. destruct (inst_seq (inst_tree e ps n) own (map snd a)) as [own1 r]. destruct r; [|discriminate].
    apply inst_class_ok.
  Qed.

  Definition default_op (op : hop) : bool :=
    match op with
    | HCreate _ sn compact => negb sn && negb compact
    | HSerVia compact _ => negb compact
    | _ => true
    end.

  Lemma run_op_grows st op :
    ext st (fst (run_op sser ofast e ps st op)) /\
    (default_op op = true -> all_default st -> all_default (fst (run_op sser ofast e ps st op))).
  Proof.
    destruct op as [cn sn compact|tr v|v|compact v]; cbn [run_op default_op].
    - destruct (create_grows HFUEL cn {| sc_sn := sn; sc_compact := compact |} st) as [H1 H2].
      destruct (create e ps HFUEL st cn {| sc_sn := sn; sc_compact := compact |}) as [own r]. cbn [fst] in *.
      split; [exact H1|]. intros Hd Ha. apply H2; [exact Ha|].
      apply andb_true_iff in Hd as [Hs Hc]. apply negb_true_iff in Hs, Hc. subst. reflexivity.
    - destruct (inst_tree_grows HFUEL v st) as [H1 H2].
      destruct (inst_tree e ps HFUEL st v) as [own r]. cbn [fst] in *. split; [exact H1|intros _; exact H2].
    - cbn [fst]. split; [apply ext_refl|intros _ H; exact H].
    - destruct v; try (cbn [fst]; split; [apply ext_refl|intros _ H; exact H]).
      destruct (alist_get st cls).
      + cbn [fst]. split; [apply ext_refl|intros _ H; exact H].
      + destruct (create_grows HFUEL cls {| sc_sn := false; sc_compact := compact |} st) as [H1 H2].
        destruct (create e ps HFUEL st cls {| sc_sn := false; sc_compact := compact |}) as [own r].
        cbn [fst] in H1, H2. destruct r; cbn [fst]; (split; [exact H1|]);
          intros Hd Ha; (apply H2; [exact Ha|]); apply negb_true_iff in Hd; subst; reflexivity.
  Qed.

  Lemma run_ops_grows ops : forall st,
      ext st (fst (run_ops sser ofast e ps st ops)) /\
      (forallb default_op ops = true -> all_default st -> all_default (fst (run_ops sser ofast e ps st ops))).
  Proof.
    induction ops as [|op t IH]; intro st; cbn [run_ops forallb].
    - cbn [fst]. split; [apply ext_refl|intros _ H; exact H].
    - destruct (run_op_grows st op) as [H1 H2].
      destruct (run_op sser ofast e ps st op) as [st1 r]. cbn [fst] in H1, H2.
      destruct (IH st1) as [H3 H4].
      destruct (run_ops sser ofast e ps st1 t) as [st2 rs]. cbn [fst] in *.
      split; [eapply ext_trans; eauto|].
      intros Hd Ha. apply andb_true_iff in Hd as [Hd1 Hd2]. apply H4; [exact Hd2|]. apply H2; assumption.
  Qed.

  (* A1: once a constructor of class cn has returned - the regular one or from_trusted_data, with or without
     keywords - cn has a serializer of its own in every later state *)
  Theorem instantiated_keeps_serializer st tr cn a rest :
    snd (run_op sser ofast e ps st (HInst tr (PStruct cn a))) = Ok PNone ->
    alist_get (fst (run_ops sser ofast e ps (fst (run_op sser ofast e ps st (HInst tr (PStruct cn a)))) rest)) cn <> None.
  Proof.
    intros Hok.
    assert (Hown : alist_get (fst (run_op sser ofast e ps st (HInst tr (PStruct cn a)))) cn <> None).
    { cbn [run_op] in *.
      destruct (inst_tree e ps HFUEL st (PStruct cn a)) as [own r] eqn:Hi. cbn [fst snd] in *.
      destruct r as [[]|x]; [|discriminate]. exact (inst_tree_ok _ _ _ _ _ Hi). }
    destruct (run_ops_grows rest (fst (run_op sser ofast e ps st (HInst tr (PStruct cn a))))) as [H _].
    apply H, Hown.
  Qed.

  (* A2: a history whose explicit create_serializer calls all use the default flags leaves every installed
     serializer generated with the default flags *)
  Theorem default_history_default_confs ops :
    forallb default_op ops = true -> all_default (fst (run_ops sser ofast e ps st0 ops)).
  Proof.
    intro H. destruct (run_ops_grows ops st0) as [_ Hd]. apply Hd; [exact H|]. constructor.
  Qed.

  Lemma all_default_conf_of own c : all_default own -> conf_of own c = dconf.
  Proof.
    unfold conf_of. induction own as [|[k v] t IH]; intro H; cbn [alist_get]; [reflexivity|].
    inversion H as [|p l Hp Ht]. subst. destruct (pystr_eqb k c); [exact Hp|apply IH, Ht].
  Qed.

  (* A3: a serialization changes nothing (there is no per-field state any more) *)
  Definition is_ser (op : hop) : bool := match op with HSer _ => true | _ => false end.

  Lemma run_op_ser st op : is_ser op = true -> fst (run_op sser ofast e ps st op) = st.
  Proof. destruct op; cbn [is_ser run_op]; try discriminate. reflexivity. Qed.

  (* ================================================================ B. late binding: the state does not matter *)

  Fixpoint refs (tf : tfield) : list pystr :=
    match tf with
    | TRef c => [c]
    | TArray i | TSet i => refs i
    | TOpt _ f => refs f
    | _ => []
    end.
  Definition class_refs (c : tclass) : list pystr := flat_map (fun fd => refs (f_ty fd)) (t_fields c).

  Variable own : ownmap.
  Variable cf : pystr -> sconf.

  (* the structures a field value holds in the positions of class references *)
  Fixpoint held (P : pyval -> Prop) (tf : tfield) (v : pyval) : Prop :=
    match tf with
    | TArray i => match v with PList l => Forall (held P i) l | _ => True end
    | TSet i => match v with PSet _ l => Forall (held P i) l | _ => True end
    | TRef _ => P v
    | TOpt _ f => held P f v
    | _ => True
    end.

  (* the closure of class k is applied to v: every structure it reaches - in v's fields, in their fields... -
     is an instance of a class that has a serializer of its own, generated with the flags cf says
     (whatever class the field that holds it was declared with) *)
  Fixpoint closed (fuel : nat) (k : pystr) (v : pyval) : Prop :=
    match fuel with
    | O => True
    | S n =>
        match find_tclass e k, v with
        | Some c, PStruct _ a =>
            forall fd, In fd (t_fields c) ->
                       held (fun x => match x with
                                      | PStruct rn _ => (class_is_fast e rn = true -> alist_get own rn = Some (cf rn)) /\
                                                        closed n rn x
                                      | _ => True
                                      end) (f_ty fd) (getattr_m c a (f_name fd))
        | _, _ => True
        end
    end.

  Lemma resolve_own c x : alist_get own c = Some x -> resolve e ps own c = SGen c x.
  Proof. unfold resolve. intro H. destruct (length e); cbn [resolve_n]; rewrite H; reflexivity. Qed.

  Lemma mapM_Forall_ext {A B} (f g : A -> res B) (P : A -> Prop) l :
    (forall x, P x -> f x = g x) -> Forall P l -> mapM f l = mapM g l.
  Proof.
    intros H HP. induction HP as [|x t Hx Ht IH]; cbn [mapM]; [reflexivity|]. rewrite (H x Hx), IH. reflexivity.
  Qed.

  Lemma fast_val_held fc1 fc2 (P : pyval -> Prop) :
    (forall c x, P x -> fc1 c x = fc2 c x) ->
    forall tf v, held P tf v -> fast_val sser ofast fc1 tf v = fast_val sser ofast fc2 tf v.
  Proof.
    intro H. induction tf as [l|item IH|item IH|c|nf f IH|ls|id o]; intros v Hh; cbn [fast_val held] in *; try reflexivity.
    - destruct v; try reflexivity. rewrite (mapM_Forall_ext _ _ _ l IH Hh). reflexivity.
    - destruct v; try reflexivity. rewrite (mapM_Forall_ext _ _ _ l IH Hh). reflexivity.
    - apply H, Hh.
    - apply IH, Hh.
  Qed.

  Lemma fast_fields_In fv1 fv2 c a : forall fs,
      (forall fd, In fd fs -> fv1 (f_ty fd) (getattr_m c a (f_name fd)) = fv2 (f_ty fd) (getattr_m c a (f_name fd))) ->
      fast_fields fv1 c a fs = fast_fields fv2 c a fs.
  Proof.
    induction fs as [|fd t IH]; intro H; cbn [fast_fields]; [reflexivity|].
    rewrite (IH (fun fd' Hin => H fd' (or_intror Hin))).
    destruct (is_none (getattr_m c a (f_name fd))); [reflexivity|].
    pose proof (H fd (or_introl eq_refl)) as Hfd.
    destruct (f_ty fd) as [[f| | |id b]| | | | | |]; try rewrite Hfd; try reflexivity.
    destruct b; [reflexivity|rewrite Hfd; reflexivity].
  Qed.

  (* B1: in ANY state in which the classes of the structures the closure of k reaches have serializers of their own,
     that closure returns what the order-free reading returns (each structure serialized by the declaration of
     its own class, with its own flags) *)
  Theorem run_gen_sfast : forall n k v,
      closed n k v -> run_gen sser ofast e ps own n k (cf k) v = sfast sser ofast e cf n k v.
  Proof.
    induction n as [|n IH]; intros k v Hc; cbn [run_gen sfast]; [reflexivity|].
    cbn [closed] in Hc.
    destruct (find_tclass e k) as [c|] eqn:Hk; [|reflexivity].
    destruct v as [| | | | | | | | | |rn a| ]; try reflexivity.
    assert (Hcb : forall (c' : pystr) x,
               match x with
               | PStruct rn' _ => (class_is_fast e rn' = true -> alist_get own rn' = Some (cf rn')) /\ closed n rn' x
               | _ => True
               end ->
               call_obj e ps (run_gen sser ofast e ps own n) own x = by_class e (sfast sser ofast e cf n) x).
    { intros c' x Hx. unfold call_obj, by_class.
      destruct x as [| | | | | | | | | |rn' a'| ]; try reflexivity.
      destruct (find_tclass e rn') as [cd|] eqn:Hf; [|reflexivity].
      destruct (t_fast cd) eqn:Ht; [|reflexivity].
      destruct Hx as [Ho Hcl].
      assert (Hfast : class_is_fast e rn' = true) by (unfold class_is_fast; rewrite Hf; exact Ht).
      rewrite (resolve_own _ _ (Ho Hfast)). apply IH, Hcl. }
    rewrite (fast_fields_In _ (fast_val sser ofast (fun _ x => by_class e (sfast sser ofast e cf n) x)) c a (t_fields c)).
    - reflexivity.
    - intros fd Hin. exact (fast_val_held _ _ _ Hcb (f_ty fd) _ (Hc fd Hin)).
  Qed.
End Proofs.

(* ================================================================ B2. histories *)

Section Settled.
  Variable sser : N -> pyval -> res pyval.
  Variable ofast : N -> pyval -> res pyval.
  Variable e : tenv.
  Variable ps : list (pystr * pystr).

  Lemma class_is_fast_find c : class_is_fast e c = true -> exists cd, find_tclass e c = Some cd /\ t_fast cd = true.
  Proof. unfold class_is_fast. destruct (find_tclass e c) as [cd|]; [|discriminate]. intro H. exists cd. auto. Qed.

  Lemma conf_of_own own c x : alist_get own c = Some x -> conf_of own c = x.
  Proof. unfold conf_of. intro H. rewrite H. reflexivity. Qed.

  Definition has_own (own : ownmap) (c : pystr) : bool :=
    match alist_get own c with Some _ => true | None => false end.

  Lemma has_own_conf own c : has_own own c = true -> alist_get own c = Some (conf_of own c).
  Proof. unfold has_own, conf_of. destruct (alist_get own c); [reflexivity|discriminate]. Qed.

  (* what the order-free reading says a serialization returns *)
  Definition expected (own : ownmap) (op : hop) : res pyval :=
    match op with
    | HSer (PStruct cn a) => sfast sser ofast e (conf_of own) HFUEL cn (PStruct cn a)
    | _ => Raise Unmodelled
    end.

  Definition good_ser (own : ownmap) (op : hop) : Prop :=
    exists cn a, op = HSer (PStruct cn a) /\ class_is_fast e cn = true /\ has_own own cn = true /\
                 closed e own (conf_of own) HFUEL cn (PStruct cn a).

  (* one x.serialize() in a state *)
  Lemma ser_now_expected own cn a :
    class_is_fast e cn = true -> has_own own cn = true -> closed e own (conf_of own) HFUEL cn (PStruct cn a) ->
    ser_now sser ofast e ps own (PStruct cn a) = sfast sser ofast e (conf_of own) HFUEL cn (PStruct cn a).
  Proof.
    intros Hfast Ho Hc. unfold ser_now, call_obj, by_class.
    destruct (class_is_fast_find cn Hfast) as [cd [Hfind Htf]]. rewrite Hfind, Htf.
    rewrite (resolve_own e ps own cn _ (has_own_conf own cn Ho)).
    apply run_gen_sfast, Hc.
  Qed.

  Lemma sers_sim own sers :
      (forall op, In op sers -> good_ser own op) ->
      run_ops sser ofast e ps own sers = (own, map (expected own) sers).
  Proof.
    induction sers as [|op t IH]; intros Hg; cbn [run_ops map]; [reflexivity|].
    destruct (Hg op (or_introl eq_refl)) as [cn [a [Eop [Hfast [Ho Hc]]]]]. subst op.
    cbn [run_op expected]. rewrite (ser_now_expected own cn a Hfast Ho Hc).
    rewrite (IH (fun op Hin => Hg op (or_intror Hin))). reflexivity.
  Qed.

  (* B2: whatever the history was - class definitions, create_serializer calls with any flags, instantiations
     AND serializations, in any order -, the serializations that follow return what the order-free reading returns
     for the flags each class ended up with, provided the classes of the structures they reach have serializers
     of their own *)
  Theorem settled_history ops sers :
    let st1 := fst (run_ops sser ofast e ps st0 ops) in
    (forall op, In op sers -> good_ser st1 op) ->
    snd (run_ops sser ofast e ps st1 sers) = map (expected st1) sers.
  Proof.
    intros st1 Hg. rewrite (sers_sim st1 sers Hg). reflexivity.
  Qed.

  (* a decidable sufficient condition: every FastSerializable class of the family has a serializer of its own *)
  Definition all_own (own : ownmap) : bool := forallb (fun c => negb (t_fast c) || has_own own (t_name c)) e.

  Lemma find_tclass_In' n c : find_tclass e n = Some c -> In c e /\ t_name c = n.
  Proof.
    induction e as [|d t IH]; cbn [find_tclass]; [discriminate|].
    destruct (pystr_eqb (t_name d) n) eqn:E; intro H.
    - inversion H. subst. split; [left; reflexivity|apply pystr_eqb_spec, E].
    - destruct (IH H) as [H1 H2]. split; [right; exact H1|exact H2].
  Qed.

  Lemma all_own_fast own rn : all_own own = true -> class_is_fast e rn = true -> alist_get own rn = Some (conf_of own rn).
  Proof.
    intros Ha Hf. destruct (class_is_fast_find rn Hf) as [cd [Hfind Htf]].
    destruct (find_tclass_In' rn cd Hfind) as [Hin Hn]. unfold all_own in Ha. rewrite forallb_forall in Ha.
    specialize (Ha cd Hin). rewrite Htf, Hn in Ha. cbn [negb orb] in Ha. apply has_own_conf, Ha.
  Qed.

  Lemma all_own_closed own : all_own own = true -> forall n k v, closed e own (conf_of own) n k v.
  Proof.
    intro Ha. induction n as [|n IH]; intros k v; cbn [closed]; [exact I|].
    destruct (find_tclass e k) as [c|]; [|exact I]. destruct v; try exact I.
    intros fd _. generalize (getattr_m c attrs (f_name fd)). generalize (f_ty fd).
    induction t as [l|item IHt|item IHt|c'|nf f IHt|ls|id o]; intro x; cbn [held]; try exact I.
    - destruct x; try exact I. apply Forall_forall. intros y _. apply IHt.
    - destruct x; try exact I. apply Forall_forall. intros y _. apply IHt.
    - destruct x as [| | | | | | | | | |rn' a'| ]; try exact I. split; [apply (all_own_fast own rn' Ha)|apply IH].
    - apply IHt.
  Qed.
End Settled.
