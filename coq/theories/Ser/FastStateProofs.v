(* Proofs about Ser/FastState.v (C10, fast serialization over histories of a class family). *)
From Coq Require Import ZArith NArith String List Bool Lia.
Import ListNotations.
From TP Require Import Base.PyVal Base.PyEq Fields.FieldAst Fields.SetChain Ser.Trusted Ser.Fast Ser.FastProofs
     Ser.FastState.

(* ------------------------------------------------------------------ small facts *)

Lemma alist_get_head {A} (l : list (pystr * A)) k v : alist_get ((k, v) :: l) k = Some v.
Proof. cbn [alist_get]. rewrite pystr_eqb_refl. reflexivity. Qed.

Lemma alist_get_cons_ext {A} (l : list (pystr * A)) k v c :
  alist_get l c <> None -> alist_get ((k, v) :: l) c <> None.
Proof. intro H. cbn [alist_get]. destruct (pystr_eqb k c); [discriminate|exact H]. Qed.

Lemma ckey_eqb_item a b : ckey_eqb a b = true -> ckey_item a = ckey_item b.
Proof.
  destruct a as [[a1 a2] a3], b as [[b1 b2] b3]. cbn [ckey_eqb ckey_item snd]. intro H.
  apply andb_true_iff in H as [_ H]. apply pystr_eqb_spec. exact H.
Qed.

(* the order in which own serializers appear: nothing is ever removed *)
Definition ext (o o' : ownmap) : Prop := forall c, alist_get o c <> None -> alist_get o' c <> None.

Lemma ext_refl o : ext o o.
Proof. intros c H. exact H. Qed.
Lemma ext_trans a b c : ext a b -> ext b c -> ext a c.
Proof. intros H1 H2 x Hx. apply H2, H1, Hx. Qed.

Definition all_default (o : ownmap) : Prop := Forall (fun p => snd p = dconf) o.

Section Proofs.
  Variable sser : N -> pyval -> res pyval.
  Variable ofast : N -> pyval -> res pyval.
  Variable e : tenv.
  Variable ps : list (pystr * pystr).

  (* ================================================================ A. what a history does to the state *)

  (* a step function on own-maps that only ever adds entries, all generated with the default flags *)
  Definition grows (f : ownmap -> ores) : Prop :=
    forall o, ext o (fst (f o)) /\ (all_default o -> all_default (fst (f o))).

  Lemma verify_grows cr tf :
    (forall c, grows (fun o => cr o c)) -> grows (fun o => verify e ps cr o tf).
  Proof.
    intro Hcr. induction tf as [l|item IH|item IH|c|nf f IH|ls|id o]; intro own; cbn [verify];
      try (split; [apply ext_refl|intro H; exact H]).
    - destruct item; try (split; [apply ext_refl|intro H; exact H]); apply IH.
    - destruct (find_tclass e c) as [cd|]; [|split; [apply ext_refl|intro H; exact H]].
      destruct (t_fast cd); [|split; [apply ext_refl|intro H; exact H]].
      destruct (resolve e ps own c); [apply Hcr|split; [apply ext_refl|intro H; exact H]].
    - destruct (1 <? length (non_none ls))%nat; split; try apply ext_refl; intro H; exact H.
    - destruct o; split; try apply ext_refl; intro H; exact H.
  Qed.

  Lemma create_fields_grows cr m fs :
    (forall c, grows (fun o => cr o c)) -> grows (fun o => create_fields e ps cr o m fs).
  Proof.
    intro Hcr. induction fs as [|fd t IH]; intro own; cbn [create_fields].
    - split; [apply ext_refl|intro H; exact H].
    - destruct (mapped_as_str m (f_name fd)); [|split; [apply ext_refl|intro H; exact H]].
      set (step := match f_ty fd with
                   | TLeaf (LPrim FNone) => verify e ps cr own (f_ty fd)
                   | TLeaf (LPrim _) | TLeaf (LSer _ true) => (own, Ok tt)
                   | tf => verify e ps cr own tf
                   end).
      assert (Hs : ext own (fst step) /\ (all_default own -> all_default (fst step))).
      { subst step. pose proof (verify_grows cr (f_ty fd) Hcr own) as Hv.
        destruct (f_ty fd) as [[f| | |id b]| | | | | |]; try exact Hv.
        - destruct f; try exact Hv; split; try apply ext_refl; intro H; exact H.
        - destruct b; [split; [apply ext_refl|intro H; exact H]|exact Hv]. }
      destruct step as [own1 r]. cbn [fst] in Hs. destruct Hs as [He Hd].
      destruct r as [u|x].
      + destruct (IH own1) as [He2 Hd2]. split; [eapply ext_trans; eauto|intro H; apply Hd2, Hd, H].
      + cbn [fst]. split; [exact He|exact Hd].
  Qed.

  Lemma create_grows fuel : forall cn cf,
      forall o, ext o (fst (create e ps fuel o cn cf)) /\
                (all_default o -> cf = dconf -> all_default (fst (create e ps fuel o cn cf))).
  Proof.
    induction fuel as [|n IH]; intros cn cf own; cbn [create].
    - split; [apply ext_refl|intros H _; exact H].
    - destruct (find_tclass e cn) as [c|]; [|split; [apply ext_refl|intros H _; exact H]].
      assert (Hg : forall c', grows (fun o => create e ps n o c' dconf)).
      { intros c' o. destruct (IH c' dconf o) as [H1 H2]. split; [exact H1|intro H; apply H2; [exact H|reflexivity]]. }
      pose proof (create_fields_grows (fun o c' => create e ps n o c' dconf) (t_mapper c) (t_fields c) Hg own) as Hf.
      destruct (create_fields e ps (fun o c' => create e ps n o c' dconf) own (t_mapper c) (t_fields c)) as [own1 r].
      cbn [fst] in Hf. destruct Hf as [He Hd]. destruct r as [u|x]; cbn [fst].
      + split.
        * intros x Hx. apply alist_get_cons_ext, He, Hx.
        * intros H Hcf. constructor; [exact Hcf|apply Hd, H].
      + split; [exact He|intros H _; apply Hd, H].
  Qed.

  Lemma create_ok_own fuel own cn cf own' :
    create e ps fuel own cn cf = (own', Ok tt) -> alist_get own' cn = Some cf.
  Proof.
    destruct fuel as [|n]; cbn [create]; [discriminate|].
    destruct (find_tclass e cn) as [c|]; [|discriminate].
    destruct (create_fields e ps (fun o c' => create e ps n o c' dconf) own (t_mapper c) (t_fields c)) as [own1 r].
    destruct r; [|discriminate]. intro H. inversion H. apply alist_get_head.
  Qed.

  Lemma inst_class_grows cn : grows (fun o => inst_class e ps o cn).
  Proof.
    intro own. unfold inst_class. destruct (alist_get own cn).
    - split; [apply ext_refl|intro H; exact H].
    - destruct (create_grows HFUEL cn dconf own) as [H1 H2]. split; [exact H1|intro H; apply H2; [exact H|reflexivity]].
  Qed.

  Lemma inst_class_ok own cn own' : inst_class e ps own cn = (own', Ok tt) -> alist_get own' cn <> None.
  Proof.
    unfold inst_class. destruct (alist_get own cn) eqn:Hg.
    - intro H. inversion H. subst. rewrite Hg. discriminate.
    - intro H. apply create_ok_own in H. rewrite H. discriminate.
  Qed.

  Lemma inst_seq_grows f l : (forall v, grows (fun o => f o v)) -> grows (fun o => inst_seq f o l).
  Proof.
    intro Hf. induction l as [|x t IH]; intro own; cbn [inst_seq].
    - split; [apply ext_refl|intro H; exact H].
    - destruct (Hf x own) as [H1 H2]. destruct (f own x) as [own1 r]. cbn [fst] in H1, H2. destruct r.
      + destruct (IH own1) as [H3 H4]. split; [eapply ext_trans; eauto|intro H; apply H4, H2, H].
      + split; [exact H1|exact H2].
  Qed.

  Lemma inst_tree_grows fuel : forall v, grows (fun o => inst_tree e ps fuel o v).
  Proof.
    induction fuel as [|n IH]; intros v own; cbn [inst_tree].
    - split; [apply ext_refl|intro H; exact H].
    - destruct v; try (split; [apply ext_refl|intro H; exact H]); try apply (inst_seq_grows _ _ IH).
      destruct (inst_seq_grows (inst_tree e ps n) (map snd attrs) IH own) as [H1 H2].
      destruct (inst_seq (inst_tree e ps n) own (map snd attrs)) as [own1 r]. cbn [fst] in H1, H2. destruct r.
      + destruct (inst_class_grows cls own1) as [H3 H4]. split; [eapply ext_trans; eauto|intro H; apply H4, H2, H].
      + split; [exact H1|exact H2].
  Qed.

  (* a constructor call that returned has left the class with a serializer of its own *)
  Lemma inst_tree_ok n own cn a own' :
    inst_tree e ps (S n) own (PStruct cn a) = (own', Ok tt) -> alist_get own' cn <> None.
  Proof.
    cbn [inst_tree]. destruct (inst_seq (inst_tree e ps n) own (map snd a)) as [own1 r]. destruct r; [|discriminate].
    apply inst_class_ok.
  Qed.

  Definition default_op (op : hop) : bool :=
    match op with
    | HCreate _ sn compact => negb sn && negb compact
    | HSerVia compact _ => negb compact
    | _ => true
    end.

  Lemma ser_now_own st v : fs_own (fst (ser_now sser ofast e ps st v)) = fs_own st.
  Proof.
    unfold ser_now. destruct v; try reflexivity.
    destruct (call_ref e (run_gen sser ofast e ps (fs_own st) HFUEL) (fs_cache st) cls (resolve e ps (fs_own st) cls)
                       (PStruct cls attrs)) as [ch r]. reflexivity.
  Qed.

  Lemma run_op_grows st op :
    ext (fs_own st) (fs_own (fst (run_op sser ofast e ps st op))) /\
    (default_op op = true -> all_default (fs_own st) -> all_default (fs_own (fst (run_op sser ofast e ps st op)))).
  Proof.
    destruct op as [cn sn compact|tr v|v|compact v]; cbn [run_op default_op].
    - destruct (create_grows HFUEL cn {| sc_sn := sn; sc_compact := compact |} (fs_own st)) as [H1 H2].
      destruct (create e ps HFUEL (fs_own st) cn {| sc_sn := sn; sc_compact := compact |}) as [own r]. cbn [fst fs_own] in *.
      split; [exact H1|]. intros Hd Ha. apply H2; [exact Ha|].
      apply andb_true_iff in Hd as [Hs Hc]. apply negb_true_iff in Hs, Hc. subst. reflexivity.
    - assert (Hg : ext (fs_own st) (fst (inst_tree e ps HFUEL (fs_own st) v)) /\
                   (all_default (fs_own st) -> all_default (fst (inst_tree e ps HFUEL (fs_own st) v))))
        by apply inst_tree_grows.
      destruct tr.
      + destruct v; try (destruct (inst_tree e ps HFUEL (fs_own st) _) as [own r]; cbn [fst fs_own] in *;
                          destruct Hg as [H1 H2]; split; [exact H1|intros _; exact H2]).
        destruct attrs.
        * cbn [fst fs_own]. split; [apply ext_refl|intros _ H; exact H].
        * destruct (inst_tree e ps HFUEL (fs_own st) _) as [own r]; cbn [fst fs_own] in *.
          destruct Hg as [H1 H2]; split; [exact H1|intros _; exact H2].
      + destruct (inst_tree e ps HFUEL (fs_own st) v) as [own r]; cbn [fst fs_own] in *.
        destruct Hg as [H1 H2]; split; [exact H1|intros _; exact H2].
    - rewrite ser_now_own. split; [apply ext_refl|intros _ H; exact H].
    - destruct v; try (cbn [fst]; split; [apply ext_refl|intros _ H; exact H]).
      destruct (alist_get (fs_own st) cls).
      + rewrite ser_now_own. split; [apply ext_refl|intros _ H; exact H].
      + destruct (create_grows HFUEL cls {| sc_sn := false; sc_compact := compact |} (fs_own st)) as [H1 H2].
        destruct (create e ps HFUEL (fs_own st) cls {| sc_sn := false; sc_compact := compact |}) as [own r].
        cbn [fst] in H1, H2. destruct r.
        * rewrite ser_now_own. cbn [fs_own]. split; [exact H1|].
          intros Hd Ha. apply H2; [exact Ha|]. apply negb_true_iff in Hd. subst. reflexivity.
        * cbn [fst fs_own]. split; [exact H1|].
          intros Hd Ha. apply H2; [exact Ha|]. apply negb_true_iff in Hd. subst. reflexivity.
  Qed.

  Lemma run_ops_grows ops : forall st,
      ext (fs_own st) (fs_own (fst (run_ops sser ofast e ps st ops))) /\
      (forallb default_op ops = true -> all_default (fs_own st) ->
       all_default (fs_own (fst (run_ops sser ofast e ps st ops)))).
  Proof.
    induction ops as [|op t IH]; intro st; cbn [run_ops forallb].
    - cbn [fst]. split; [apply ext_refl|intros _ H; exact H].
    - destruct (run_op_grows st op) as [H1 H2].
      destruct (run_op sser ofast e ps st op) as [st1 r]. cbn [fst] in H1, H2.
      destruct (IH st1) as [H3 H4].
      destruct (run_ops sser ofast e ps st1 t) as [st2 rs]. cbn [fst] in *.
      split; [eapply ext_trans; eauto|].
      intros Hd Ha. apply andb_true_iff in Hd as [Hd1 Hd2]. apply H4; [exact Hd2|]. apply H2; assumption.
  Qed.

  (* A1: once a constructor of class cn has returned, cn has a serializer of its own in every later state *)
  Theorem instantiated_keeps_serializer st tr cn a rest :
    (tr = false \/ a <> []) ->
    snd (run_op sser ofast e ps st (HInst tr (PStruct cn a))) = Ok PNone ->
    alist_get (fs_own (fst (run_ops sser ofast e ps (fst (run_op sser ofast e ps st (HInst tr (PStruct cn a)))) rest))) cn
    <> None.
  Proof.
    intros Hk Hok.
    assert (Hown : alist_get (fs_own (fst (run_op sser ofast e ps st (HInst tr (PStruct cn a))))) cn <> None).
    { cbn [run_op] in *.
      assert (Hcase : (let '(own, r) := inst_tree e ps HFUEL (fs_own st) (PStruct cn a) in
                       ({| fs_own := own; fs_cache := fs_cache st |}, unit_res r)) =
                      (let '(own, r) := match tr, PStruct cn a with
                                        | true, PStruct _ [] => (fs_own st, Ok tt)
                                        | _, _ => inst_tree e ps HFUEL (fs_own st) (PStruct cn a)
                                        end in
                       ({| fs_own := own; fs_cache := fs_cache st |}, unit_res r))).
      { destruct tr; [|reflexivity]. destruct a; [|reflexivity]. destruct Hk as [Hk|Hk]; [discriminate|contradiction]. }
      rewrite <- Hcase in *. clear Hcase.
      destruct (inst_tree e ps HFUEL (fs_own st) (PStruct cn a)) as [own r] eqn:Hi. cbn [fst snd fs_own] in *.
      destruct r as [[]|x]; [|discriminate]. exact (inst_tree_ok _ _ _ _ _ Hi). }
    destruct (run_ops_grows rest (fst (run_op sser ofast e ps st (HInst tr (PStruct cn a))))) as [H _].
    apply H, Hown.
  Qed.

  (* A2: a history whose explicit create_serializer calls all use the default flags leaves every installed
     serializer generated with the default flags *)
  Theorem default_history_default_confs ops :
    forallb default_op ops = true -> all_default (fs_own (fst (run_ops sser ofast e ps st0 ops))).
  Proof.
    intro H. destruct (run_ops_grows ops st0) as [_ Hd]. apply Hd; [exact H|]. constructor.
  Qed.

  Lemma all_default_conf_of own c : all_default own -> conf_of own c = dconf.
  Proof.
    unfold conf_of. induction own as [|[k v] t IH]; intro H; cbn [alist_get]; [reflexivity|].
    inversion H as [|p l Hp Ht]. subst. destruct (pystr_eqb k c); [exact Hp|apply IH, Ht].
  Qed.

  (* A3: operations other than serializations never touch the per-field caches *)
  Definition is_ser (op : hop) : bool := match op with HSer _ | HSerVia _ _ => true | _ => false end.

  Lemma run_op_cache st op : is_ser op = false -> fs_cache (fst (run_op sser ofast e ps st op)) = fs_cache st.
  Proof.
    destruct op as [cn sn compact|tr v| |]; cbn [is_ser run_op]; try discriminate; intros _.
    - destruct (create e ps HFUEL (fs_own st) cn _) as [own r]. reflexivity.
    - destruct (match tr, v with | true, PStruct _ [] => (fs_own st, Ok tt) | _, _ => inst_tree e ps HFUEL (fs_own st) v end)
        as [own r]. reflexivity.
  Qed.

  Lemma run_ops_cache ops : forall st,
      forallb (fun op => negb (is_ser op)) ops = true ->
      fs_cache (fst (run_ops sser ofast e ps st ops)) = fs_cache st.
  Proof.
    induction ops as [|op t IH]; intros st H; cbn [run_ops forallb] in *; [reflexivity|].
    apply andb_true_iff in H as [H1 H2]. apply negb_true_iff in H1.
    pose proof (run_op_cache st op H1) as Hc.
    destruct (run_op sser ofast e ps st op) as [st1 r]. cbn [fst] in Hc.
    pose proof (IH st1 H2) as Hc2.
    destruct (run_ops sser ofast e ps st1 t) as [st2 rs]. cbn [fst] in *. congruence.
  Qed.

  (* ================================================================ B. late binding: the state does not matter *)

  Fixpoint refs (tf : tfield) : list pystr :=
    match tf with
    | TRef c => [c]
    | TArray i | TSet i => refs i
    | TOpt _ f => refs f
    | _ => []
    end.
  Definition class_refs (c : tclass) : list pystr := flat_map (fun fd => refs (f_ty fd)) (t_fields c).

  Inductive reach : pystr -> pystr -> Prop :=
  | reach_refl c : reach c c
  | reach_step a b c cd : find_tclass e a = Some cd -> In b (class_refs cd) -> reach b c -> reach a c.

  Lemma reach_trans a b c : reach a b -> reach b c -> reach a c.
  Proof. induction 1; intro H2; [exact H2|]. eapply reach_step; eauto. Qed.

  Variable own : ownmap.
  Variable cf : pystr -> sconf.

  (* every class that can be reached from k has a serializer of its own, generated with the flags cf says,
     and refers to other classes only in the modelled shapes *)
  Definition closed (k : pystr) : Prop :=
    forall c, reach k c ->
              alist_get own c = Some (cf c) /\
              forall cd fd, find_tclass e c = Some cd -> In fd (t_fields cd) -> shape_ok (f_ty fd) = true.

  Lemma closed_step k cd b : closed k -> find_tclass e k = Some cd -> In b (class_refs cd) -> closed b.
  Proof.
    intros Hc Hf Hb c Hr. apply Hc. eapply reach_step; eauto.
  Qed.

  Definition fresh (ch : cache) : Prop :=
    forall k f, cache_get ch k = Some f -> f = resolve e ps own (ckey_item k).

  Lemma resolve_own c x : alist_get own c = Some x -> resolve e ps own c = SGen c x.
  Proof. unfold resolve. intro H. destruct (length e); cbn [resolve_n]; rewrite H; reflexivity. Qed.

  Lemma freeze_fresh ch k :
    fresh ch -> fresh (fst (freeze e ps own ch k)) /\ snd (freeze e ps own ch k) = resolve e ps own (ckey_item k).
  Proof.
    intro Hf. unfold freeze. destruct (cache_get ch k) as [f|] eqn:Hg; cbn [fst snd].
    - split; [exact Hf|apply Hf, Hg].
    - split; [|reflexivity]. intros k' f' H'. cbn [cache_get] in H'.
      destruct (ckey_eqb k k') eqn:Hk.
      + inversion H'. subst. rewrite (ckey_eqb_item _ _ Hk). reflexivity.
      + apply Hf, H'.
  Qed.

  (* a step that threads the cache simulates a pure function *)
  Definition sim {A B} (f : cache -> A -> stres B) (g : A -> res B) : Prop :=
    forall ch x, fresh ch -> exists ch', f ch x = (ch', g x) /\ fresh ch'.

  Lemma mapM_st_sim {A B} (f : cache -> A -> stres B) g : sim f g -> sim (mapM_st f) (mapM g).
  Proof.
    intros Hs ch l. revert ch. induction l as [|x t IH]; intros ch Hf; cbn [mapM_st mapM].
    - exists ch. split; [reflexivity|exact Hf].
    - destruct (Hs ch x Hf) as [ch1 [E1 F1]]. rewrite E1. destruct (g x) as [y|ex]; cbn [bind].
      + destruct (IH ch1 F1) as [ch2 [E2 F2]]. rewrite E2. destruct (mapM g t); cbn [bind]; exists ch2; split; auto.
      + exists ch1. split; auto.
  Qed.

  Lemma fast_val_noref fc1 fc2 : forall tf v,
      has_ref tf = false -> fast_val sser ofast e fc1 tf v = fast_val sser ofast e fc2 tf v.
  Proof.
    induction tf as [l|item IH|item IH|c|nf f IH|ls|id o]; intros v H; cbn [has_ref] in H; try discriminate;
      cbn [fast_val]; try reflexivity.
    - destruct v; try reflexivity. rewrite (mapM_ext _ _ l (fun x => IH x H)). reflexivity.
    - destruct v; try reflexivity. rewrite (mapM_ext _ _ l (fun x => IH x H)). reflexivity.
    - apply IH, H.
  Qed.

  Lemma fast_val_strip fc : forall tf v, fast_val sser ofast e fc tf v = fast_val sser ofast e fc (strip_opt tf) v.
  Proof. induction tf; intro v; cbn [strip_opt fast_val]; try reflexivity. apply IHtf. Qed.

  Lemma refs_strip tf : refs (strip_opt tf) = refs tf.
  Proof. induction tf; cbn [strip_opt refs]; try reflexivity. exact IHtf. Qed.

  (* the callback of the order-free reading *)
  Definition FC (n : nat) (c' : pystr) (x : pyval) : res pyval :=
    match find_tclass e c' with
    | Some cd => if t_fast cd then sfast sser ofast e cf n c' x else Raise TypeError
    | None => Raise Unmodelled
    end.

  Section Step.
    Variable n : nat.
    (* induction hypothesis on the fuel *)
    Hypothesis IHn : forall k, closed k -> sim (fun ch v => run_gen sser ofast e ps own n ch k (cf k) v)
                                               (fun v => sfast sser ofast e cf n k v).

    Lemma call_ref_sim c : closed c ->
      sim (fun ch x => call_ref e (run_gen sser ofast e ps own n) ch c (resolve e ps own c) x) (FC n c).
    Proof.
      intros Hc ch x Hf. unfold call_ref, FC.
      destruct (find_tclass e c) as [cd|]; [|exists ch; split; auto].
      destruct (t_fast cd); [|exists ch; split; auto].
      destruct (Hc c (reach_refl c)) as [Ho _]. rewrite (resolve_own _ _ Ho).
      apply (IHn c Hc ch x Hf).
    Qed.

    Lemma dyn_val_sim dc fname tf :
      shape_ok tf = true -> (forall c, In c (refs tf) -> closed c) ->
      sim (fun ch x => dyn_val sser ofast e ps own (run_gen sser ofast e ps own n) dc fname ch tf x)
          (fun x => fast_val sser ofast e (FC n) tf x).
    Proof.
      intros Hs Hr ch x Hf. unfold dyn_val.
      destruct (has_ref tf) eqn:Hh; cbn [negb].
      - rewrite (fast_val_strip (FC n) tf x). rewrite <- refs_strip in Hr.
        unfold shape_ok in Hs. rewrite Hh in Hs. cbn [negb orb] in Hs.
        destruct (strip_opt tf) as [l|item|item|c|nf f|ls|id o]; try discriminate.
        + (* Array of a class *)
          destruct item as [ | | |c| | | ]; try discriminate.
          assert (Hc : closed c) by (apply Hr; cbn [refs]; left; reflexivity).
          cbn [fast_val]. destruct x; try (exists ch; split; [reflexivity|exact Hf]).
          destruct (class_is_fast e c); cbn [bind]; [|exists ch; split; [reflexivity|exact Hf]].
          destruct (freeze_fresh ch (dc, fname, c) Hf) as [F1 E1].
          destruct (freeze e ps own ch (dc, fname, c)) as [ch1 f]. cbn [fst snd ckey_item] in *. subst f.
          destruct (mapM_st_sim _ _ (call_ref_sim c Hc) ch1 l F1) as [ch2 [E2 F2]].
          rewrite E2. fold (FC n c). destruct (mapM (FC n c) l); cbn [wrap_list bind]; exists ch2; split; auto.
        + (* Set of a class *)
          destruct item as [ | | |c| | | ]; try discriminate.
          assert (Hc : closed c) by (apply Hr; cbn [refs]; left; reflexivity).
          cbn [fast_val]. destruct x; try (exists ch; split; [reflexivity|exact Hf]).
          destruct (class_is_fast e c); cbn [bind]; [|exists ch; split; [reflexivity|exact Hf]].
          destruct (freeze_fresh ch (dc, fname, c) Hf) as [F1 E1].
          destruct (freeze e ps own ch (dc, fname, c)) as [ch1 f]. cbn [fst snd ckey_item] in *. subst f.
          destruct (mapM_st_sim _ _ (call_ref_sim c Hc) ch1 l F1) as [ch2 [E2 F2]].
          rewrite E2. fold (FC n c). destruct (mapM (FC n c) l); cbn [wrap_list bind]; exists ch2; split; auto.
        + (* a direct (or Optional) reference: whatever the class's serialize is now *)
          assert (Hc : closed c) by (apply Hr; cbn [refs]; left; reflexivity).
          cbn [fast_val]. apply (call_ref_sim c Hc ch x Hf).
      - exists ch. split; [|exact Hf]. rewrite (fast_val_noref (no_class) (FC n) tf x Hh). reflexivity.
    Qed.

    Lemma dyn_fields_sim k c a fs :
      (forall fd, In fd fs -> shape_ok (f_ty fd) = true /\ forall c', In c' (refs (f_ty fd)) -> closed c') ->
      forall ch, fresh ch ->
      exists ch', dyn_fields (fun fname ch' tf x => dyn_val sser ofast e ps own (run_gen sser ofast e ps own n)
                                                            (decl_of e ps k fname) fname ch' tf x) c a ch fs
                  = (ch', fast_fields (fast_val sser ofast e (FC n)) c a fs) /\ fresh ch'.
    Proof.
      induction fs as [|fd t IH]; intros Hfs ch Hf; cbn [dyn_fields fast_fields].
      - exists ch. split; auto.
      - destruct (Hfs fd (or_introl eq_refl)) as [Hs Hr].
        assert (Hstep : exists ch1,
                   (if is_none (getattr_m c a (f_name fd)) then (ch, Ok PNone)
                    else match f_ty fd with
                         | TLeaf (LSer _ true) => (ch, Ok (getattr_m c a (f_name fd)))
                         | tf => dyn_val sser ofast e ps own (run_gen sser ofast e ps own n) (decl_of e ps k (f_name fd))
                                         (f_name fd) ch tf (getattr_m c a (f_name fd))
                         end) =
                   (ch1, if is_none (getattr_m c a (f_name fd)) then Ok PNone
                         else match f_ty fd with
                              | TLeaf (LSer _ true) => Ok (getattr_m c a (f_name fd))
                              | tf => fast_val sser ofast e (FC n) tf (getattr_m c a (f_name fd))
                              end) /\ fresh ch1).
        { destruct (is_none (getattr_m c a (f_name fd))); [exists ch; split; auto|].
          pose proof (dyn_val_sim (decl_of e ps k (f_name fd)) (f_name fd) (f_ty fd) Hs Hr ch
                                  (getattr_m c a (f_name fd)) Hf) as Hd.
          destruct (f_ty fd) as [[f| | |id b]| | | | | |]; try exact Hd.
          destruct b; [exists ch; split; auto|exact Hd]. }
        destruct Hstep as [ch1 [E1 F1]]. rewrite E1.
        destruct (if is_none (getattr_m c a (f_name fd)) then Ok PNone else _) as [w|ex]; cbn [bind].
        + destruct (IH (fun fd' Hin => Hfs fd' (or_intror Hin)) ch1 F1) as [ch2 [E2 F2]]. rewrite E2.
          destruct (fast_fields (fast_val sser ofast e (FC n)) c a t); cbn [bind]; exists ch2; split; auto.
        + exists ch1. split; auto.
    Qed.
  End Step.

  (* B1: in a state where every class reachable from k has its own serializer and the caches are fresh, the
     closure of k returns what the order-free reading returns, and leaves the caches fresh *)
  Lemma run_gen_sim : forall n k, closed k ->
      sim (fun ch v => run_gen sser ofast e ps own n ch k (cf k) v) (fun v => sfast sser ofast e cf n k v).
  Proof.
    induction n as [|n IH]; intros k Hc ch v Hf; cbn [run_gen sfast].
    - exists ch. split; auto.
    - destruct (find_tclass e k) as [c|] eqn:Hk; [|exists ch; split; auto].
      destruct v; try (exists ch; split; [reflexivity|exact Hf]).
      assert (Hfs : forall fd, In fd (t_fields c) ->
                               shape_ok (f_ty fd) = true /\ forall c', In c' (refs (f_ty fd)) -> closed c').
      { intros fd Hin. split.
        - destruct (Hc k (reach_refl k)) as [_ Hs]. apply (Hs c fd Hk Hin).
        - intros c' Hc'. apply (closed_step k c c' Hc Hk). unfold class_refs. apply in_flat_map. exists fd. split; auto. }
      destruct (dyn_fields_sim n IH k c attrs (t_fields c) Hfs ch Hf) as [ch1 [E1 F1]].
      fold (FC n). destruct (t_mapper c); try (exists ch; split; [reflexivity|exact Hf]);
        rewrite E1; destruct (fast_fields (fast_val sser ofast e (FC n)) c attrs (t_fields c)); cbn [bind];
        exists ch1; split; auto.
  Qed.
End Proofs.

(* ================================================================ B2. settled histories *)

Section Settled.
  Variable sser : N -> pyval -> res pyval.
  Variable ofast : N -> pyval -> res pyval.
  Variable e : tenv.
  Variable ps : list (pystr * pystr).

  Lemma class_is_fast_find c : class_is_fast e c = true -> exists cd, find_tclass e c = Some cd /\ t_fast cd = true.
  Proof. unfold class_is_fast. destruct (find_tclass e c) as [cd|]; [|discriminate]. intro H. exists cd. auto. Qed.

  Lemma conf_of_own own c x : alist_get own c = Some x -> conf_of own c = x.
  Proof. unfold conf_of. intro H. rewrite H. reflexivity. Qed.

  (* what the order-free reading says a serialization returns *)
  Definition expected (own : ownmap) (op : hop) : res pyval :=
    match op with
    | HSer (PStruct cn a) => sfast sser ofast e (conf_of own) HFUEL cn (PStruct cn a)
    | _ => Raise Unmodelled
    end.

  Definition good_ser (own : ownmap) (op : hop) : Prop :=
    exists cn a, op = HSer (PStruct cn a) /\ class_is_fast e cn = true /\ closed e own (conf_of own) cn.

  Lemma sers_sim own sers : forall st,
      fs_own st = own -> fresh e ps own (fs_cache st) ->
      (forall op, In op sers -> good_ser own op) ->
      snd (run_ops sser ofast e ps st sers) = map (expected own) sers.
  Proof.
    induction sers as [|op t IH]; intros st Ho Hf Hg; cbn [run_ops map]; [reflexivity|].
    destruct (Hg op (or_introl eq_refl)) as [cn [a [Eop [Hfast Hc]]]]. subst op.
    cbn [run_op ser_now expected].
    destruct (class_is_fast_find cn Hfast) as [cd [Hfind Htf]].
    rewrite Ho. destruct (Hc cn (reach_refl e cn)) as [Hown _].
    rewrite (resolve_own e ps own cn _ Hown). unfold call_ref. rewrite Hfind, Htf.
    destruct (run_gen_sim sser ofast e ps own (conf_of own) HFUEL cn Hc (fs_cache st) (PStruct cn a) Hf) as [ch1 [E1 F1]].
    rewrite E1.
    specialize (IH {| fs_own := own; fs_cache := ch1 |} eq_refl F1 (fun op Hin => Hg op (or_intror Hin))).
    destruct (run_ops sser ofast e ps {| fs_own := own; fs_cache := ch1 |} t) as [st2 rs]. cbn [snd] in *.
    rewrite IH. reflexivity.
  Qed.

  (* B2: whatever the order of the class definitions, create_serializer calls and instantiations was, the
     serializations that follow return what the order-free reading returns for the flags each class ended
     up with - provided every class reachable from the serialized instance's class has its own serializer *)
  Theorem settled_history ops sers :
    forallb (fun op => negb (is_ser op)) ops = true ->
    let st1 := fst (run_ops sser ofast e ps st0 ops) in
    (forall op, In op sers -> good_ser (fs_own st1) op) ->
    snd (run_ops sser ofast e ps st1 sers) = map (expected (fs_own st1)) sers.
  Proof.
    intros Hns st1 Hg. apply sers_sim; [reflexivity| |exact Hg].
    unfold st1. rewrite (run_ops_cache sser ofast e ps ops st0 Hns). cbn [st0 fs_cache].
    intros k f H. discriminate.
  Qed.
End Settled.
