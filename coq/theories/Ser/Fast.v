(* C10, serialization side: the regular serializer (serialize_internal / serialize_val in
   typedpy/serialization/serialization.py) and the fast one installed by create_serializer
   (typedpy/serialization/fast_serialization.py, plus the per-field serialize methods it calls:
   Field.serialize, Array.serialize, Set.serialize, AnyOf.serialize, Enum.serialize,
   ClassReference.serialize).  Same class AST as Ser/Trusted.v.  Executable; no proofs here. *)
From Coq Require Import ZArith QArith NArith String Ascii Bool Lia List.
Import ListNotations.
From TP Require Import Base.PyVal Base.PyEq Fields.FieldAst Fields.SetChain Ser.Trusted.
Local Open Scope Z_scope.

Definition is_json_prim (v : pyval) : bool :=
  match v with PBool _ | PStr _ | PNum (NInt _) | PNum (NFlt _ _) => true | _ => false end.

(* the dict built by assigning result[key] = value in order *)
Definition dict_of (l : list (pystr * pyval)) : pyval :=
  PDict (fold_left (fun acc p => dict_set acc (PStr (fst p)) (snd p)) l []).

Definition drop_none (l : list (pystr * pyval)) : list (pystr * pyval) :=
  filter (fun p => negb (is_none (snd p))) l.

Section WithOracles.
  Variable re_match : N -> pystr -> bool.
  Variable sser : N -> pyval -> res pyval.      (* SerializableField.serialize of field #id *)
  Variable oser : N -> pyval -> res pyval.      (* serialize_val of an unmodelled field #id *)
  Variable ofast : N -> pyval -> res pyval.     (* field.serialize of an unmodelled field #id *)
  Variable e : tenv.

  (* ---------------------------------------------------------------- regular serialization *)

  Definition ser_leaf (l : leaf) (v : pyval) : res pyval :=
    match l with
    | LPrim _ => match v with
                 | PNum (NDec _ _) => Raise Unmodelled    (* a Decimal held by a Number field: str(Decimal) *)
                 | _ => Ok v
                 end
    | LEnum _ _ byv =>
        match v with
        | PEnum _ n x => if byv then (if is_json_prim x then Ok x else Raise TypeError) else Ok (PStr n)
        | _ => Raise AttributeError
        end
    | LEnumLit _ => Ok v
    | LSer id _ => sser id v
    end.

  (* option._validate(val) of serialize_multifield_wrapper *)
  Definition leaf_validate (l : leaf) (v : pyval) : res unit :=
    match l with
    | LPrim f => match vset re_match [] f v with Ok _ => Ok tt | Raise x => Raise x end
    | LEnum cls ms _ =>
        match v with
        | PEnum c n _ => if pystr_eqb c cls && alist_has ms n then Ok tt else Raise ValueError
        | PStr n => if alist_has ms n then Ok tt else Raise ValueError
        | _ => Raise ValueError
        end
    | LEnumLit vals => if py_in v vals then Ok tt else Raise ValueError
    | LSer _ _ => Ok tt
    end.

  Fixpoint ser_val (sc sc0 : pystr -> pyval -> res pyval) (tf : tfield) (v : pyval) {struct tf} : res pyval :=
    match tf with
    | TLeaf l => ser_leaf l v
    | TArray item =>
        match v with
        | PList l => r <- mapM (ser_val sc sc0 item) l ;; Ok (PList r)
        | _ => Raise Unmodelled
        end
    | TSet item =>
        match v with
        | PSet _ l => r <- mapM (ser_val sc sc0 item) l ;; Ok (PList r)
        | _ => Raise Unmodelled
        end
    | TRef c => sc c v
    | TOpt _ f => match ser_val sc0 sc0 f v with
                  | Ok w => Ok w
                  | Raise Unmodelled => Raise Unmodelled
                  | Raise OutOfFuel => Raise OutOfFuel
                  | Raise _ => Raise ValueError
                  end
    | TUnion ls => first_ok (fun l => _ <- leaf_validate l v ;; ser_leaf l v) ls
    | TOther id _ => oser id v
    end.

  Fixpoint ser_attrs (sv : tfield -> pyval -> res pyval) (inh : list mapper) (c : tclass)
           (a : list (pystr * pyval)) : res (list (pystr * pyval)) :=
    match a with
    | [] => Ok []
    | (k, x) :: t =>
        if is_none x then ser_attrs sv inh c t
        else match find_tfd (t_fields c) k with
             | Some fd => w <- sv (f_ty fd) x ;; r <- ser_attrs sv inh c t ;; Ok ((reg_key inh c k, w) :: r)
             | None => r <- ser_attrs sv inh c t ;; Ok ((k, x) :: r)
             end
    end.

  (* serialize_internal of an instance (compact=False) *)
  Fixpoint ser_regular (fuel : nat) (inh : list mapper) (cn : pystr) (v : pyval) : res pyval :=
    match fuel with
    | O => Raise OutOfFuel
    | S n =>
        match v with
        | PStruct rn a =>
            (* serialize_val: an instance of a SUBCLASS of the declared class (a differently named class of
               the environment) is serialized as its own class, with that class's aggregated mapper only *)
            let '(cn, inh) := if pystr_eqb rn cn then (cn, inh)
                              else match find_tclass e rn with Some _ => (rn, []) | None => (cn, inh) end in
            match find_tclass e cn with
            | Some c =>
                let inh' := special (t_mapper c) ++ inh in
                (* chained and function mappers: outside the model *)
                _ <- (if mapper_simple (t_mapper c) then Ok tt else Raise Unmodelled) ;;
                r <- ser_attrs (ser_val (ser_regular n inh') (ser_regular n [])) inh c a ;;
                Ok (dict_of r)
            | None => Raise Unmodelled
            end
        | _ => Raise Unmodelled
        end
    end.

  (* the conditions under which serialize(x, compact=True) returns the bare field value *)
  Definition compact_applies (c : tclass) : option tfd :=
    match t_fields c with
    | [fd] => match t_required c with
              | [r] => if pystr_eqb r (f_name fd) && negb (t_additional c) then Some fd else None
              | _ => None
              end
    | _ => None
    end.

  (* Serializer(x).serialize(compact=compact) *)
  Definition ser_top (fuel : nat) (compact : bool) (cn : pystr) (v : pyval) : res pyval :=
    match find_tclass e cn, v with
    | Some c, PStruct _ a =>
        match (if compact then compact_applies c else None) with
        | Some fd =>
            (* the bare value is produced by serialize_val WITHOUT the class's mapper: an outer
               TO_CAMELCASE / TO_LOWERCASE does not reach the nested documents in the compact form *)
            ser_val (ser_regular (pred fuel) []) (ser_regular (pred fuel) []) (f_ty fd) (getattr_m c a (f_name fd))
        | None => ser_regular fuel [] cn v
        end
    | _, _ => Raise Unmodelled
    end.

  (* ---------------------------------------------------------------- fast serialization *)

  (* field.serialize(value) of a leaf *)
  Definition fast_leaf (l : leaf) (v : pyval) : res pyval :=
    match l with
    | LPrim FNone => Ok PNone
    | _ => ser_leaf l v
    end.

  Definition non_none (ls : list leaf) : list leaf := filter (fun l => negb (is_none_leaf l)) ls.

  Definition class_is_fast (c : pystr) : bool :=
    match find_tclass e c with Some cd => t_fast cd | None => false end.

  (* [fc c v]: ClassReference.serialize of a field declared with class c, applied to v *)
  Fixpoint fast_val (fc : pystr -> pyval -> res pyval) (tf : tfield) (v : pyval) {struct tf} : res pyval :=
    match tf with
    | TLeaf l => fast_leaf l v
    | TArray item =>
        match v with
        | PList l =>
            match item with
            | TLeaf (LSer _ true) => Ok v          (* Array.serialize: items that are Numbers are returned as they are *)
            | _ => r <- mapM (fast_val fc item) l ;; Ok (PList r)     (* items.serialize, element by element *)
            end
        | _ => Raise Unmodelled
        end
    | TSet item =>
        match v with
        | PSet _ l => r <- mapM (fast_val fc item) l ;; Ok (PList r)
        | _ => Raise Unmodelled
        end
    | TRef c => fc c v
    | TOpt _ f => fast_val fc f v
    | TUnion ls => match non_none ls with [l] => fast_leaf l v | _ => Raise Unmodelled end
    | TOther id _ => ofast id v
    end.

  (* ClassReference.serialize(value) = getattr(value.__class__, "serialize", None)(value): the serializer of the
     value's OWN class, whatever class the field was declared with (a class without the mix-in has no serialize:
     None is called, TypeError) *)
  Definition by_class (ser : pystr -> pyval -> res pyval) (v : pyval) : res pyval :=
    match v with
    | PStruct rn _ => match find_tclass e rn with
                      | Some cd => if t_fast cd then ser rn v else Raise TypeError
                      | None => Raise Unmodelled
                      end
    | _ => Raise Unmodelled
    end.

  (* _verify_is_fast_serializable + the checks of _get_serialize, for one field *)
  Fixpoint check_field (cs : pystr -> res unit) (tf : tfield) {struct tf} : res unit :=
    match tf with
    | TLeaf _ => Ok tt
    | TArray item => match item with
                     | TRef _ | TArray _ => check_field cs item
                     | _ => Ok tt
                     end
    | TSet _ => Ok tt
    | TRef c => cs c
    | TOpt _ _ => Ok tt
    | TUnion ls => if (1 <? Z.of_nat (length (non_none ls))) then Raise TypeError else Ok tt
    | TOther _ oneof => if oneof then Raise TypeError else Ok tt
    end.

  Definition mapped_as_str (m : mapper) (k : pystr) : res unit :=
    match m with
    | MapDict kv => match alist_get kv k with
                    | Some MFun => Raise ValueError
                    | Some MObj => Raise Unmodelled
                    | _ => Ok tt
                    end
    | MapList => Raise Unmodelled
    | _ => Ok tt
    end.

  Fixpoint check_fields (cs : pystr -> res unit) (m : mapper) (fs : list tfd) : res unit :=
    match fs with
    | [] => Ok tt
    | fd :: t =>
        _ <- mapped_as_str m (f_name fd) ;;
        _ <- match f_ty fd with
             | TLeaf (LPrim FNone) => check_field cs (f_ty fd)
             | TLeaf (LPrim _) | TLeaf (LSer _ true) => Ok tt
             | tf => check_field cs tf
             end ;;
        check_fields cs m t
    end.

  (* create_serializer(cls): Ok tt, or the exception it raises *)
  Fixpoint create_serializer (fuel : nat) (cn : pystr) : res unit :=
    match fuel with
    | O => Raise OutOfFuel
    | S n =>
        match find_tclass e cn with
        | None => Raise Unmodelled
        | Some c =>
            check_fields (fun c' => match find_tclass e c' with
                                    | Some cd => if t_fast cd then create_serializer n c' else Raise TypeError
                                    | None => Raise Unmodelled
                                    end) (t_mapper c) (t_fields c)
        end
    end.

  Fixpoint fast_fields (fv : tfield -> pyval -> res pyval) (c : tclass) (a : list (pystr * pyval))
           (fs : list tfd) : res (list (pystr * pyval)) :=
    match fs with
    | [] => Ok []
    | fd :: t =>
        let x := getattr_m c a (f_name fd) in
        w <- (if is_none x then Ok PNone
              else match f_ty fd with
                   | TLeaf (LSer _ true) => Ok x    (* Number fields: the raw attribute (_get_value) *)
                   | tf => fv tf x
                   end) ;;
        r <- fast_fields fv c a t ;;
        Ok ((own_key (t_mapper c) (f_name fd), w) :: r)
    end.

  (* x.serialize() after create_serializer(cls, compact, serialize_none); the classes of nested instances use the
     serializer created for them with the default flags *)
  Fixpoint fast_ser (fuel : nat) (sn compact : bool) (cn : pystr) (v : pyval) : res pyval :=
    match fuel with
    | O => Raise OutOfFuel
    | S n =>
        match find_tclass e cn, v with
        | Some c, PStruct _ a =>
            _ <- match t_mapper c with MapList => Raise Unmodelled | _ => Ok tt end ;;
            (* a nested structure is serialized by the serializer of its own class *)
            r <- fast_fields (fast_val (fun _ x => by_class (fast_ser n false false) x)) c a (t_fields c) ;;
            let r' := if sn then r else drop_none r in
            match dict_of r' with
            | PDict [(_, x)] =>
                if compact && Nat.eqb (length (t_fields c)) 1 then Ok x else Ok (dict_of r')
            | d => Ok d
            end
        | _, _ => Raise Unmodelled
        end
    end.
End WithOracles.
