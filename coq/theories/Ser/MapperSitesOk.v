(* The model Ser/Mappers.v performs exactly the nested-mapper lookups, stores and enum dispatch that
   Gen/MapperSites.v records from the CURRENT source of typedpy.  Each lemma is closed by
   computation on the generated table: when the source changes one of these pieces (the order of
   the two lookups in construct_fields_map, the key add_mapper_to_aggregation stores a nested mapper
   under, the string function of TO_LOWERCASE ...) the table changes and the lemma stops compiling. *)
From Coq Require Import ZArith NArith Bool List String.
Import ListNotations.
From TP Require Import Base.PyVal Ser.Mappers Gen.MapperSites.

(* try "<mapped key>._mapper" / "<field name>._mapper" in the recorded order *)
Fixpoint lookup_roles (roles : list keyrole) (d : amap) (mapped field : pystr) : option mval :=
  match roles with
  | [] => None
  | r :: t =>
      match (match r with
             | RMapped => alist_get d (mapped ++ suffix)
             | RField => alist_get d (field ++ suffix)
             | RUnrecognised => None
             end) with
      | Some x => Some x
      | None => lookup_roles t d mapped field
      end
  end.

(* `if sub_mapper:` and the Mapping test of the recursive call *)
Definition classify_sub (r : option mval) : subsel :=
  match r with
  | None => SubNone
  | Some (Sub []) => SubNone
  | Some (Sub sd) => SubMap (MDict sd)
  | Some (Key []) => SubNone
  | Some _ => SubBad
  end.

(* construct_fields_map *)
Lemma deser_site_ok : forall dm mapped field,
    deser_sub_lookup dm mapped field = lookup_roles site_deser dm mapped field.
Proof.
  intros. unfold deser_sub_lookup. cbn [site_deser lookup_roles].
  destruct (alist_get dm (mapped ++ suffix)); [reflexivity|].
  destruct (alist_get dm (field ++ suffix)); reflexivity.
Qed.

(* add_mapper_to_aggregation, dict case *)
Lemma agg_site_ok : forall d mapped field,
    sub_of (MDict d) mapped field = classify_sub (lookup_roles site_agg d mapped field).
Proof.
  intros. unfold sub_of. cbn [site_agg lookup_roles].
  destruct (alist_get d (mapped ++ suffix)); [reflexivity|].
  destruct (alist_get d (field ++ suffix)); reflexivity.
Qed.

(* serialize_internal: the nested mapper of attribute k is looked up under the attribute's name only *)
Lemma ser_site_ok : forall rec am k v acc mapped,
    ser_step rec am (k, v) acc =
    match alist_get am k with
    | Some DoNot => Ok acc
    | e => let key := match e with Some (Key s) => s | _ => k end in
           y <- rec (lookup_roles site_ser am mapped k) v ;; Ok (alist_set acc key y)
    end.
Proof.
  intros. unfold ser_step. cbn [site_ser lookup_roles].
  assert (E : match alist_get am (k ++ suffix) with Some x => Some x | None => None end = alist_get am (k ++ suffix))
    by (destruct (alist_get am (k ++ suffix)); reflexivity).
  rewrite E. reflexivity.
Qed.

(* stores: add_mapper_to_aggregation writes a nested mapper under the MAPPED key (both branches),
   _set_base_mapper_no_op under the field's name (ClassReference, Array/Set, StructureReference) --
   as add_step ([mk ++ suffix]) and base_step ([k ++ suffix]) do *)
Lemma writes_ok : writes_agg = [RMapped; RMapped] /\ writes_base = [RField; RField; RField].
Proof. split; reflexivity. Qed.

(* enum dispatch of _apply_mapper *)
Definition strfun_apply (f : strfun) (s : pystr) : option pystr :=
  match f with
  | FCamel => Some (camel s)
  | FUpper => Some (upper s)
  | FLower => Some (map low s)
  | FOther => None
  end.

Definition enum_name (m : mapper) : option string :=
  match m with
  | MCamel => Some "TO_CAMELCASE"%string
  | MLower => Some "TO_LOWERCASE"%string
  | MDict _ => None
  end.

Fixpoint dispatch_of (name : string) (t : list (string * strfun)) : option strfun :=
  match t with
  | [] => None
  | (n, f) :: u => if String.eqb n name then Some f else dispatch_of name u
  end.

Lemma enum_dispatch_ok : forall m name s,
    enum_name m = Some name ->
    exists f, dispatch_of name enum_dispatch = Some f /\ strfun_apply f s = Some (match apply_key m s with Key t => t | _ => s end)
              /\ exists t, apply_key m s = Key t.
Proof.
  intros m name s H. destruct m as [d| |]; cbn [enum_name] in H; inversion H; subst name.
  - exists FUpper. split; [reflexivity|]. split; [reflexivity|]. eexists. reflexivity.
  - exists FCamel. split; [reflexivity|]. split; [reflexivity|]. eexists. reflexivity.
Qed.

Lemma camelcase_shape : camelcase_shape_ok = true.
Proof. reflexivity. Qed.

(* all of it, for Props/C07.v *)
Lemma sites_ok :
  (forall dm mapped field, deser_sub_lookup dm mapped field = lookup_roles site_deser dm mapped field) /\
  (forall d mapped field, sub_of (MDict d) mapped field = classify_sub (lookup_roles site_agg d mapped field)) /\
  (forall rec am k v acc mapped,
      ser_step rec am (k, v) acc =
      match alist_get am k with
      | Some DoNot => Ok acc
      | e => let key := match e with Some (Key s) => s | _ => k end in
             y <- rec (lookup_roles site_ser am mapped k) v ;; Ok (alist_set acc key y)
      end) /\
  writes_agg = [RMapped; RMapped] /\ writes_base = [RField; RField; RField] /\
  (forall m name s, enum_name m = Some name ->
      exists f, dispatch_of name enum_dispatch = Some f /\
                strfun_apply f s = Some (match apply_key m s with Key t => t | _ => s end)) /\
  camelcase_shape_ok = true.
Proof.
  split; [exact deser_site_ok|]. split; [exact agg_site_ok|]. split; [exact ser_site_ok|].
  split; [reflexivity|]. split; [reflexivity|]. split; [|reflexivity].
  intros m name s H. destruct (enum_dispatch_ok m name s H) as [f [H1 [H2 _]]]. exists f. split; assumption.
Qed.
