(* The tie between the GENERATED translation of typedpy/serialization/mappers.py (Gen/MappersSrc.v: what
   _convert_to_camelcase, _apply_mapper, add_mapper_to_aggregation, _set_base_mapper_no_op,
   aggregate_serialization_mappers, aggregate_deserialization_mappers and the enum `mappers` say NOW) and the
   hand-written model Ser/Mappers.v on which property C07 is proved.  Every theorem is quantified over ALL
   strings / mappers / aggregated mappers / classes (induction over the loops and over the nesting); a source
   edit that changes what is computed makes the matching lemma fail (or the definition UNTRANSLATABLE, so that
   the lemma no longer type-checks).

   How the model's inputs are seen on the Python side:
     Key s                  the str s
     DoNot                  the class DoNotSerialize: the class object [ref "DoNotSerialize"]
     Sub m / amap m         the dict {k: enc v}, iterated in the model's order            [enc_amap m]
     MDict d                the dict [enc_amap d];   MLower / MCamel : the members TO_LOWERCASE / TO_CAMELCASE
                            of the enum class `mappers`, with the values the source gives them
     for_ser, camelflag     the bools
     override               None, or the dict
     Class fields ms        the class object: an instance of the metaclass StructMeta whose parameterless queries
                            get_all_fields_by_name() / get_aggregated_serialization_mapper() /
                            get_aggregated_deserialization_mapper() answer {k: field object} / [enc m for m in ms]
     (k, None)              a Field object of ANY class of the package's table that is not (a subclass of)
                            ClassReference, Array, Set or StructureReference   (section variable [plain])
     (k, Some (KRef, c))    ClassReference with _ty = the class c
     (k, Some (KArr, c))    Array with items = ClassReference(c);   KSet: Set with items = ClassReference(c)
   `aggregated_mapper_by_class` is a memo table: the translator treats it as TRANSPARENT (see the notes in
   Gen/MappersSrc.v), so the theorems are about what the body computes (an edit of the memo KEY is not seen).
   get_flat_resolved_mapper has no counterpart in Ser/Mappers.v; it is tied to the model's [apply_key]
   (document key of field k = apply_key m k, [flat_model]) for a class that carries one mapper.
   Recursive functions get as fuel one more than the summed height of their arguments (proved sufficient here).
   The hand model is a model of ASCII text and of real dicts (unique keys): the side condition [mval_wf] says so. *)
From Coq Require Import ZArith QArith NArith String Ascii Bool Lia List.
Import ListNotations.
From TP Require Import Base.PyVal Base.PyOps Base.PyOps2 Base.PyObj Base.PyOpsVersioned Base.PyOpsMappers
     Ser.Mappers Gen.MappersSrc.
From TP Require Base.PyOpsFields Base.PyOpsDerive.
Local Open Scope N_scope.

(* ------------------------------------------------------------------ general facts *)

Lemma bind_ok {A B} (x : A) (k : A -> res B) : bind (Ok x) k = k x.
Proof. reflexivity. Qed.

Lemma pystr_eqb_sym a b : pystr_eqb a b = pystr_eqb b a.
Proof.
  destruct (pystr_eqb a b) eqn:E1; destruct (pystr_eqb b a) eqn:E2; try reflexivity.
  - apply pystr_eqb_spec in E1. subst. rewrite pystr_eqb_refl in E2. discriminate.
  - apply pystr_eqb_spec in E2. subst. rewrite pystr_eqb_refl in E1. discriminate.
Qed.

(* ------------------------------------------------------------------ strings *)

Lemma ascii_title_from_eq : forall s b, ascii_title_from b s = title_aux b s.
Proof.
  induction s as [|c t IH]; intros b; [reflexivity|].
  cbn [ascii_title_from title_aux].
  change (chr_is_lower c) with (is_lower c). change (chr_is_upper c) with (is_upper c).
  destruct (is_lower c || is_upper c); rewrite IH; reflexivity.
Qed.

Lemma ascii_title_eq s : ascii_title s = title s.
Proof. apply ascii_title_from_eq. Qed.

Lemma ascii_upper_eq s : ascii_upper s = upper s.
Proof. reflexivity. Qed.

Lemma split_char_eq c : forall s cur, split_char_aux c cur s = split_aux c cur s.
Proof.
  induction s as [|x t IH]; intros cur; [reflexivity|].
  cbn [split_char_aux split_aux]. rewrite !IH. reflexivity.
Qed.

Lemma split_aux_cons c : forall s cur, exists w ws, split_aux c cur s = w :: ws.
Proof.
  induction s as [|x t IH]; intros cur; cbn [split_aux]; [eauto|].
  destruct (N.eqb x c); [eauto|apply IH].
Qed.

Lemma ascii_str_rev s : ascii_str (rev s) = ascii_str s.
Proof.
  unfold ascii_str. induction s as [|x t IH]; [reflexivity|].
  cbn [rev forallb]. rewrite forallb_app, IH. cbn [forallb]. rewrite andb_true_r. apply andb_comm.
Qed.

Lemma split_aux_ascii c : forall s cur,
    ascii_str cur = true -> ascii_str s = true -> forallb ascii_str (split_aux c cur s) = true.
Proof.
  induction s as [|x t IH]; intros cur Hc Hs; cbn [split_aux].
  - cbn [forallb]. rewrite ascii_str_rev, Hc. reflexivity.
  - cbn [ascii_str forallb] in Hs. apply andb_true_iff in Hs as [Hx Ht].
    destruct (N.eqb x c).
    + cbn [forallb]. rewrite ascii_str_rev, Hc. cbn [andb]. apply IH; [reflexivity|exact Ht].
    + apply IH; [|exact Ht]. cbn [ascii_str forallb]. rewrite Hx. exact Hc.
Qed.

Lemma join_empty l : join_strs [] l = concat l.
Proof.
  induction l as [|x t IH]; [reflexivity|].
  destruct t as [|y u]; [cbn [join_strs concat]; rewrite app_nil_r; reflexivity|].
  change (join_strs [] (x :: y :: u)) with (x ++ [] ++ join_strs [] (y :: u)).
  rewrite IH. reflexivity.
Qed.

Lemma mapM_title ws :
  forallb ascii_str ws = true ->
  mapM (fun w => t <- m_str_title w ;; Ok t) (map PStr ws) = Ok (map PStr (map title ws)).
Proof.
  induction ws as [|w t IH]; intros H; [reflexivity|].
  cbn [forallb] in H. apply andb_true_iff in H as [Hw Ht].
  cbn [map mapM]. unfold m_str_title at 1, str_method. rewrite Hw. cbn [bind].
  rewrite (IH Ht). cbn [bind]. rewrite ascii_title_eq. reflexivity.
Qed.

Lemma slice_tail {A} (w : A) ws : slice_list (Some 1%Z) None (w :: ws) = ws.
Proof.
  unfold slice_list, clamp.
  change (1 <? 0)%Z with false. cbv iota.
  assert (E : Nat.min (length (w :: ws)) (Z.to_nat 1) = 1%nat) by (cbn [length]; destruct (length ws); reflexivity).
  rewrite E. cbn [length skipn Nat.sub]. rewrite Nat.sub_0_r. apply firstn_all.
Qed.

(* _convert_to_camelcase, for EVERY ASCII string *)
Theorem src_convert_to_camelcase : forall h s,
    ascii_str s = true ->
    Src_convert_to_camelcase h (PStr s) = Ok (PStr (camel s)).
Proof.
  intros h s Hs. unfold Src_convert_to_camelcase, camel, split_on.
  change (py_str_split (PStr s) (PStr (s2p "_"))) with (Ok (PList (map PStr (split_char 95 s)))).
  cbn [bind]. unfold split_char. rewrite split_char_eq.
  pose proof (split_aux_ascii 95 s [] eq_refl Hs) as Hall.
  destruct (split_aux_cons 95 s []) as [w [ws E]]. unfold us. rewrite E in *.
  cbn [forallb] in Hall. apply andb_true_iff in Hall as [_ Hws].
  cbn [map].
  change (PyOpsDerive.py_subscript (PList (PStr w :: map PStr ws)) (zint 0)) with (Ok (PStr w)).
  cbn [bind py_slice slice_index zint].
  rewrite slice_tail. cbn [bind py_iter].
  rewrite (mapM_title ws Hws). cbn [bind].
  unfold m_str_join. rewrite str_items_strs. cbn [bind]. rewrite join_empty.
  reflexivity.
Qed.

(* ------------------------------------------------------------------ how the model's mappers are seen by the source *)

Definition donot_obj : pyval := ref (s2p "DoNotSerialize").
Definition enc_lower : pyval := PEnum (s2p "mappers") (s2p "TO_LOWERCASE") (zint 1).
Definition enc_camel : pyval := PEnum (s2p "mappers") (s2p "TO_CAMELCASE") (zint 2).

(* the enum class as the source declares it NOW: the two members the model knows, with these values *)
Lemma src_enum_mappers_members :
  alist_get Src_enum_mappers (s2p "TO_LOWERCASE") = Some 1%Z /\
  alist_get Src_enum_mappers (s2p "TO_CAMELCASE") = Some 2%Z /\
  map fst Src_enum_mappers = [s2p "TO_LOWERCASE"; s2p "TO_CAMELCASE"; s2p "CONFIGURATION"; s2p "NO_MAPPER"].
Proof. repeat split; reflexivity. Qed.

Fixpoint enc_mval (v : mval) : pyval :=
  match v with
  | Key s => PStr s
  | DoNot => donot_obj
  | Sub m =>
      PDict ((fix go (l : list (pystr * mval)) : list (pyval * pyval) :=
                match l with [] => [] | (k, x) :: t => (PStr k, enc_mval x) :: go t end) m)
  end.

Definition enc_kv (kv : pystr * mval) : pyval * pyval := (PStr (fst kv), enc_mval (snd kv)).
Definition enc_items (m : amap) : list (pyval * pyval) := map enc_kv m.
Definition enc_amap (m : amap) : pyval := PDict (enc_items m).
Definition enc_mapper (m : mapper) : pyval :=
  match m with MDict d => enc_amap d | MLower => enc_lower | MCamel => enc_camel end.
Definition enc_res (r : res amap) : res pyval :=
  match r with Ok m => Ok (enc_amap m) | Raise e => Raise e end.
Definition enc_res_mval (r : res mval) : res pyval :=
  match r with Ok v => Ok (enc_mval v) | Raise e => Raise e end.

Lemma enc_mval_sub m : enc_mval (Sub m) = enc_amap m.
Proof.
  unfold enc_amap, enc_items. cbn [enc_mval]. f_equal.
  induction m as [|[k x] t IH]; [reflexivity|]. cbn [map]. rewrite <- IH. reflexivity.
Qed.

(* strong induction on mapper values *)
Section mval_ind_strong.
  Variable P : mval -> Prop.
  Hypothesis HKey : forall s, P (Key s).
  Hypothesis HDoNot : P DoNot.
  Hypothesis HSub : forall m, Forall (fun p => P (snd p)) m -> P (Sub m).
  Fixpoint mval_ind' (v : mval) : P v :=
    match v with
    | Key s => HKey s
    | DoNot => HDoNot
    | Sub m =>
        HSub m ((fix go (l : list (pystr * mval)) : Forall (fun p => P (snd p)) l :=
                   match l with
                   | [] => Forall_nil _
                   | (k, x) :: t => Forall_cons (k, x) (mval_ind' x) (go t)
                   end) m)
    end.
End mval_ind_strong.

(* ------------------------------------------------------------------ the model's domain: ASCII text, real dicts *)

Fixpoint keys_unique (l : list pystr) : bool :=
  match l with
  | [] => true
  | k :: t => negb (str_in k t) && keys_unique t
  end.

Fixpoint mval_wf (v : mval) : bool :=
  match v with
  | Key s => ascii_str s
  | DoNot => true
  | Sub m =>
      keys_unique (map fst m) &&
      (fix go (l : list (pystr * mval)) : bool :=
         match l with [] => true | (k, x) :: t => ascii_str k && mval_wf x && go t end) m
  end.

Definition entry_wf (kv : pystr * mval) : bool := ascii_str (fst kv) && mval_wf (snd kv).
Definition amap_wf (m : amap) : bool := mval_wf (Sub m).
Definition mapper_wf (m : mapper) : bool := match m with MDict d => amap_wf d | _ => true end.

Lemma amap_wf_eq m : amap_wf m = keys_unique (map fst m) && forallb entry_wf m.
Proof.
  unfold amap_wf. cbn [mval_wf]. f_equal.
  induction m as [|[k x] t IH]; [reflexivity|]. cbn [forallb]. rewrite <- IH. reflexivity.
Qed.

Lemma amap_wf_cons k v t :
  amap_wf ((k, v) :: t) = true ->
  str_in k (map fst t) = false /\ ascii_str k = true /\ mval_wf v = true /\ amap_wf t = true.
Proof.
  rewrite !amap_wf_eq. cbn [map fst keys_unique forallb]. unfold entry_wf at 1. cbn [fst snd].
  intros H. apply andb_true_iff in H as [H1 H2]. apply andb_true_iff in H1 as [H1 H3].
  apply andb_true_iff in H2 as [H2 H4]. apply andb_true_iff in H2 as [H2 H5].
  apply negb_true_iff in H1. rewrite H3, H4. auto.
Qed.

Lemma amap_wf_in m k v : amap_wf m = true -> In (k, v) m -> ascii_str k = true /\ mval_wf v = true.
Proof.
  induction m as [|[k' v'] t IH]; intros Hw Hin; [destruct Hin|].
  apply amap_wf_cons in Hw as (_ & Hk & Hv & Ht).
  destruct Hin as [E|Hin]; [inversion E; subst; auto|apply IH; assumption].
Qed.

Lemma alist_get_in {A} (m : list (pystr * A)) k v : alist_get m k = Some v -> In (k, v) m.
Proof.
  induction m as [|[k' v'] t IH]; cbn [alist_get]; [discriminate|].
  destruct (pystr_eqb k' k) eqn:E.
  - intros H. inversion H; subst. apply pystr_eqb_spec in E. subst. left. reflexivity.
  - intros H. right. apply IH. exact H.
Qed.

Lemma alist_get_wf m k v : amap_wf m = true -> alist_get m k = Some v -> mval_wf v = true.
Proof. intros Hw Hg. apply alist_get_in in Hg. apply (amap_wf_in _ _ _ Hw Hg). Qed.

Lemma str_in_false_get {A} (m : list (pystr * A)) k : str_in k (map fst m) = false -> alist_get m k = None.
Proof.
  induction m as [|[k' v'] t IH]; [reflexivity|].
  cbn [map fst str_in existsb alist_get]. intros H. apply orb_false_iff in H as [H1 H2].
  rewrite pystr_eqb_sym, H1. apply IH. exact H2.
Qed.

Lemma in_str_in {A} (t : list (pystr * A)) k v : In (k, v) t -> str_in k (map fst t) = true.
Proof.
  induction t as [|[k' v'] u IH]; intros H; [destruct H|].
  cbn [map fst str_in existsb]. destruct H as [E|H].
  - inversion E; subst. rewrite pystr_eqb_refl. reflexivity.
  - unfold str_in in IH. rewrite (IH H). apply orb_true_r.
Qed.

(* in a real dict the entry iterated over is the one a lookup finds *)
Lemma alist_get_unique m k (v : mval) : amap_wf m = true -> In (k, v) m -> alist_get m k = Some v.
Proof.
  induction m as [|[k' v'] t IH]; intros Hw Hin; [destruct Hin|].
  apply amap_wf_cons in Hw as (Hn & _ & _ & Ht). cbn [alist_get].
  destruct Hin as [E|Hin].
  - inversion E; subst. rewrite pystr_eqb_refl. reflexivity.
  - destruct (pystr_eqb k' k) eqn:E.
    + apply pystr_eqb_spec in E. subst. rewrite (in_str_in t k v Hin) in Hn. discriminate.
    + apply IH; assumption.
Qed.

Example mval_wf_satisfiable :
  amap_wf [(s2p "a", Key (s2p "b")); (s2p "n._mapper", Sub [(s2p "x", DoNot)])] = true.
Proof. reflexivity. Qed.

(* ------------------------------------------------------------------ the operators on encoded values *)

Lemma dict_get_enc m k : dict_get (enc_items m) (PStr k) = option_map enc_mval (alist_get m k).
Proof.
  induction m as [|[k' v] t IH]; [reflexivity|].
  cbn [enc_items map enc_kv fst snd dict_get alist_get py_eq].
  destruct (pystr_eqb k' k); [reflexivity|exact IH].
Qed.

Lemma dict_set_enc m k v : dict_set (enc_items m) (PStr k) (enc_mval v) = enc_items (alist_set m k v).
Proof.
  induction m as [|[k' v'] t IH]; [reflexivity|].
  cbn [enc_items map enc_kv fst snd dict_set alist_set py_eq].
  destruct (pystr_eqb k' k); cbn [map enc_kv fst snd]; [reflexivity|].
  f_equal. exact IH.
Qed.

Lemma py_dict_get_enc m k d :
  py_dict_get (enc_amap m) (PStr k) d = Ok (match alist_get m k with Some v => enc_mval v | None => d end).
Proof.
  unfold py_dict_get, enc_amap. cbn [py_hashable']. rewrite dict_get_enc.
  destruct (alist_get m k); reflexivity.
Qed.

Lemma py_setitem_enc acc k v :
  py_setitem (enc_amap acc) (PStr k) (enc_mval v) = Ok (enc_amap (alist_set acc k v)).
Proof. unfold py_setitem, enc_amap. cbn [py_hashable']. rewrite dict_set_enc. reflexivity. Qed.

(* == on encoded values is the model's mval_eqb (dicts with unique keys) *)
Definition dict_sub (kv kw : list (pyval * pyval)) : bool :=
  forallb (fun p => existsb (fun q => py_eq (fst p) (fst q) && py_eq (snd p) (snd q)) kw) kv.

Lemma py_eq_dict kv kw : py_eq (PDict kv) (PDict kw) = Nat.eqb (length kv) (length kw) && dict_sub kv kw.
Proof.
  cbn [py_eq]. f_equal. unfold dict_sub.
  induction kv as [|[k x] t IH]; [reflexivity|]. cbn [forallb fst snd]. rewrite <- IH. reflexivity.
Qed.

Lemma mval_eqb_sub l m :
  mval_eqb (Sub l) (Sub m) =
  Nat.eqb (length l) (length m) &&
  forallb (fun kv => match alist_get m (fst kv) with Some w => mval_eqb (snd kv) w | None => false end) l.
Proof.
  cbn [mval_eqb]. f_equal.
  induction l as [|[k x] t IH]; [reflexivity|]. cbn [forallb fst snd]. rewrite <- IH. reflexivity.
Qed.

Lemma existsb_enc_absent (k : pystr) (x : pyval) t :
  str_in k (map fst t) = false ->
  existsb (fun q => py_eq (PStr k) (fst q) && py_eq x (snd q)) (enc_items t) = false.
Proof.
  induction t as [|[k' w] u IH]; [reflexivity|].
  cbn [map fst str_in existsb enc_items enc_kv snd py_eq]. intros H. apply orb_false_iff in H as [H1 H2].
  rewrite H1. cbn [andb orb]. apply IH. exact H2.
Qed.

Lemma existsb_enc_entry k x m :
  amap_wf m = true ->
  (forall b, mval_wf b = true -> py_eq (enc_mval x) (enc_mval b) = mval_eqb x b) ->
  existsb (fun q => py_eq (PStr k) (fst q) && py_eq (enc_mval x) (snd q)) (enc_items m)
  = match alist_get m k with Some w => mval_eqb x w | None => false end.
Proof.
  intros Hb Hx.
  induction m as [|[k' w] t IHt]; [reflexivity|].
  apply amap_wf_cons in Hb as (Hn & _ & Hw & Ht).
  change (enc_items ((k', w) :: t)) with ((PStr k', enc_mval w) :: enc_items t).
  cbn [existsb fst snd alist_get]. change (py_eq (PStr k) (PStr k')) with (pystr_eqb k k').
  rewrite (pystr_eqb_sym k k').
  destruct (pystr_eqb k' k) eqn:E.
  - apply pystr_eqb_spec in E. subst k'.
    rewrite (existsb_enc_absent k (enc_mval x) t Hn). rewrite orb_false_r. cbn [andb].
    apply Hx. exact Hw.
  - cbn [andb orb]. apply IHt. exact Ht.
Qed.

Lemma dict_sub_enc l m :
  amap_wf m = true ->
  Forall (fun p => forall b, mval_wf b = true -> py_eq (enc_mval (snd p)) (enc_mval b) = mval_eqb (snd p) b) l ->
  dict_sub (enc_items l) (enc_items m)
  = forallb (fun kv => match alist_get m (fst kv) with Some w => mval_eqb (snd kv) w | None => false end) l.
Proof.
  intros Hm HF. unfold dict_sub.
  induction l as [|[k x] u IHu]; [reflexivity|].
  inversion HF as [|? ? Hx Hu]; subst. cbn [snd] in Hx.
  change (enc_items ((k, x) :: u)) with ((PStr k, enc_mval x) :: enc_items u).
  cbn [forallb fst snd]. rewrite (IHu Hu). f_equal.
  apply existsb_enc_entry; assumption.
Qed.

Lemma py_eq_enc : forall a b, mval_wf b = true -> py_eq (enc_mval a) (enc_mval b) = mval_eqb a b.
Proof.
  induction a as [s| |l IHl] using mval_ind'; intros b Hb.
  - destruct b; reflexivity.
  - destruct b; reflexivity.
  - destruct b as [t| |m]; try reflexivity.
    rewrite !enc_mval_sub. unfold enc_amap. rewrite py_eq_dict, mval_eqb_sub.
    unfold enc_items at 1 2. rewrite !map_length. f_equal.
    apply dict_sub_enc; assumption.
Qed.

Lemma py_eq_enc_none a : py_eq (enc_mval a) PNone = false.
Proof. destruct a; reflexivity. Qed.

(* class and identity tests on encoded values: independent of the class table *)
Definition is_key (v : mval) : bool := match v with Key _ => true | _ => false end.
Definition is_donot (v : mval) : bool := match v with DoNot => true | _ => false end.
Definition is_subm (v : mval) : bool := match v with Sub _ => true | _ => false end.

Lemma isinst_str tbl v : m_isinstance tbl (enc_mval v) [MC_k K_str] = Ok (is_key v).
Proof. destruct v; reflexivity. Qed.
Lemma isinst_dict tbl v : m_isinstance tbl (enc_mval v) [MC_k K_dict] = Ok (is_subm v).
Proof. destruct v; reflexivity. Qed.
Lemma isinst_fcall tbl v : m_isinstance tbl (enc_mval v) [MC_cls (s2p "FunctionCall")] = Ok false.
Proof. destruct v; reflexivity. Qed.
Lemma is_donot_enc v : m_is_class (enc_mval v) (s2p "DoNotSerialize") = Ok (is_donot v).
Proof. destruct v; reflexivity. Qed.

Lemma isinst_mapper_top tbl m :
  m_isinstance tbl (enc_mapper m) [MC_Mapping; MC_enum (s2p "mappers")] = Ok true.
Proof. destruct m; reflexivity. Qed.
Lemma isinst_mapper_dict tbl m :
  m_isinstance tbl (enc_mapper m) [MC_k K_dict] = Ok (match m with MDict _ => true | _ => false end).
Proof. destruct m; reflexivity. Qed.
Lemma isinst_mapper_enum tbl m :
  m_isinstance tbl (enc_mapper m) [MC_enum (s2p "mappers")] = Ok (match m with MDict _ => false | _ => true end).
Proof. destruct m; reflexivity. Qed.

(* ------------------------------------------------------------------ _apply_mapper *)

Lemma m_str_upper_ascii s : ascii_str s = true -> m_str_upper (PStr s) = Ok (PStr (upper s)).
Proof. intros H. unfold m_str_upper, str_method. rewrite H. reflexivity. Qed.

(* _apply_mapper on an entry whose current key (`val`) is the ASCII str s: the value apply_key gives.
   [self] = is_self; with is_self the key itself is the current key, otherwise previous_mapper.get(key, key) *)
Lemma src_apply_mapper_val h latest key prev fs (self : bool) s :
  mapper_wf latest = true -> ascii_str s = true ->
  (if self then key = s else alist_get prev key = Some (Key s)) ->
  Src_apply_mapper h (enc_mapper latest) (PStr key) (enc_amap prev) (PBool fs) (PBool self)
  = Ok (enc_mval (apply_key latest s)).
Proof.
  intros Hl Hs Hval. unfold Src_apply_mapper.
  assert (E1 : (c <- Ok (py_truthy (PBool self)) ;;
                if c then Ok (PStr key) else (t1 <- py_dict_get (enc_amap prev) (PStr key) (PStr key) ;; Ok t1))
               = Ok (PStr s)).
  { cbn [bind py_truthy]. destruct self; [subst; reflexivity|].
    rewrite py_dict_get_enc, Hval. reflexivity. }
  rewrite E1. cbn [bind]. cbv zeta.
  destruct latest as [d| |].
  - (* a dict *)
    cbn [enc_mapper]. unfold enc_amap at 1 2 3. cbn [py_eqv py_eq bind].
    fold (enc_amap d). rewrite !py_dict_get_enc. cbn [bind].
    cbn [apply_key].
    assert (E2 : match alist_get d s with Some v => enc_mval v | None => PStr s end
                 = enc_mval (match alist_get d s with Some v => v | None => Key s end))
      by (destruct (alist_get d s); reflexivity).
    rewrite E2, isinst_fcall. cbn [bind]. reflexivity.
  - (* TO_LOWERCASE *)
    cbn [enc_mapper]. unfold enc_lower. cbn [py_eqv py_eq bind].
    change (pystr_eqb (s2p "mappers") (s2p "mappers")) with true.
    change (pystr_eqb (s2p "TO_LOWERCASE") (s2p "TO_CAMELCASE")) with false.
    change (pystr_eqb (s2p "TO_LOWERCASE") (s2p "TO_LOWERCASE")) with true.
    cbn [andb bind]. rewrite (m_str_upper_ascii s Hs). reflexivity.
  - (* TO_CAMELCASE *)
    cbn [enc_mapper]. unfold enc_camel. cbn [py_eqv py_eq bind].
    change (pystr_eqb (s2p "mappers") (s2p "mappers")) with true.
    change (pystr_eqb (s2p "TO_CAMELCASE") (s2p "TO_CAMELCASE")) with true.
    cbn [andb bind]. rewrite (src_convert_to_camelcase h s Hs). reflexivity.
Qed.

(* the form C07's model uses: a str-valued entry (k -> s) of the previous mapper *)
Theorem src_apply_mapper : forall h latest prev k s fs,
    mapper_wf latest = true -> ascii_str s = true -> alist_get prev k = Some (Key s) ->
    Src_apply_mapper h (enc_mapper latest) (PStr k) (enc_amap prev) (PBool fs) (PBool false)
    = Ok (enc_mval (apply_key latest s)).
Proof. intros. apply src_apply_mapper_val; assumption. Qed.

(* ... and the is_self form used for the key of a nested mapper *)
Theorem src_apply_mapper_self : forall h latest prev f fs,
    mapper_wf latest = true -> ascii_str f = true ->
    Src_apply_mapper h (enc_mapper latest) (PStr f) (enc_amap prev) (PBool fs) (PBool true)
    = Ok (enc_mval (apply_key latest f)).
Proof. intros. apply src_apply_mapper_val; [assumption|assumption|reflexivity]. Qed.

(* ------------------------------------------------------------------ add_mapper_to_aggregation *)

Lemma add_val_sub fs latest p : add_val fs latest (Sub p) = (r <- add_agg fs latest p ;; Ok (Sub r)).
Proof.
  unfold add_agg. cbn [add_val].
  destruct (add_loop fs latest (fun sub v' => add_val fs sub v') p []); reflexivity.
Qed.

Lemma add_agg_loop fs latest p :
  add_agg fs latest p = add_loop fs latest (fun sub v' => add_val fs sub v') p [].
Proof.
  unfold add_agg. cbn [add_val].
  destruct (add_loop fs latest (fun sub v' => add_val fs sub v') p []); reflexivity.
Qed.

(* the loop over previous_mapper.items() *)
Lemma foldM_add_loop (F : pyval -> pyval * pyval -> res pyval) fs latest rec l : forall acc,
    (forall acc kv, In kv l -> F (enc_amap acc) (enc_kv kv) = enc_res (add_step fs latest rec kv acc)) ->
    foldM F (enc_items l) (enc_amap acc) = enc_res (add_loop fs latest rec l acc).
Proof.
  induction l as [|kv t IH]; intros acc HF; [reflexivity|].
  change (enc_items (kv :: t)) with (enc_kv kv :: enc_items t).
  cbn [foldM add_loop]. rewrite (HF acc kv (or_introl eq_refl)).
  destruct (add_step fs latest rec kv acc) as [a|e]; cbn [enc_res bind]; [|reflexivity].
  apply IH. intros acc' kv' Hin. apply HF. right. exact Hin.
Qed.

Lemma suffix_lit : s2p "._mapper" = suffix.
Proof. reflexivity. Qed.

Lemma ends_with_suffix_spec k :
  ends_with_suffix k = if str_endswith k suffix then Some (firstn (length k - 8) k) else None.
Proof.
  unfold ends_with_suffix, str_endswith. change (length suffix) with 8%nat.
  destruct (Nat.leb 8 (length k)); cbn [andb]; [|reflexivity].
  destruct (pystr_eqb (skipn (length k - 8) k) suffix); reflexivity.
Qed.

Lemma slice_drop8 (k : pystr) :
  str_endswith k suffix = true -> slice_list (Some 0%Z) (Some (-8)%Z) k = firstn (length k - 8) k.
Proof.
  unfold str_endswith. change (length suffix) with 8%nat. intros H.
  apply andb_true_iff in H as [H _]. apply Nat.leb_le in H.
  unfold slice_list, clamp. change (0 <? 0)%Z with false. change (-8 <? 0)%Z with true. cbv iota.
  change (Z.to_nat 0) with 0%nat. rewrite Nat.min_0_r. cbn [skipn].
  replace (Z.to_nat (Z.max 0 (Z.of_nat (length k) + -8)) - 0)%nat with (length k - 8)%nat by lia.
  reflexivity.
Qed.

Lemma slice_drop8' (k : pystr) :
  str_endswith k suffix = true -> slice_list None (Some (-8)%Z) k = firstn (length k - 8) k.
Proof.
  unfold str_endswith. change (length suffix) with 8%nat. intros H.
  apply andb_true_iff in H as [H _]. apply Nat.leb_le in H.
  unfold slice_list, clamp. change (-8 <? 0)%Z with true. cbv iota. cbn [skipn].
  replace (Z.to_nat (Z.max 0 (Z.of_nat (length k) + -8)) - 0)%nat with (length k - 8)%nat by lia.
  reflexivity.
Qed.

Lemma ascii_firstn n s : ascii_str s = true -> ascii_str (firstn n s) = true.
Proof.
  revert n. induction s as [|c t IH]; intros n H; destruct n; try reflexivity.
  cbn [firstn ascii_str forallb] in *. apply andb_true_iff in H as [H1 H2].
  rewrite H1. apply IH. exact H2.
Qed.

(* a recursive call whose `latest_mapper` is not a mapping: the TypeError of the guard *)
Lemma src_add_fuel_str h f s prev fs :
  Src_add_mapper_to_aggregation_fuel h (S f) (PStr s) prev fs = Raise TypeError.
Proof. reflexivity. Qed.
Lemma src_add_fuel_donot h f prev fs :
  Src_add_mapper_to_aggregation_fuel h (S f) donot_obj prev fs = Raise TypeError.
Proof. reflexivity. Qed.

Lemma height_enc_in k v (m : amap) : In (k, v) m -> (py_height (enc_mval v) < py_height (enc_amap m))%nat.
Proof.
  intros Hin. unfold enc_amap. rewrite py_height_dict.
  assert (H : In (PStr k, enc_mval v) (enc_items m)) by (apply (in_map enc_kv m (k, v)); exact Hin).
  pose proof (dict_height_in _ _ _ H). lia.
Qed.

Lemma truthy_enc v :
  py_truthy (enc_mval v) = match v with Key [] | Sub [] => false | _ => true end.
Proof. destruct v as [[|c s]| |[|[k x] t]]; reflexivity. Qed.

(* `isinstance(latest_mapper, dict) and v == latest_mapper.get(k)` *)
Lemma shortcut_enc latest k v :
  mapper_wf latest = true ->
  py_and (m_isinstance mappers_class_table (enc_mapper latest) [MC_k K_dict])
         (fun _ => t7 <- py_dict_get (enc_mapper latest) (PStr k) PNone ;; py_eqv (enc_mval v) t7)
  = Ok (shortcut latest k v).
Proof.
  intros Hlatest.
  rewrite isinst_mapper_dict. destruct latest as [d| |]; try reflexivity.
  cbn [py_and bind enc_mapper shortcut]. rewrite py_dict_get_enc. cbn [bind py_eqv].
  destruct (alist_get d k) as [w|] eqn:E.
  - unfold py_eqv. rewrite py_eq_enc; [reflexivity|]. apply (alist_get_wf d k w Hlatest E).
  - unfold py_eqv. rewrite py_eq_enc_none. reflexivity.
Qed.

(* what `sub_mapper` is bound to for a nested entry *)
Definition sub_value (latest : mapper) (mk fname : pystr) : pyval :=
  match latest with
  | MDict d => match alist_get d (mk ++ suffix) with
               | Some x => enc_mval x
               | None => match alist_get d (fname ++ suffix) with Some y => enc_mval y | None => PNone end
               end
  | e => enc_mapper e
  end.

(* the text f"{mapped_key}" of a key: a str, or the class DoNotSerialize ("<class '...DoNotSerialize'>", read
   from the GENERATED table of class texts: the model's [donot_repr] is what the source's module path gives) *)
Definition key_text (X : mval) : res pystr :=
  match X with Key s => Ok s | DoNot => Ok donot_repr | Sub _ => Raise Unmodelled end.

Lemma m_format_enc X : m_format mappers_class_reprs (enc_mval X) = key_text X.
Proof. destruct X; reflexivity. Qed.

Lemma sub_mapper_enc latest kx mk fname :
  m_format mappers_class_reprs kx = Ok mk ->
  (c <- py_not (m_isinstance mappers_class_table (enc_mapper latest) [MC_enum (s2p "mappers")]) ;;
   if c then (s22 <- m_format mappers_class_reprs kx ;; s23 <- m_format mappers_class_reprs (PStr fname) ;;
              t24 <- py_dict_get (enc_mapper latest) (PStr (s23 ++ s2p "._mapper")%list) PNone ;;
              t25 <- py_dict_get (enc_mapper latest) (PStr (s22 ++ s2p "._mapper")%list) t24 ;; Ok t25)
   else Ok (enc_mapper latest))
  = Ok (sub_value latest mk fname).
Proof.
  intros Hfmt.
  rewrite isinst_mapper_enum. destruct latest as [d| |]; try reflexivity.
  cbn [py_not bind negb enc_mapper sub_value]. rewrite Hfmt. cbn [bind m_format]. rewrite suffix_lit.
  rewrite py_dict_get_enc. cbn [bind]. rewrite py_dict_get_enc. cbn [bind]. reflexivity.
Qed.

(* the recursive call on a nested mapper and the store of its result *)
Lemma rec_tail h f fs L' p acc kx mk :
  m_format mappers_class_reprs kx = Ok mk ->
  Src_add_mapper_to_aggregation_fuel h f (enc_mapper L') (enc_amap p) (PBool fs) = enc_res (add_agg fs L' p) ->
  (t28 <- Src_add_mapper_to_aggregation_fuel h f (enc_mapper L') (enc_mval (Sub p)) (PBool fs) ;;
   s29 <- m_format mappers_class_reprs kx ;;
   t30 <- py_setitem (enc_amap acc) (PStr (s29 ++ s2p "._mapper")%list) t28 ;; Ok t30)
  = enc_res (r' <- add_val fs L' (Sub p) ;; Ok (alist_set acc (mk ++ suffix) r')).
Proof.
  intros Hfmt IH. rewrite enc_mval_sub, IH, add_val_sub.
  destruct (add_agg fs L' p) as [r|e]; cbn [enc_res bind]; [|reflexivity].
  rewrite Hfmt. cbn [bind]. rewrite <- (enc_mval_sub r), py_setitem_enc. reflexivity.
Qed.

Lemma keep_tail acc kx mk v :
  m_format mappers_class_reprs kx = Ok mk ->
  (s32 <- m_format mappers_class_reprs kx ;;
   t33 <- py_setitem (enc_amap acc) (PStr (s32 ++ s2p "._mapper")%list) (enc_mval v) ;; Ok t33)
  = Ok (enc_amap (alist_set acc (mk ++ suffix) v)).
Proof. intros Hfmt. rewrite Hfmt. cbn [bind]. rewrite py_setitem_enc. reflexivity. Qed.

Lemma src_add_fuel : forall fuel h fs latest prev,
    (py_height (enc_amap prev) < fuel)%nat -> mapper_wf latest = true -> amap_wf prev = true ->
    Src_add_mapper_to_aggregation_fuel h fuel (enc_mapper latest) (enc_amap prev) (PBool fs)
    = enc_res (add_agg fs latest prev).
Proof.
  induction fuel as [|f IHf]; intros h fs latest prev Hh Hl Hp; [lia|].
  cbn [Src_add_mapper_to_aggregation_fuel]. cbv zeta.
  rewrite isinst_mapper_top. cbn [py_not bind negb].
  change (py_dict_items (enc_amap prev)) with (Ok (enc_items prev)). cbn [bind].
  rewrite add_agg_loop.
  change (PDict []) with (enc_amap []).
  rewrite (foldM_add_loop _ fs latest (fun sub v' => add_val fs sub v') prev []).
  - destruct (add_loop fs latest (fun sub v' => add_val fs sub v') prev []); reflexivity.
  - intros acc [k v] Hin. cbn beta. cbn [enc_kv fst snd].
    pose proof (alist_get_unique prev k v Hp Hin) as Hget.
    destruct (amap_wf_in prev k v Hp Hin) as [Hk Hv].
    rewrite (shortcut_enc latest k v Hl). cbn [bind add_step].
    destruct (shortcut latest k v).
    + rewrite ?py_dict_get_enc, ?Hget. cbn [bind]. rewrite py_setitem_enc. reflexivity.
    + rewrite is_donot_enc. cbn [bind].
      destruct v as [s| |p]; cbn [is_donot].
      * (* a str: _apply_mapper *)
        rewrite isinst_str. cbn [bind is_key].
        rewrite (src_apply_mapper h latest prev k s fs Hl Hv Hget). cbn [bind].
        rewrite py_setitem_enc. reflexivity.
      * (* DoNotSerialize *)
        change (ref (s2p "DoNotSerialize")) with (enc_mval DoNot). rewrite py_setitem_enc. reflexivity.
      * (* a nested mapper *)
        rewrite isinst_str, isinst_dict. cbn [bind is_key is_subm].
        change (py_str_endswith (PStr k) (PStr (s2p "._mapper"))) with (@Ok bool (str_endswith k suffix)).
        rewrite ends_with_suffix_spec. cbn [py_not bind].
        destruct (str_endswith k suffix) eqn:Eend; cbn [negb]; [|reflexivity].
        cbn [py_neg zint bind py_slice slice_index]. change (- (8))%Z with (-8)%Z. first [rewrite (slice_drop8 k Eend)|rewrite (slice_drop8' k Eend)].
        set (fname := firstn (length k - 8) k).
        assert (Hfn : ascii_str fname = true) by (apply ascii_firstn; exact Hk).
        pose proof (height_enc_in k (Sub p) prev Hin) as Hlt. rewrite enc_mval_sub in Hlt.
        assert (Hpf : (py_height (enc_amap p) < f)%nat) by lia.
        assert (Hpw : amap_wf p = true) by exact Hv.
        assert (Hf : exists f', f = S f').
        { destruct f as [|f']; [|eauto]. unfold enc_amap in Hpf. rewrite py_height_dict in Hpf. lia. }
        (* the key under which the nested mapper is stored *)
        assert (Hmk : exists X,
                   (if py_truthy (PBool fs) then Ok (PStr fname)
                    else (t19 <- Src_apply_mapper h (enc_mapper latest) (PStr fname) (enc_amap prev) (PBool fs) (PBool true) ;; Ok t19))
                   = Ok (enc_mval X) /\
                   (if fs then @Ok pystr fname else mapped_key_of latest fname) = key_text X /\
                   (is_key X = false -> exists d, latest = MDict d)).
        { destruct fs; cbn [py_truthy].
          - exists (Key fname). repeat split. discriminate.
          - exists (apply_key latest fname). rewrite (src_apply_mapper_self h latest prev fname false Hl Hfn).
            repeat split. destruct latest as [d| |]; [eauto| |]; discriminate. }
        destruct Hmk as (X & E20 & Ehand & Hdict). cbv beta iota. rewrite E20, Ehand. cbn [bind]. clear E20 Ehand.
        pose proof (m_format_enc X) as Hfmt.
        destruct (key_text X) as [mk|ex] eqn:Ekt.
        -- (* the key has a text: a str, or the class DoNotSerialize *)
           cbn [bind]. rewrite (sub_mapper_enc latest (enc_mval X) mk fname Hfmt). cbn [bind].
           destruct latest as [d| |].
           ++ cbn [sub_value sub_of].
              assert (Hsel : forall x, (alist_get d (mk ++ suffix) = Some x \/ alist_get d (fname ++ suffix) = Some x) ->
                        (if py_truthy (enc_mval x)
                         then (t28 <- Src_add_mapper_to_aggregation_fuel h f (enc_mval x) (enc_mval (Sub p)) (PBool fs) ;;
                               s29 <- m_format mappers_class_reprs (enc_mval X) ;;
                               t30 <- py_setitem (enc_amap acc) (PStr (s29 ++ s2p "._mapper")%list) t28 ;; Ok t30)
                         else (s32 <- m_format mappers_class_reprs (enc_mval X) ;;
                               t33 <- py_setitem (enc_amap acc) (PStr (s32 ++ s2p "._mapper")%list) (enc_mval (Sub p)) ;; Ok t33))
                        = enc_res (match x with
                                   | Sub [] | Key [] => Ok (alist_set acc (mk ++ suffix) (Sub p))
                                   | Sub sd => r' <- add_val fs (MDict sd) (Sub p) ;; Ok (alist_set acc (mk ++ suffix) r')
                                   | _ => Raise TypeError
                                   end)).
              { intros x Hx.
                assert (Hxw : mval_wf x = true) by (destruct Hx as [Hx|Hx]; apply (alist_get_wf d _ x Hl Hx)).
                destruct Hf as [f' ->].
                rewrite truthy_enc. destruct x as [[|c s]| |[|e q]].
                - rewrite (keep_tail acc _ mk _ Hfmt). reflexivity.
                - reflexivity.
                - reflexivity.
                - rewrite (keep_tail acc _ mk _ Hfmt). reflexivity.
                - rewrite (enc_mval_sub (e :: q)).
                  change (enc_amap (e :: q)) with (enc_mapper (MDict (e :: q))).
                  apply (rec_tail h (S f') fs (MDict (e :: q)) p acc _ mk Hfmt). apply IHf; assumption. }
              destruct (alist_get d (mk ++ suffix)) as [x|] eqn:E1.
              ** cbv beta iota. rewrite (Hsel x (or_introl eq_refl)). destruct x as [[|c s]| |[|e q]]; reflexivity.
              ** destruct (alist_get d (fname ++ suffix)) as [x|] eqn:E2; cbv beta iota.
                 --- rewrite (Hsel x (or_intror eq_refl)). destruct x as [[|c s]| |[|e q]]; reflexivity.
                 --- cbn [py_truthy]. rewrite (keep_tail acc _ mk _ Hfmt). reflexivity.
           ++ cbn [sub_value sub_of enc_mapper py_truthy enc_lower].
              change enc_lower with (enc_mapper MLower). apply (rec_tail h f fs MLower p acc _ mk Hfmt). apply IHf; assumption.
           ++ cbn [sub_value sub_of enc_mapper py_truthy enc_camel].
              change enc_camel with (enc_mapper MCamel). apply (rec_tail h f fs MCamel p acc _ mk Hfmt). apply IHf; assumption.
        -- (* the key would be built from a dict: neither side predicts *)
           assert (HX : is_key X = false) by (destruct X; [discriminate|discriminate|reflexivity]).
           destruct (Hdict HX) as [d ->].
           rewrite isinst_mapper_enum. cbn [py_not bind negb]. rewrite Hfmt. reflexivity.
Qed.

(* add_mapper_to_aggregation(latest_mapper, previous_mapper, for_serialization), for EVERY mapper and EVERY
   aggregated mapper of the model's domain *)
Theorem src_add_mapper_to_aggregation : forall h fs latest prev,
    mapper_wf latest = true -> amap_wf prev = true ->
    Src_add_mapper_to_aggregation h (enc_mapper latest) (enc_amap prev) (PBool fs)
    = enc_res (add_agg fs latest prev).
Proof.
  intros h fs latest prev Hl Hp. unfold Src_add_mapper_to_aggregation. apply src_add_fuel; [|assumption|assumption].
  cbn [heights fold_right]. lia.
Qed.

(* ------------------------------------------------------------------ the model stays inside its domain *)

Lemma ascii_up c : ascii_char c = true -> ascii_char (up c) = true.
Proof.
  unfold ascii_char, up, is_lower. intros H. apply N.ltb_lt in H.
  destruct ((97 <=? c) && (c <=? 122)); apply N.ltb_lt; lia.
Qed.

Lemma ascii_low c : ascii_char c = true -> ascii_char (low c) = true.
Proof.
  unfold ascii_char, low, is_upper. intros H.
  destruct ((65 <=? c) && (c <=? 90)) eqn:E; [|exact H].
  apply andb_true_iff in E as [_ E]. apply N.leb_le in E. apply N.ltb_lt. lia.
Qed.

Lemma ascii_upper_str s : ascii_str s = true -> ascii_str (upper s) = true.
Proof.
  unfold ascii_str, upper. induction s as [|c t IH]; [reflexivity|].
  cbn [map forallb]. intros H. apply andb_true_iff in H as [H1 H2].
  rewrite (ascii_up c H1). apply IH. exact H2.
Qed.

Lemma ascii_title_aux : forall s b, ascii_str s = true -> ascii_str (title_aux b s) = true.
Proof.
  unfold ascii_str. induction s as [|c t IH]; intros b H; [reflexivity|].
  cbn [forallb] in H. apply andb_true_iff in H as [H1 H2]. cbn [title_aux].
  destruct (is_lower c || is_upper c); cbn [forallb].
  - destruct b; [rewrite (ascii_low c H1)|rewrite (ascii_up c H1)]; apply IH; exact H2.
  - rewrite H1. apply IH. exact H2.
Qed.

Lemma ascii_concat_title ws : forallb ascii_str ws = true -> ascii_str (concat (map title ws)) = true.
Proof.
  induction ws as [|w t IH]; [reflexivity|]. cbn [forallb map concat]. intros H.
  apply andb_true_iff in H as [H1 H2]. rewrite ascii_str_app. unfold title.
  rewrite (ascii_title_aux w false H1). apply IH. exact H2.
Qed.

Lemma ascii_camel s : ascii_str s = true -> ascii_str (camel s) = true.
Proof.
  intros Hs. unfold camel, split_on.
  pose proof (split_aux_ascii us s [] eq_refl Hs) as Hall.
  destruct (split_aux us [] s) as [|w ws]; [reflexivity|].
  cbn [forallb] in Hall. apply andb_true_iff in Hall as [Hw Hws].
  rewrite ascii_str_app, Hw. apply ascii_concat_title. exact Hws.
Qed.

Lemma str_in_alist_set {A} (l : list (pystr * A)) k v x :
  str_in x (map fst (alist_set l k v)) = str_in x (map fst l) || pystr_eqb x k.
Proof.
  induction l as [|[k' v'] t IH]; cbn [alist_set map fst str_in existsb].
  - rewrite orb_false_r. reflexivity.
  - destruct (pystr_eqb k' k) eqn:E; cbn [map fst str_in existsb].
    + apply pystr_eqb_spec in E. subst. destruct (pystr_eqb x k); cbn [orb]; [reflexivity|].
      rewrite orb_false_r. reflexivity.
    + unfold str_in in IH. rewrite IH. rewrite orb_assoc. reflexivity.
Qed.

Lemma keys_unique_set {A} (l : list (pystr * A)) k v :
  keys_unique (map fst l) = true -> keys_unique (map fst (alist_set l k v)) = true.
Proof.
  induction l as [|[k' v'] t IH]; intros H; [reflexivity|].
  cbn [map fst keys_unique] in H. apply andb_true_iff in H as [H1 H2]. apply negb_true_iff in H1.
  cbn [alist_set]. destruct (pystr_eqb k' k) eqn:E; cbn [map fst keys_unique].
  - rewrite H1, H2. reflexivity.
  - rewrite str_in_alist_set, H1, E, (IH H2). reflexivity.
Qed.

Lemma forallb_alist_set {A} (P : pystr * A -> bool) (l : list (pystr * A)) k v :
  forallb P l = true -> P (k, v) = true -> (forall k' v', pystr_eqb k' k = true -> P (k', v') = P (k, v')) ->
  forallb P (alist_set l k v) = true.
Proof.
  intros Hl Hkv Hcompat. induction l as [|[k' v'] t IH]; cbn [alist_set forallb]; [rewrite Hkv; reflexivity|].
  cbn [forallb] in Hl. apply andb_true_iff in Hl as [H1 H2].
  destruct (pystr_eqb k' k) eqn:E; cbn [forallb].
  - rewrite (Hcompat k' v E), Hkv, H2. reflexivity.
  - rewrite H1. apply IH. exact H2.
Qed.

Lemma amap_wf_set acc k v :
  amap_wf acc = true -> ascii_str k = true -> mval_wf v = true -> amap_wf (alist_set acc k v) = true.
Proof.
  rewrite !amap_wf_eq. intros H Hk Hv. apply andb_true_iff in H as [H1 H2].
  rewrite (keys_unique_set acc k v H1). cbn [andb].
  apply forallb_alist_set; [exact H2|unfold entry_wf; cbn [fst snd]; rewrite Hk, Hv; reflexivity|].
  intros k' v' E. apply pystr_eqb_spec in E. subst. reflexivity.
Qed.

Lemma apply_key_wf latest s :
  mapper_wf latest = true -> ascii_str s = true -> mval_wf (apply_key latest s) = true.
Proof.
  intros Hl Hs. destruct latest as [d| |]; cbn [apply_key mval_wf].
  - destruct (alist_get d s) as [v|] eqn:E; [apply (alist_get_wf d s v Hl E)|exact Hs].
  - apply ascii_upper_str. exact Hs.
  - apply ascii_camel. exact Hs.
Qed.

Lemma ascii_suffix k : ascii_str k = true -> ascii_str (k ++ suffix) = true.
Proof. intros H. rewrite ascii_str_app, H. reflexivity. Qed.

Lemma add_loop_wf fs latest rec :
  forall l acc r,
    (forall k v sub r', In (k, v) l -> mapper_wf sub = true -> rec sub v = Ok r' -> mval_wf r' = true) ->
    mapper_wf latest = true -> amap_wf l = true -> amap_wf acc = true ->
    add_loop fs latest rec l acc = Ok r -> amap_wf r = true.
Proof.
  induction l as [|[k v] t IH]; intros acc r Hrec Hl Hw Hacc Hr.
  - cbn [add_loop] in Hr. inversion Hr; subst. exact Hacc.
  - apply amap_wf_cons in Hw as (_ & Hk & Hv & Ht).
    cbn [add_loop] in Hr.
    destruct (add_step fs latest rec (k, v) acc) as [a|e] eqn:Es; cbn [bind] in Hr; [|discriminate].
    apply (IH a r); try assumption.
    + intros k0 v0 sub r' Hin. apply (Hrec k0 v0 sub r'). right. exact Hin.
    + clear Hr IH. cbn [add_step] in Es.
      destruct (shortcut latest k v).
      { inversion Es; subst. apply amap_wf_set; assumption. }
      destruct v as [s| |p].
      * inversion Es; subst. apply amap_wf_set; [assumption|assumption|]. apply apply_key_wf; assumption.
      * inversion Es; subst. apply amap_wf_set; [assumption|assumption|reflexivity].
      * rewrite ends_with_suffix_spec in Es.
        destruct (str_endswith k suffix); [|discriminate].
        set (fname := firstn (length k - 8) k) in *.
        assert (Hfn : ascii_str fname = true) by (apply ascii_firstn; exact Hk).
        assert (Hmk : exists mk, (if fs then @Ok pystr fname else mapped_key_of latest fname) = Ok mk
                                 /\ ascii_str mk = true).
        { destruct fs; [eauto|]. unfold mapped_key_of in *.
          pose proof (apply_key_wf latest fname Hl Hfn) as Hak.
          destruct (apply_key latest fname) as [s| |q]; [eauto|exists donot_repr; split; reflexivity|].
          cbn [bind] in Es. discriminate. }
        destruct Hmk as (mk & Emk & Hmka). rewrite Emk in Es. cbn [bind] in Es.
        assert (Hkey : ascii_str (mk ++ suffix) = true) by (apply ascii_suffix; exact Hmka).
        destruct (sub_of latest mk fname) as [|sub|] eqn:Esub.
        -- inversion Es; subst. apply amap_wf_set; assumption.
        -- destruct (rec sub (Sub p)) as [r'|e] eqn:Er; cbn [bind] in Es; [|discriminate].
           inversion Es; subst. apply amap_wf_set; [assumption|assumption|].
           apply (Hrec k (Sub p) sub r'); [left; reflexivity| |exact Er].
           unfold sub_of in Esub. destruct latest as [d| |]; try (inversion Esub; subst; reflexivity).
           destruct (alist_get d (mk ++ suffix)) as [x|] eqn:E1.
           ++ destruct x as [[|c s]| |[|e q]]; try discriminate. inversion Esub; subst.
              apply (alist_get_wf d _ _ Hl E1).
           ++ destruct (alist_get d (fname ++ suffix)) as [x|] eqn:E2; [|discriminate].
              destruct x as [[|c s]| |[|e q]]; try discriminate. inversion Esub; subst.
              apply (alist_get_wf d _ _ Hl E2).
        -- discriminate.
Qed.

Lemma add_val_wf fs : forall v latest r,
    mapper_wf latest = true -> mval_wf v = true -> add_val fs latest v = Ok r -> mval_wf r = true.
Proof.
  induction v as [s| |p IHp] using mval_ind'; intros latest r Hl Hv Hr; try discriminate.
  cbn [add_val] in Hr.
  destruct (add_loop fs latest (fun sub v' => add_val fs sub v') p []) as [a|e] eqn:Ea; cbn [bind] in Hr; [|discriminate].
  inversion Hr; subst. change (mval_wf (Sub a)) with (amap_wf a).
  apply (add_loop_wf fs latest (fun sub v' => add_val fs sub v') p [] a); try assumption; [|reflexivity].
  intros k v sub r' Hin Hsub Hrec.
  rewrite Forall_forall in IHp. apply (IHp (k, v) Hin sub r' Hsub); [|exact Hrec].
  apply (amap_wf_in p k v Hv Hin).
Qed.

Lemma add_agg_wf fs latest prev r :
  mapper_wf latest = true -> amap_wf prev = true -> add_agg fs latest prev = Ok r -> amap_wf r = true.
Proof.
  intros Hl Hp Hr. unfold add_agg in Hr.
  destruct (add_val fs latest (Sub prev)) as [v|e] eqn:Ev; cbn [bind] in Hr; [|discriminate].
  pose proof (add_val_wf fs (Sub prev) latest v Hl Hp Ev) as Hv.
  destruct v; try discriminate. inversion Hr; subst. exact Hv.
Qed.

Lemma fold_add_raise fs L e : fold_add fs L (Raise e) = Raise e.
Proof. unfold fold_add. induction L as [|m t IH]; [reflexivity|]. cbn [fold_left bind]. exact IH. Qed.

Lemma fold_add_cons fs m t a : fold_add fs (m :: t) (Ok a) = fold_add fs t (add_agg fs m a).
Proof. reflexivity. Qed.

Lemma fold_add_app fs A B base : fold_add fs (A ++ B) base = fold_add fs B (fold_add fs A base).
Proof. unfold fold_add. apply fold_left_app. Qed.

Lemma fold_add_wf fs : forall L a r,
    forallb mapper_wf L = true -> amap_wf a = true -> fold_add fs L (Ok a) = Ok r -> amap_wf r = true.
Proof.
  induction L as [|m t IH]; intros a r HL Ha Hr.
  - inversion Hr; subst. exact Ha.
  - cbn [forallb] in HL. apply andb_true_iff in HL as [Hm Ht]. rewrite fold_add_cons in Hr.
    destruct (add_agg fs m a) as [a'|e] eqn:Ea; [|rewrite fold_add_raise in Hr; discriminate].
    apply (IH a' r Ht); [|exact Hr]. apply (add_agg_wf fs m a a' Hm Ha Ea).
Qed.

(* ------------------------------------------------------------------ classes *)

(* strong induction on class descriptions *)
Section classdef_ind_strong.
  Variable P : classdef -> Prop.
  Hypothesis HClass : forall fields ms,
      Forall (fun f => match snd f with Some (_, c') => P c' | None => True end) fields -> P (Class fields ms).
  Fixpoint classdef_ind' (c : classdef) : P c :=
    match c with
    | Class fields ms =>
        HClass fields ms
          ((fix go (fs : list (pystr * option (ckind * classdef)))
             : Forall (fun f => match snd f with Some (_, c') => P c' | None => True end) fs :=
              match fs with
              | [] => Forall_nil _
              | (k, None) :: t => Forall_cons (k, None) I (go t)
              | (k, Some (kd, c')) :: t => Forall_cons (k, Some (kd, c')) (classdef_ind' c') (go t)
              end) fields)
    end.
End classdef_ind_strong.

Fixpoint class_wf (c : classdef) : bool :=
  match c with
  | Class fields ms =>
      forallb mapper_wf ms &&
      (fix go (fs : list (pystr * option (ckind * classdef))) : bool :=
         match fs with
         | [] => true
         | (k, None) :: t => ascii_str k && go t
         | (k, Some (_, c')) :: t => ascii_str k && class_wf c' && go t
         end) fields
  end.

Definition field_wf (f : pystr * option (ckind * classdef)) : bool :=
  ascii_str (fst f) && match snd f with Some (_, c') => class_wf c' | None => true end.

Lemma class_wf_eq fields ms : class_wf (Class fields ms) = forallb mapper_wf ms && forallb field_wf fields.
Proof.
  cbn [class_wf]. f_equal. induction fields as [|[k [[kd c']|]] t IH]; [reflexivity| |];
    cbn [forallb]; unfold field_wf at 1; cbn [fst snd]; rewrite <- IH; [reflexivity|].
  rewrite andb_true_r. reflexivity.
Qed.

Definition override_wf (o : option amap) : bool := match o with Some d => amap_wf d | None => true end.

Definition nested_kinds : list pystr :=
  [s2p "ClassReference"; s2p "Array"; s2p "Set"; s2p "StructureReference"].

(* a Field object that the four isinstance tests of _set_base_mapper_no_op all reject *)
Definition plain_field (v : pyval) : bool :=
  match v with
  | PStruct c _ =>
      PyOpsFields.class_known mappers_class_table c &&
      negb (PyOpsFields.class_in mappers_class_table c nested_kinds)
  | _ => false
  end.

Example plain_field_satisfiable :
  plain_field (PStruct (s2p "Integer") []) = true /\ plain_field (PStruct (s2p "String") []) = true /\
  plain_field (PStruct (s2p "Map") []) = true /\ plain_field (PStruct (s2p "ImmutableSet") []) = false.
Proof. repeat split; vm_compute; reflexivity. Qed.

Definition cref (c : pyval) : pyval := PStruct (s2p "ClassReference") [(s2p "_ty", c)].
Definition coll (kd : ckind) (c : pyval) : pyval :=
  PStruct (match kd with KSet => s2p "Set" | _ => s2p "Array" end) [(s2p "items", cref c)].

Section Classes.
  Variable plain : pystr -> pyval.
  Hypothesis plain_ok : forall k, plain_field (plain k) = true.

  Fixpoint enc_class (c : classdef) : pyval :=
    match c with
    | Class fields ms =>
        PStruct (s2p "StructMeta")
          [(s2p "get_all_fields_by_name()",
            PDict ((fix go (fs : list (pystr * option (ckind * classdef))) : list (pyval * pyval) :=
                      match fs with
                      | [] => []
                      | (k, None) :: t => (PStr k, plain k) :: go t
                      | (k, Some (KRef, c')) :: t => (PStr k, cref (enc_class c')) :: go t
                      | (k, Some (kd, c')) :: t => (PStr k, coll kd (enc_class c')) :: go t
                      end) fields));
           (s2p "get_aggregated_serialization_mapper()", PList (map enc_mapper ms));
           (s2p "get_aggregated_deserialization_mapper()", PList (map enc_mapper ms))]
    end.

  Definition enc_field (f : pystr * option (ckind * classdef)) : pyval * pyval :=
    (PStr (fst f),
     match snd f with
     | None => plain (fst f)
     | Some (KRef, c') => cref (enc_class c')
     | Some (kd, c') => coll kd (enc_class c')
     end).

  Lemma enc_class_eq fields ms :
    enc_class (Class fields ms) =
    PStruct (s2p "StructMeta")
      [(s2p "get_all_fields_by_name()", PDict (map enc_field fields));
       (s2p "get_aggregated_serialization_mapper()", PList (map enc_mapper ms));
       (s2p "get_aggregated_deserialization_mapper()", PList (map enc_mapper ms))].
  Proof.
    cbn [enc_class]. do 4 f_equal.
    induction fields as [|[k [[[| |] c']|]] t IH]; [reflexivity| | | |]; cbn [map]; rewrite <- IH; reflexivity.
  Qed.

  Definition enc_override (o : option amap) : pyval := match o with Some d => enc_amap d | None => PNone end.

  (* ---- heights: the fuel the wrappers supply is enough *)
  Lemma height_struct1 n a x : py_height (PStruct n [(a, x)]) = S (Nat.max (py_height x) 0).
  Proof. reflexivity. Qed.

  Lemma height_class fields ms :
    (S (S (dict_height (map enc_field fields))) <= py_height (enc_class (Class fields ms)))%nat.
  Proof.
    rewrite enc_class_eq.
    change (py_height (PStruct (s2p "StructMeta")
                               [(s2p "get_all_fields_by_name()", PDict (map enc_field fields));
                                (s2p "get_aggregated_serialization_mapper()", PList (map enc_mapper ms));
                                (s2p "get_aggregated_deserialization_mapper()", PList (map enc_mapper ms))]))
      with (S (Nat.max (py_height (PDict (map enc_field fields)))
                       (Nat.max (py_height (PList (map enc_mapper ms)))
                                (Nat.max (py_height (PList (map enc_mapper ms))) 0)))).
    rewrite py_height_dict. lia.
  Qed.

  Lemma height_nested fields ms k kd c' :
    In (k, Some (kd, c')) fields ->
    (py_height (enc_class c') + 3 <= py_height (enc_class (Class fields ms)))%nat.
  Proof.
    intros Hin. pose proof (height_class fields ms) as H.
    assert (Hi : In (PStr k, match kd with KRef => cref (enc_class c') | _ => coll kd (enc_class c') end)
                    (map enc_field fields)) by (apply (in_map enc_field _ _ Hin)).
    pose proof (dict_height_in _ _ _ Hi) as Hd.
    assert (Hc : (S (py_height (enc_class c')) <=
                  py_height (match kd with KRef => cref (enc_class c') | _ => coll kd (enc_class c') end))%nat).
    { destruct kd; cbv beta iota; unfold coll, cref; rewrite ?height_struct1, ?Nat.max_0_r; lia. }
    destruct kd; cbv beta iota in Hc, Hd; lia.
  Qed.

  (* ---- the tests of _set_base_mapper_no_op on the field objects (computed on the GENERATED class table) *)
  Lemma plain_tests k :
    m_isinstance mappers_class_table (plain k) [MC_cls (s2p "ClassReference")] = Ok false /\
    m_isinstance mappers_class_table (plain k) [MC_cls (s2p "Array"); MC_cls (s2p "Set")] = Ok false /\
    m_isinstance mappers_class_table (plain k) [MC_cls (s2p "StructureReference")] = Ok false.
  Proof.
    pose proof (plain_ok k) as H. destruct (plain k) as [| | | | | | | | | |c attrs|]; try discriminate.
    cbn [plain_field] in H. apply andb_true_iff in H as [Hk Hn]. apply negb_true_iff in Hn.
    unfold PyOpsFields.class_in, nested_kinds in Hn. cbn [existsb] in Hn.
    apply orb_false_iff in Hn as [H1 Hn]. apply orb_false_iff in Hn as [H2 Hn].
    apply orb_false_iff in Hn as [H3 Hn]. apply orb_false_iff in Hn as [H4 _].
    cbn [m_isinstance m_isinstance1 bind]. rewrite Hk. cbn [bind]. rewrite H1, H2, H3, H4. auto.
  Qed.

  Lemma cref_tests x :
    m_isinstance mappers_class_table (cref x) [MC_cls (s2p "ClassReference")] = Ok true /\
    m_isinstance mappers_class_table (cref x) [MC_cls (s2p "Field")] = Ok true.
  Proof. split; reflexivity. Qed.

  Lemma coll_tests kd x :
    kd <> KRef ->
    m_isinstance mappers_class_table (coll kd x) [MC_cls (s2p "ClassReference")] = Ok false /\
    m_isinstance mappers_class_table (coll kd x) [MC_cls (s2p "Array"); MC_cls (s2p "Set")] = Ok true.
  Proof. intros H. destruct kd; [contradiction| |]; split; reflexivity. Qed.

  (* ---- the loops *)
  Lemma dict_set_absent (m : amap) k v :
    str_in k (map fst m) = false -> dict_set (enc_items m) (PStr k) v = enc_items m ++ [(PStr k, v)].
  Proof.
    induction m as [|[k' v'] t IH]; [reflexivity|].
    cbn [map fst str_in existsb]. intros H. apply orb_false_iff in H as [H1 H2].
    change (enc_items ((k', v') :: t)) with ((PStr k', enc_mval v') :: enc_items t).
    cbn [dict_set app]. change (py_eq (PStr k') (PStr k)) with (pystr_eqb k' k).
    rewrite pystr_eqb_sym, H1. f_equal. apply IH. exact H2.
  Qed.

  (* values = {}; values.update(val)  for a real dict val: a copy of it *)
  Lemma update_fresh : forall (m a : amap),
      keys_unique (map fst (a ++ m)) = true ->
      fold_left (fun acc p => dict_set acc (fst p) (snd p)) (enc_items m) (enc_items a) = enc_items (a ++ m).
  Proof.
    induction m as [|[k v] t IH]; intros a H; [rewrite app_nil_r; reflexivity|].
    change (enc_items ((k, v) :: t)) with ((PStr k, enc_mval v) :: enc_items t).
    cbn [fold_left fst snd].
    assert (Hk : str_in k (map fst a) = false).
    { clear IH. induction a as [|[k' v'] u IHu]; [reflexivity|].
      cbn [app map fst keys_unique] in H. apply andb_true_iff in H as [H1 H2]. apply negb_true_iff in H1.
      specialize (IHu H2).
      rewrite map_app in H1. unfold str_in in H1. rewrite existsb_app in H1.
      apply orb_false_iff in H1 as [_ H1]. cbn [map fst existsb] in H1.
      apply orb_false_iff in H1 as [H1 _].
      unfold str_in in *. cbn [map fst existsb]. rewrite IHu, orb_false_r, pystr_eqb_sym. exact H1. }
    rewrite (dict_set_absent a k (enc_mval v) Hk).
    change (enc_items a ++ [(PStr k, enc_mval v)]) with (enc_items a ++ enc_items [(k, v)]).
    unfold enc_items at 2 3. rewrite <- map_app. fold (enc_items (a ++ [(k, v)])).
    rewrite (IH (a ++ [(k, v)])); rewrite <- app_assoc; [reflexivity|exact H].
  Qed.

  Lemma m_dict_update_fresh (m : amap) :
    amap_wf m = true -> m_dict_update (enc_amap []) (enc_amap m) = Ok (enc_amap m).
  Proof.
    intros H. rewrite amap_wf_eq in H. apply andb_true_iff in H as [H _].
    unfold m_dict_update, enc_amap.
    rewrite (update_fresh m [] H). reflexivity.
  Qed.

  Lemma foldM_base_loop (F : pyval -> pyval * pyval -> res pyval) rec fields : forall acc,
      (forall acc f, In f fields -> F (enc_amap acc) (enc_field f) = enc_res (base_step rec f acc)) ->
      foldM F (map enc_field fields) (enc_amap acc) = enc_res (base_loop rec fields acc).
  Proof.
    induction fields as [|f t IH]; intros acc HF; [reflexivity|].
    cbn [map foldM base_loop]. rewrite (HF acc f (or_introl eq_refl)).
    destruct (base_step rec f acc) as [a|e]; cbn [enc_res bind]; [|reflexivity].
    apply IH. intros acc' f' Hin. apply HF. right. exact Hin.
  Qed.

  Lemma foldM_fold_add (F : pyval -> pyval -> res pyval) fs ms : forall base,
      forallb mapper_wf ms = true -> amap_wf base = true ->
      (forall a m, In m ms -> amap_wf a = true -> F (enc_amap a) (enc_mapper m) = enc_res (add_agg fs m a)) ->
      foldM F (map enc_mapper ms) (enc_amap base) = enc_res (fold_add fs ms (Ok base)).
  Proof.
    induction ms as [|m t IH]; intros base Hms Hb HF; [reflexivity|].
    cbn [forallb] in Hms. apply andb_true_iff in Hms as [Hm Ht].
    cbn [map foldM]. rewrite fold_add_cons, (HF base m (or_introl eq_refl) Hb).
    destruct (add_agg fs m base) as [a|e] eqn:Ea; cbn [enc_res bind]; [|rewrite fold_add_raise; reflexivity].
    apply IH; [exact Ht|apply (add_agg_wf fs m base a Hm Hb Ea)|].
    intros a' m' Hin. apply HF. right. exact Hin.
  Qed.

  (* ---- what the model computes stays in its domain *)
  Lemma base_loop_wf (rec : classdef -> res amap) : forall fields acc r,
      (forall k kd c' sub, In (k, Some (kd, c')) fields -> rec c' = Ok sub -> amap_wf sub = true) ->
      forallb field_wf fields = true -> amap_wf acc = true ->
      base_loop rec fields acc = Ok r -> amap_wf r = true.
  Proof.
    induction fields as [|[k fk] t IH]; intros acc r Hrec Hw Hacc Hr.
    - inversion Hr; subst. exact Hacc.
    - cbn [forallb] in Hw. apply andb_true_iff in Hw as [Hf Ht]. unfold field_wf in Hf. cbn [fst snd] in Hf.
      apply andb_true_iff in Hf as [Hk Hc].
      cbn [base_loop] in Hr.
      destruct (base_step rec (k, fk) acc) as [a|e] eqn:Es; cbn [bind] in Hr; [|discriminate].
      apply (IH a r); try assumption.
      + intros k0 kd c' sub Hin. apply (Hrec k0 kd c' sub). right. exact Hin.
      + clear IH Hr. cbn [base_step] in Es. destruct fk as [[kd c']|].
        * destruct (rec c') as [sub|e] eqn:Er; cbn [bind] in Es; [|discriminate].
          pose proof (Hrec k kd c' sub (or_introl eq_refl) Er) as Hsub.
          inversion Es; subst. apply amap_wf_set; [|exact Hk|exact Hk].
          destruct kd; [|destruct sub|destruct sub]; try exact Hacc;
            (apply amap_wf_set; [exact Hacc|apply ascii_suffix; exact Hk|exact Hsub]).
        * inversion Es; subst. apply amap_wf_set; [exact Hacc|exact Hk|exact Hk].
  Qed.

  Lemma agg_list_wf fs : forall c L r,
      class_wf c = true -> (match L with Some l => forallb mapper_wf l | None => true end) = true ->
      agg_list fs c L = Ok r -> amap_wf r = true.
  Proof.
    induction c as [fields ms IHc] using classdef_ind'; intros L r Hc HL Hr.
    rewrite class_wf_eq in Hc. apply andb_true_iff in Hc as [Hms Hfs].
    cbn [agg_list] in Hr.
    destruct (base_loop (fun c' => agg_list fs c' None) fields []) as [base|e] eqn:Eb;
      [|rewrite fold_add_raise in Hr; discriminate].
    apply (fold_add_wf fs (match L with Some l => l | None => ms end) base r); [destruct L; assumption| |exact Hr].
    apply (base_loop_wf (fun c' => agg_list fs c' None) fields [] base); [|exact Hfs|reflexivity|exact Eb].
    intros k kd c' sub Hin Hsub. rewrite Forall_forall in IHc.
    apply (IHc (k, Some (kd, c')) Hin None sub); [|reflexivity|exact Hsub].
    rewrite forallb_forall in Hfs. specialize (Hfs _ Hin). unfold field_wf in Hfs. cbn [fst snd] in Hfs.
    apply andb_true_iff in Hfs as [_ Hfs]. exact Hfs.
  Qed.

  (* ---- _set_base_mapper_no_op and aggregate_(de)serialization_mappers, together, by induction on the fuel *)
  Definition Src_agg_fuel (h : heap) (fuel : nat) (fs : bool) : pyval -> pyval -> pyval -> res pyval :=
    if fs then Src_aggregate_serialization_mappers_fuel h fuel
    else Src_aggregate_deserialization_mappers_fuel h fuel.

  Definition agg_ok (fuel : nat) : Prop :=
    forall h fs c override camel,
      (py_height (enc_class c) < fuel)%nat -> class_wf c = true -> override_wf override = true ->
      Src_agg_fuel h fuel fs (enc_class c) (enc_override override) (PBool camel)
      = enc_res (aggregate fs c override camel).

  Definition base_ok (fuel : nat) : Prop :=
    forall h fs c,
      (py_height (enc_class c) <= fuel)%nat -> class_wf c = true ->
      Src_set_base_mapper_no_op_fuel h fuel (enc_class c) (PBool fs) = enc_res (base_noop fs c).

  Lemma bind_enc_res_id (r : res amap) : (t <- enc_res r ;; Ok t) = enc_res r.
  Proof. destruct r; reflexivity. Qed.

  Lemma agg_list_none fs c : agg_list fs c None = aggregate fs c None false.
  Proof. destruct c as [fields ms]. unfold aggregate, used_list. cbn [cms]. rewrite app_nil_r. reflexivity. Qed.

  (* `aggregate_serialization_mappers(x._ty) if for_serialization else aggregate_deserialization_mappers(x._ty)` *)
  Lemma nested_agg_enc f h fs c' :
    agg_ok f -> (py_height (enc_class c') < f)%nat -> class_wf c' = true ->
    (c0 <- Ok (py_truthy (PBool fs)) ;;
     if c0
     then (t8 <- PyOpsFields.fld_getattr h (cref (enc_class c')) (s2p "_ty") ;;
           t9 <- Src_aggregate_serialization_mappers_fuel h f t8 PNone (PBool false) ;; Ok t9)
     else (t10 <- PyOpsFields.fld_getattr h (cref (enc_class c')) (s2p "_ty") ;;
           t11 <- Src_aggregate_deserialization_mappers_fuel h f t10 PNone (PBool false) ;; Ok t11))
    = enc_res (agg_list fs c' None).
  Proof.
    intros IHa Hh Hc. cbn [bind py_truthy].
    change (PyOpsFields.fld_getattr h (cref (enc_class c')) (s2p "_ty")) with (Ok (enc_class c')).
    cbn [bind]. rewrite agg_list_none.
    pose proof (IHa h fs c' None false Hh Hc eq_refl) as E. unfold Src_agg_fuel in E. cbn [enc_override] in E.
    destruct fs; rewrite E; apply bind_enc_res_id.
  Qed.

  Lemma setitem_self acc k : py_setitem (enc_amap acc) (PStr k) (PStr k) = Ok (enc_amap (alist_set acc k (Key k))).
  Proof. apply (py_setitem_enc acc k (Key k)). Qed.

  Lemma setitem_sub acc k sub :
    py_setitem (enc_amap acc) (PStr k) (enc_amap sub) = Ok (enc_amap (alist_set acc k (Sub sub))).
  Proof. rewrite <- (enc_mval_sub sub). apply py_setitem_enc. Qed.

  Lemma truthy_amap (m : amap) : py_truthy (enc_amap m) = match m with [] => false | _ => true end.
  Proof. destruct m; reflexivity. Qed.

  Lemma base_step_ok f : agg_ok f -> base_ok (S f).
  Proof.
    intros IHa h fs [fields ms] Hh Hc.
    cbn [Src_set_base_mapper_no_op_fuel]. cbv zeta.
    rewrite enc_class_eq.
    change (PyOpsFields.fld_getattr h
              (PStruct (s2p "StructMeta")
                       [(s2p "get_all_fields_by_name()", PDict (map enc_field fields));
                        (s2p "get_aggregated_serialization_mapper()", PList (map enc_mapper ms));
                        (s2p "get_aggregated_deserialization_mapper()", PList (map enc_mapper ms))])
              (s2p "get_all_fields_by_name()"))
      with (Ok (PDict (map enc_field fields))).
    cbn [bind py_dict_items].
    unfold base_noop. cbn [agg_list]. unfold fold_add. cbn [fold_left].
    change (PDict []) with (enc_amap []).
    rewrite class_wf_eq in Hc. apply andb_true_iff in Hc as [Hms Hfs].
    rewrite (foldM_base_loop _ (fun c' => agg_list fs c' None) fields []).
    - apply bind_enc_res_id.
    - intros acc [k fk] Hin. cbn beta. unfold enc_field. cbn [fst snd base_step].
      rewrite forallb_forall in Hfs. pose proof (Hfs _ Hin) as Hf. unfold field_wf in Hf. cbn [fst snd] in Hf.
      apply andb_true_iff in Hf as [Hk Hcw].
      destruct fk as [[kd c']|].
      + (* a nested class *)
        pose proof (height_nested fields ms k kd c' Hin) as Hn.
        assert (Hlt : (py_height (enc_class c') < f)%nat) by lia.
        pose proof (nested_agg_enc f h fs c' IHa Hlt Hcw) as Enest. cbn [bind] in Enest.
        assert (Hsubwf : forall sub, agg_list fs c' None = Ok sub -> amap_wf sub = true)
          by (intros sub Hs; apply (agg_list_wf fs c' None sub Hcw eq_refl Hs)).
        destruct kd; cbv beta iota.
        * (* ClassReference *)
          destruct (cref_tests (enc_class c')) as [E1 _]. rewrite E1. cbn [bind].
          rewrite Enest.
          destruct (agg_list fs c' None) as [sub|e]; cbn [enc_res bind]; [|reflexivity].
          cbn [m_format bind]. rewrite setitem_sub. cbn [bind]. rewrite setitem_self. reflexivity.
        * (* Array *)
          destruct (coll_tests KArr (enc_class c')) as [E1 E2]; [discriminate|]. rewrite E1. cbn [bind]. rewrite E2. cbn [bind].
          change (m_getattr_obj h (coll KArr (enc_class c')) (s2p "items")) with (Ok (cref (enc_class c'))).
          cbn [bind]. destruct (cref_tests (enc_class c')) as [E3 E4]. rewrite E4. cbn [bind py_iter foldM].
          rewrite E3. cbn [bind]. rewrite Enest.
          destruct (agg_list fs c' None) as [sub|e] eqn:Es; cbn [enc_res bind]; [|reflexivity].
          rewrite (m_dict_update_fresh sub (Hsubwf sub eq_refl)). cbn [bind]. rewrite truthy_amap.
          destruct sub as [|e q]; cbn [bind].
          -- rewrite setitem_self. reflexivity.
          -- cbn [m_format bind]. rewrite setitem_sub. cbn [bind]. rewrite setitem_self. reflexivity.
        * (* Set *)
          destruct (coll_tests KSet (enc_class c')) as [E1 E2]; [discriminate|]. rewrite E1. cbn [bind]. rewrite E2. cbn [bind].
          change (m_getattr_obj h (coll KSet (enc_class c')) (s2p "items")) with (Ok (cref (enc_class c'))).
          cbn [bind]. destruct (cref_tests (enc_class c')) as [E3 E4]. rewrite E4. cbn [bind py_iter foldM].
          rewrite E3. cbn [bind]. rewrite Enest.
          destruct (agg_list fs c' None) as [sub|e] eqn:Es; cbn [enc_res bind]; [|reflexivity].
          rewrite (m_dict_update_fresh sub (Hsubwf sub eq_refl)). cbn [bind]. rewrite truthy_amap.
          destruct sub as [|e q]; cbn [bind].
          -- rewrite setitem_self. reflexivity.
          -- cbn [m_format bind]. rewrite setitem_sub. cbn [bind]. rewrite setitem_self. reflexivity.
      + (* a plain field *)
        destruct (plain_tests k) as (E1 & E2 & E3). rewrite E1. cbn [bind]. rewrite E2. cbn [bind].
        rewrite E3. cbn [bind]. rewrite setitem_self. reflexivity.
  Qed.

  Lemma aggregate_fold fs c override camel :
    aggregate fs c override camel = fold_add fs (used_list c override camel) (base_noop fs c).
  Proof.
    destruct c as [fields ms]. unfold aggregate, base_noop. cbn [agg_list]. unfold fold_add at 2. reflexivity.
  Qed.

  Definition chosen_list (ms : list mapper) (override : option amap) : list mapper :=
    match override with Some ((_ :: _) as d) => [MDict d] | _ => ms end.

  Lemma used_list_eq fields ms override camel :
    used_list (Class fields ms) override camel = chosen_list ms override ++ (if camel then [MCamel] else []).
  Proof. reflexivity. Qed.

  (* the normalisation of `override_mapper` and the choice of the list *)
  Lemma override_enc override :
    (c <- m_isinstance mappers_class_table (enc_override override) [MC_k K_list] ;;
     if c then Ok (enc_override override)
     else (t4 <- (c0 <- Ok (py_truthy (enc_override override)) ;;
                  if c0 then Ok (PList [enc_override override]) else Ok PNone) ;; Ok t4))
    = Ok (match override with Some ((_ :: _) as d) => PList [enc_amap d] | _ => PNone end).
  Proof. destruct override as [[|e q]|]; reflexivity. Qed.

  Lemma chosen_enc override (ms : list mapper) (getter : res pyval) (t5 : pyval) :
    t5 = match override with Some ((_ :: _) as d) => PList [enc_amap d] | _ => PNone end ->
    getter = Ok (PList (map enc_mapper ms)) ->
    (if py_truthy t5 then Ok t5 else (t7 <- getter ;; Ok t7))
    = Ok (PList (map enc_mapper (chosen_list ms override))).
  Proof. intros -> ->. destruct override as [[|e q]|]; reflexivity. Qed.

  Lemma chosen_wf ms override :
    forallb mapper_wf ms = true -> override_wf override = true -> forallb mapper_wf (chosen_list ms override) = true.
  Proof.
    intros Hms Ho. destruct override as [[|e q]|]; try exact Hms.
    cbn [chosen_list forallb mapper_wf]. cbn [override_wf] in Ho. rewrite Ho. reflexivity.
  Qed.

  Lemma add_one_enc h fs m a :
    mapper_wf m = true -> amap_wf a = true ->
    (t14 <- Src_add_mapper_to_aggregation h (enc_mapper m) (enc_amap a) (PBool fs) ;; Ok t14)
    = enc_res (add_agg fs m a).
  Proof. intros Hm Ha. rewrite (src_add_mapper_to_aggregation h fs m a Hm Ha). apply bind_enc_res_id. Qed.

  Ltac agg_tail h fs fields ms override camel Hc Ho :=
    rewrite aggregate_fold, used_list_eq, fold_add_app;
    let Hms := fresh "Hms" in let Hfs := fresh "Hfs" in
    pose proof Hc as Hms; rewrite class_wf_eq in Hms; apply andb_true_iff in Hms as [Hms Hfs];
    let base := fresh "base" in let e := fresh "e" in let Eb := fresh "Eb" in
    destruct (base_noop fs (Class fields ms)) as [base|e] eqn:Eb;
    [|rewrite !fold_add_raise; reflexivity];
    cbn [enc_res bind];
    let Hbase := fresh "Hbase" in
    assert (Hbase : amap_wf base = true) by (apply (agg_list_wf fs (Class fields ms) (Some []) base Hc eq_refl Eb));
    rewrite override_enc; cbn [bind];
    erewrite (chosen_enc override ms); [|reflexivity|reflexivity]; cbn [bind py_iter];
    pose proof (chosen_wf ms override Hms Ho) as HL;
    rewrite (foldM_fold_add _ fs (chosen_list ms override) base HL Hbase);
    [ let agg := fresh "agg" in let Ef := fresh "Ef" in
      destruct (fold_add fs (chosen_list ms override) (Ok base)) as [agg|e] eqn:Ef;
      [|rewrite fold_add_raise; reflexivity];
      cbn [enc_res bind py_truthy];
      destruct camel;
      [ change (PEnum (s2p "mappers") (s2p "TO_CAMELCASE") (zint 2)) with (enc_mapper MCamel);
        rewrite (add_one_enc h fs MCamel agg eq_refl (fold_add_wf fs _ base agg HL Hbase Ef)); reflexivity
      | reflexivity ]
    | let a := fresh "a" in let m := fresh "m" in let Hin := fresh "Hin" in let Ha := fresh "Ha" in
      intros a m Hin Ha; cbn beta; apply add_one_enc; [|exact Ha];
      rewrite forallb_forall in HL; apply HL; exact Hin ].

  Lemma agg_step_ok f : base_ok f -> agg_ok (S f).
  Proof.
    intros IHb h fs [fields ms] override camel Hh Hc Ho.
    assert (Hb : Src_set_base_mapper_no_op_fuel h f (enc_class (Class fields ms)) (PBool fs)
                 = enc_res (base_noop fs (Class fields ms))) by (apply IHb; [lia|exact Hc]).
    unfold Src_agg_fuel. destruct fs.
    - cbn [Src_aggregate_serialization_mappers_fuel]. cbv zeta. rewrite Hb.
      agg_tail h true fields ms override camel Hc Ho.
    - cbn [Src_aggregate_deserialization_mappers_fuel]. cbv zeta. rewrite Hb.
      agg_tail h false fields ms override camel Hc Ho.
  Qed.

  Theorem src_fuel_ok : forall fuel, agg_ok fuel /\ base_ok fuel.
  Proof.
    induction fuel as [|f [IHa IHb]].
    - split.
      + intros h fs c override camel Hh. lia.
      + intros h fs [fields ms] Hh. rewrite enc_class_eq in Hh. cbn [py_height] in Hh. lia.
    - split; [apply agg_step_ok; exact IHb|apply base_step_ok; exact IHa].
  Qed.
End Classes.

(* ------------------------------------------------------------------ the functions as the callers see them *)

(* [plain k] is the Field object of a field k that holds no nested class: ANY object of a class of the
   package's table outside the ClassReference / Array / Set / StructureReference families *)
Definition plain_ok (plain : pystr -> pyval) : Prop := forall k, plain_field (plain k) = true.

Example plain_ok_satisfiable : plain_ok (fun _ => PStruct (s2p "Integer") []).
Proof. intros k. vm_compute. reflexivity. Qed.

(* _set_base_mapper_no_op(cls, for_serialization), for EVERY class of the model's domain *)
Theorem src_set_base_mapper_no_op : forall plain, plain_ok plain -> forall h fs c,
    class_wf c = true ->
    Src_set_base_mapper_no_op h (enc_class plain c) (PBool fs) = enc_res (base_noop fs c).
Proof.
  intros plain Hp h fs c Hc. unfold Src_set_base_mapper_no_op.
  apply (proj2 (src_fuel_ok plain Hp _)); [|exact Hc]. cbn [heights fold_right]. lia.
Qed.

(* aggregate_serialization_mappers(cls, override_mapper, camel_case_convert) *)
Theorem src_aggregate_serialization_mappers : forall plain, plain_ok plain -> forall h c override camel,
    class_wf c = true -> override_wf override = true ->
    Src_aggregate_serialization_mappers h (enc_class plain c) (enc_override override) (PBool camel)
    = enc_res (aggregate true c override camel).
Proof.
  intros plain Hp h c override camel Hc Ho. unfold Src_aggregate_serialization_mappers.
  pose proof (proj1 (src_fuel_ok plain Hp (S (heights [enc_class plain c; enc_override override; PBool camel])))
                    h true c override camel) as E.
  unfold Src_agg_fuel in E. apply E; [|exact Hc|exact Ho]. cbn [heights fold_right]. lia.
Qed.

(* aggregate_deserialization_mappers(cls, override_mapper, camel_case_convert) *)
Theorem src_aggregate_deserialization_mappers : forall plain, plain_ok plain -> forall h c override camel,
    class_wf c = true -> override_wf override = true ->
    Src_aggregate_deserialization_mappers h (enc_class plain c) (enc_override override) (PBool camel)
    = enc_res (aggregate false c override camel).
Proof.
  intros plain Hp h c override camel Hc Ho. unfold Src_aggregate_deserialization_mappers.
  pose proof (proj1 (src_fuel_ok plain Hp (S (heights [enc_class plain c; enc_override override; PBool camel])))
                    h false c override camel) as E.
  unfold Src_agg_fuel in E. apply E; [|exact Hc|exact Ho]. cbn [heights fold_right]. lia.
Qed.

(* with an explicit list of mappers: what C07's theorems about [agg_list] speak of *)
Corollary src_aggregate_class_list : forall plain, plain_ok plain -> forall h (fs : bool) c,
    class_wf c = true ->
    (if fs then Src_aggregate_serialization_mappers h (enc_class plain c) PNone (PBool false)
     else Src_aggregate_deserialization_mappers h (enc_class plain c) PNone (PBool false))
    = enc_res (agg_list fs c None).
Proof.
  intros plain Hp h fs c Hc. rewrite agg_list_none.
  destruct fs; [apply (src_aggregate_serialization_mappers plain Hp h c None false Hc eq_refl)
               |apply (src_aggregate_deserialization_mappers plain Hp h c None false Hc eq_refl)].
Qed.

(* non-vacuity: the documented chain of Props/C07.v is inside the domain *)
Example class_wf_satisfiable :
  let nested := Class [(s2p "in_x", None)] [MCamel] in
  let L := [MDict [(s2p "i", Key (s2p "j")); (s2p "s", Key (s2p "name"))]; MDict [(s2p "j", DoNot)]; MLower] in
  class_wf (Class [(s2p "i", None); (s2p "s", None); (s2p "sub", Some (KRef, nested)); (s2p "arr", Some (KArr, nested))] L) = true
  /\ override_wf (Some [(s2p "i", Key (s2p "x")); (s2p "sub._mapper", Sub [(s2p "in_x", Key (s2p "y"))])]) = true.
Proof. split; vm_compute; reflexivity. Qed.

(* ------------------------------------------------------------------ get_flat_resolved_mapper *)

(* the class as get_flat_resolved_mapper sees it: it may carry _serialization_mapper and / or
   _deserialization_mapper (a single mapper each), and answers get_all_fields_by_name() *)
Definition flat_attrs (sm dm : option mapper) (fields : list pystr) (fobj : pystr -> pyval) : list (pystr * pyval) :=
  (match sm with Some m => [(s2p "_serialization_mapper", enc_mapper m)] | None => [] end) ++
  (match dm with Some m => [(s2p "_deserialization_mapper", enc_mapper m)] | None => [] end) ++
  [(s2p "get_all_fields_by_name()", PDict (map (fun k => (PStr k, fobj k)) fields))].
Definition flat_cls sm dm fields fobj : pyval := PStruct (s2p "StructMeta") (flat_attrs sm dm fields fobj).

(* getattr(cls, "_deserialization_mapper", getattr(cls, "_serialization_mapper", {})) *)
Definition flat_effective (sm dm : option mapper) : mapper :=
  match dm with Some m => m | None => match sm with Some m => m | None => MDict [] end end.

(* document key -> field name, in the vocabulary of the C07 model: the key of field k is apply_key m k *)
Definition flat_key (m : mapper) (k : pystr) : pystr := match apply_key m k with Key s => s | _ => k end.
Definition flat_model (m : mapper) (fields : list pystr) : amap :=
  fold_left (fun acc k => alist_set acc (flat_key m k) (Key k)) fields [].
Definition flat_ok (m : mapper) (fields : list pystr) : bool :=
  mapper_wf m && forallb (fun k => ascii_str k && is_key (apply_key m k)) fields.

Example flat_ok_satisfiable :
  flat_ok (MDict [(s2p "a", Key (s2p "x"))]) [s2p "a"; s2p "b_c"] = true /\ flat_ok MCamel [s2p "a"; s2p "b_c"] = true /\
  flat_model MCamel [s2p "a"; s2p "b_c"] = [(s2p "a", Key (s2p "a")); (s2p "bC", Key (s2p "b_c"))].
Proof. repeat split; vm_compute; reflexivity. Qed.

Lemma foldM_flat (F : pyval -> pyval -> res pyval) m fields : forall acc,
    (forall acc k, In k fields -> F (enc_amap acc) (PStr k) = Ok (enc_amap (alist_set acc (flat_key m k) (Key k)))) ->
    foldM F (map PStr fields) (enc_amap acc)
    = Ok (enc_amap (fold_left (fun acc k => alist_set acc (flat_key m k) (Key k)) fields acc)).
Proof.
  induction fields as [|k t IH]; intros acc HF; [reflexivity|].
  cbn [map foldM fold_left]. rewrite (HF acc k (or_introl eq_refl)). cbn [bind].
  apply IH. intros acc' k' Hin. apply HF. right. exact Hin.
Qed.

Theorem src_get_flat_resolved_mapper : forall h sm dm fields fobj,
    flat_ok (flat_effective sm dm) fields = true ->
    Src_get_flat_resolved_mapper h (flat_cls sm dm fields fobj)
    = Ok (enc_amap (flat_model (flat_effective sm dm) fields)).
Proof.
  intros h sm dm fields fobj Hok. unfold flat_ok in Hok. apply andb_true_iff in Hok as [Hm Hfs].
  unfold Src_get_flat_resolved_mapper.
  assert (E1 : (t2 <- PyOpsFields.fld_getattr_def h (flat_cls sm dm fields fobj) (s2p "_serialization_mapper") (PDict []) ;;
                PyOpsFields.fld_getattr_def h (flat_cls sm dm fields fobj) (s2p "_deserialization_mapper") t2)
               = Ok (enc_mapper (flat_effective sm dm))).
  { destruct sm as [m1|]; destruct dm as [m2|]; reflexivity. }
  assert (E2 : PyOpsFields.fld_getattr h (flat_cls sm dm fields fobj) (s2p "get_all_fields_by_name()")
               = Ok (PDict (map (fun k => (PStr k, fobj k)) fields))).
  { destruct sm as [m1|]; destruct dm as [m2|]; reflexivity. }
  set (m := flat_effective sm dm) in *.
  destruct (PyOpsFields.fld_getattr_def h (flat_cls sm dm fields fobj) (s2p "_serialization_mapper") (PDict [])) as [t2|e2];
    cbn [bind] in E1 |- *; [|discriminate].
  rewrite E1. cbn [bind]. cbv zeta. rewrite E2. cbn [bind py_iter]. rewrite map_map. cbn [fst].
  change (PDict []) with (enc_amap []).
  rewrite (foldM_flat _ m fields []).
  - reflexivity.
  - intros acc k Hin. cbn beta.
    rewrite forallb_forall in Hfs. specialize (Hfs k Hin). apply andb_true_iff in Hfs as [Hk Hkey].
    unfold flat_key.
    destruct m as [d| |].
    + change (m_is_member (enc_mapper (MDict d)) (s2p "mappers") (s2p "TO_CAMELCASE")) with (@Ok bool false).
      change (m_is_member (enc_mapper (MDict d)) (s2p "mappers") (s2p "TO_LOWERCASE")) with (@Ok bool false).
      cbn [bind enc_mapper]. rewrite py_dict_get_enc. cbn [bind]. cbn [apply_key] in Hkey |- *.
      destruct (alist_get d k) as [[s| |q]|]; try discriminate; cbn [bind enc_mval];
        rewrite (py_setitem_enc acc _ (Key k)); reflexivity.
    + change (m_is_member (enc_mapper MLower) (s2p "mappers") (s2p "TO_CAMELCASE")) with (@Ok bool false).
      change (m_is_member (enc_mapper MLower) (s2p "mappers") (s2p "TO_LOWERCASE")) with (@Ok bool true).
      cbn [bind]. rewrite (m_str_upper_ascii k Hk). cbn [bind apply_key].
      rewrite (py_setitem_enc acc _ (Key k)). reflexivity.
    + change (m_is_member (enc_mapper MCamel) (s2p "mappers") (s2p "TO_CAMELCASE")) with (@Ok bool true).
      cbn [bind]. rewrite (src_convert_to_camelcase h k Hk). cbn [bind apply_key].
      rewrite (py_setitem_enc acc _ (Key k)). reflexivity.
Qed.

(* ------------------------------------------------------------------ outside the domain *)

(* the side condition is needed: on non-ASCII text the hand model treats every character as uncased, while the
   source calls str.upper() / str.title(), whose Unicode case mappings the operator library declines to predict
   (the real library: [{"a": "\u00e9"}, TO_LOWERCASE] gives "\u00c9"; the hand model keeps "\u00e9") *)
Example non_ascii_outside_domain :
  apply_key MLower [233] = Key [233] /\
  forall h, Src_apply_mapper h enc_lower (PStr (s2p "a")) (enc_amap [(s2p "a", Key [233])]) (PBool true) (PBool false)
            = Raise Unmodelled.
Proof. split; [reflexivity|intros h; reflexivity]. Qed.

Print Assumptions src_convert_to_camelcase.
Print Assumptions src_enum_mappers_members.
Print Assumptions src_apply_mapper.
Print Assumptions src_apply_mapper_self.
Print Assumptions src_add_mapper_to_aggregation.
Print Assumptions src_set_base_mapper_no_op.
Print Assumptions src_aggregate_serialization_mappers.
Print Assumptions src_aggregate_deserialization_mappers.
Print Assumptions src_aggregate_class_list.
Print Assumptions src_get_flat_resolved_mapper.
Print Assumptions non_ascii_outside_domain.
