(* C06, agreement clause on the scalar fragment: for classes whose fields are plain scalars (numbers, strings,
   booleans, literal enums, Anything) the code-shaped model of the deserializer (Ser/Deserialize.v: per-field
   pre-validation in class order, error collection for falsy inputs, extras first) and the documented reading
   (Ser/DocReading.v: the document's members in document order, the constructor is the only authority) are
   result-equivalent on every object document with distinct string keys and no null member. *)
From Coq Require Import ZArith QArith NArith String Ascii Bool Lia List Permutation.
Import ListNotations.
From TP Require Import Base.PyVal Base.PyEq Fields.FieldAst Fields.SetChain Fields.Doc Struct.Instance
  Ser.Json Ser.Serialize Ser.Deserialize Ser.DocReading Ser.DeserExn Ser.DeserExnProofs Ser.DeserProofs.
Local Open Scope Z_scope.

(* ------------------------------------------------------------------ exact equality is reflexive *)

Lemma num_struct_eqb_refl n : num_struct_eqb n n = true.
Proof. destruct n; cbn [num_struct_eqb]; rewrite ?Z.eqb_refl; reflexivity. Qed.

Lemma pyval_eqb_list_unfold (l m : list pyval) :
  pyval_eqb (PList l) (PList m) =
  (fix eq_list (l m : list pyval) {struct l} : bool :=
     match l, m with
     | [], [] => true
     | x :: l', y :: m' => pyval_eqb x y && eq_list l' m'
     | _, _ => false
     end) l m.
Proof. reflexivity. Qed.

Lemma eq_list_refl l : Forall (fun x => pyval_eqb x x = true) l ->
  (fix eq_list (l m : list pyval) {struct l} : bool :=
     match l, m with
     | [], [] => true
     | x :: l', y :: m' => pyval_eqb x y && eq_list l' m'
     | _, _ => false
     end) l l = true.
Proof. induction 1 as [|x l Hx _ IH]; [reflexivity|]. rewrite Hx. exact IH. Qed.

Lemma pyval_eqb_refl : forall a, pyval_eqb a a = true.
Proof.
  induction a as [| b | n | s | l IH | l IH | l IH | f l IH | kv IH | c n v IH | c attrs IH | t r] using pyval_ind'.
  - reflexivity.
  - cbn [pyval_eqb]. apply eqb_reflx.
  - cbn [pyval_eqb]. apply num_struct_eqb_refl.
  - cbn [pyval_eqb]. apply pystr_eqb_refl.
  - change (pyval_eqb (PList l) (PList l)) with
      ((fix eq_list (l m : list pyval) {struct l} : bool :=
          match l, m with [], [] => true | x :: l', y :: m' => pyval_eqb x y && eq_list l' m' | _, _ => false end) l l).
    now apply eq_list_refl.
  - change (pyval_eqb (PTuple l) (PTuple l)) with
      ((fix eq_list (l m : list pyval) {struct l} : bool :=
          match l, m with [], [] => true | x :: l', y :: m' => pyval_eqb x y && eq_list l' m' | _, _ => false end) l l).
    now apply eq_list_refl.
  - change (pyval_eqb (PDeque l) (PDeque l)) with
      ((fix eq_list (l m : list pyval) {struct l} : bool :=
          match l, m with [], [] => true | x :: l', y :: m' => pyval_eqb x y && eq_list l' m' | _, _ => false end) l l).
    now apply eq_list_refl.
  - cbn [pyval_eqb]. rewrite eqb_reflx, Nat.eqb_refl. cbn [andb].
    assert (G : forall l0, incl l0 l ->
      (fix all_in (l1 : list pyval) : bool :=
         match l1 with [] => true | x :: l' => existsb (fun y => pyval_eqb x y) l && all_in l' end) l0 = true).
    { induction l0 as [|x l0 IH0]; intro Hi; [reflexivity|].
      rewrite IH0 by (intros y Hy; apply Hi; now right). rewrite andb_true_r.
      apply existsb_exists. exists x. split; [apply Hi; now left|].
      rewrite Forall_forall in IH. apply IH. apply Hi. now left. }
    apply G. apply incl_refl.
  - cbn [pyval_eqb]. induction IH as [|[k x] kv [Hk Hx] _ IHkv]; [reflexivity|].
    cbn [fst snd] in Hk, Hx. rewrite Hk, Hx. exact IHkv.
  - cbn [pyval_eqb]. rewrite !pystr_eqb_refl, IH. reflexivity.
  - cbn [pyval_eqb]. rewrite pystr_eqb_refl, Nat.eqb_refl. cbn [andb].
    assert (G : forall l0, incl l0 attrs ->
      (fix all_at (l : list (pystr * pyval)) : bool :=
         match l with
         | [] => true
         | (k, x) :: l' => existsb (fun p => pystr_eqb k (fst p) && pyval_eqb x (snd p)) attrs && all_at l'
         end) l0 = true).
    { induction l0 as [|[k x] l0 IH0]; intro Hi; [reflexivity|].
      rewrite IH0 by (intros y Hy; apply Hi; now right). rewrite andb_true_r.
      apply existsb_exists. exists (k, x). split; [apply Hi; now left|]. cbn [fst snd].
      rewrite pystr_eqb_refl. rewrite Forall_forall in IH. exact (IH (k, x) (Hi _ (or_introl eq_refl))). }
    apply G. apply incl_refl.
  - cbn [pyval_eqb]. rewrite !pystr_eqb_refl. reflexivity.
Qed.

(* ------------------------------------------------------------------ lists, permutations, association lists *)
From TP Require Import Struct.DefineProofs.

Lemma Permutation_filter {A} (f : A -> bool) l l' : Permutation l l' -> Permutation (filter f l) (filter f l').
Proof.
  induction 1 as [|x l l' _ IH|x y l|l l' l'' _ IH1 _ IH2]; cbn [filter].
  - constructor.
  - destruct (f x); [now constructor|exact IH].
  - destruct (f x), (f y); try reflexivity. constructor.
  - eapply perm_trans; eassumption.
Qed.

Lemma forallb_perm {A} (f : A -> bool) l l' : Permutation l l' -> forallb f l = forallb f l'.
Proof.
  induction 1 as [|x l l' _ IH|x y l|l l' l'' _ IH1 _ IH2]; cbn [forallb]; try congruence.
  destruct (f x), (f y); reflexivity.
Qed.

Lemma forallb_ext' {A} (f g : A -> bool) l : (forall x, f x = g x) -> forallb f l = forallb g l.
Proof. intro H. induction l as [|x l IH]; cbn [forallb]; [reflexivity|]. now rewrite H, IH. Qed.

Lemma has_dup_NoDup l : has_dup l = false <-> NoDup l.
Proof.
  induction l as [|x l IH]; cbn [has_dup]; [split; [constructor|reflexivity]|].
  rewrite orb_false_iff, IH, str_in_false. split.
  - intros [H1 H2]. now constructor.
  - intro H. inversion H; subst. now split.
Qed.

Lemma has_dup_perm l l' : Permutation l l' -> has_dup l = has_dup l'.
Proof.
  intro HP. destruct (has_dup l) eqn:E1, (has_dup l') eqn:E2; try reflexivity.
  - apply has_dup_NoDup in E2. apply (Permutation_NoDup (Permutation_sym HP)) in E2.
    apply has_dup_NoDup in E2. congruence.
  - apply has_dup_NoDup in E1. apply (Permutation_NoDup HP) in E1. apply has_dup_NoDup in E1. congruence.
Qed.

Definition aeq (a b : attrs) : Prop := forall k, alist_get a k = alist_get b k.

Lemma alist_get_perm {A} (l l' : list (pystr * A)) k :
  Permutation l l' -> NoDup (map fst l) -> alist_get l k = alist_get l' k.
Proof.
  intros HP Hnd.
  assert (Hnd' : NoDup (map fst l')) by (eapply Permutation_NoDup; [apply Permutation_map; exact HP|exact Hnd]).
  destruct (alist_get l k) as [v|] eqn:E.
  - symmetry. apply In_alist_get_NoDup; [exact Hnd'|]. eapply Permutation_in; [exact HP|]. now apply alist_get_In.
  - symmetry. apply alist_get_None_notin. apply alist_get_None_notin in E. intro Hin. apply E.
    eapply Permutation_in; [apply Permutation_map, Permutation_sym; exact HP|exact Hin].
Qed.

Lemma alist_has_perm {A} (l l' : list (pystr * A)) k : Permutation l l' -> alist_has l k = alist_has l' k.
Proof.
  intro HP. unfold alist_has.
  destruct (alist_get l k) eqn:E1, (alist_get l' k) eqn:E2; try reflexivity.
  - apply alist_get_None_notin in E2. exfalso. apply E2. apply alist_get_In_fst in E1.
    eapply Permutation_in; [apply Permutation_map; exact HP|exact E1].
  - apply alist_get_None_notin in E1. exfalso. apply E1. apply alist_get_In_fst in E2.
    eapply Permutation_in; [apply Permutation_map, Permutation_sym; exact HP|exact E2].
Qed.

(* the pair with key k, for lists with distinct keys *)
Definition find_key {A} (l : list (pystr * A)) (k : pystr) : option (pystr * A) :=
  find (fun p => pystr_eqb (fst p) k) l.

Lemma find_key_none {A} (l : list (pystr * A)) k : ~ In k (map fst l) -> find_key l k = None.
Proof.
  induction l as [|[n v] l IH]; cbn [find_key find map fst In]; intro H; [reflexivity|].
  destruct (pystr_eqb n k) eqn:E; [apply pystr_eqb_spec in E; exfalso; apply H; now left|].
  apply IH. intro; apply H; now right.
Qed.

Lemma find_key_in {A} (l : list (pystr * A)) n v : NoDup (map fst l) -> In (n, v) l -> find_key l n = Some (n, v).
Proof.
  induction l as [|[m w] l IH]; cbn [find_key find map fst In]; intros Hnd Hin; [destruct Hin|].
  inversion Hnd; subst. destruct Hin as [Heq|Hin].
  - inversion Heq; subst. now rewrite pystr_eqb_refl.
  - destruct (pystr_eqb m n) eqn:E; [|now apply IH].
    apply pystr_eqb_spec in E; subst. exfalso. apply H1. change n with (fst (n, v)). now apply in_map.
Qed.

Lemma find_key_perm {A} (l l' : list (pystr * A)) k :
  Permutation l l' -> NoDup (map fst l) -> find_key l k = find_key l' k.
Proof.
  intros HP Hnd.
  assert (Hnd' : NoDup (map fst l')) by (eapply Permutation_NoDup; [apply Permutation_map; exact HP|exact Hnd]).
  destruct (find_key l k) as [[n v]|] eqn:E.
  - unfold find_key in E. apply find_some in E as [Hin Hk]. cbn [fst] in Hk. apply pystr_eqb_spec in Hk; subst.
    symmetry. apply find_key_in; [exact Hnd'|]. eapply Permutation_in; eassumption.
  - symmetry. apply find_key_none. intro Hin.
    apply (Permutation_in _ (Permutation_map fst (Permutation_sym HP))) in Hin.
    apply in_map_iff in Hin as ([n v] & Hn & Hin). cbn [fst] in Hn; subst.
    rewrite (find_key_in _ _ _ Hnd Hin) in E. discriminate.
Qed.

(* ------------------------------------------------------------------ Structure.__init__ as a map over its keyword arguments *)

Section CtorMap.
  Variable re_match : N -> pystr -> bool.
  Variable e : env.

  (* what setting attribute n to v does to an instance that has no attribute n yet (the constructor sets every
     name once): nothing / store a value / raise *)
  Definition pair_eff (c : classdef) (p : pystr * pyval) : res (option pyval) :=
    match find_field (c_fields c) (fst p) with
    | None =>
        if c_additional c then
          if c_ignore_none c && is_none_val (snd p) && negb (is_required c (fst p)) then Ok None else Ok (Some (snd p))
        else Raise ValueError
    | Some fd =>
        if c_ignore_none c && is_none_val (snd p) && negb (is_required c (fst p)) then Ok None
        else match vset re_match e (fd_field fd) (snd p) with
             | Raise x => Raise x
             | Ok nf => Ok (Some nf)
             end
    end.

  Lemma setattr_fresh c a n v : alist_has a n = false ->
    setattr re_match e c false a n v =
    match pair_eff c (n, v) with
    | Ok None => (a, Done)
    | Ok (Some w) => (alist_set a n w, Done)
    | Raise x => (a, Raised x)
    end.
  Proof.
    intro Hf. unfold setattr, pair_eff. cbn [fst snd]. rewrite andb_false_r.
    destruct (find_field (c_fields c) n) as [fd|].
    - destruct (c_ignore_none c && is_none_val v && negb (is_required c n)); [reflexivity|].
      destruct (vset re_match e (fd_field fd) v) as [nf|x]; [|reflexivity].
      rewrite Hf, andb_false_r. reflexivity.
    - destruct (c_additional c); [|reflexivity].
      destruct (c_ignore_none c && is_none_val v && negb (is_required c n)); reflexivity.
  Qed.

  Definition apply_eff (c : classdef) (a : attrs) (p : pystr * pyval) : attrs :=
    match pair_eff c p with Ok (Some w) => alist_set a (fst p) w | _ => a end.

  Fixpoint apply_effs (c : classdef) (a : attrs) (kw : kwargs) : attrs :=
    match kw with [] => a | p :: t => apply_effs c (apply_eff c a p) t end.

  Definition effs_ok (c : classdef) (kw : kwargs) : bool := forallb (fun p => is_ok (pair_eff c p)) kw.

  Lemma alist_has_set_other (a : attrs) n w m : m <> n -> alist_has (alist_set a n w) m = alist_has a m.
  Proof. intro H. unfold alist_has. now rewrite alist_get_set_other. Qed.

  Lemma set_all_fresh c : forall kw a,
    NoDup (map fst kw) -> (forall n, In n (map fst kw) -> alist_has a n = false) ->
    (effs_ok c kw = true -> set_all re_match e c a kw = Ok (apply_effs c a kw)) /\
    (effs_ok c kw = false -> exists x, set_all re_match e c a kw = Raise x).
  Proof.
    induction kw as [|[n v] kw IH]; intros a Hnd Hfresh; cbn [set_all apply_effs effs_ok forallb].
    - split; [reflexivity|discriminate].
    - cbn [map fst] in Hnd. inversion Hnd as [|? ? Hn Hnd']; subst.
      rewrite (setattr_fresh c a n v) by (apply Hfresh; now left).
      assert (Htail : forall a', (a' = a \/ exists w, a' = alist_set a n w) ->
                                 forall m, In m (map fst kw) -> alist_has a' m = false).
      { intros a' Ha m Hm. assert (Hmn : m <> n) by (intro; subst; contradiction).
        destruct Ha as [->|[w ->]]; [|rewrite alist_has_set_other by exact Hmn]; apply Hfresh; now right. }
      unfold apply_eff. cbn [fst].
      destruct (pair_eff c (n, v)) as [[w|]|x] eqn:Ep; cbn [is_ok andb].
      + apply IH; [exact Hnd'|]. apply Htail. right. now exists w.
      + apply IH; [exact Hnd'|]. apply Htail. now left.
      + split; [discriminate|]. intros _. now exists x.
  Qed.

  Lemma apply_effs_get c : forall kw a k, NoDup (map fst kw) ->
    alist_get (apply_effs c a kw) k =
    match find_key kw k with
    | Some p => match pair_eff c p with Ok (Some w) => Some w | _ => alist_get a k end
    | None => alist_get a k
    end.
  Proof.
    induction kw as [|[n v] kw IH]; intros a k Hnd; cbn [apply_effs]; [reflexivity|].
    cbn [map fst] in Hnd. inversion Hnd as [|? ? Hn Hnd']; subst.
    rewrite IH by exact Hnd'. unfold find_key at 2. cbn [find fst].
    destruct (pystr_eqb n k) eqn:E.
    - apply pystr_eqb_spec in E; subst k. rewrite (find_key_none kw n Hn).
      unfold apply_eff. cbn [fst]. destruct (pair_eff c (n, v)) as [[w|]|x]; try reflexivity.
      apply alist_get_set_same.
    - fold (find_key kw k).
      assert (Hk : alist_get (apply_eff c a (n, v)) k = alist_get a k).
      { unfold apply_eff. cbn [fst]. destruct (pair_eff c (n, v)) as [[w|]|x]; try reflexivity.
        apply alist_get_set_other. intro; subst. now rewrite pystr_eqb_refl in E. }
      rewrite Hk. reflexivity.
  Qed.

  Lemma apply_effs_NoDup c : forall kw a, NoDup (map fst a) -> NoDup (map fst (apply_effs c a kw)).
  Proof.
    induction kw as [|p kw IH]; intros a H; cbn [apply_effs]; [exact H|].
    apply IH. unfold apply_eff. destruct (pair_eff c p) as [[w|]|x]; try exact H. now apply alist_set_NoDup.
  Qed.

  Lemma apply_effs_perm c kw kw' a :
    Permutation kw kw' -> NoDup (map fst kw) -> aeq (apply_effs c a kw) (apply_effs c a kw').
  Proof.
    intros HP Hnd k.
    assert (Hnd' : NoDup (map fst kw')) by (eapply Permutation_NoDup; [apply Permutation_map; exact HP|exact Hnd]).
    rewrite !apply_effs_get by assumption. now rewrite (find_key_perm kw kw' k HP Hnd).
  Qed.

  Lemma set_all_app c : forall l1 l2 a,
    set_all re_match e c a (l1 ++ l2) = (a1 <- set_all re_match e c a l1 ;; set_all re_match e c a1 l2).
  Proof.
    induction l1 as [|[n v] l1 IH]; intros l2 a; cbn [app set_all bind]; [reflexivity|].
    destruct (setattr re_match e c false a n v) as [a' [|x]]; [apply IH|reflexivity].
  Qed.

  Lemma hook_ok_aeq h a b : aeq a b -> hook_ok h a = hook_ok h b.
  Proof.
    intro H. destruct h; cbn [hook_ok]; [reflexivity| |].
    - now rewrite !H.
    - unfold alist_has. now rewrite H.
  Qed.
End CtorMap.

(* ------------------------------------------------------------------ instances that are equal as maps compare equal *)

Fixpoint strip_attrs (l : list (pystr * pyval)) : list (pystr * pyval) :=
  match l with
  | [] => []
  | (k, x) :: t => match x with PNone => strip_attrs t | _ => (k, strip_none x) :: strip_attrs t end
  end.

Lemma strip_none_struct c a : strip_none (PStruct c a) = PStruct c (strip_attrs a).
Proof.
  reflexivity.   (* the inner fixpoint of strip_none is strip_attrs *)
Qed.

Lemma strip_attrs_cons n x a :
  strip_attrs ((n, x) :: a) = if is_none_val x then strip_attrs a else (n, strip_none x) :: strip_attrs a.
Proof. destruct x; reflexivity. Qed.

Lemma is_none_val_spec x : is_none_val x = true <-> x = PNone.
Proof. destruct x; cbn [is_none_val]; split; congruence. Qed.

Lemma strip_attrs_in a k y : In (k, y) (strip_attrs a) <-> exists x, In (k, x) a /\ x <> PNone /\ y = strip_none x.
Proof.
  induction a as [|[n x] a IH].
  - cbn [strip_attrs In]. split; [intros []|intros (? & [] & _)].
  - rewrite strip_attrs_cons. destruct (is_none_val x) eqn:En.
    + apply is_none_val_spec in En. subst x. rewrite IH. split.
      * intros (x0 & Hin & Hne & Hy). exists x0. split; [now right|now split].
      * intros (x0 & [Heq|Hin] & Hne & Hy); [inversion Heq; subst; contradiction|].
        exists x0. split; [exact Hin|now split].
    + assert (Hx : x <> PNone) by (intro; subst; discriminate En).
      cbn [In]. rewrite IH. split.
      * intros [Heq|(x0 & Hin & Hne & Hy)].
        -- inversion Heq; subst. exists x. split; [now left|now split].
        -- exists x0. split; [now right|now split].
      * intros (x0 & [Heq|Hin] & Hne & Hy).
        -- inversion Heq; subst. now left.
        -- right. exists x0. split; [exact Hin|now split].
Qed.

Lemma strip_attrs_keys a k : In k (map fst (strip_attrs a)) -> In k (map fst a).
Proof.
  intro H. apply in_map_iff in H as ([n y] & Hn & Hin). cbn [fst] in Hn; subst.
  apply strip_attrs_in in Hin as (x & Hin & _). change k with (fst (k, x)). now apply in_map.
Qed.

Lemma strip_attrs_NoDup a : NoDup (map fst a) -> NoDup (map fst (strip_attrs a)).
Proof.
  induction a as [|[k x] a IH]; cbn [strip_attrs map fst]; intro H; [constructor|].
  inversion H; subst. change (NoDup (map fst (strip_attrs ((k, x) :: a)))). rewrite strip_attrs_cons.
  destruct (is_none_val x); [now apply IH|].
  cbn [map fst]. constructor; [intro Hin; apply strip_attrs_keys in Hin; contradiction|now apply IH].
Qed.

Lemma NoDup_keys_pairs {A} (l : list (pystr * A)) : NoDup (map fst l) -> NoDup l.
Proof.
  induction l as [|[k x] l IH]; cbn [map fst]; intro H; [constructor|].
  inversion H; subst. constructor; [|now apply IH].
  intro Hin. apply H2. change k with (fst (k, x)). now apply in_map.
Qed.

Lemma struct_eqb_aeq cn a b :
  NoDup (map fst a) -> NoDup (map fst b) -> aeq a b ->
  pyval_eqb (strip_none (PStruct cn a)) (strip_none (PStruct cn b)) = true.
Proof.
  intros Ha Hb Hab. rewrite !strip_none_struct.
  assert (Hincl : forall a b, NoDup (map fst a) -> NoDup (map fst b) -> aeq a b -> incl (strip_attrs a) (strip_attrs b)).
  { clear. intros a b Ha Hb Hab [k y] Hin. apply strip_attrs_in in Hin as (x & Hin & Hne & Hy).
    apply strip_attrs_in. exists x. split; [|split; assumption].
    apply alist_get_In. rewrite <- Hab. now apply In_alist_get_NoDup. }
  assert (H1 := Hincl a b Ha Hb Hab).
  assert (H2 := Hincl b a Hb Ha (fun k => eq_sym (Hab k))).
  assert (Hlen : length (strip_attrs a) = length (strip_attrs b)).
  { apply Nat.le_antisymm; apply NoDup_incl_length; try assumption;
      apply NoDup_keys_pairs, strip_attrs_NoDup; assumption. }
  cbn [pyval_eqb]. rewrite pystr_eqb_refl, Hlen, Nat.eqb_refl. cbn [andb].
  generalize (strip_attrs a) H1. clear - H1. intros l Hl.
  induction l as [|[k x] l IH]; [reflexivity|].
  rewrite IH by (intros p Hp; apply Hl; now right). rewrite andb_true_r.
  apply existsb_exists. exists (k, x). split; [apply Hl; now left|]. cbn [fst snd].
  now rewrite pystr_eqb_refl, pyval_eqb_refl.
Qed.

(* ------------------------------------------------------------------ the constructor does not depend on the order of its keyword arguments *)

Lemma filter_partition_perm {A} (f : A -> bool) l :
  Permutation (filter (fun x => negb (f x)) l ++ filter f l) l.
Proof.
  induction l as [|x l IH]; cbn [filter]; [constructor|].
  destruct (f x); cbn [negb app].
  - eapply perm_trans; [apply Permutation_sym, Permutation_middle|]. now constructor.
  - now constructor.
Qed.

Lemma NoDup_app_intro {A} (l1 l2 : list A) :
  NoDup l1 -> NoDup l2 -> (forall x, In x l1 -> ~ In x l2) -> NoDup (l1 ++ l2).
Proof.
  induction l1 as [|x l1 IH]; cbn [app]; intros H1 H2 Hd; [exact H2|].
  inversion H1; subst. constructor.
  - intro Hin. apply in_app_or in Hin as [Hin|Hin]; [contradiction|]. exact (Hd x (or_introl eq_refl) Hin).
  - apply IH; try assumption. intros y Hy. apply Hd. now right.
Qed.

Section CtorPerm.
  Variable re_match : N -> pystr -> bool.
  Variable e : env.

  Definition ctor_list (c : classdef) (kw : kwargs) : kwargs :=
    filter (fun p => negb (str_in (fst p) (field_names c))) kw ++ defaults_of c kw ++
    filter (fun p => str_in (fst p) (field_names c)) kw.

  Lemma construct_as_map c kw :
    has_dup (map fst kw) = false -> Instance.bind_ok c kw = true ->
    construct re_match e c kw =
    (a2 <- set_all re_match e c [] (ctor_list c kw) ;;
     if hook_ok (c_hook c) a2 then Ok (PStruct (c_name c) a2) else Raise ValueError).
  Proof.
    intros Hd Hb. unfold construct, ctor_list. rewrite Hd, Hb. cbn [negb].
    rewrite set_all_app.
    destruct (set_all re_match e c [] _) as [a0|x]; cbn [bind]; [|reflexivity].
    rewrite set_all_app.
    destruct (set_all re_match e c a0 (defaults_of c kw)) as [a1|x]; cbn [bind]; reflexivity.
  Qed.

  Lemma defaults_names c kw n : In n (map fst (defaults_of c kw)) -> In n (field_names c) /\ alist_has kw n = false.
  Proof.
    unfold defaults_of. intro H. apply in_map_iff in H as ([m d] & Hm & Hin). cbn [fst] in Hm; subst.
    apply in_flat_map in Hin as (fd & Hfd & Hin).
    destruct (fd_default fd) as [d'|]; [|destruct Hin].
    destruct (alist_has kw (fd_name fd)) eqn:Eh; [destruct Hin|].
    destruct Hin as [Heq|[]]. inversion Heq; subst. split; [|exact Eh].
    unfold field_names. now apply in_map.
  Qed.

  Lemma defaults_NoDup c kw : NoDup (field_names c) -> NoDup (map fst (defaults_of c kw)).
  Proof.
    unfold defaults_of, field_names. induction (c_fields c) as [|fd l IH]; cbn [flat_map map]; intro H; [constructor|].
    inversion H; subst. specialize (IH H3).
    destruct (fd_default fd) as [d|]; [|exact IH].
    destruct (alist_has kw (fd_name fd)); [exact IH|].
    cbn [app map fst]. constructor; [|exact IH].
    intro Hin. apply in_map_iff in Hin as ([m d'] & Hm & Hin). cbn [fst] in Hm; subst.
    apply in_flat_map in Hin as (fd' & Hfd' & Hin).
    destruct (fd_default fd'); [|destruct Hin]. destruct (alist_has kw (fd_name fd')); [destruct Hin|].
    destruct Hin as [Heq|[]]. inversion Heq; subst. apply H2. rewrite <- H1. now apply in_map.
  Qed.

  Lemma ctor_list_NoDup c kw :
    NoDup (field_names c) -> NoDup (map fst kw) -> NoDup (map fst (ctor_list c kw)).
  Proof.
    intros Hf Hk. unfold ctor_list.
    set (ex := filter (fun p => negb (str_in (fst p) (field_names c))) kw).
    set (bd := filter (fun p => str_in (fst p) (field_names c)) kw).
    assert (HP : Permutation (map fst (ex ++ bd)) (map fst kw))
      by (apply Permutation_map, (filter_partition_perm (fun p => str_in (fst p) (field_names c)))).
    assert (Hnd : NoDup (map fst (ex ++ bd))) by (eapply Permutation_NoDup; [apply Permutation_sym; exact HP|exact Hk]).
    (* move the defaults to the front *)
    assert (HP2 : Permutation (map fst (defaults_of c kw ++ (ex ++ bd))) (map fst (ex ++ defaults_of c kw ++ bd))).
    { apply Permutation_map. rewrite !app_assoc. apply Permutation_app_tail. apply Permutation_app_comm. }
    eapply Permutation_NoDup; [exact HP2|]. rewrite map_app.
    apply NoDup_app_intro; [now apply defaults_NoDup|exact Hnd|].
    intros n Hn Hin. apply defaults_names in Hn as [_ Hn].
    apply (Permutation_in _ HP) in Hin. apply alist_get_None_notin in Hin; [exact Hin|].
    unfold alist_has in Hn. destruct (alist_get kw n); [discriminate|reflexivity].
  Qed.

  Lemma defaults_perm c K1 K2 : Permutation K1 K2 -> defaults_of c K1 = defaults_of c K2.
  Proof.
    intro HP. unfold defaults_of. apply flat_map_ext. intro fd.
    destruct (fd_default fd); [|reflexivity]. now rewrite (alist_has_perm K1 K2 _ HP).
  Qed.

  Lemma bind_ok_perm c K1 K2 : Permutation K1 K2 -> Instance.bind_ok c K1 = Instance.bind_ok c K2.
  Proof.
    intro HP. unfold Instance.bind_ok. f_equal.
    - apply forallb_ext'. intro r. now apply alist_has_perm.
    - f_equal. now apply forallb_perm.
  Qed.

  Lemma ctor_list_perm c K1 K2 : Permutation K1 K2 -> Permutation (ctor_list c K1) (ctor_list c K2).
  Proof.
    intro HP. unfold ctor_list. rewrite (defaults_perm c K1 K2 HP).
    apply Permutation_app; [now apply Permutation_filter|].
    apply Permutation_app_head. now apply Permutation_filter.
  Qed.

  (* permuting the keyword arguments changes neither acceptance nor (up to ==) the instance *)
  Theorem construct_perm c K1 K2 :
    Permutation K1 K2 -> NoDup (field_names c) ->
    match construct re_match e c K1, construct re_match e c K2 with
    | Ok x, Ok y => pyval_eqb (strip_none x) (strip_none y) = true
    | Raise _, Raise _ => True
    | _, _ => False
    end.
  Proof.
    intros HP Hf.
    assert (Hd : has_dup (map fst K1) = has_dup (map fst K2)) by (apply has_dup_perm, Permutation_map, HP).
    assert (Hb := bind_ok_perm c K1 K2 HP).
    destruct (has_dup (map fst K1)) eqn:Ed1.
    { unfold construct. rewrite Ed1, <- Hd. exact I. }
    destruct (Instance.bind_ok c K1) eqn:Eb1.
    2:{ unfold construct. rewrite Ed1, <- Hd, Eb1, <- Hb. exact I. }
    rewrite (construct_as_map c K1 Ed1 Eb1), (construct_as_map c K2) by congruence.
    assert (Hk1 : NoDup (map fst K1)) by now apply has_dup_NoDup.
    assert (Hk2 : NoDup (map fst K2)) by (apply has_dup_NoDup; congruence).
    assert (HL := ctor_list_perm c K1 K2 HP).
    assert (Hn1 := ctor_list_NoDup c K1 Hf Hk1). assert (Hn2 := ctor_list_NoDup c K2 Hf Hk2).
    destruct (set_all_fresh re_match e c (ctor_list c K1) [] Hn1 (fun _ _ => eq_refl)) as [Hok1 Hbad1].
    destruct (set_all_fresh re_match e c (ctor_list c K2) [] Hn2 (fun _ _ => eq_refl)) as [Hok2 Hbad2].
    assert (He : effs_ok re_match e c (ctor_list c K1) = effs_ok re_match e c (ctor_list c K2))
      by (apply forallb_perm; exact HL).
    destruct (effs_ok re_match e c (ctor_list c K1)) eqn:E1.
    - rewrite (Hok1 eq_refl), (Hok2 (eq_sym He)). cbn [bind].
      assert (Hae := apply_effs_perm re_match e c _ _ [] HL Hn1).
      rewrite (hook_ok_aeq _ _ _ Hae).
      destruct (hook_ok (c_hook c) _); [|exact I].
      apply struct_eqb_aeq; [apply apply_effs_NoDup; constructor|apply apply_effs_NoDup; constructor|exact Hae].
    - destruct (Hbad1 eq_refl) as [x ->]. destruct (Hbad2 (eq_sym He)) as [y ->]. exact I.
  Qed.
End CtorPerm.

(* ------------------------------------------------------------------ the scalar fragment *)


Lemma agree_raise x y : okx x = true -> okx y = true -> agree (Raise x) (Raise y) = true.
Proof.
  unfold agree, okx, mdeclines, res_equiv_tv. intros Hx Hy.
  destruct (model_exn x); [reflexivity|]. destruct (model_exn y); [now rewrite orb_true_r|].
  rewrite orb_false_r in Hx, Hy. now rewrite Hx, Hy.
Qed.

Lemma str_keys_map kv skv : str_keys kv = Some skv -> kv = map (fun p => (PStr (fst p), snd p)) skv.
Proof.
  revert skv. induction kv as [|[k v] kv IH]; intros skv H; cbn [str_keys] in H.
  - inversion H. reflexivity.
  - destruct k; try discriminate. destruct (str_keys kv) as [r|]; [|discriminate].
    inversion H; subst. cbn [map fst snd]. f_equal. now apply IH.
Qed.

Lemma dict_get_str skv n : dict_get (map (fun p => (PStr (fst p), snd p)) skv) (PStr n) = alist_get skv n.
Proof.
  induction skv as [|[k v] skv IH]; [reflexivity|]. cbn [map fst snd dict_get alist_get].
  assert (E : py_eq (PStr k) (PStr n) = pystr_eqb k n) by reflexivity. rewrite E.
  destruct (pystr_eqb k n); [reflexivity|exact IH].
Qed.

Lemma find_field_some_iff l n : (exists fd, find_field l n = Some fd) <-> In n (map fd_name l).
Proof.
  induction l as [|d l IH]; cbn [find_field map In].
  - split; [intros (? & H); discriminate|intros []].
  - destruct (pystr_eqb (fd_name d) n) eqn:E.
    + apply pystr_eqb_spec in E. split; [intros _; now left|intros _; eauto].
    + rewrite IH. split; [intro H; now right|intros [H|H]; [subst; now rewrite pystr_eqb_refl in E|exact H]].
Qed.

Lemma find_field_name l n fd : find_field l n = Some fd -> fd_name fd = n.
Proof.
  induction l as [|d l IH]; cbn [find_field]; [discriminate|].
  destruct (pystr_eqb (fd_name d) n) eqn:E; [|exact IH].
  intro H. inversion H; subst. now apply pystr_eqb_spec.
Qed.

Section Scalar.
  Variable re_match : N -> pystr -> bool.
  Variable e : env.
  Variable ens : enums.
  Variable fl : dflags.

  (* pre-validation of a scalar is the field's own _validate; what it rejects, __set__ rejects too *)
  Lemma deser_val_scalar rec ku ign f j :
    scalar_field f = true -> j <> PNone ->
    deser_val re_match e ens rec ku ign f j =
    match f with FAnything => Ok j | _ => _ <- validate_weak re_match e f j ;; Ok j end.
  Proof.
    intros Hs Hj. destruct f; try discriminate Hs; destruct j; try contradiction; try reflexivity;
      (* FEnumLit: Enum.deserialize raises ValueError only; raising it again changes nothing *)
      cbn [deser_val validate_weak]; cbn beta iota;
      match goal with |- context [if ?c then _ else _] => destruct c end; reflexivity.
  Qed.

  Lemma number_static_sign c v s x :
    number_static c v = Raise x -> exists y, (_ <- number_static c v ;; _ <- sign_check s v ;; Ok v) = Raise y.
  Proof. intros ->. now exists x. Qed.

  Lemma validate_fail_vset_fail f j x :
    scalar_field f = true -> validate_weak re_match e f j = Raise x -> exists y, vset re_match e f j = Raise y.
  Proof.
    intros Hs H. destruct f; try discriminate Hs; cbn [validate_weak] in H; cbn [vset].
    - (* FNumber *)
      unfold number_chain. destruct k.
      + destruct (sign_check s j) as [u|y]; cbn [bind]; [|eauto]. rewrite H. cbn [bind]. eauto.
      + destruct (is_py_int j); [|eauto]. rewrite H. cbn [bind]. eauto.
      + destruct (match j with PNum (NInt z) => if float_exact z then Ok (PNum (int_to_flt z)) else Raise Unmodelled
                  | _ => Ok j end) as [conv|y]; cbn [bind] in *; [|eauto].
        destruct (is_py_float conv); [|eauto]. rewrite H. cbn [bind]. eauto.
    - (* FString *)
      destruct (string_chain re_match c j) as [w|y]; cbn [bind] in H; [discriminate|eauto].
    - (* FBoolean *)
      unfold boolean_chain. destruct j; try (eauto; fail); [discriminate|].
      destruct (pystr_eqb s str_True); [discriminate|]. destruct (pystr_eqb s str_False); [discriminate|eauto].
    - (* FAnything *) discriminate.
    - (* FEnumLit *) match type of H with (if ?c then _ else _) = _ => destruct c end; [discriminate|eauto].
  Qed.

  Section WithClass.
    Variable rec : bool -> pystr -> pyval -> res pyval.
    Variable ku ign : bool.
    Variable skv : list (pystr * pyval).
    Hypothesis Hnonull : forall n v, In (n, v) skv -> v <> PNone.

    Let kv := map (fun p => (PStr (fst p), snd p)) skv.

    Lemma kv_get n : dict_get kv (PStr n) = alist_get skv n.
    Proof. apply dict_get_str. Qed.

    (* the members of the document that are fields, in class order *)
    Definition present (fds : list fdecl) : kwargs :=
      flat_map (fun fd => match alist_get skv (fd_name fd) with Some j => [(fd_name fd, j)] | None => [] end) fds.

    Lemma deser_fields_step fd fds had j :
      dict_get kv (PStr (fd_name fd)) = Some j -> j <> PNone ->
      deser_fields re_match e ens rec ku ign (fd :: fds) kv had =
      match deser_val re_match e ens rec ku ign (fd_field fd) j with
      | Ok w => rest <- deser_fields re_match e ens rec ku ign fds kv had ;; Ok ((fd_name fd, w) :: rest)
      | Raise x =>
          if negb (py_truthy j) && is_te_ve x then deser_fields re_match e ens rec ku ign fds kv true else Raise x
      end.
    Proof. intros H Hj. cbn [deser_fields]. rewrite H. destruct j; [contradiction|reflexivity..]. Qed.

    Lemma deser_fields_scalar : forall fds had,
      forallb (fun fd => scalar_field (fd_field fd)) fds = true ->
      forallb (fun fd => wf_field (fd_field fd)) fds = true ->
      match deser_fields re_match e ens rec ku ign fds kv had with
      | Ok kwf => kwf = present fds /\ had = false
      | Raise x =>
          okx x = true /\
          (had = true \/
           exists fd j y, In fd fds /\ alist_get skv (fd_name fd) = Some j /\
                          vset re_match e (fd_field fd) j = Raise y)
      end.
    Proof.
      induction fds as [|fd fds IH]; intros had Hs Hw.
      - cbn [deser_fields present flat_map]. destruct had; [split; [reflexivity|now left]|now split].
      - cbn [forallb] in Hs, Hw. apply andb_true_iff in Hs as [Hs Hss]. apply andb_true_iff in Hw as [Hw Hws].
        destruct (alist_get skv (fd_name fd)) as [j|] eqn:Ej.
        + assert (Hj : j <> PNone) by (eapply Hnonull, alist_get_In; exact Ej).
          rewrite (deser_fields_step fd fds had j) by (first [rewrite kv_get; assumption | assumption]).
          rewrite (deser_val_scalar rec ku ign _ j Hs Hj).
          assert (Hpres : present (fd :: fds) = (fd_name fd, j) :: present fds)
            by (unfold present; cbn [flat_map]; rewrite Ej; reflexivity).
          assert (Hstep : forall r : res unit,
            (r = Ok tt \/ exists x, r = Raise x /\ okx x = true /\ exists y, vset re_match e (fd_field fd) j = Raise y) ->
            match match (_ <- r ;; Ok j) with
                  | Ok w => rest <- deser_fields re_match e ens rec ku ign fds kv had ;; Ok ((fd_name fd, w) :: rest)
                  | Raise x =>
                      if negb (py_truthy j) && is_te_ve x
                      then deser_fields re_match e ens rec ku ign fds kv true else Raise x
                  end with
            | Ok kwf => kwf = present (fd :: fds) /\ had = false
            | Raise x => okx x = true /\ (had = true \/
                exists fd0 j0 y, In fd0 (fd :: fds) /\ alist_get skv (fd_name fd0) = Some j0 /\
                                 vset re_match e (fd_field fd0) j0 = Raise y)
            end).
          { intros r [->|(x & -> & Hx & y & Hy)]; cbn [bind].
            - specialize (IH had Hss Hws).
              destruct (deser_fields re_match e ens rec ku ign fds kv had) as [rest|x]; cbn [bind].
              + destruct IH as [-> ->]. now rewrite Hpres.
              + destruct IH as [Hx [IH|(fd0 & j0 & y & Hin & Hg & Hv)]]; (split; [exact Hx|]); [now left|].
                right. exists fd0, j0, y. split; [now right|now split].
            - assert (Hme : exists fd0 j0 y0, In fd0 (fd :: fds) /\ alist_get skv (fd_name fd0) = Some j0 /\
                                             vset re_match e (fd_field fd0) j0 = Raise y0)
                by (exists fd, j, y; split; [now left|now split]).
              destruct (negb (py_truthy j) && is_te_ve x); [|split; [exact Hx|now right]].
              specialize (IH true Hss Hws).
              destruct (deser_fields re_match e ens rec ku ign fds kv true) as [rest|x'].
              + destruct IH as [_ IH]. discriminate IH.
              + destruct IH as [Hx' _]. split; [exact Hx'|now right]. }
          destruct (fd_field fd) eqn:Ef; try discriminate Hs.
          4: exact (Hstep (Ok tt) (or_introl eq_refl)).   (* FAnything *)
          all: (destruct (validate_weak re_match e (fd_field fd) j) as [[]|x] eqn:Ev;
                [rewrite Ef in Ev; rewrite Ev; apply Hstep; now left
                |pose proof Ev as Ev2; rewrite Ef in Ev; rewrite Ev; apply Hstep; right; exists x;
                 split; [reflexivity|split];
                 [eapply validate_weak_okx; [|exact Ev2]; now rewrite Ef
                 |rewrite <- Ef; eapply validate_fail_vset_fail; [now rewrite Ef|exact Ev2]]]).
        + assert (Hd : dict_get kv (PStr (fd_name fd)) = None) by (rewrite kv_get; assumption).
          cbn [deser_fields]. rewrite Hd.
          assert (Hpres : present (fd :: fds) = present fds)
            by (unfold present; cbn [flat_map]; rewrite Ej; reflexivity).
          specialize (IH had Hss Hws).
          destruct (deser_fields re_match e ens rec ku ign fds kv had) as [rest|x].
          * now rewrite Hpres.
          * destruct IH as [Hx [IH|(fd0 & j0 & y & Hin & Hg & Hv)]]; (split; [exact Hx|]); [now left|].
            right. exists fd0, j0, y. split; [now right|now split].
    Qed.

    Lemma present_in fds n j :
      In (n, j) (present fds) <-> In n (map fd_name fds) /\ alist_get skv n = Some j.
    Proof.
      unfold present. rewrite in_flat_map. split.
      - intros (fd & Hfd & Hin). destruct (alist_get skv (fd_name fd)) as [j'|] eqn:E; [|destruct Hin].
        destruct Hin as [Heq|[]]. inversion Heq; subst. split; [now apply in_map|exact E].
      - intros [Hn Hg]. apply in_map_iff in Hn as (fd & Hn & Hfd). subst n.
        exists fd. split; [exact Hfd|]. rewrite Hg. now left.
    Qed.

    Lemma present_NoDup fds : NoDup (map fd_name fds) -> NoDup (map fst (present fds)).
    Proof.
      unfold present. induction fds as [|fd fds IH]; cbn [map flat_map]; intro H; [constructor|].
      inversion H; subst. destruct (alist_get skv (fd_name fd)) as [j|] eqn:E; cbn [app]; [|now apply IH].
      cbn [map fst]. constructor; [|now apply IH].
      intro Hin. apply in_map_iff in Hin as ([n j'] & Hn & Hin). cbn [fst] in Hn; subst n.
      apply (present_in fds) in Hin as [Hin _]. contradiction.
    Qed.
  End WithClass.

  Definition fieldp (c : classdef) (p : pystr * pyval) : bool := str_in (fst p) (field_names c).

  Lemma find_field_fieldp c p :
    match find_field (c_fields c) (fst p) with Some _ => true | None => false end = fieldp c p.
  Proof.
    unfold fieldp, field_names. destruct (find_field (c_fields c) (fst p)) as [fd|] eqn:E.
    - symmetry. apply str_in_In. apply find_field_some_iff. eauto.
    - symmetry. apply str_in_false. intro H. apply find_field_some_iff in H as (fd & H). congruence.
  Qed.

  Lemma present_perm c skv :
    NoDup (field_names c) -> NoDup (map fst skv) ->
    Permutation (present skv (c_fields c)) (filter (fieldp c) skv).
  Proof.
    intros Hf Hk. apply NoDup_Permutation.
    - apply NoDup_keys_pairs. now apply present_NoDup.
    - apply NoDup_filter. now apply NoDup_keys_pairs.
    - intros [n j]. rewrite present_in, filter_In. unfold fieldp, field_names. cbn [fst]. rewrite str_in_In.
      split.
      + intros [Hn Hg]. split; [now apply alist_get_In|exact Hn].
      + intros [Hin Hn]. split; [exact Hn|now apply In_alist_get_NoDup].
  Qed.

  (* the documented reading of an object document for a scalar class *)
  Definition policy_keep (c : classdef) (ku : bool) : bool :=
    match extras_policy fl c ku with Keep => true | _ => false end.
  Definition policy_reject (c : classdef) (ku : bool) : bool :=
    match extras_policy fl c ku with Reject => true | _ => false end.

  Lemma lift_scalar rec f v : scalar_field f = true -> lift re_match e ens rec f v = Some v.
  Proof. destruct f; try discriminate; reflexivity. Qed.

  Lemma doc_kwargs_scalar rec c ku : scalar_class c = true -> forall skv,
    (forall n v, In (n, v) skv -> v <> PNone) ->
    opt_all
      (flat_map (fun p =>
         match find_field (c_fields c) (fst p) with
         | Some fd =>
             if c_ignore_none c && is_none_val (snd p) then [Some (fst p, PNone)]
             else [match lift re_match e ens rec (fd_field fd) (snd p) with Some w => Some (fst p, w) | None => None end]
         | None =>
             match extras_policy fl c ku with
             | Keep => [Some p]
             | Drop => []
             | Reject => [None]
             end
         end) skv) =
    if policy_reject c ku && existsb (fun p => negb (fieldp c p)) skv then None
    else Some (filter (fun p => fieldp c p || policy_keep c ku) skv).
  Proof.
    intros Hs. induction skv as [|[n v] skv IH]; intro Hnn.
    - cbn [flat_map opt_all existsb filter]. now rewrite andb_false_r.
    - cbn [flat_map existsb filter]. specialize (IH (fun n' v' H => Hnn n' v' (or_intror H))).
      assert (Hv : is_none_val v = false)
        by (destruct v; try reflexivity; exfalso; exact (Hnn n PNone (or_introl eq_refl) eq_refl)).
      rewrite <- (find_field_fieldp c (n, v)). cbn [fst snd].
      destruct (find_field (c_fields c) n) as [fd|] eqn:Ef.
      + rewrite Hv, andb_false_r.
        assert (Hsf : scalar_field (fd_field fd) = true).
        { unfold scalar_class in Hs. rewrite forallb_forall in Hs. apply Hs. eapply find_field_in; eassumption. }
        rewrite (lift_scalar rec _ v Hsf). cbn [app opt_all negb orb].
        rewrite IH. destruct (policy_reject c ku && existsb _ skv); reflexivity.
      + cbn [negb orb]. unfold policy_keep, policy_reject in *.
        destruct (extras_policy fl c ku); cbn [app opt_all andb orb].
        * rewrite IH. cbn [andb]. reflexivity.
        * rewrite IH. cbn [andb]. reflexivity.
        * reflexivity.
  Qed.

  Lemma set_all_ok_bound c : forall kw a a',
    set_all re_match e c a kw = Ok a' ->
    forall n v fd, In (n, v) kw -> find_field (c_fields c) n = Some fd -> v <> PNone ->
    is_ok (vset re_match e (fd_field fd) v) = true.
  Proof.
    induction kw as [|[m w] kw IH]; intros a a' H n v fd Hin Hf Hv; [destruct Hin|].
    cbn [set_all] in H. destruct (setattr re_match e c false a m w) as [a1 [|x]] eqn:Es; [|discriminate].
    destruct Hin as [Heq|Hin]; [|eapply IH; eassumption].
    inversion Heq; subst m w. unfold setattr in Es. rewrite andb_false_r, Hf in Es.
    assert (Hn : is_none_val v = false) by (destruct v; try reflexivity; contradiction).
    rewrite Hn, andb_false_r in Es. cbn [andb] in Es.
    destruct (vset re_match e (fd_field fd) v); [reflexivity|discriminate].
  Qed.

  Lemma construct_ok_bound c kw x n v fd :
    construct re_match e c kw = Ok x -> In (n, v) kw -> find_field (c_fields c) n = Some fd -> v <> PNone ->
    is_ok (vset re_match e (fd_field fd) v) = true.
  Proof.
    intros H Hin Hf Hv. unfold construct in H.
    destruct (has_dup (map fst kw)); [discriminate|]. destruct (negb (Instance.bind_ok c kw)); [discriminate|].
    destruct (set_all re_match e c [] _) as [a0|]; cbn [bind] in H; [|discriminate].
    destruct (set_all re_match e c a0 _) as [a1|]; cbn [bind] in H; [|discriminate].
    destruct (set_all re_match e c a1 _) as [a2|] eqn:E2; cbn [bind] in H; [|discriminate].
    eapply set_all_ok_bound; [exact E2| |exact Hf|exact Hv].
    apply filter_In. split; [exact Hin|]. cbn [fst]. apply str_in_In. apply find_field_some_iff. eauto.
  Qed.

  Lemma str_keys_of_map l : str_keys (map (fun p : pystr * pyval => (PStr (fst p), snd p)) l) = Some l.
  Proof. induction l as [|[k v] l IH]; [reflexivity|]. cbn [map fst snd str_keys]. now rewrite IH. Qed.

  Lemma filter_nonfield_map c l :
    filter (fun p : pyval * pyval => negb (is_field_key c (fst p))) (map (fun p : pystr * pyval => (PStr (fst p), snd p)) l) =
    map (fun p => (PStr (fst p), snd p)) (filter (fun p => negb (fieldp c p)) l).
  Proof.
    induction l as [|[k v] l IH]; [reflexivity|]. cbn [map filter fst snd is_field_key]. unfold fieldp at 1. cbn [fst].
    destruct (str_in k (field_names c)); cbn [negb map fst snd]; now rewrite IH.
  Qed.

  Lemma filter_true {A} (f : A -> bool) l : (forall x, f x = true) -> filter f l = l.
  Proof. intro H. induction l as [|x l IH]; [reflexivity|]. cbn [filter]. now rewrite H, IH. Qed.

  Lemma filter_ext' {A} (f g : A -> bool) l : (forall x, f x = g x) -> filter f l = filter g l.
  Proof. intro H. induction l as [|x l IH]; [reflexivity|]. cbn [filter]. now rewrite H, IH. Qed.

  Lemma filter_nil_of_existsb {A} (f : A -> bool) l : existsb f l = false -> filter f l = [].
  Proof.
    induction l as [|x l IH]; [reflexivity|]. cbn [existsb filter]. intro H. apply orb_false_iff in H as [H1 H2].
    rewrite H1. now apply IH.
  Qed.

  (* C06, agreement on the scalar fragment *)
  Theorem agree_scalar n ku cn c kv skv :
    find_class e cn = Some c -> scalar_class c = true -> class_all wf_field c = true -> NoDup (field_names c) ->
    str_keys kv = Some skv -> NoDup (map fst skv) -> (forall k v, In (k, v) skv -> v <> PNone) ->
    agree (deser_struct re_match e ens fl (S n) ku cn (PDict kv))
          (spec_deser re_match e ens fl (S n) ku cn (PDict kv)) = true.
  Proof.
    intros Hc Hs Hw Hf Hk Hnd Hnn.
    assert (Ekv := str_keys_map kv skv Hk). subst kv.
    cbn [deser_struct spec_deser]. rewrite Hc. unfold doc_to_kwargs. rewrite Hk.
    rewrite (doc_kwargs_scalar _ c ku Hs skv Hnn).
    pose proof (deser_fields_scalar (deser_struct re_match e ens fl n) ku (c_ignore_none c) skv Hnn
                  (c_fields c) false Hs Hw) as HA.
    destruct (deser_fields re_match e ens (deser_struct re_match e ens fl n) ku (c_ignore_none c) (c_fields c) _ false)
      as [kwf|x]; cbn [bind].
    2:{ (* a field fails pre-validation: the constructor rejects the documented reading too *)
        destruct HA as [Hx [Hfalse|(fd & j & y & Hfd & Hg & Hv)]]; [discriminate|].
        destruct (policy_reject c ku && existsb _ skv); [now apply agree_raise|].
        destruct (construct re_match e c _) as [inst|z] eqn:Ecs.
        - exfalso.
          assert (Hff : find_field (c_fields c) (fd_name fd) = Some fd).
          { destruct (find_field (c_fields c) (fd_name fd)) as [fd'|] eqn:E.
            - f_equal. pose proof (find_field_name _ _ _ E) as Hn. apply find_field_in in E.
              clear - Hf Hfd E Hn. unfold field_names in Hf. induction (c_fields c) as [|d l IH]; [destruct Hfd|].
              cbn [map] in Hf. inversion Hf; subst. destruct Hfd as [->|Hfd], E as [->|E]; try reflexivity.
              + exfalso. apply H1. rewrite <- Hn. now apply in_map.
              + exfalso. apply H1. rewrite Hn. now apply in_map.
              + now apply IH.
            - exfalso. assert (Hex : exists fd0, find_field (c_fields c) (fd_name fd) = Some fd0)
                by (apply find_field_some_iff; now apply in_map).
              destruct Hex as (? & Hex). congruence. }
          assert (Hok := construct_ok_bound c _ inst (fd_name fd) j fd Ecs).
          rewrite Hv in Hok. cbn [is_ok] in Hok.
          assert (Hin : In (fd_name fd, j) skv) by now apply alist_get_In.
          discriminate Hok; [|exact Hff|exact (Hnn _ _ Hin)].
          apply filter_In. split; [exact Hin|]. unfold fieldp. cbn [fst].
          replace (str_in (fd_name fd) (field_names c)) with true; [reflexivity|].
          symmetry. apply str_in_In. unfold field_names. now apply in_map.
        - apply agree_raise; [exact Hx|]. eapply construct_okx; eassumption. }
    destruct HA as [-> _].
    rewrite filter_nonfield_map.
    assert (HPp := present_perm c skv Hf Hnd).
    (* the three policies for keys that are not fields *)
    unfold policy_reject, policy_keep, extras_policy.
    destruct ku; cbn [negb andb orb].
    2:{ (* keep_undefined = False: dropped *)
        cbn [str_keys app].
        rewrite (filter_ext' (fun p => fieldp c p || false) (fieldp c)) by (intro; apply orb_false_r).
        pose proof (construct_perm re_match e c _ _ HPp Hf) as HC.
        destruct (construct re_match e c (present skv (c_fields c))) as [x|x] eqn:E1,
                 (construct re_match e c (filter (fieldp c) skv)) as [y|y] eqn:E2; try contradiction.
        - unfold agree. cbn [mdeclines res_equiv_tv orb]. exact HC.
        - apply agree_raise; eapply construct_okx; eassumption. }
    destruct (c_additional c) eqn:Eadd; cbn [orb negb andb].
    { (* additional properties allowed: kept *)
      rewrite str_keys_of_map.
      rewrite (filter_true (fun p => fieldp c p || true)) by (intro; apply orb_true_r).
      assert (HP : Permutation (filter (fun p => negb (fieldp c p)) skv ++ present skv (c_fields c)) skv).
      { eapply perm_trans; [apply Permutation_app_head; exact HPp|]. apply filter_partition_perm. }
      pose proof (construct_perm re_match e c _ _ HP Hf) as HC.
      destruct (construct re_match e c (_ ++ present skv (c_fields c))) as [x|x] eqn:E1,
               (construct re_match e c skv) as [y|y] eqn:E2; try contradiction.
      - unfold agree. cbn [mdeclines res_equiv_tv orb]. exact HC.
      - apply agree_raise; eapply construct_okx; eassumption. }
    destruct (df_ignore_invalid fl) eqn:Eii; cbn [orb negb andb].
    { (* forbidden, flag on: dropped *)
      cbn [str_keys app].
      rewrite (filter_ext' (fun p => fieldp c p || false) (fieldp c)) by (intro; apply orb_false_r).
      pose proof (construct_perm re_match e c _ _ HPp Hf) as HC.
      destruct (construct re_match e c (present skv (c_fields c))) as [x|x] eqn:E1,
               (construct re_match e c (filter (fieldp c) skv)) as [y|y] eqn:E2; try contradiction.
      - unfold agree. cbn [mdeclines res_equiv_tv orb]. exact HC.
      - apply agree_raise; eapply construct_okx; eassumption. }
    (* forbidden, flag off: rejected when there is such a key *)
    rewrite str_keys_of_map.
    destruct (existsb (fun p => negb (fieldp c p)) skv) eqn:Eex.
    - (* the model's constructor call has an unexpected keyword *)
      assert (Hraise : exists z, construct re_match e c (filter (fun p => negb (fieldp c p)) skv ++ present skv (c_fields c)) = Raise z
                                 /\ okx z = true).
      { unfold construct. destruct (has_dup _); [eexists; split; reflexivity|].
        assert (Hb : Instance.bind_ok c (filter (fun p => negb (fieldp c p)) skv ++ present skv (c_fields c)) = false).
        { unfold Instance.bind_ok. rewrite Eadd. cbn [orb]. apply andb_false_iff. right.
          apply existsb_exists in Eex as (p & Hp & Hnp). apply not_true_is_false. intro Hall.
          rewrite forallb_forall in Hall. specialize (Hall p). unfold fieldp in Hnp.
          rewrite Hall in Hnp; [discriminate|]. apply in_or_app. left. apply filter_In. now split. }
        rewrite Hb. eexists; split; reflexivity. }
      destruct Hraise as (z & -> & Hz). now apply agree_raise.
    - rewrite (filter_nil_of_existsb _ _ Eex). cbn [app].
      rewrite (filter_ext' (fun p => fieldp c p || false) (fieldp c)) by (intro; apply orb_false_r).
      pose proof (construct_perm re_match e c _ _ HPp Hf) as HC.
      destruct (construct re_match e c (present skv (c_fields c))) as [x|x] eqn:E1,
               (construct re_match e c (filter (fieldp c) skv)) as [y|y] eqn:E2; try contradiction.
      + unfold agree. cbn [mdeclines res_equiv_tv orb]. exact HC.
      + apply agree_raise; eapply construct_okx; eassumption.
  Qed.
End Scalar.
