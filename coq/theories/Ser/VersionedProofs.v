(* Proofs about the model of versioned conversion (property C17). *)
From Coq Require Import ZArith QArith NArith String Ascii Bool Lia List.
Import ListNotations.
From TP Require Import Base.PyVal Ser.Versioned.
Local Open Scope Z_scope.

(* ------------------------------------------------------------ dictionaries keyed by strings *)

Lemma py_eq_str_r x s : py_eq x (PStr s) = true -> x = PStr s.
Proof.
  destruct x; simpl; try discriminate.
  intro H. apply pystr_eqb_spec in H. subst. reflexivity.
Qed.

Lemma py_eq_str_str a b : py_eq (PStr a) (PStr b) = pystr_eqb a b.
Proof. reflexivity. Qed.

Lemma dict_get_set_other d a b v :
  a <> b -> dict_get (dict_set d (PStr a) v) (PStr b) = dict_get d (PStr b).
Proof.
  intro Hab. induction d as [|[k' v'] t IH]; simpl.
  - rewrite (proj2 (pystr_eqb_neq a b) Hab). reflexivity.
  - destruct (py_eq k' (PStr a)) eqn:E.
    + apply py_eq_str_r in E. subst k'. simpl.
      rewrite (proj2 (pystr_eqb_neq a b) Hab). reflexivity.
    + simpl. destruct (py_eq k' (PStr b)); [reflexivity | exact IH].
Qed.

Lemma dict_get_set_same d a v :
  dict_get (dict_set d (PStr a) v) (PStr a) = Some v.
Proof.
  induction d as [|[k' v'] t IH]; simpl.
  - rewrite pystr_eqb_refl. reflexivity.
  - destruct (py_eq k' (PStr a)) eqn:E; simpl; rewrite E; [reflexivity | exact IH].
Qed.

Lemma dict_get_del_other d a b :
  a <> b -> dict_get (dict_del d (PStr a)) (PStr b) = dict_get d (PStr b).
Proof.
  intro Hab. induction d as [|[k' v'] t IH]; simpl; [reflexivity|].
  destruct (py_eq k' (PStr a)) eqn:E.
  - apply py_eq_str_r in E. subst k'. simpl.
    rewrite (proj2 (pystr_eqb_neq a b) Hab). reflexivity.
  - simpl. destruct (py_eq k' (PStr b)); [reflexivity | exact IH].
Qed.

(* ------------------------------------------------------------ mappings that leave "version" alone *)

Definition ver : pystr := s2p "version".

Definition key_safe (k : pystr) : bool :=
  negb (pystr_eqb k ver) &&
  match ends_with_mapper k with Some f => negb (pystr_eqb f ver) | None => true end.

(* no top-level entry of the mapping writes, moves into, or deletes the key "version" *)
Definition keeps_version (m : mapping) : bool := forallb (fun kv => key_safe (fst kv)) m.

Lemma key_safe_neq k : key_safe k = true -> k <> ver.
Proof.
  unfold key_safe. intro H. apply andb_true_iff in H as [H _].
  apply negb_true_iff in H. apply pystr_eqb_neq in H. exact H.
Qed.

Lemma key_safe_field k f : key_safe k = true -> ends_with_mapper k = Some f -> f <> ver.
Proof.
  unfold key_safe. intros H E. apply andb_true_iff in H as [_ H]. rewrite E in H.
  apply negb_true_iff in H. apply pystr_eqb_neq in H. exact H.
Qed.

Section Proofs.
  Variable fn : N -> list pyval -> res pyval.
  (* the integer literals of convert_dict as the source has them; the statement's version arithmetic
     needs the slice to start at version-1 and every step to add 1 *)
  Variable p : cd_params.
  Hypothesis Hp : cd_params_ok p = true.

  Lemma p_offset : cd_slice_offset p = 1.
  Proof. unfold cd_params_ok in Hp. apply andb_true_iff in Hp as [H _]. apply Z.eqb_eq in H. exact H. Qed.
  Lemma p_inc : cd_bump_inc p = 1.
  Proof. unfold cd_params_ok in Hp. apply andb_true_iff in Hp as [_ H]. apply Z.eqb_eq in H. exact H. Qed.

  Notation vget d := (dict_get d version_key).

  Lemma vget_set d k v : k <> ver -> vget (dict_set d (PStr k) v) = vget d.
  Proof. intro H. unfold version_key. apply dict_get_set_other. exact H. Qed.

  Lemma vget_del d k : k <> ver -> vget (dict_del d (PStr k)) = vget d.
  Proof. intro H. unfold version_key. apply dict_get_del_other. exact H. Qed.

  Lemma loop1_keeps rec m : forall orig out out',
      keeps_version m = true ->
      loop1_gen fn rec m orig out = Ok out' -> vget out' = vget out.
  Proof.
    induction m as [|[k v] t IH]; intros orig out out' Hk H; simpl in *.
    - inversion H; reflexivity.
    - apply andb_true_iff in Hk as [Hs Hk]. simpl in Hs.
      pose proof (key_safe_neq _ Hs) as Hne.
      assert (Hcont : forall o, loop1_gen fn rec t orig o = Ok out' -> vget out' = vget o)
        by (intros o Ho; eapply IH; eauto).
      assert (Hgen :
                match ends_with_mapper k with
                | Some field =>
                    let content := dget orig field in
                    if is_none content then loop1_gen fn rec t orig out
                    else
                      match content with
                      | PList items =>
                          r <- mapM (fun x => match x with
                                              | PDict kv => r <- rec v kv ;; Ok (PDict r)
                                              | _ => Raise Unmodelled
                                              end) items ;;
                          loop1_gen fn rec t orig (dict_set out (PStr field) (PList r))
                      | PDict kv =>
                          r <- rec v kv ;;
                          loop1_gen fn rec t orig (dict_set out (PStr field) (PDict r))
                      | _ => Raise Unmodelled
                      end
                | None =>
                    match v with
                    | MFunc fid args =>
                        let argv := match args with
                                    | [] => [dget out k]
                                    | _ => map (dget out) args
                                    end in
                        r <- fn fid argv ;;
                        loop1_gen fn rec t orig (dict_set out (PStr k) r)
                    | _ => loop1_gen fn rec t orig out
                    end
                end = Ok out' -> vget out' = vget out).
      { intro G. destruct (ends_with_mapper k) as [field|] eqn:Ef.
        - pose proof (key_safe_field _ _ Hs Ef) as Hf. cbv zeta in G.
          destruct (is_none (dget orig field)); [apply Hcont; exact G|].
          destruct (dget orig field); try discriminate.
          + destruct (mapM _ l) as [r|e]; simpl in G; [|discriminate].
            apply Hcont in G. rewrite G. apply vget_set. exact Hf.
          + destruct (rec v kv) as [r|e]; simpl in G; [|discriminate].
            apply Hcont in G. rewrite G. apply vget_set. exact Hf.
        - destruct v; try (apply Hcont; exact G).
          cbv zeta in G. destruct (fn fid _) as [r|e]; simpl in G; [|discriminate].
          apply Hcont in G. rewrite G. apply vget_set. exact Hne. }
      destruct v; try (apply Hgen; exact H).
      apply Hcont in H. rewrite H. apply vget_set. exact Hne.
  Qed.

  Lemma loop2_keeps m : forall out, keeps_version m = true -> vget (loop2 m out) = vget out.
  Proof.
    unfold loop2. induction m as [|[k v] t IH]; intros out Hk; simpl in *; [reflexivity|].
    apply andb_true_iff in Hk as [Hs Hk]. simpl in Hs. rewrite IH by exact Hk.
    destruct v; try reflexivity. apply vget_set. apply key_safe_neq. exact Hs.
  Qed.

  Lemma loop3_keeps m : forall out, keeps_version m = true -> vget (loop3 m out) = vget out.
  Proof.
    unfold loop3. induction m as [|[k v] t IH]; intros out Hk; simpl in *; [reflexivity|].
    apply andb_true_iff in Hk as [Hs Hk]. simpl in Hs. rewrite IH by exact Hk.
    destruct v; try reflexivity. apply vget_del. apply key_safe_neq. exact Hs.
  Qed.

  Lemma convert_keeps m d d' :
    keeps_version m = true -> convert fn m d = Ok d' -> vget d' = vget d.
  Proof.
    unfold convert. intros Hk H.
    destruct (loop1_gen fn _ m d d) as [r|e] eqn:E; simpl in H; [|discriminate].
    inversion H; subst. unfold finish. rewrite loop3_keeps, loop2_keeps by exact Hk.
    eapply loop1_keeps; eauto.
  Qed.

  (* ---------------------------------------------------------- one step bumps the version *)

  Definition has_version (d : dict) (z : Z) : Prop := vget d = Some (PNum (NInt z)).

  Lemma step_version m d d' z :
    keeps_version m = true -> has_version d z ->
    step fn p (Ok d) m = Ok d' -> has_version d' (z + 1).
  Proof.
    unfold step, has_version. simpl. intros Hk Hv H.
    destruct (convert fn m d) as [c|e] eqn:E; simpl in H; [|discriminate].
    pose proof (convert_keeps _ _ _ Hk E) as Hc. rewrite Hv in Hc.
    unfold bump_version in H. rewrite Hc, p_inc in H. inversion H; subst.
    unfold version_key. apply dict_get_set_same.
  Qed.

  Lemma fold_step_raise l e : fold_left (step fn p) l (Raise e) = Raise e.
  Proof. induction l as [|m t IH]; simpl; [reflexivity | exact IH]. Qed.

  Lemma fold_step_version l : forall d d' z,
      forallb keeps_version l = true -> has_version d z ->
      fold_left (step fn p) l (Ok d) = Ok d' -> has_version d' (z + Z.of_nat (length l)).
  Proof.
    induction l as [|m t IH]; intros d d' z Hk Hv H; cbn [fold_left length forallb] in *.
    - inversion H; subst. replace (z + Z.of_nat 0) with z by lia. exact Hv.
    - apply andb_true_iff in Hk as [Hm Hk].
      destruct (step fn p (Ok d) m) as [d1|e] eqn:E.
      + pose proof (step_version _ _ _ _ Hm Hv E) as Hv1.
        pose proof (IH _ _ _ Hk Hv1 H) as R.
        replace (z + Z.of_nat (S (length t))) with (z + 1 + Z.of_nat (length t)) by lia.
        exact R.
      + rewrite fold_step_raise in H. discriminate.
  Qed.

  Lemma forallb_skipn {A} (f : A -> bool) n l : forallb f l = true -> forallb f (skipn n l) = true.
  Proof.
    revert l; induction n as [|n IH]; intros l H; [exact H|].
    destruct l as [|x t]; [reflexivity|]. simpl in *. apply andb_true_iff in H as [_ H]. auto.
  Qed.

  Lemma forallb_firstn {A} (f : A -> bool) n l : forallb f l = true -> forallb f (firstn n l) = true.
  Proof.
    revert l; induction n as [|n IH]; intros l H; [reflexivity|].
    destruct l as [|x t]; [reflexivity|]. simpl in *. apply andb_true_iff in H as [Hx H].
    rewrite Hx. simpl. auto.
  Qed.

  (* ---------------------------------------------------------- convert_dict *)

  (* "applies exactly the mappings from d's version onward, in order" *)
  Lemma convert_dict_suffix d maps z :
    has_version d z -> 1 <= z ->
    convert_dict fn p d maps = fold_left (step fn p) (skipn (Z.to_nat (z - 1)) maps) (Ok d).
  Proof.
    intros Hv Hz. unfold convert_dict, start_index. unfold has_version in Hv. rewrite Hv, p_offset. simpl.
    unfold py_slice_from. destruct (0 <=? z - 1) eqn:E; [|apply Z.leb_gt in E; lia].
    destruct (Z.of_nat (length maps) <=? z - 1) eqn:E2; [|reflexivity].
    apply Z.leb_le in E2. rewrite skipn_all2 by lia. reflexivity.
  Qed.

  Lemma convert_dict_version d maps z d' :
    forallb keeps_version maps = true ->
    has_version d z -> 1 <= z <= Z.of_nat (length maps) + 1 ->
    convert_dict fn p d maps = Ok d' ->
    has_version d' (Z.of_nat (length maps) + 1).
  Proof.
    intros Hk Hv Hz H. rewrite (convert_dict_suffix _ _ _ Hv) in H by lia.
    apply (fold_step_version _ _ _ z) in H; [| apply forallb_skipn; exact Hk | exact Hv].
    rewrite skipn_length in H.
    replace (z + Z.of_nat (length maps - Z.to_nat (z - 1))) with (Z.of_nat (length maps) + 1) in H by lia.
    exact H.
  Qed.

  Lemma convert_dict_latest d maps z :
    has_version d z -> Z.of_nat (length maps) + 1 <= z ->
    convert_dict fn p d maps = Ok d.
  Proof.
    intros Hv Hz. rewrite (convert_dict_suffix _ _ _ Hv) by lia.
    rewrite skipn_all2 by lia. reflexivity.
  Qed.

  Lemma skipn_firstn_sub {A} (i k : nat) (l : list A) :
    skipn i (firstn k l) = firstn (k - i) (skipn i l).
  Proof.
    revert k l; induction i as [|i IH]; intros k l.
    - rewrite Nat.sub_0_r. reflexivity.
    - destruct k as [|k]; [simpl; destruct (skipn (S i) l); reflexivity|].
      destruct l as [|x t]; [simpl; destruct (k - i)%nat; reflexivity|].
      simpl. apply IH.
  Qed.

  Lemma skipn_skipn_add {A} (a b : nat) (l : list A) : skipn a (skipn b l) = skipn (a + b) l.
  Proof.
    revert l; induction b as [|b IH]; intro l.
    - rewrite Nat.add_0_r. reflexivity.
    - destruct l as [|x t]; [rewrite !skipn_nil; reflexivity|].
      replace (a + S b)%nat with (S (a + b)) by lia. simpl. apply IH.
  Qed.

  (* two-stage conversion through any prefix of the history equals converting at once *)
  Lemma convert_dict_compose d maps z k d1 :
    forallb keeps_version maps = true ->
    has_version d z -> 1 <= z ->
    (k <= length maps)%nat ->
    convert_dict fn p d (firstn k maps) = Ok d1 ->
    convert_dict fn p d1 maps = convert_dict fn p d maps.
  Proof.
    intros Hk Hv Hz Hkl H1.
    set (i := Z.to_nat (z - 1)).
    rewrite (convert_dict_suffix _ _ _ Hv Hz) in H1. fold i in H1.
    rewrite (convert_dict_suffix d maps _ Hv Hz). fold i.
    destruct (Nat.le_gt_cases k i) as [Hle|Hgt].
    - (* the prefix ends before d's version: nothing is applied in stage one *)
      rewrite skipn_firstn_sub in H1. replace (k - i)%nat with 0%nat in H1 by lia.
      simpl in H1. inversion H1; subst d1.
      rewrite (convert_dict_suffix _ _ _ Hv Hz). reflexivity.
    - rewrite skipn_firstn_sub in H1.
      assert (Hv1 : has_version d1 (Z.of_nat k + 1)).
      { pose proof (fold_step_version _ _ _ z
                      (forallb_firstn _ (k - i) _ (forallb_skipn _ i _ Hk)) Hv H1) as R.
        rewrite firstn_length, skipn_length in R.
        replace (z + Z.of_nat (Nat.min (k - i) (length maps - i))) with (Z.of_nat k + 1) in R by lia.
        exact R. }
      rewrite (convert_dict_suffix d1 maps _ Hv1) by lia.
      replace (Z.to_nat (Z.of_nat k + 1 - 1)) with k by lia.
      transitivity (fold_left (step fn p)
                      (firstn (k - i) (skipn i maps) ++ skipn (k - i) (skipn i maps)) (Ok d)).
      + rewrite fold_left_app, H1, skipn_skipn_add.
        replace (k - i + i)%nat with k by lia. reflexivity.
      + rewrite firstn_skipn. reflexivity.
  Qed.

  Lemma convert_dict_idempotent d maps z d' :
    forallb keeps_version maps = true ->
    has_version d z -> 1 <= z <= Z.of_nat (length maps) + 1 ->
    convert_dict fn p d maps = Ok d' -> convert_dict fn p d' maps = Ok d'.
  Proof.
    intros Hk Hv Hz H. eapply convert_dict_latest.
    - eapply convert_dict_version; eauto.
    - lia.
  Qed.

  Lemma deser_versioned_any_version {T} (deser : dict -> res T) d maps z d' :
    forallb keeps_version maps = true ->
    has_version d z -> 1 <= z <= Z.of_nat (length maps) + 1 ->
    convert_dict fn p d maps = Ok d' ->
    deser_versioned fn p deser maps d = deser_versioned fn p deser maps d'.
  Proof.
    intros Hk Hv Hz H. unfold deser_versioned.
    rewrite (convert_dict_idempotent _ _ _ _ Hk Hv Hz H), H. reflexivity.
  Qed.

  Lemma versioned_init_latest maps kw :
    has_version (versioned_init_kwargs maps kw) (Z.of_nat (length maps) + 1).
  Proof. unfold has_version, versioned_init_kwargs, version_key. apply dict_get_set_same. Qed.
End Proofs.
